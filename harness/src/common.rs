//! Shared helpers: compiling and running filters with the real library, value pools.
use jaq_all::data::{Ctx, Data, Filter, Runner};
use jaq_core::Vars;
use jaq_json::{Num, Val};
use jaq_std::input::RcIter;
use num_bigint::BigInt;

pub fn compile(code: &str) -> Result<Filter, String> {
    jaq_all::data::compile(code).map_err(|e| format!("compile error ({} reports)", e.len()))
}

pub fn compile_vars(code: &str, vars: &[String]) -> Result<Filter, String> {
    let defs = jaq_all::defs();
    jaq_all::compile_with(code, defs, jaq_all::data::funs(), vars)
        .map_err(|e| format!("compile error ({} reports)", e.len()))
}

/// Result item of a run: a value or an error (as the value `catch` would see).
#[derive(Clone, Debug, PartialEq)]
pub enum Item {
    Val(Val),
    Err(Val),
    /// halt, break or tail call escaping (payload: debug text)
    Exn(String),
}

/// Run `filter` on `input` with variables `vars` and `inputs` as the input stream;
/// at most `limit` items are pulled.  The run stops after the first error.
pub fn run_with(
    filter: &Filter,
    input: Val,
    vars: Vec<Val>,
    inputs: Vec<Result<Val, String>>,
    limit: usize,
) -> Vec<Item> {
    let runner = Runner::default();
    let inputs: Box<dyn Iterator<Item = Result<Val, String>>> = Box::new(inputs.into_iter());
    let rc = RcIter::new(inputs);
    let data = Data { runner: &runner, lut: &filter.lut, inputs: &rc };
    let ctx = Ctx::new(&data, Vars::new(vars));
    let mut out = Vec::new();
    for y in filter.id.run((ctx, input)).take(limit) {
        match y {
            Ok(v) => out.push(Item::Val(v)),
            Err(exn) => {
                match exn.get_err() {
                    Ok(e) => out.push(Item::Err(e.into_val())),
                    Err(exn) => out.push(match exn.get_halt() {
                        Ok(code) => Item::Exn(format!("halt({code})")),
                        Err(exn) => Item::Exn(format!("{exn:?}")),
                    }),
                }
                break;
            }
        }
    }
    out
}

pub fn run(filter: &Filter, input: Val, limit: usize) -> Vec<Item> {
    run_with(filter, input, Vec::new(), Vec::new(), limit)
}

pub fn run_code(code: &str, input: Val, limit: usize) -> Result<Vec<Item>, String> {
    Ok(run(&compile(code)?, input, limit))
}

/// Encode a run result: `V <vx>` / `E <vx>` / `X` items joined by " ; ".
pub fn enc_items(items: &[Item]) -> String {
    let v: Vec<String> = items
        .iter()
        .map(|i| match i {
            Item::Val(v) => format!("V {}", crate::vx::enc_canon(v)),
            Item::Err(e) => format!("E {}", crate::vx::enc_canon(e)),
            Item::Exn(s) => format!("X {}", s.replace([' ', '\n', '\t'], "_")),
        })
        .collect();
    if v.is_empty() {
        "-".into()
    } else {
        v.join(" ; ")
    }
}

pub fn int(i: isize) -> Val {
    Val::Num(Num::Int(i))
}
pub fn big(s: &str) -> Val {
    Val::Num(Num::big_int(s.parse::<BigInt>().unwrap()))
}
pub fn float(f: f64) -> Val {
    Val::Num(Num::Float(f))
}
pub fn dec(s: &str) -> Val {
    Val::Num(Num::Dec(s.to_string().into()))
}
pub fn tstr(s: &[u8]) -> Val {
    Val::utf8_str(s.to_vec())
}
pub fn bstr(s: &[u8]) -> Val {
    Val::byte_str(s.to_vec())
}
pub fn arr(v: Vec<Val>) -> Val {
    v.into_iter().collect()
}
pub fn obj(kvs: Vec<(Val, Val)>) -> Val {
    Val::obj(kvs.into_iter().collect())
}

/// Run a closure, catching panics; returns Err(message) on panic.
pub fn catch<T>(f: impl FnOnce() -> T) -> Result<T, String> {
    let r = std::panic::catch_unwind(std::panic::AssertUnwindSafe(f));
    r.map_err(|e| {
        if let Some(s) = e.downcast_ref::<&str>() {
            s.to_string()
        } else if let Some(s) = e.downcast_ref::<String>() {
            s.clone()
        } else {
            "panic".to_string()
        }
    })
}

/// Coarse class of a run-time error (the model's `Err.cls`).
pub fn err_cls(e: &jaq_json::Error) -> String {
    let s = e.to_string();
    if s.starts_with("cannot calculate ") {
        "math".into()
    } else if s.starts_with("cannot use ") {
        match s.rfind(" as ") {
            Some(i) => format!("typ:{}", s[i + 4..].replace(' ', "_")),
            None => "typ".into(),
        }
    } else if s.starts_with("cannot index ") {
        "index".into()
    } else if s.starts_with("invalid path expression") {
        "pathexpr".into()
    } else {
        "other".into()
    }
}

/// Normalise integer representations (`BigInt` that fits → `Int`) for value-level comparison.
pub fn norm_ints(v: &Val) -> Val {
    use num_traits::ToPrimitive;
    match v {
        Val::Num(Num::BigInt(b)) => match b.to_isize() {
            Some(i) => Val::Num(Num::Int(i)),
            None => v.clone(),
        },
        Val::Arr(a) => a.iter().map(norm_ints).collect(),
        Val::Obj(o) => Val::obj(o.iter().map(|(k, v)| (norm_ints(k), norm_ints(v))).collect()),
        v => v.clone(),
    }
}

/// Pool of numbers around every representation boundary.
pub fn num_pool() -> Vec<Val> {
    let mut v = vec![];
    for i in [0isize, 1, -1, 2, 3, -3, 7, 255, 256, 1 << 31, -(1 << 31), (1 << 53), (1 << 53) + 1, -(1 << 53) - 1,
              isize::MAX, isize::MAX - 1, isize::MIN, isize::MIN + 1, 3037000500, -3037000500, 4294967296] {
        v.push(int(i));
    }
    for b in ["0", "1", "-1", "5", "9223372036854775807", "9223372036854775808", "-9223372036854775808",
              "-9223372036854775809", "18446744073709551615", "18446744073709551616", "-18446744073709551616",
              "1180591620717411303424", "-1180591620717411303424", "9007199254740993",
              "1000000000000000000000000000000", "179769313486231570000000000000000000000000000000000000000000000000000000000000000000000000000000000000000000000000000000000000000000000000000000000000000000000000000000000000000000000000000000000000000000000000000000000000000000000000000000000000000000000000000000000000000000000000000000000000000000000000"] {
        v.push(big(b));
    }
    // 2^1024 as a big integer (to_f64 = inf)
    v.push(Val::Num(Num::big_int(BigInt::from(1) << 1024)));
    let p1024: BigInt = BigInt::from(1) << 1024;
    v.push(Val::Num(Num::big_int(-p1024)));
    for f in [0.0f64, -0.0, 1.0, -1.0, 0.5, 1.5, -2.5, 3.0, 0.1, 1e300, -1e300, 5e-324, 2.2250738585072014e-308,
              9007199254740992.0, 9007199254740994.0, 9223372036854775808.0, -9223372036854775808.0, 1.8446744073709552e19,
              f64::INFINITY, f64::NEG_INFINITY, f64::NAN, f64::MAX, f64::MIN_POSITIVE, 1e-310, 123456.789] {
        v.push(float(f));
    }
    for d in ["1.10", "1e1000", "-1e1000", "0.0", "-0.0", "1e-400", "3.14159", "1E2", "100000000000000000000.5", "0.1e1", "2.5e-3"] {
        v.push(dec(d));
    }
    v
}

pub fn nonnum_pool() -> Vec<Val> {
    vec![
        Val::Null, Val::Bool(true), Val::Bool(false),
        tstr(b""), tstr(b"a"), tstr(b"ab"), tstr(b"a,b,,c"), tstr("a\u{e9}\u{20ac}\u{1f600}".as_bytes()), tstr(b"x\xffy"), tstr(b","),
        bstr(b""), bstr(b"a"), bstr(b"a,b"), bstr(b"\xff\x00"),
        arr(vec![]), arr(vec![int(1)]), arr(vec![int(1), float(1.0), int(2), tstr(b"a")]), arr(vec![float(1.0)]),
        arr(vec![arr(vec![]), Val::Null]),
        obj(vec![]), obj(vec![(tstr(b"a"), int(1))]), obj(vec![(tstr(b"a"), int(1)), (tstr(b"b"), int(2))]),
        obj(vec![(tstr(b"b"), int(3)), (tstr(b"c"), int(4)), (tstr(b"a"), int(5))]),
        obj(vec![(tstr(b"a"), obj(vec![(tstr(b"x"), int(1))])), (int(1), int(2))]),
        obj(vec![(tstr(b"a"), obj(vec![(tstr(b"y"), int(2)), (tstr(b"x"), Val::Null)])), (float(1.0), int(3))]),
    ]
}
