//! C04 runtime probe: runs one jq filter of the real jaq on input `null` in a thread with a
//! FIXED small stack, under a counting global allocator.
//!   c04_alloc <stack KiB> <max outputs> <filter>
//! prints `OK outputs=<n> peak=<bytes> end=<bytes> last=<value>`: `peak` = maximal live heap
//! during the run above the live heap at its start, `end` = live heap after the run above the
//! start.  A stack overflow kills the process (SIGSEGV/SIGABRT): the caller sees the exit status.
use jaq_all::data::{Ctx, Data, Runner};
use jaq_core::Vars;
use jaq_json::Val;
use jaq_std::input::RcIter;
use std::alloc::{GlobalAlloc, Layout, System};
use std::sync::atomic::{AtomicUsize, Ordering::Relaxed};

struct Counting;
static LIVE: AtomicUsize = AtomicUsize::new(0);
static PEAK: AtomicUsize = AtomicUsize::new(0);

unsafe impl GlobalAlloc for Counting {
    unsafe fn alloc(&self, l: Layout) -> *mut u8 {
        let p = System.alloc(l);
        if !p.is_null() {
            let live = LIVE.fetch_add(l.size(), Relaxed) + l.size();
            PEAK.fetch_max(live, Relaxed);
        }
        p
    }
    unsafe fn dealloc(&self, p: *mut u8, l: Layout) {
        System.dealloc(p, l);
        LIVE.fetch_sub(l.size(), Relaxed);
    }
    unsafe fn realloc(&self, p: *mut u8, l: Layout, new: usize) -> *mut u8 {
        let q = System.realloc(p, l, new);
        if !q.is_null() {
            if new >= l.size() {
                let live = LIVE.fetch_add(new - l.size(), Relaxed) + (new - l.size());
                PEAK.fetch_max(live, Relaxed);
            } else {
                LIVE.fetch_sub(l.size() - new, Relaxed);
            }
        }
        q
    }
}

#[global_allocator]
static A: Counting = Counting;

fn main() {
    let args: Vec<String> = std::env::args().skip(1).collect();
    if args.len() != 3 {
        eprintln!("usage: c04_alloc <stack KiB> <max outputs> <filter>");
        std::process::exit(2);
    }
    let kib: usize = args[0].parse().expect("stack KiB");
    let max: usize = args[1].parse().expect("max outputs");
    let code = args[2].clone();
    // compile on the main thread (the parser recurses over the whole standard library);
    // the compiled filter is handed to the small thread as an address: `Filter` holds plain
    // data and function pointers, and the main thread only waits.
    let filter = match jaq_all::data::compile(&code) {
        Ok(f) => f,
        Err(e) => {
            println!("ERR compile ({} reports)", e.len());
            return;
        }
    };
    let addr = &filter as *const jaq_all::data::Filter as usize;
    let th = std::thread::Builder::new().stack_size(kib * 1024).spawn(move || {
        let filter: &jaq_all::data::Filter = unsafe { &*(addr as *const jaq_all::data::Filter) };
        let runner = Runner::default();
        let inputs: Box<dyn Iterator<Item = Result<Val, String>>> = Box::new(std::iter::empty());
        let rc = RcIter::new(inputs);
        let data = Data { runner: &runner, lut: &filter.lut, inputs: &rc };
        let ctx = Ctx::new(&data, Vars::new(Vec::new()));
        let start = LIVE.load(Relaxed);
        PEAK.store(start, Relaxed);
        let (mut n, mut last) = (0usize, String::from("-"));
        let mut status = "OK";
        {
            let mut it = filter.id.run((ctx, Val::Null));
            while n < max {
                match it.next() {
                    None => break,
                    Some(Ok(v)) => {
                        n += 1;
                        last = format!("{v}");
                    }
                    Some(Err(e)) => {
                        status = "RUNERR";
                        last = match e.get_err() {
                            Ok(e) => format!("{e}"),
                            Err(x) => format!("{x:?}"),
                        };
                        break;
                    }
                }
            }
        }
        let peak = PEAK.load(Relaxed).saturating_sub(start);
        let end = LIVE.load(Relaxed).saturating_sub(start);
        let last: String = last.chars().take(60).collect();
        println!("{status} outputs={n} peak={peak} end={end} last={}", last.replace(['\n', ' '], ""));
    });
    match th {
        Ok(h) => {
            if h.join().is_err() {
                println!("PANIC");
                std::process::exit(3);
            }
        }
        Err(e) => {
            println!("ERR spawn {e}");
            std::process::exit(2);
        }
    }
}
