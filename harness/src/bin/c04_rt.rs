//! C04 run-time correspondence: the REAL `fold` (jaq-core/src/fold.rs) and the REAL
//! `impl Drop for List` (jaq-core/src/rc_lazy_list.rs) — both private to jaq-core, so their
//! source files are compiled into this binary from the repo's working tree (`#[path] mod` /
//! `include!`) — are run on seeded scripted inputs; the Lean driver (`lean/Driver/C04Rt.lean`) replays the
//! same request on the models `Fold.turn` / `LL.iterDrop` of `JaqVerif/C04/Stack.lean`.
//!
//!   c04_rt fold   [n]            n seeded cases, one line each: `<id>\t<request>\t<trace>`
//!   c04_rt lldrop [n] [maxlen]   the same for `Drop for List`; `maxlen` caps the list length
//!                                (default: no cap; the first cases are 100000 long)
//!
//! ## `c04.fold` request
//!   c04.fold <mode> <pulls> <init> X<n> <x>*n T<A>x<B> <k>*(A*B) K<k> ( <h><len> <r>*len )*k
//!   mode   1 = reduce        fold(xs, init, f, |_| (),    |_, _| None,           Some)
//!          2 = foreach/2     fold(xs, init, f, |_| (),    |_, y| Some(y.clone()), |_| None)
//!          3 = foreach/3     fold(xs, init, f, |x| x.clone(), |x, y| Some((x, y.clone())), |_| None)
//!          (exactly the three instantiations in jaq-core/src/filter.rs `fold_run`)
//!   pulls  maximal number of `next()` calls on the fold iterator (stops after the first `None`)
//!   <x>    item of xs: `o<id>` = Ok(id), `e<code>` = Err(code)
//!   T..    table: `f(x, y)` returns a fresh copy of update script number
//!          `tab[(x % A) * B + (y % B)]`
//!   script `<h><len>` then len results `o<v>` = Ok(v) / `e<code>` = Err(code); `<h>` says what
//!          the iterator's size_hint reports with n items left:
//!          `e` (n, Some(n))   `u` (0, Some(n))   `i` (0, None)   `l` (n, None)
//!          (so `size_hint() == (0, Some(0))` holds iff h ∈ {e,u} and nothing is left)
//! ## fold trace: one word per pull, `<events>><item>#<lx>,<ly>`
//!   events (in order, no separator):
//!     `x<pos>#<lx>,<ly>`  `next()` of a copy of xs standing at position pos
//!     `n<uid>#<lx>,<ly>`  `next()` of update iterator uid (numbered in creation order)
//!     `f<x>,<y>`          call of f
//!   item: `o<y>` (modes 1, 2), `o<x>:<y>` (mode 3), `e<code>`, `end`
//!   lx = live copies of xs, ly = live update iterators at that moment.  Every frame of fold's
//!   private stack owns exactly one copy of xs, every `Output` frame one update iterator; during
//!   a poll the popped frame is still alive, so lx,ly = (length, number of Output frames) of the
//!   stack at the start of the turn; after a pull, of the stack that is left.
//!
//! ## `c04.lldrop` request
//!   c04.lldrop ( <rc>x<count> )* ( u<rc> | n<rc> )
//!   the chain of nodes behind the handle that is dropped, from the head: `<rc>x<count>` = count
//!   forced `Some` nodes (LL.cons) of strong count rc; terminal `u<rc>` = never forced node
//!   (LL.unforced), `n<rc>` = forced `Node(None)` (LL.nil).
//! ## lldrop trace: `t<payload drops> f<nodes freed> d<maximal nesting of node frees>`
//!   measured between just before and just after `drop(head handle)`:
//!   payload drops = drops of the list's items (`T`); the real `drop` takes `(head, tail)` out
//!                   of a node once per turn of its `while let` and drops `_head`: = turns
//!   nodes freed   = drops of the `Lazy` cell in the `Rc` (one per node: forced `Some`,
//!                   forced `None` and never-forced nodes alike)
//!   nesting       = maximal number of `Lazy` drops in progress at once (0 if none is freed).
//!                   A probe inside `List::drop` itself is impossible (it is the code under
//!                   test), so the unit differs from `LL.iterDrop`'s depth (frames of
//!                   `List::drop`); see Driver/C04Rt.lean for the conversion.
//!
//! Trusted base added here: the `once_cell::unsync::Lazy` stand-in below (once_cell is not a
//! dependency of the harness) and the instrumented iterators/payloads.
use jaq_core::box_iter::Results;
use std::cell::{Cell, RefCell};
use std::fmt::Write as _;
use std::rc::Rc;

#[path = "../prng.rs"]
mod prng;
use prng::Rng;

/// what `fold.rs` imports from its crate
mod box_iter {
    pub use jaq_core::box_iter::Results;
}

/// fold.rs and rc_lazy_list.rs name `alloc::…`
extern crate alloc;

/// the real `fold` (private in jaq-core).  The file starts with an inner doc comment (`//!`),
/// which `include!` inside a module does not accept: it is compiled as the module itself.
#[path = "../../../../repo/jaq-core/src/fold.rs"]
mod real_fold;

/// probes of the list correspondence
mod probe {
    use std::cell::Cell;
    thread_local! {
        pub static DEPTH: Cell<usize> = const { Cell::new(0) };
        pub static MAX_DEPTH: Cell<usize> = const { Cell::new(0) };
        pub static NODES_MADE: Cell<usize> = const { Cell::new(0) };
        pub static NODES_FREED: Cell<usize> = const { Cell::new(0) };
        pub static PAYLOAD_DROPS: Cell<usize> = const { Cell::new(0) };
        pub static SRC_DROPS: Cell<usize> = const { Cell::new(0) };
    }
    pub fn bump(c: &'static std::thread::LocalKey<Cell<usize>>) {
        c.with(|c| c.set(c.get() + 1))
    }
    pub fn get(c: &'static std::thread::LocalKey<Cell<usize>>) -> usize {
        c.with(|c| c.get())
    }
    pub fn node_enter() {
        bump(&NODES_FREED);
        let d = DEPTH.with(|c| {
            c.set(c.get() + 1);
            c.get()
        });
        MAX_DEPTH.with(|m| m.set(m.get().max(d)));
    }
    pub fn node_exit() {
        DEPTH.with(|c| c.set(c.get() - 1));
    }
    pub fn reset() {
        for c in [&DEPTH, &MAX_DEPTH, &NODES_MADE, &NODES_FREED, &PAYLOAD_DROPS, &SRC_DROPS] {
            c.with(|c| c.set(0));
        }
    }
}

/// the real `List` (private in jaq-core)
mod real_list {
    extern crate alloc;
    /// Stand-in for the part of `once_cell::unsync::Lazy` that rc_lazy_list.rs uses (`new`,
    /// `force`, `get_mut`), same contract: `force` runs the initialiser at most once and returns
    /// the value; `get_mut` is `Some` iff the value has been computed.  TRUSTED (not the real
    /// crate).  Its `Drop` is the node probe: the whole content of a node (value or pending
    /// initialiser) is dropped between `node_enter` and `node_exit`.
    mod once_cell {
        pub mod unsync {
            use core::cell::{Cell, OnceCell};
            pub struct Lazy<T, F = fn() -> T> {
                cell: OnceCell<T>,
                init: Cell<Option<F>>,
            }
            impl<T, F> Lazy<T, F> {
                pub fn new(f: F) -> Self {
                    crate::probe::bump(&crate::probe::NODES_MADE);
                    Lazy { cell: OnceCell::new(), init: Cell::new(Some(f)) }
                }
                pub fn get_mut(this: &mut Self) -> Option<&mut T> {
                    this.cell.get_mut()
                }
                /// (used by rc_lazy_list.rs only after design/fixes/C04-foreach-projection.diff)
                #[allow(dead_code)]
                pub fn get(this: &Self) -> Option<&T> {
                    this.cell.get()
                }
            }
            impl<T, F: FnOnce() -> T> Lazy<T, F> {
                pub fn force(this: &Self) -> &T {
                    this.cell.get_or_init(|| match this.init.take() {
                        Some(f) => f(),
                        None => panic!("Lazy instance has previously been poisoned"),
                    })
                }
            }
            impl<T, F> Drop for Lazy<T, F> {
                fn drop(&mut self) {
                    crate::probe::node_enter();
                    drop(self.cell.take());
                    drop(self.init.take());
                    crate::probe::node_exit();
                }
            }
        }
    }
    include!("../../../../repo/jaq-core/src/rc_lazy_list.rs");
}

// ---------------------------------------------------------------------------------------------
// fold

// SWITCH (C04-foreach-projection): design/fixes/C04-foreach-projection.diff changes the last
// parameter of `fold` from `outer: impl Fn(U) -> Option<UC>` to `outer: Option<fn(U) -> UC>`
// (`Some(|y| y)` for reduce, `None` for foreach).  After applying that fix to jaq, replace
// `unfixed` by `fixed` in the marked line below; nothing else changes (the model `Fold.turn`
// describes the unchanged `next`).
macro_rules! call_fold {
    ($($a:tt)*) => {
        call_fold_as!(unfixed, $($a)*) // <- SWITCH: `unfixed` | `fixed`
    };
}

/// what `fold` does with the final accumulator
#[derive(Clone, Copy)]
enum Outer<UC> {
    /// reduce: `Some` / `Some(|y| y)`
    Yield(fn(usize) -> UC),
    /// foreach: `|_| None` / `None`
    Nothing,
}

macro_rules! call_fold_as {
    (unfixed, $xs:expr, $init:expr, $f:expr, $tc:expr, $inner:expr, $outer:expr) => {{
        let outer = $outer;
        real_fold::fold($xs, $init, $f, $tc, $inner, move |y| match outer {
            Outer::Yield(g) => Some(g(y)),
            Outer::Nothing => None,
        })
    }};
    (fixed, $xs:expr, $init:expr, $f:expr, $tc:expr, $inner:expr, $outer:expr) => {{
        let outer: Option<fn(usize) -> _> = match $outer {
            Outer::Yield(g) => Some(g),
            Outer::Nothing => None,
        };
        real_fold::fold($xs, $init, $f, $tc, $inner, outer)
    }};
}

#[derive(Clone)]
struct Probe {
    log: Rc<RefCell<String>>,
    live_xs: Rc<Cell<usize>>,
    live_ys: Rc<Cell<usize>>,
}

impl Probe {
    fn counts(&self) -> String {
        format!("#{},{}", self.live_xs.get(), self.live_ys.get())
    }
}

type R = Result<usize, usize>;

/// the cloneable input of `fold`
struct Xs {
    items: Rc<Vec<R>>,
    pos: usize,
    p: Probe,
}

impl Xs {
    fn new(items: Rc<Vec<R>>, p: Probe) -> Self {
        p.live_xs.set(p.live_xs.get() + 1);
        Xs { items, pos: 0, p }
    }
}

impl Clone for Xs {
    fn clone(&self) -> Self {
        self.p.live_xs.set(self.p.live_xs.get() + 1);
        Xs { items: self.items.clone(), pos: self.pos, p: self.p.clone() }
    }
}

impl Drop for Xs {
    fn drop(&mut self) {
        self.p.live_xs.set(self.p.live_xs.get() - 1);
    }
}

impl Iterator for Xs {
    type Item = R;
    fn next(&mut self) -> Option<R> {
        write!(self.p.log.borrow_mut(), "x{}{}", self.pos, self.p.counts()).unwrap();
        let x = self.items.get(self.pos).cloned();
        if x.is_some() {
            self.pos += 1;
        }
        x
    }
}

/// an update iterator (what `f` returns)
struct Ys {
    items: std::vec::IntoIter<R>,
    hint: char,
    uid: usize,
    p: Probe,
}

impl Iterator for Ys {
    type Item = R;
    fn next(&mut self) -> Option<R> {
        write!(self.p.log.borrow_mut(), "n{}{}", self.uid, self.p.counts()).unwrap();
        self.items.next()
    }
    fn size_hint(&self) -> (usize, Option<usize>) {
        let n = self.items.len();
        match self.hint {
            'e' => (n, Some(n)),
            'u' => (0, Some(n)),
            'l' => (n, None),
            _ => (0, None),
        }
    }
}

impl Drop for Ys {
    fn drop(&mut self) {
        self.p.live_ys.set(self.p.live_ys.get() - 1);
    }
}

struct FoldCase {
    mode: usize,
    pulls: usize,
    init: usize,
    xs: Vec<R>,
    a: usize,
    b: usize,
    tab: Vec<usize>,
    scripts: Vec<(char, Vec<R>)>,
}

fn show_r(r: &R) -> String {
    match r {
        Ok(v) => format!("o{v}"),
        Err(e) => format!("e{e}"),
    }
}

impl FoldCase {
    fn gen(rng: &mut Rng) -> Self {
        let a = 1 + rng.below(3);
        let b = 2 + rng.below(3);
        let k = 1 + rng.below(4);
        let nx = if rng.chance(1, 12) { 0 } else { 1 + rng.below(6) };
        let xs = (0..nx).map(|_| if rng.chance(1, 20) { Err(rng.below(3)) } else { Ok(rng.below(a)) }).collect();
        let scripts = (0..k)
            .map(|_| {
                let len = *rng.pick(&[0, 0, 1, 1, 1, 1, 2, 2, 3, 3]);
                let items = (0..len).map(|_| if rng.chance(1, 12) { Err(3 + rng.below(3)) } else { Ok(rng.below(b)) }).collect();
                (*rng.pick(&['e', 'e', 'e', 'e', 'i', 'i', 'u', 'l']), items)
            })
            .collect();
        FoldCase {
            mode: 1 + rng.below(3),
            pulls: 1 + rng.below(20),
            init: rng.below(b),
            xs,
            a,
            b,
            tab: (0..a * b).map(|_| rng.below(k)).collect(),
            scripts,
        }
    }

    fn request(&self) -> String {
        let mut s = format!("c04.fold {} {} {} X{}", self.mode, self.pulls, self.init, self.xs.len());
        for x in &self.xs {
            write!(s, " {}", show_r(x)).unwrap();
        }
        write!(s, " T{}x{}", self.a, self.b).unwrap();
        for k in &self.tab {
            write!(s, " {k}").unwrap();
        }
        write!(s, " K{}", self.scripts.len()).unwrap();
        for (h, items) in &self.scripts {
            write!(s, " {h}{}", items.len()).unwrap();
            for r in items {
                write!(s, " {}", show_r(r)).unwrap();
            }
        }
        s
    }

    /// run the real `fold` with the given `tc`, `inner`, `outer`
    fn run<TC: Clone + 'static, UC: 'static>(
        &self,
        tc: impl Fn(&usize) -> TC + 'static,
        inner: impl Fn(TC, &usize) -> Option<UC> + 'static,
        outer: Outer<UC>,
        show: impl Fn(&UC) -> String,
    ) -> String {
        let p = Probe { log: Default::default(), live_xs: Default::default(), live_ys: Default::default() };
        let xs = Xs::new(Rc::new(self.xs.clone()), p.clone());
        let f = {
            let (p, scripts, tab, a, b) = (p.clone(), self.scripts.clone(), self.tab.clone(), self.a, self.b);
            let uid = Cell::new(0usize);
            move |x: usize, y: usize| -> Results<'static, usize, usize> {
                write!(p.log.borrow_mut(), "f{x},{y}").unwrap();
                let (hint, items) = scripts[tab[(x % a) * b + (y % b)]].clone();
                let u = uid.get();
                uid.set(u + 1);
                p.live_ys.set(p.live_ys.get() + 1);
                Box::new(Ys { items: items.into_iter(), hint, uid: u, p: p.clone() })
            }
        };
        let mut it = call_fold!(xs, self.init, f, tc, inner, outer);
        let mut trace = Vec::new();
        for _ in 0..self.pulls {
            let y = it.next();
            let events = std::mem::take(&mut *p.log.borrow_mut());
            let item = match &y {
                Some(Ok(u)) => show(u),
                Some(Err(e)) => format!("e{e}"),
                None => "end".into(),
            };
            trace.push(format!("{events}>{item}{}", p.counts()));
            if y.is_none() {
                break;
            }
        }
        drop(it);
        if p.live_xs.get() != 0 || p.live_ys.get() != 0 {
            trace.push(format!("BUG-leak{}", p.counts()));
        }
        trace.join(" ")
    }

    fn trace(&self) -> String {
        match self.mode {
            1 => self.run(|_| (), |_, _| None, Outer::Yield(|y| y), |y: &usize| format!("o{y}")),
            2 => self.run(|_| (), |_, y: &usize| Some(*y), Outer::Nothing, |y: &usize| format!("o{y}")),
            _ => self.run(|x: &usize| *x, |x, y: &usize| Some((x, *y)), Outer::Nothing, |(x, y): &(usize, usize)| format!("o{x}:{y}")),
        }
    }
}

fn fold_cmd(args: &[String]) {
    let n: usize = args.first().and_then(|s| s.parse().ok()).unwrap_or(2000);
    let mut rng = Rng::new(prng::seed_from_env() ^ 0xF01D_C04);
    for case in 0..n {
        let c = FoldCase::gen(&mut rng);
        println!("f{case}\t{}\t{}", c.request(), c.trace());
    }
}

// ---------------------------------------------------------------------------------------------
// Drop for List

/// the items of the list
struct Payload(#[allow(dead_code)] usize);

impl Clone for Payload {
    fn clone(&self) -> Self {
        Payload(self.0)
    }
}

impl Drop for Payload {
    fn drop(&mut self) {
        probe::bump(&probe::PAYLOAD_DROPS);
    }
}

/// the source iterator of the list (lives in the never-forced node)
struct Src {
    next: usize,
    len: usize,
}

impl Iterator for Src {
    type Item = Payload;
    fn next(&mut self) -> Option<Payload> {
        (self.next < self.len).then(|| {
            self.next += 1;
            Payload(self.next - 1)
        })
    }
}

impl Drop for Src {
    fn drop(&mut self) {
        probe::bump(&probe::SRC_DROPS);
    }
}

struct ListCase {
    /// length of the source
    len: usize,
    /// number of `next()` calls on a clone of the head handle (≤ len + 1)
    forced: usize,
    /// node indices on which an extra handle is kept
    extras: Vec<usize>,
    /// keep the iterating handle (it stands on the terminal node) alive as well
    keep_cursor: bool,
}

impl ListCase {
    /// number of nodes that exist after forcing
    fn nodes(&self) -> usize {
        self.forced.min(self.len) + 1
    }

    fn gen(rng: &mut Rng, case: usize, maxlen: usize) -> Self {
        let len = match case {
            0 | 1 | 2 if maxlen >= 100_000 => 100_000,
            _ => {
                if rng.chance(1, 4) {
                    rng.below(2001)
                } else {
                    rng.below(13)
                }
            }
        }
        .min(maxlen);
        let forced = match case {
            0 | 1 => len + 1,
            _ if rng.chance(2, 5) => len + 1,
            _ if rng.chance(1, 2) => len,
            _ => rng.below(len + 2),
        };
        let mut c = ListCase { len, forced, extras: Vec::new(), keep_cursor: case != 0 && rng.chance(1, 4) };
        let m = c.nodes();
        let n_extra = if case == 0 { 0 } else { *rng.pick(&[0, 0, 1, 1, 2, 3]) };
        for _ in 0..n_extra {
            // mostly near the end of the chain (so that the drop has something to do), sometimes anywhere
            let i = if rng.chance(1, 2) { m - 1 - rng.below(m.min(3)) } else { rng.below(m) };
            c.extras.push(i);
        }
        c.extras.sort();
        c
    }

    /// strong count of every node
    fn rcs(&self) -> Vec<usize> {
        let mut rc = vec![1; self.nodes()];
        for &i in &self.extras {
            rc[i] += 1;
        }
        if self.keep_cursor {
            *rc.last_mut().unwrap() += 1;
        }
        rc
    }

    fn request(&self) -> String {
        let rc = self.rcs();
        let (term, conses) = rc.split_last().unwrap();
        let mut s = String::from("c04.lldrop");
        let mut i = 0;
        while i < conses.len() {
            let j = (i..conses.len()).find(|&j| conses[j] != conses[i]).unwrap_or(conses.len());
            write!(s, " {}x{}", conses[i], j - i).unwrap();
            i = j;
        }
        write!(s, " {}{term}", if self.forced > self.len { 'n' } else { 'u' }).unwrap();
        s
    }

    fn trace(&self) -> String {
        use real_list::List;
        probe::reset();
        let head: List<'static, Payload> = List::from_iter(Src { next: 0, len: self.len });
        let mut cursor = head.clone();
        let mut kept = Vec::new();
        let last = self.nodes() - 1;
        // after j calls of `next` the cursor stands on node min(j, last)
        for j in 0..=self.forced {
            if j <= last {
                for _ in self.extras.iter().filter(|&&i| i == j) {
                    kept.push(cursor.clone());
                }
            }
            if j < self.forced {
                drop(cursor.next());
            }
        }
        let cursor = self.keep_cursor.then_some(cursor);
        let made = probe::get(&probe::NODES_MADE);
        let (p0, f0) = (probe::get(&probe::PAYLOAD_DROPS), probe::get(&probe::NODES_FREED));
        probe::MAX_DEPTH.with(|m| m.set(0));
        // ---- the measured drop
        drop(head);
        // ----
        let t = probe::get(&probe::PAYLOAD_DROPS) - p0;
        let f = probe::get(&probe::NODES_FREED) - f0;
        let d = probe::get(&probe::MAX_DEPTH);
        let mut out = format!("t{t} f{f} d{d}");
        drop(kept);
        drop(cursor);
        // sanity of the instrumentation: every node is freed exactly once, the source exactly once
        if made != self.nodes() || probe::get(&probe::NODES_FREED) != made || probe::get(&probe::SRC_DROPS) != 1 || probe::get(&probe::DEPTH) != 0 {
            write!(out, " BUG-probe made={made} freed={} src={}", probe::get(&probe::NODES_FREED), probe::get(&probe::SRC_DROPS)).unwrap();
        }
        out
    }
}

fn lldrop_cmd(args: &[String]) {
    let n: usize = args.first().and_then(|s| s.parse().ok()).unwrap_or(500);
    let maxlen: usize = args.get(1).and_then(|s| s.parse().ok()).unwrap_or(usize::MAX);
    let mut rng = Rng::new(prng::seed_from_env() ^ 0x11D0_C04);
    for case in 0..n {
        let c = ListCase::gen(&mut rng, case, maxlen);
        println!("l{case}\t{}\t{}", c.request(), c.trace());
    }
}

fn main() {
    let args: Vec<String> = std::env::args().skip(1).collect();
    let rest = if args.is_empty() { &args[..] } else { &args[1..] };
    match args.first().map(|s| s.as_str()) {
        Some("fold") => fold_cmd(rest),
        Some("lldrop") => lldrop_cmd(rest),
        _ => {
            eprintln!("usage: c04_rt fold [n] | lldrop [n] [maxlen]");
            std::process::exit(2)
        }
    }
}
