//! VX: injective prefix encoding of jaq values (see DESIGN.md §3.2).
//! N | T | F | I<dec> | G<dec> | D<16 hex> | L<hex> | S<hex> | B<hex> | A<n> v.. | O<n> k v ..
use jaq_json::{Map, Num, Val};
use num_bigint::BigInt;

pub fn hex(b: &[u8]) -> String {
    let mut s = String::with_capacity(b.len() * 2);
    for x in b {
        s.push_str(&format!("{x:02x}"));
    }
    s
}

pub fn unhex(s: &str) -> Option<Vec<u8>> {
    if s.len() % 2 != 0 {
        return None;
    }
    (0..s.len() / 2)
        .map(|i| u8::from_str_radix(&s[2 * i..2 * i + 2], 16).ok())
        .collect()
}

pub fn enc_into(v: &Val, out: &mut Vec<String>) {
    match v {
        Val::Null => out.push("N".into()),
        Val::Bool(true) => out.push("T".into()),
        Val::Bool(false) => out.push("F".into()),
        Val::Num(Num::Int(i)) => out.push(format!("I{i}")),
        Val::Num(Num::BigInt(i)) => out.push(format!("G{i}")),
        Val::Num(Num::Float(f)) => out.push(format!("D{:016x}", f.to_bits())),
        Val::Num(Num::Dec(d)) => out.push(format!("L{}", hex(d.as_bytes()))),
        Val::BStr(b) => out.push(format!("B{}", hex(b))),
        Val::TStr(b) => out.push(format!("S{}", hex(b))),
        Val::Arr(a) => {
            out.push(format!("A{}", a.len()));
            a.iter().for_each(|x| enc_into(x, out));
        }
        Val::Obj(o) => {
            out.push(format!("O{}", o.len()));
            o.iter().for_each(|(k, v)| {
                enc_into(k, out);
                enc_into(v, out)
            });
        }
    }
}

pub fn enc(v: &Val) -> String {
    let mut out = Vec::new();
    enc_into(v, &mut out);
    out.join(" ")
}

/// Canonical encoding for comparing *results*: all NaNs are one NaN.
pub fn enc_canon(v: &Val) -> String {
    enc(&canon(v))
}

pub fn canon(v: &Val) -> Val {
    match v {
        Val::Num(Num::Float(f)) if f.is_nan() => Val::Num(Num::Float(f64::from_bits(0x7ff8000000000000))),
        Val::Arr(a) => a.iter().map(canon).collect(),
        Val::Obj(o) => Val::obj(o.iter().map(|(k, v)| (canon(k), canon(v))).collect::<Map>()),
        v => v.clone(),
    }
}

pub fn dec_tokens<'a>(toks: &mut impl Iterator<Item = &'a str>) -> Option<Val> {
    let t = toks.next()?;
    let (h, r) = t.split_at(1);
    Some(match h {
        "N" => Val::Null,
        "T" => Val::Bool(true),
        "F" => Val::Bool(false),
        "I" => Val::Num(Num::Int(r.parse().ok()?)),
        "G" => Val::Num(Num::big_int(r.parse::<BigInt>().ok()?)),
        "D" => Val::Num(Num::Float(f64::from_bits(u64::from_str_radix(r, 16).ok()?))),
        "L" => Val::Num(Num::Dec(String::from_utf8(unhex(r)?).ok()?.into())),
        "S" => Val::utf8_str(unhex(r)?),
        "B" => Val::byte_str(unhex(r)?),
        "A" => {
            let n: usize = r.parse().ok()?;
            let mut a = Vec::with_capacity(n);
            for _ in 0..n {
                a.push(dec_tokens(toks)?);
            }
            a.into_iter().collect()
        }
        "O" => {
            let n: usize = r.parse().ok()?;
            let mut m = Map::default();
            for _ in 0..n {
                let k = dec_tokens(toks)?;
                let v = dec_tokens(toks)?;
                m.insert(k, v);
            }
            Val::obj(m)
        }
        _ => return None,
    })
}

pub fn dec(s: &str) -> Option<Val> {
    let mut it = s.split_ascii_whitespace();
    let v = dec_tokens(&mut it)?;
    it.next().is_none().then_some(v)
}
