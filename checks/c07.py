"""C07 — print-then-parse is the identity on values; JSON texts mean what RFC 8259 says (DESIGN §6 C07).

1. Translator: `jaqverif c07 tables` prints, for all 256 bytes, what the real writer emits for the
   byte inside a text string and inside a byte string, and the real reader's single-character
   escapes; they are written to lean/JaqVerif/Gen/C07Tables.lean and the per-byte lemmas are
   re-decided by the kernel (`decide +kernel` over the complete tables).
2. Lean: Props/C07.lean (string escaping round trip for every byte list, integer text round trip,
   literal preservation, whole-value print-then-parse for every Pp, RFC 8259 spelling) is rebuilt
   and audited.
3. Correspondence: the real writer (`write::write`, `tojson`) and reader (`parse_many`,
   `read_many`, `parse_single`, `fromjson`) vs the Lean model on exhaustive small scopes and seeded
   random cases; the float printer parameter (ryu) vs its executable model bit for bit.
4. Property oracles on the real code alone: `tojson|fromjson`, writer->reader with every Pp,
   CLI round trips (`jaq -c .`, `jaq .`, `-S`, `--indent n`, `--tab` piped back into `jaq -c .`), an
   independent RFC 8259 text generator with Python's `json` as independent reader.
"""
import os
import re
import subprocess
import sys

import verif

sys.path.insert(0, os.path.join(verif.VERIF, "pysupport"))
import c07_tables   # noqa: E402
import c07_textgen  # noqa: E402


def hexs(b):
    return b.hex()


def table_search(ctx, tables_out):
    """The generated tables no longer satisfy the per-byte lemmas: find the byte(s)."""
    rows, frame, kw = c07_tables.parse(tables_out)
    probes = []
    for b in range(256):
        for kind, prefix in (("T", b'"'), ("B", b'b"')):
            probes.append((b, kind, prefix + bytes.fromhex(rows[kind][b]) + b'"'))
    out = ctx.harness(["c07", "read-stdin"], input="".join(hexs(t) + "\n" for _, _, t in probes)).splitlines()
    found = 0
    for (b, kind, text), line in zip(probes, out):
        real = line.split("\t")
        want = "V %s%02x" % ("S" if kind == "T" else "B", b)
        got = real[2].strip() if len(real) > 2 else "?"
        if got != want:
            found += 1
            ctx.violation("c07-escape:%s:%d" % (kind, b),
                          "byte 0x%02x of a %s string is written as %r, which the reader does not read back as that byte"
                          % (b, "text" if kind == "T" else "byte", bytes.fromhex(rows[kind][b])),
                          {"byte": b, "string_kind": kind, "written": text.decode("latin-1"), "read_back": got, "expected": want},
                          broken=["unescape_escape_tstr" if kind == "T" else "unescape_escape_bstr"])
    return found


def run(ctx):
    quick = ctx.tier == "quick"
    ctx.build_harness()

    # ---------------------------------------------------------------- 1. translator
    tables_out = ctx.harness(["c07", "tables"])
    changed = ctx.write_gen("C07Tables", c07_tables.lean_source(tables_out))
    ctx.log("translator: tables regenerated from the real writer/reader" + (" (CHANGED)" if changed else " (unchanged)"))

    # ---------------------------------------------------------------- 2. proofs
    proof = ctx.lean_check()
    ctx.log("lean:", "ok" if proof["ok"] else "BROKEN", len(proof["theorems"]), "theorems")
    if not proof["ok"]:
        n = table_search(ctx, tables_out)
        ctx.log("search after broken proof: %d failing bytes" % n)
    try:
        ctx.build_model()
    except verif.CheckError as e:
        if proof["ok"]:
            raise
        ctx.notes.append("model driver does not build: " + str(e)[:300])
        # without a model the real-code oracles below still search for a failing input
        ctx.model_bin = None

    # ---------------------------------------------------------------- 3. correspondence
    out = ctx.harness(["c07", "gen"])
    cases = [tuple(l.split("\t")) for l in out.splitlines() if l]
    cases = [c for c in cases if len(c) == 3]
    special = [c for c in cases if c[2].startswith(("PANIC", "TOJSON-DIFFERS", "FROMJSON-DIFFERS"))]
    for c in special[:20]:
        ctx.violation("c07-real:" + c[1], "real code: %s on `%s`" % (c[2].split(" ")[0], c[1]),
                      {"request": c[1], "real": c[2]})
    cases = [c for c in cases if c not in set(special)]
    kinds = {}
    for c in cases:
        k = c[0].rstrip("0123456789")
        kinds[k] = kinds.get(k, 0) + 1

    def classify(cid, req, real, model):
        return "c07-corr:" + req

    bad = 0
    n_before_corr = len(ctx.violations)
    if ctx.model_bin:
        bad = verif.diff_corr(ctx, cases, "c07-json", classify)
    corr_violations = ctx.violations[n_before_corr:]
    ctx.log("correspondence: %d cases, %d disagreements, %d real-code anomalies" % (len(cases), bad, len(special)))

    # ---------------------------------------------------------------- 3b. guard of the ryu model theorem
    # `ryu_model_digits_roundtrip_partial` holds for floats with `ryuFound`; evaluate it for every
    # finite float that went through the writer correspondence
    ryu_n = ryu_false = 0
    if ctx.model_bin:
        fl = sorted({c[1].split()[-1] for c in cases if re.match(r"^c07\.write c D[0-9a-f]{16}$", c[1])})
        fl = [f for f in fl if (int(f[1:], 16) >> 52) & 0x7ff != 0x7ff and int(f[1:], 16) & ((1 << 63) - 1) != 0]   # finite, non-zero
        ans = ctx.model(["c07.ryufound " + f for f in fl])
        ryu_n = len(fl)
        for f, a in zip(fl, ans):
            if a != "1":
                ryu_false += 1
                if ryu_false <= 5:
                    ctx.violation("c07-ryufound:" + f, "the digit search of the float printer model finds no round-tripping "
                                  "decimal within 18 digits (guard of ryu_model_digits_roundtrip_partial)",
                                  {"float_vx": f, "answer": a}, kind="no-failing-input-found", broken=["ryu_model_digits_roundtrip_partial"])
        ctx.log("ryu model: digit search succeeds (ryuFound) for %d of %d floats" % (ryu_n - ryu_false, ryu_n))

    # ---------------------------------------------------------------- 4a. in-process oracle
    orc = ctx.harness(["c07", "oracle"])
    on = obad = 0
    for l in orc.splitlines():
        p = l.split("\t")
        if p[0] == "ORACLE SUMMARY":
            on, obad = int(p[1]), int(p[2])
        elif p[0] == "ORACLE FAIL":
            nfail_reported = sum(1 for v in ctx.violations if v["key"].startswith("c07-roundtrip:"))
            if nfail_reported >= 25:
                continue
            ctx.violation("c07-roundtrip:%s:%s" % (p[1], p[2]),
                          "print-then-parse (%s) does not give back the value" % p[1],
                          {"route": p[1], "value_vx": p[2], "detail": p[3:]}, broken=["parse_print_val"])
    ctx.log("oracle (tojson|fromjson, writer->reader for every Pp, ryu contract): %d checks, %d failures" % (on, obad))

    # ---------------------------------------------------------------- 4b. CLI round trips
    cli_n, cli_bad = cli_roundtrips(ctx)
    ctx.log("CLI round trips: %d comparisons, %d failures" % (cli_n, cli_bad))

    # ---------------------------------------------------------------- 4c. independent texts, Python json as reader
    py_n, py_bad = python_texts(ctx, 3000 if quick else 40000)
    ctx.log("independent RFC 8259 texts (Python json as reader): %d texts, %d failures" % (py_n, py_bad))

    # A disagreement between the real code and the proved model is a failing input of the property
    # when a round trip / RFC reading really fails (the oracles above then report it too).  When
    # every oracle on the real code still passes (e.g. a change of layout that is read back alike, or
    # a more liberal reader), the model no longer describes the code but no failing input exists.
    model_ties = [v for v in ctx.violations if v in corr_violations or ":model:" in v["key"] or v["key"].startswith("c07-corr:")]
    others = [v for v in ctx.violations if v not in model_ties]
    if model_ties and not others:
        for v in ctx.violations:
            v["kind"] = "no-failing-input-found"
        ctx.notes.append("model/code disagreement without a failing round trip: the model must be re-established")

    distinct = len({c[1] for c in cases})
    samples = [{"request": c[1][:200], "real": c[2][:200]} for c in
               [cases[i] for i in (0, len(cases) // 7, len(cases) // 3, len(cases) // 2, len(cases) - 1)]]
    ctx.coverage.update({
        "evaluations": len(cases) + on + cli_n + py_n,
        "distinct_nontrivial": distinct,
        "rule": "distinct (operation, option, input) requests: writer on every single byte and all strings up to length 3 over "
                "structurally significant bytes (text and byte strings), edge floats (powers of 2 and 10, neighbours, random bits), "
                "number pool, all small trees x 14 Pp settings; reader on the writer's output (3 entry points) and on generated texts "
                "(escape tokens up to 3, number alphabet up to 5-6, structure alphabet up to 4-5, hand-written edge texts); "
                "about one fifth of the reader cases are accepted texts, the rest exercise the error arms",
        "samples": samples,
        "traces_validated_against_impl": len(cases),
        "case_kinds": kinds,
        "oracle_checks": on, "cli_comparisons": cli_n, "python_texts": py_n,
        "ryu_found_checked": ryu_n, "ryu_found_false": ryu_false,
        "disagreements": bad,
        "tables_regenerated": True,
        "exhaustive": False,
        "exhaustive_parts": "per-byte escape tables: all 256 bytes x {text, bytes}; strings: all up to length 2 (30-byte alphabet) "
                      "and length 3 (14 bytes quick / 30 thorough)",
    })
    ctx.assumptions += [
        "model C07/Write.lean, C07/Read.lean written by hand from jaq-json/src/{write,read,num}.rs and hifijson 0.5.0 (token.rs seq/expect, str.rs str_fold, escape.rs, num.rs num_part); tied by this run's correspondence",
        "per-byte escape tables and the reader's single-character escape table are regenerated from the real code on every run; that the string writer is the concatenation of the per-byte outputs is corresponded (all strings up to length 3), not proved about Rust",
        "ryu::Buffer::format_finite is a parameter of the theorems with the contract `RyuOk`; for the executable model `ryuModel` the grammar half (`RyuLit`) is a theorem for every float and the value half is proved for the decimal digits of every float with `ryuFound` (evaluated on every float of this run); that the real ryu equals the model is compared byte for byte on this run's floats, and str::parse::<f64>(ryu f) = f is tested on the real code",
        "round 2: the key hypothesis of parse_print_val is discharged from the IndexMap invariant of v itself (`KeysOk v`, `WfInts v`) without sort_keys, and from `SortDom v` (keys object-free and pairwise strictly ordered; holds on C08's NaN-free guarded domain) with sort_keys; keys that contain objects under sort_keys remain covered by the oracle only",
        "ANSI styles (coloured output) are not part of the model: coloured output is not meant to be read back",
        "recursion depth of the real reader/writer (stack) is not modelled (C05)",
    ]


# ---------------------------------------------------------------------------------------------

CLI_OPTS = [
    (["-c"], "c"), ([], "i2"), (["-S"], "i2S"), (["-c", "-S"], "cS"), (["--indent", "0"], "i0"),
    (["--indent", "1"], "i1"), (["--indent", "7"], "i7"), (["--tab"], "t"), (["--tab", "-S"], "tS"),
    (["--indent", "3", "-S"], "i3S"),
    # round 2: colour options; `-C` output is compared after removing the ANSI style sequences
    # (ESC never occurs in the writer's own output: it is escaped as \u001b inside strings)
    (["-M"], "i2"), (["-C"], "i2"), (["-C", "-c"], "c"), (["-C", "--tab", "-S"], "tS"), (["-M", "-c", "-S"], "cS"),
]

ANSI = re.compile(rb"\x1b\[[0-9;]*m")


def run_jaq(ctx, args, data):
    p = subprocess.run([ctx.jaq_bin] + args, input=data, stdout=subprocess.PIPE, stderr=subprocess.PIPE, timeout=600)
    return p.returncode, p.stdout, p.stderr


def cli_roundtrips(ctx):
    ctx.build_jaq()
    lines = [l.split("\t") for l in ctx.harness(["c07", "cli-values"]).splitlines() if l]
    vxs = [l[0] for l in lines]
    texts = [bytes.fromhex(l[1]) for l in lines]
    data = b"".join(t + b"\n" for t in texts)
    n = bad = 0
    rc, base, err = run_jaq(ctx, ["-c", "."], data)
    n += 1
    if rc != 0 or base != data:
        bad += 1
        got = base.split(b"\n")
        idx = next((i for i, t in enumerate(texts) if i >= len(got) or got[i] != t), -1)
        ctx.violation("c07-cli:-c:reprint:%s" % (vxs[idx] if idx >= 0 else "?"),
                      "`jaq -c .` does not reprint a value printed by the writer byte for byte",
                      {"value_vx": vxs[idx] if idx >= 0 else None, "input": texts[idx].decode("latin-1") if idx >= 0 else None,
                       "output": got[idx].decode("latin-1") if 0 <= idx < len(got) else None, "exit": rc, "stderr": err.decode("latin-1")[:300]})
    rc, base_sorted, _ = run_jaq(ctx, ["-c", "-S", "."], data)
    for opts, spec in CLI_OPTS:
        rc, out, err = run_jaq(ctx, opts + ["."], data)
        if "-C" in opts:
            n += 1
            if b"\x1b[" not in out:
                bad += 1
                ctx.violation("c07-cli:%s:no-colour" % " ".join(opts), "`jaq -C` printed no ANSI style sequence at all",
                              {"options": opts, "exit": rc}, broken=["correspondence c07-cli"])
            out = ANSI.sub(b"", out)
        elif b"\x1b" in out:
            n += 1
            bad += 1
            ctx.violation("c07-cli:%s:escape-byte" % " ".join(opts), "uncoloured output contains a raw ESC byte",
                          {"options": opts, "exit": rc}, broken=["correspondence c07-cli"])
        # (a) the bytes are what the proved model prints with the Pp that the options denote
        if ctx.model_bin:
            ans = ctx.model(["c07.write %s %s" % (spec, v) for v in vxs])
            want = b"".join(bytes.fromhex(a) + b"\n" for a in ans)
            n += 1
            if rc != 0 or out != want:
                bad += 1
                idx = first_diff_value(out, [bytes.fromhex(a) + b"\n" for a in ans])
                ctx.violation("c07-cli:%s:model:%s" % (" ".join(opts), vxs[idx] if idx is not None else "?"),
                              "`jaq %s .` prints something else than the model of the writer with Pp %s" % (" ".join(opts), spec),
                              {"options": opts, "value_vx": vxs[idx] if idx is not None else None, "exit": rc,
                               "stderr": err.decode("latin-1")[:300]}, broken=["correspondence c07-cli"])
        # (b) piped back into `jaq -c .` gives the compact form of the original
        rc2, back, err2 = run_jaq(ctx, ["-c", "."], out)
        want2 = base_sorted if "-S" in opts else base
        n += 1
        if rc2 != 0 or back != want2:
            bad += 1
            idx = first_diff_value(back, [l + b"\n" for l in want2.split(b"\n")[:-1]])
            ctx.violation("c07-cli:%s:roundtrip:%s" % (" ".join(opts), vxs[idx] if idx is not None and idx < len(vxs) else "?"),
                          "`jaq %s . | jaq -c .` differs from `jaq -c%s .`" % (" ".join(opts), "S" if "-S" in opts else ""),
                          {"options": opts, "value_vx": vxs[idx] if idx is not None and idx < len(vxs) else None, "exit": rc2,
                           "stderr": err2.decode("latin-1")[:300]}, broken=["parse_print_val"])
    return n, bad


def first_diff_value(out, chunks):
    pos = 0
    for i, c in enumerate(chunks):
        if out[pos:pos + len(c)] != c:
            return i
        pos += len(c)
    return None if pos == len(out) else len(chunks) - 1


def python_texts(ctx, count):
    texts = c07_textgen.texts(ctx.seed, count)
    inp = "".join(hexs(t.encode("utf-8")) + "\n" for t in texts)
    lines = ctx.harness(["c07", "read-stdin"], input=inp).splitlines()
    n = bad = 0
    reqs, reals = [], []
    for t, l in zip(texts, lines):
        p = l.split("\t")
        n += 1
        want = "V " + c07_textgen.expected_vx(t)
        want_calc = "V " + c07_textgen.expected_vx(t, calc=True)
        if p[2] != want or p[3] != want_calc:
            bad += 1
            if bad <= 20:
                ctx.violation("c07-rfc:" + hexs(t.encode("utf-8")),
                              "an RFC 8259 text is rejected or read as another value than Python's json module assigns to it",
                              {"text": t, "jaq": p[2], "python": want, "jaq_calculated": p[3], "python_calculated": want_calc},
                              broken=["parse_rfc_spelling"])
        reqs.append(p[1])
        reals.append(p[2])
    # the same texts through the model of the reader
    if ctx.model_bin:
        ans = ctx.model(reqs)
        for t, req, real, m in zip(texts, reqs, reals, ans):
            if real != m:
                bad += 1
                if bad > 20:
                    continue
                ctx.violation("c07-corr:" + req, "c07-json: real reader and proved model disagree on an RFC 8259 text",
                              {"text": t, "real": real, "model": m}, broken=["correspondence c07-json"])
    return n, bad
