"""C06 — filters and data cannot make jaq touch files, network or other processes (DESIGN §6 C06).

1. Translator: `jaqverif c06 inventory` (every native of jaq_core/jaq_std/jaq_json/jaq_fmts/input funs, every
   definition of the defs.jq files with the names it calls) + scan of the CLI crate's own natives/defs
   -> lean/JaqVerif/Gen/C06Inventory.lean.
2. Lean: Props/C06.lean rebuilt and audited (effects_compositional, monitor_sound/complete, inventory_closed,
   pure_natives_have_no_fs_effect, … over the generated inventory).
3. Trace validation: a child (harness `c06 child`: load, marker call, execute, marker — or the jaq CLI) runs
   under `strace -f`; every native and every prelude definition of the inventory with path-like / URL-like /
   command-like arguments and inputs, generated programs, adversarial documents per decoder; each trace is
   parsed into events and fed to the Lean monitor (compiled driver) with the policy
   `effectsOf(program) ∪ host effects`; a rejected trace is a violation (its replay = the case).
4. Semantic observation (in-process): which natives depend on the environment / clock / advance the input
   cursor — compared with the hand-written rows.
5. Sentinel directory: nothing may have been created in it or in the children's working directory.
"""
import concurrent.futures
import json
import os
import random
import shutil
import sys
import tempfile

import verif

sys.path.insert(0, os.path.join(verif.VERIF, "pysupport"))
import c06_cases as C      # noqa: E402
import c06_inventory as I  # noqa: E402
import c06_trace as T      # noqa: E402



def n_workers():
    """size of the pool of traced children: 16 cores are assumed; fewer when the machine is already overloaded"""
    if os.environ.get("C06_WORKERS"):
        return max(1, int(os.environ["C06_WORKERS"]))
    cores = os.cpu_count() or 4
    try:
        load = os.getloadavg()[0]
    except OSError:
        load = 0
    return max(4, min(16, cores) // (4 if load > 1.5 * cores else 1))


BATCH = 10                         # harness cases per traced child process
HOST_CHILD = set()                 # the harness child prints nothing while executing
HOST_CLI_OK = {"cursor"}           # the CLI reads its inputs (stdin / next file) while executing
HOST_CLI_ERR = {"cursor", "log"}   # … and reports an error on stderr when it exits with an error


def child_env(home):
    env = {"PATH": os.environ.get("PATH", "/usr/bin:/bin"), "HOME": home, "LANG": "C", "C06_PROBE": "1",
           "XDG_CACHE_HOME": os.path.join(home, ".cache")}
    return env


def hx(s):
    b = s if isinstance(s, bytes) else s.encode("utf-8", "surrogateescape")
    return b.hex() or "-"


def enc_input(spec):
    """'J<json text>' / 'T<hex>' / 'B<hex>' -> argument of `c06 child`"""
    if spec[0] == "J":
        return "J" + hx(spec[1:])
    return spec


def run_child_batch(ctx, cases, dirs, depth=0):
    """Run the cases one after the other in ONE traced harness child; returns one result per case.  Cases the
    child did not finish (crash, time-out of an earlier one) are run again on their own."""
    import tempfile as _tf
    fd, spec = _tf.mkstemp(prefix="c06-", suffix=".spec", dir=dirs["tmp"])
    with os.fdopen(fd, "w") as f:
        for case in cases:
            f.write(" ".join([hx(case["filter"]), enc_input(case["input"]), str(case.get("limit", 24))] +
                             [enc_input(i) for i in case.get("inputs", [])]) + "\n")
    rc, out, err, trace = T.run_traced([ctx.harness_bin, "c06", "child", spec], dirs["cwd"], child_env(dirs["home"]),
                                       timeout=60 + 6 * len(cases), tmpdir=dirs["tmp"])
    os.unlink(spec)
    reports = {}
    cur = None
    for l in out.decode("utf-8", "replace").splitlines():
        if l.startswith("CASE "):
            cur = int(l[5:])
            reports[cur] = {"status": "ok", "asts": []}
        elif cur is None:
            continue
        elif l.startswith("COMPILE-ERROR") or l.startswith("INPUT-ERROR"):
            reports[cur]["status"] = "skipped:" + l.split()[0]
        elif l.startswith("RES "):
            reports[cur]["res"] = l[4:]
        elif l.startswith("CURSOR "):
            reports[cur]["cursor"] = l[7:]
        elif l.startswith("AST "):
            reports[cur]["asts"] = [] if l[4:] == "PARSE-ERROR" else [l[4:]]
    parsed = T.parse_strace(trace, dirs["cwd"])
    segs = T.split_cases(parsed.events, parsed.lines)
    results = []
    si = 0
    redo = []
    for k, case in enumerate(cases):
        rep = reports.get(k)
        res = {"case": case, "rc": rc, "host": HOST_CHILD, "stdout_host": False, "inputs": [], "events": [], "lines": [],
               "status": "ok", "asts": []}
        if rep is not None and rep["status"].startswith("skipped"):
            res["status"] = rep["status"]
            results.append(res)
            continue
        complete = rep is not None and "res" in rep
        if complete and si < len(segs) and segs[si][2]:
            res.update(rep)
            res["events"], res["lines"] = segs[si][0], segs[si][1]
            si += 1
            results.append(res)
            continue
        # this case did not finish
        if len(cases) > 1:
            redo = cases[k:]
            break
        res["status"] = "timeout" if rc is None else "crashed:%s" % rc
        if si < len(segs):
            res["events"], res["lines"] = segs[si][0], segs[si][1]
        # the term of the program is still needed for the policy
        try:
            a = ctx.harness(["c06", "ast"], input=hx(case["filter"]) + "\n").strip()
            res["asts"] = [] if a == "PARSE-ERROR" else [a]
        except Exception:
            pass
        results.append(res)
    for case in redo:
        results += run_child_batch(ctx, [case], dirs, depth + 1)
    return results


def run_cli_case(ctx, case, dirs):
    """case: args (list, with {IN}/{LIB}/{F:name} placeholders resolved by the caller), stdin, input_paths"""
    cmd = [ctx.jaq_bin] + case["args"]
    rc, out, err, trace = T.run_traced(cmd, dirs["cwd"], child_env(dirs["home"]), timeout=case.get("timeout", 60),
                                       stdin=case.get("stdin"), tmpdir=dirs["tmp"])
    res = {"case": case, "rc": rc, "status": "ok" if rc is not None else "timeout", "asts": case.get("asts", []),
           "host": HOST_CLI_OK if rc == 0 else HOST_CLI_ERR, "stdout_host": True,
           "inputs": [p.encode() for p in case.get("input_paths", [])], "res": "rc=%s" % rc}
    parsed = T.parse_strace(trace, dirs["cwd"], cli_inputs=set(res["inputs"]))
    res["events"], res["lines"] = parsed.events, parsed.lines
    res["stderr"] = err.decode("utf-8", "replace")[:300]
    return res


def cli_cases(ctx, inv, D, dirs, rng, tier):
    """CLI runs: --from per decoder, imports (loaded before execution), several input files, stdin, log filters…"""
    IN, LIB = dirs["in"], dirs["lib"]
    sec = D + "/secret.txt"

    def put(name, data, base=IN):
        p = os.path.join(base, name)
        with open(p, "wb") as f:
            f.write(data if isinstance(data, bytes) else data.encode())
        return p

    evil = C.evil_strings(D)
    evil_json = put("evil.json", json.dumps(evil[:12]) + "\n" + json.dumps({"path": sec, "cmd": evil[7]}) + "\n")
    a = put("a.json", json.dumps("/etc/passwd") + "\n")
    b = put("b.json", json.dumps("file://" + sec) + " 1700000000\n")
    c = put("c.json", json.dumps([2024, 1, 2, 3, 4, 5, 0, 0]) + "\n")
    put("m.jq", "def f: ., \"%s\", (try (tostring|ltrimstr(\"/\")) catch .);\ndef g($x): $x | debug;\n" % sec, LIB)
    put("t.jq", "def lt: (numbers | localtime), (arrays | strflocaltime(\"%c %Z\"));\n", LIB)
    put("d.json", json.dumps({"path": sec}) + "\n", LIB)
    raw = put("raw.txt", "/etc/shadow\n")
    prog = put("prog.jq", ".[]? | tostring | ltrimstr(\"/\")\n")
    cases = []

    def add(what, args, body, modules=(), inputs=(), stdin=None, fn="-"):
        cases.append({"kind": "cli", "fn": fn, "what": what, "args": args, "filter": body, "modules": list(modules),
                      "input_paths": list(inputs), "stdin": stdin})

    # decoders through --from and through the file extension
    docs = C.documents(D)
    for i, d in enumerate(docs):
        p = put("doc%d.%s" % (i, d["ext"]), d["doc"])
        flt = [".", ".. | strings", "[..] | length", "tojson"][i % 4]
        if tier == "thorough" or i % 2 == 0:
            add("--from %s: %s" % (d["fmt"], d["what"]), ["--from", d["fmt"], flt, p], flt, inputs=[p], fn="from%s/0" % d["fmt"])
        if tier == "thorough" or i % 2 == 1:
            add("by extension .%s: %s" % (d["ext"], d["what"]), ["-c", flt, p], flt, inputs=[p], fn="from%s/0" % d["fmt"])
        if tier == "thorough":
            p2 = put("mdoc%d.%s" % (i, d["ext"]), C.mutate(d["doc"], rng))
            add("--from %s mutated: %s" % (d["fmt"], d["what"]), ["--from", d["fmt"], flt, p2], flt, inputs=[p2], fn="from%s/0" % d["fmt"])
    # writers
    for fmt in ["yaml", "xml", "toml", "cbor", "csv", "tsv", "json"]:
        flt = {"xml": "{t: \"a\", a: {href: .[0]}, c: [.[1]]}", "toml": "{a: .}", "csv": ".", "tsv": "."}.get(fmt, ".")
        add("--to %s" % fmt, ["--to", fmt, flt, evil_json], flt, inputs=[evil_json])
    # log filters and environment
    add("debug/stderr", ["debug, stderr, debug(\"x\", .)", a], "debug, stderr, debug(\"x\", .)", inputs=[a], fn="debug/0")
    add("halt_error", ["halt_error", a], "halt_error", inputs=[a], fn="halt_error/0")
    add("env", ["$ENV.PATH, env.HOME, ($ENV|length), input_filename", a], "$ENV.PATH, env.HOME, ($ENV|length), input_filename", inputs=[a], fn="env/0")
    add("now/localtime", ["-c", "now|localtime, (1700000000|strflocaltime(\"%c %Z\")), (\"2024 Europe/Berlin\"|strptime(\"%Y %Q\"))", a],
        "now|localtime, (1700000000|strflocaltime(\"%c %Z\")), (\"2024 Europe/Berlin\"|strptime(\"%Y %Q\"))", inputs=[a], fn="localtime/0")
    # modules and data files: read before execution starts
    body = "m::f, m::g(.), $d, lt"
    add("import/include", ["-L", LIB, "import \"m\" as m; import \"d\" as $d; include \"t\"; " + body, b],
        body, modules=[open(os.path.join(LIB, "m.jq")).read(), open(os.path.join(LIB, "t.jq")).read()], inputs=[b], fn="import")
    body = ".[]? | m::f"
    add("import, evil data", ["-L", LIB, "import \"m\" as m; " + body, evil_json], body,
        modules=[open(os.path.join(LIB, "m.jq")).read()], inputs=[evil_json], fn="import")
    add("import of a missing module", ["-L", LIB, "import \"nonexistent\" as m; .", a], ".", inputs=[a], fn="import")
    # several inputs, input/inputs, slurp, rawfile/slurpfile/arg, filter from file, stdin
    add("several input files + input", ["., input, input_filename", a, b, c], "., input, input_filename", inputs=[a, b, c], fn="input/0")
    add("inputs, slurp", ["-s", "., [inputs]", a, b], "., [inputs]", inputs=[a, b], fn="inputs/0")
    add("--rawfile/--slurpfile/--arg", ["--rawfile", "r", raw, "--slurpfile", "s", b, "--arg", "p", "/etc/passwd",
                                         "$r, $s, $p, ($r | ltrimstr(\"/\")), $ARGS.named", a],
        "$r, $s, $p, ($r | ltrimstr(\"/\")), $ARGS.named", inputs=[a], fn="-")
    add("filter from file", ["-f", prog, evil_json], open(prog).read(), inputs=[evil_json], fn="-")
    add("stdin", ["-c", "., (.[]? | tostring | explode | implode)"], "., (.[]? | tostring | explode | implode)", stdin=open(evil_json, "rb").read(), fn="-")
    add("stdin yaml", ["--from", "yaml", "."], ".", stdin=docs[0]["doc"], fn="fromyaml/0")
    add("raw input lines", ["-R", "., (try fromjson catch \"x\")", raw, evil_json], "., (try fromjson catch \"x\")", inputs=[raw, evil_json], fn="-")
    # a sample of natives / definitions through the CLI (all of them in thorough)
    fns = [(n, k) for (_, n, k) in inv["natives"] if n != "repl"] + [(n, "a" * ar) for (_, n, ar, _) in inv["defs"]]
    if tier != "thorough":
        keep = {"debug", "stderr", "debug_empty", "stderr_empty", "localtime", "strflocaltime", "strptime", "mktime", "env",
                "now", "input", "inputs", "input_filename", "halt_error", "fromxml", "fromyaml", "tojson", "@sh", "ltrimstr",
                "splits", "getpath", "todate", "test", "@uri", "tocbor", "toxml"}
        rest = [f for f in fns if f[0] not in keep]
        rng.shuffle(rest)
        fns = [f for f in fns if f[0] in keep] + rest[:25]
    for cse in C.native_cases(fns, D, 2 if tier == "thorough" else 1, rng, "cli-native"):
        p = put("n%d.json" % len(cases), cse["input"][1:] + "\n" + "\n".join(i[1:] for i in cse["inputs"]) + "\n")
        add("native through the CLI", ["-c", cse["filter"], p], cse["filter"], inputs=[p], fn=cse["fn"])
    return cases


def eff_union(*sets):
    s = set()
    for x in sets:
        s |= set(x)
    s.discard("pure")
    return s


def eff_str(s):
    order = ["clock", "env", "cursor", "log", "tzdb", "repl"]
    l = [e for e in order if e in s]
    return ",".join(l) if l else "pure"


def run(ctx):
    if shutil.which("strace") is None:
        raise verif.CheckError("strace is not installed")
    # can strace trace at all here (ptrace may be forbidden in a sandbox)?
    rc0, _o, _e, probe = T.run_traced(["/bin/true"], "/", {"PATH": "/usr/bin:/bin"}, timeout=60)
    if "execve" not in probe:
        raise verif.CheckError("strace cannot trace a child process here (ptrace forbidden?): rc=%s" % rc0)
    ctx.build_harness()
    ctx.build_jaq()
    rng = random.Random(ctx.seed)

    # ------------------------------------------------------------------ 1. translator
    inv = I.full_inventory(ctx.harness(["c06", "inventory"]), verif.REPO)
    if not inv["natives"] or not inv["defs"]:
        raise verif.CheckError("empty inventory")
    if inv["totals"] and inv["totals"][0] != inv["totals"][1]:
        ctx.notes.append("jaq_all::defs() has %d definitions, the three defs.jq sources %d" % inv["totals"])
    changed = ctx.write_gen("C06Inventory", I.gen_lean(inv))
    ctx.log("inventory: %d natives, %d definitions%s" % (len(inv["natives"]), len(inv["defs"]), " (changed)" if changed else ""))

    # ------------------------------------------------------------------ 2. Lean
    ctx.build_model()
    proof = ctx.lean_check()
    ctx.log("lean:", "ok" if proof["ok"] else "BROKEN", len(proof["theorems"]), "theorems")
    missing = ctx.model(["c06.missing"])[0]
    mm = missing.split(" stale ")
    miss = [x for x in mm[0][len("missing "):].split(",") if x]
    stale = [x for x in (mm[1] if len(mm) > 1 else "").split(",") if x]
    if stale:
        ctx.notes.append("effect rows without a native in the current tree (harmless): " + ", ".join(stale))
    rows = {}
    for item in ctx.model(["c06.rows"])[0].split(";"):
        kind, rest = item.split(" ", 1)
        name, eff = rest.rsplit("=", 1)
        rows[(kind, name)] = set() if eff in ("pure", "MISSING") else set(eff.split(","))

    # ------------------------------------------------------------------ 3. cases
    base = tempfile.mkdtemp(prefix="c06-")
    D = os.path.join(base, "sentinel")
    dirs = {"cwd": os.path.join(base, "cwd"), "home": os.path.join(base, "home"), "tmp": os.path.join(base, "tmp"),
            "in": os.path.join(base, "in"), "lib": os.path.join(base, "lib")}
    for d in [D] + list(dirs.values()):
        os.makedirs(d)
    with open(os.path.join(D, "secret.txt"), "w") as f:
        f.write("C06-SECRET\n")
    try:
        _run_cases(ctx, inv, rows, miss, D, dirs, rng, proof)
    finally:
        shutil.rmtree(base, ignore_errors=True)


def snapshot(d):
    out = []
    for root, ds, fs in os.walk(d):
        for n in ds + fs:
            out.append(os.path.relpath(os.path.join(root, n), d))
    return sorted(out)


def _run_cases(ctx, inv, rows, miss, D, dirs, rng, proof):
    natives = [(n, k) for (_, n, k) in inv["natives"]]
    defs = [(n, ar) for (_, n, ar, _) in inv["defs"]]
    lib_natives = [(n, k) for (s, n, k) in inv["natives"] if s != "cli"]
    lib_defs = [(n, "a" * ar) for (s, n, ar, _) in inv["defs"] if s != "cli"]

    base = os.path.dirname(D)

    def norm_key(c):
        return json.dumps([c["kind"], c["fn"], c["filter"], str(c.get("input")), c.get("args"), c.get("what")]).replace(base, "{BASE}")

    seed, tier = ctx.seed, ctx.tier
    if ctx.replay:
        rp = json.load(open(ctx.replay))
        seed, tier = rp.get("seed", seed), rp.get("tier", tier)
        rng = random.Random(seed)
    thorough = tier == "thorough"
    per = 12 if thorough else 4
    child_cases = C.native_cases(lib_natives, D, per, rng, "native")
    child_cases += C.native_cases(lib_defs, D, max(1, per // 2), rng, "definition")
    # natives that are new w.r.t. the hand-written rows get every hostile value
    new = [(n, k) for (n, k) in lib_natives if "%s/%d" % (n, 0 if k == "-" else len(k)) in miss]
    child_cases += C.native_cases(new, D, 40, rng, "new-native")
    child_cases += C.program_cases(lib_natives, defs, D, 400 if thorough else 60, rng)
    dec, _docs = C.decoder_cases(D, rng, 6 if thorough else 1)
    child_cases += dec
    cli = cli_cases(ctx, inv, D, dirs, rng, tier)
    for c in child_cases + cli:
        c["norm_key"] = norm_key(c)
    if ctx.replay:
        want = rp.get("case", {}).get("case", {}).get("norm_key")
        child_cases = [c for c in child_cases if c["norm_key"] == want]
        cli = [c for c in cli if c["norm_key"] == want]
        if not child_cases and not cli:
            raise verif.CheckError("replay: the case of %s is not regenerated by seed %s / tier %s" % (ctx.replay, seed, tier))
    # AST of the CLI programs (main body + modules) through the harness parser
    texts = []
    for c in cli:
        texts.append(hx(c["filter"]))
        texts += ["M" + hx(m) for m in c["modules"]]
    asts = ctx.harness(["c06", "ast"], input="\n".join(texts) + "\n").splitlines() if texts else []
    k = 0
    for c in cli:
        n = 1 + len(c["modules"])
        c["asts"] = [a for a in asts[k:k + n] if a != "PARSE-ERROR"]
        c["parse_error"] = any(a == "PARSE-ERROR" for a in asts[k:k + n])
        k += n

    before = (snapshot(D), snapshot(dirs["cwd"]))
    ctx.log("running %d harness traces + %d CLI traces under strace (%d workers)" % (len(child_cases), len(cli), n_workers()))
    results = []
    with concurrent.futures.ThreadPoolExecutor(max_workers=n_workers()) as ex:
        # cases whose program may read the time-zone database run alone (jiff caches it per process)
        tzish = ("time", "date", "strptime", "mktime")
        solo = [c for c in child_cases if any(t in c["filter"] for t in tzish)]
        rest = [c for c in child_cases if not any(t in c["filter"] for t in tzish)]
        batches = [[c] for c in solo] + [rest[i:i + BATCH] for i in range(0, len(rest), BATCH)]
        futs = [ex.submit(run_child_batch, ctx, b, dirs) for b in batches]
        futs2 = [ex.submit(run_cli_case, ctx, c, dirs) for c in cli]
        for f in futs:
            results += f.result()
        for f in futs2:
            results.append(f.result())
    after = (snapshot(D), snapshot(dirs["cwd"]))
    ctx.log("traces done")

    # ---- effects of every program (Lean), then the monitor (Lean)
    ast_set = sorted({a for r in results for a in r["asts"]})
    eff_ans = ctx.model(["c06.effects " + a for a in ast_set])
    eff_of = {}
    for a, ans in zip(ast_set, eff_ans):
        p = ans.split(" ")
        if p[0] != "eff":
            raise verif.CheckError("model could not read a program term: %s -> %s" % (a[:200], ans))
        eff_of[a] = (set() if p[1] == "pure" else set(p[1].split(",")), p[3] if len(p) > 3 else "")
    reqs, idx = [], []
    skipped = {}
    for i, r in enumerate(results):
        if r["status"].startswith("skipped") or not r["asts"] or r["case"].get("parse_error"):
            if r["case"]["kind"] == "cli" and not r["case"].get("parse_error") and r["status"] == "ok":
                pass
            else:
                skipped[r["status"]] = skipped.get(r["status"], 0) + 1
                continue
        prog = eff_union(*[eff_of[a][0] for a in r["asts"]])
        r["prog_eff"] = prog
        pol = eff_union(prog, r["host"])
        r["policy"] = eff_str(pol)
        ins = [hx(p) for p in r["inputs"]]
        reqs.append("c06.monitor %s %d %d %s %s" % (r["policy"], 1 if r["stdout_host"] else 0, len(ins), " ".join(ins), " ".join(r["events"])))
        idx.append(i)
    answers = ctx.model(reqs)
    validated = accepted = nomarker = 0
    exec_events = 0
    observed = {}       # fn -> set of observed effects at the system-call boundary
    samples = []
    nontrivial = set()
    per_kind = {}
    for i, ans in zip(idx, answers):
        r = results[i]
        case = r["case"]
        a = ans.split(" ")
        per_kind[case["kind"]] = per_kind.get(case["kind"], 0) + 1
        if a[0] == "nomarker":
            nomarker += 1
            if r["status"] == "ok" and case["kind"] != "cli":
                ctx.violation("c06-machinery:nomarker", "harness child ran without emitting the exec marker",
                              {"case": _pub(case), "status": r["status"]}, kind="no-failing-input-found")
            continue
        validated += 1
        # what was observed in the exec phase, by class
        seen = set()
        ph = "load"
        for ev in r["events"]:
            if ev == "M" and ph == "load":
                ph = "exec"
                continue
            if ev == "Z" and ph == "exec":
                ph = "done"
                continue
            if ph != "exec":
                continue
            if ev[:2] in ("R:", "P:"):
                p = bytes.fromhex(ev[2:]) if ev[2:] != "-" else b""
                if p not in r["inputs"]:
                    seen.add("tzdb" if (p.startswith(b"/usr/share/zoneinfo") or p.startswith(b"/etc/localtime")) else "file")
            elif ev == "E" and "log" not in r["host"]:
                seen.add("log")
            elif ev == "I" and "cursor" not in r["host"]:
                seen.add("cursor")
        observed.setdefault(case["fn"], set()).update(seen)
        if a[0] == "accept":
            accepted += 1
            exec_events += int(a[1])
            res = r.get("res", "")
            triv = res.endswith("err:typ") and res.startswith("0 ")
            if not triv and r["status"] == "ok":
                nontrivial.add((case["filter"], case.get("input", ""), tuple(case.get("args", []))))
            if len(samples) < 6 and (len(samples) < 3 or seen):
                samples.append({"kind": case["kind"], "filter": case["filter"][:120], "input": str(case.get("input", case.get("args")))[:100],
                                "policy": r["policy"], "exec_phase_events": int(a[1]), "observed": sorted(seen), "result": res})
        elif a[0] == "reject":
            k = int(a[1])
            line = r["lines"][k] if k < len(r["lines"]) else "?"
            ev = r["events"][k]
            what = "%s: system call in the execution phase rejected by the monitor (%s): %s" % (case["fn"], a[2], line[:200])
            key = "c06-trace:%s:%s:%s" % (case["kind"], case["fn"] if case["fn"] != "-" else case["filter"][:80], a[2])
            ctx.violation(key, what, {"case": _pub(case), "policy": r["policy"], "program_effects": eff_str(r["prog_eff"]),
                                      "natives_mentioned": [eff_of[x][1] for x in r["asts"]],
                                      "verdict": ans, "offending_event": ev, "strace_line": line,
                                      "exec_trace_excerpt": _excerpt(r, k)},
                          broken=["trace validation (monitor_sound applies to accepted traces only)"])
        else:
            raise verif.CheckError("monitor answered %r" % ans)
    ctx.log("monitor: %d traces validated, %d accepted, %d skipped %s" % (validated, accepted, sum(skipped.values()), skipped))

    # ---- sentinel directory
    if before != after:
        new = sorted(set(after[0]) - set(before[0])) + sorted(set(after[1]) - set(before[1]))
        ctx.violation("c06-sentinel:" + ",".join(new)[:100], "files appeared in the sentinel / working directory: %s" % new,
                      {"new": new}, broken=["sentinel directory"])
    if open(os.path.join(D, "secret.txt")).read() != "C06-SECRET\n":
        ctx.violation("c06-sentinel:secret-modified", "the sentinel file was modified", {})

    # ---- natives without a row
    for m in miss:
        ctx.log("native without an effect row: " + m)
        hits = [v for v in ctx.violations if (":%s:" % m) in v["key"]]
        if not hits:
            ctx.violation("c06-inventory:no-row:" + m,
                          "native filter %s has no hand-written effect row (inventory_closed does not build); no hostile "
                          "argument made it touch files, network or processes in this run" % m,
                          {"native": m, "observed": sorted(observed.get(m, []))}, kind="no-failing-input-found",
                          broken=["Jaq.C06.inventory_closed"])

    if ctx.replay:
        for r in results:
            ctx.log("replay: status=%s policy=%s events=%s" % (r["status"], r.get("policy"), " ".join(r["events"])[:2000]))
        return

    # ------------------------------------------------------------------ 4. semantic observation vs rows
    obs_bad = 0
    obs_n = 0
    tight = []
    for l in ctx.harness(["c06", "observe"]).splitlines():
        p = l.split()
        if len(p) < 5 or p[0] != "OBS":
            continue
        fn = I.unhex(p[1])
        o = {kv.split("=")[0] for kv in p[2:5] if kv.endswith("=1")}
        obs_n += 1
        row = rows.get(("N", fn), set())
        if "repl" in row:
            continue
        extra = o - row
        if extra:
            obs_bad += 1
            ctx.violation("c06-observe:%s:%s" % (fn, ",".join(sorted(extra))),
                          "native %s depends on / advances %s but its effect row is {%s}" % (fn, sorted(extra), eff_str(row)),
                          {"native": fn, "observed": sorted(o), "row": eff_str(row)}, broken=["effect row of " + fn])
        if o:
            tight.append("%s:%s" % (fn, ",".join(sorted(o))))
    # rows that claim tzdb/log/cursor: were they ever exercised at the system-call boundary?
    exercised = {fn: sorted(s) for fn, s in observed.items() if s}
    ctx.log("observation: %d natives, %d beyond their row; syscall-visible effects seen for %s" % (obs_n, obs_bad, sorted(exercised)))

    fn_cov = {c["fn"] for c in child_cases if c["kind"] in ("native", "definition", "new-native")}
    ctx.coverage.update({
        "evaluations": validated,
        "distinct_nontrivial": len(nontrivial),
        "rule": "a trace counts as evaluated when the child reached the exec marker and the Lean monitor returned a verdict; "
                "non-trivial = distinct (filter, input) whose run produced an output or an error other than an immediate type "
                "error (the hostile value was actually consumed)",
        "samples": samples,
        "traces_validated_against_impl": validated,
        "traces_accepted": accepted,
        "exec_phase_events_checked": exec_events,
        "cases_by_kind": per_kind,
        "skipped": skipped,
        "natives_in_inventory": len(inv["natives"]),
        "definitions_in_inventory": len(inv["defs"]),
        "natives_and_definitions_exercised": len(fn_cov),
        "natives_without_row": miss,
        "semantic_observations": {"natives": obs_n, "with_effect": tight},
        "syscall_visible_effects_seen": exercised,
        "sentinel_dir_unchanged": before == after,
        "exhaustive": False,
    })
    ctx.assumptions += [
        "the effect rows (Effects.lean) are hand-written; that each native stays within its row is OBSERVED per run "
        "(strace of every native/definition with hostile arguments, in-process env/clock/cursor observation), not proved — "
        "the theorems lift the per-native rows to all programs and prove the monitor that judges the traces",
        "strace reports every system call of the traced classes (%file,%network,%process, read/write on fd 0/1/2) of the child "
        "and its descendants; reading the clock and the environment is not a system call (vDSO / memory) and is observed in-process",
        "third-party crates (jiff, saphyr-parser, xmlparser, ciborium-ll, toml-span, regex-lite, …) are exercised through the natives; "
        "jiff's time-zone look-up (directory walk of /usr/share/zoneinfo, readlink /etc/localtime) is the documented exception",
        "the execution phase of the CLI starts when the first command-line input is opened / standard input is first read",
        "the interactive `repl` filter (CLI) and `--in-place` are the documented exceptions and are not traced",
    ]


def _pub(case):
    c = {k: v for k, v in case.items() if k not in ("stdin", "asts")}
    if case.get("stdin") is not None:
        c["stdin_hex"] = case["stdin"].hex()
    return c


def _excerpt(r, k):
    """strace lines of the exec phase around the offending event"""
    start = 0
    for j, ev in enumerate(r["events"]):
        if ev == "M":
            start = j
            break
    lo = max(start, k - 6)
    return r["lines"][lo:k + 3]
