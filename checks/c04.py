"""C04 — tail-recursive definitions run in constant stack and constant memory (DESIGN §6 C04).

1. Translator: the definitions of the real defs.jq files, parsed by jaq's own parser, are written as
   Lean terms (Gen/C04Defs.lean); `builtin_loops_are_tailnests` is re-proved by `decide` over them.
2. Lean: Props/C04.lean (call classification of tail nests, every Throw is caught, trampoline /
   fold stack bounds, iterative list drop) is rebuilt and audited.
3. Correspondence (i): the Lean model of compile.rs vs the real compiler (hook `verif_terms`) on a
   systematic family of definition nests and seeded random nests: the whole term table, entry by
   entry (term ids, argument kinds, variable skips, CallType); the compiled standard library:
   sequence of all CallDefs.  Models of `Stack::next`/`size_hint` (flat and nested stacks), `fold`
   and `Drop for List` vs the real stack.rs / fold.rs / rc_lazy_list.rs on scripted iterators.
4. Runtime (what no model exhibits): every tail nest of the family and every built-in loop runs
   in a thread with a FIXED small stack at N and 2N iterations, for values, for paths and under
   first/limit/label, in a process with a counting allocator: must complete; peak live heap
   must not grow between N and 2N.
"""
import concurrent.futures
import os
import re
import subprocess

import verif

STACK_KIB = 256
HEAP_SLACK = 4096  # bytes of peak-live-heap growth tolerated between N and 2N


# --------------------------------------------------------------------------- family of nests
CTX = {
    # tail positions named by the property; `{}` is the hole
    "pipe": "(. | {})",
    "comma": "((.[]?), {})",
    "alt": "((.[]?) // {})",
    "as": "(. as $x | {})",
    "then": "(if 0 == 0 then {} else . end)",
    "else": "(if 0 != 0 then . else {} end)",
    "elif": "(if 0 != 0 then . elif 0 == 0 then {} else . end)",
    "foreach": "(foreach 1 as $x (.; .; {}))",
    "localdef": "(def h: .; {})",
    "nested": "(. as $x | if [$x] then ((.[]?) // (def h: .; (.[]?), {})) else . end)",
}
# positions that are NOT tail positions (controls: must be classified CatchAll and overflow)
NONTAIL = {
    "arith": "(0 + {})",
    "array": "([{}] | .[0])",
    "pipe-left": "({} | .)",
    "try": "(try {} catch .)",
    "label": "(label $l | {})",
    "reduce-upd": "(reduce 1 as $x (.; {}))",
    "alt-left": "({} // .)",
}

# kinds of recursion: how the recursive call edge reaches the enclosing definition.
# `{C}` = context around the recursive step, N = iteration count.  Input 0, output N.
KINDS = {
    "self": "def f: if . >= {N} then . else {C[(.+1 | f)]} end; 0 | f",
    "parent": "def f: def g: {C[(.+1 | f)]}; if . >= {N} then . else g end; 0 | f",
    "sibling": "def f: def g: if . >= {N} then . else (.+1 | f) end; {C[g]}; 0 | f",
    "nested-sibling": "def f: def g: def h: (.+1 | f); if . >= {N} then . else {C[h]} end; g; 0 | f",
    "sibling-chain": "def f: def g: (.+1 | f); def h: {C[g]}; if . >= {N} then . else h end; 0 | f",
    "grandparent": "def f: def g: def h: {C[(.+1 | f)]}; h; if . >= {N} then . else g end; 0 | f",
    "mutual": "def f: def g: if . >= {N} then . else {C[(.+1 | if (. % 2) == 0 then f else g end)]} end; g; 0 | f",
    "self-inner": "def f: def g: if . >= {N} then . else {C[(.+1 | g)]} end; g; 0 | f",
    "var-arg": "def f($n): if . >= $n then . else {C[(.+1 | f($n))]} end; 0 | f({N})",
    "var-arg-step": "def f($i): if $i >= {N} then $i else {C[f($i + 1)]} end; f(0)",
    "var-arg-parent": "def f($n): def g: if . >= $n then . else {C[(.+1 | f($n))]} end; g; 0 | f({N})",
    "two-args": "def f($n; $k): if . >= $n then . else {C[(.+$k | f($n; $k))]} end; 0 | f({N}; 1)",
    "fn-arg-inner": "def f(g): def r: if g then . else {C[(.+1 | r)]} end; r; 0 | f(. >= {N})",
    "fn-arg-passon": "def f(g): if g then . else {C[(.+1 | f(g))]} end; 0 | f(. >= {N})",
    "fn-arg-passon-parent": "def f(g): def r: if g then . else {C[(.+1 | f(g))]} end; r; 0 | f(. >= {N})",
    "generator": "def f: if . >= {N} then (.[]?) else ., {C[(.+1 | f)]} end; last(0 | f)",
    "module-def": "0 | m",  # with prelude
}
PRELUDE = {"module-def": "def m: if . >= {N} then . else {C[(.+1 | m)]} end;"}

# the same loops consumed in other ways (values / paths / first / limit / label)
MODES = {
    "first": "first({P})",
    "limit1": "limit(1; {P})",
    "label": "label $out | ({P}) | ., break $out",
    "last-limit": "last(limit(3; {P}))",
}
# loops run for paths (`.` instead of `.+1`: a path expression); they never end by themselves
PATH_KINDS = {
    "self": "last(limit({N}; path(def f: ., {C[f]}; f)))",
    "parent": "last(limit({N}; path(def f: def g: {C[f]}; ., g; f)))",
    "sibling": "last(limit({N}; path(def f: def g: ., f; {C[g]}; f)))",
    "fn-arg-inner": "last(limit({N}; path(def f(g): def r: g, {C[r]}; r; f(.))))",
}

BUILTINS = {
    # name: (filter, heap check?)
    "repeat": ("last(limit({N}; repeat(1)))", True),
    "repeat-state": ("last(limit({N}; 0 | repeat(.+1)))", True),
    "until": ("0 | until(. >= {N}; .+1)", True),
    "while": ("last(0 | while(. < {N}; .+1))", True),
    "recurse1": ("last(0 | recurse(if . < {N} then .+1 else empty end))", True),
    "recurse2": ("last(0 | recurse(.+1; . < {N}))", True),
    "recurse1-first": ("first(0 | recurse(.+1) | select(. >= {N}))", True),
    "recurse1-limit": ("last(limit({N}; 0 | recurse(.+1)))", True),
    "recurse1-label": ("label $out | 0 | recurse(.+1) | if . >= {N} then ., break $out else empty end", True),
    "range1": ("last(range({N}))", True),
    "range2": ("last(range(5; {N}))", True),
    "range3": ("last(range(0; {N}; 1))", True),
    "limit-range": ("last(limit({N}; range(0; infinite)))", True),
    "paths-repeat": ("last(limit({N}; path(repeat(.))))", True),
    "paths-recurse2": ("last(limit({N}; path(recurse(.; true))))", True),
    "paths-while": ("last(limit({N}; path(while(true; .))))", True),
    "paths-first-recurse": ("first(path(recurse(.; true)))", True),
    "reduce": ("reduce range({N}) as $x (0; . + $x)", True),
    "foreach2": ("last(foreach range({N}) as $x (0; . + $x))", True),
    "foreach3": ("last(foreach range({N}) as $x (0; . + $x; [.]))", True),
    "foreach-limit": ("last(limit({N}; foreach range(0; infinite) as $x (0; . + $x)))", True),
    # the whole memoised list of `xs` is alive while the second output of `init` is pending and
    # is dropped afterwards (`Drop for List`): heap O(N) by design, stack must stay constant
    "reduce-reread-drop": ("[reduce range({N}) as $x ((0, 1); . + $x)] | length", False),
    "foreach-reread-drop": ("[foreach range({N}) as $x ((0, 1); . + $x; select(. < 0))] | length", False),
    # `..` and recurse over a wide value (N nodes, depth 1): heap holds the input itself
    "dotdot-wide": ("[limit({n1k}; repeat(0))] | last(limit({N}; repeat(.) | ..))", True),
    "recurse0-wide": ("[limit({n1k}; repeat(0))] | last(limit({N}; repeat(.) | recurse))", True),
    "paths0": ("[limit({n1k}; repeat(0))] | last(limit({N}; repeat(.) | paths))", True),
}


def fill(tmpl, ctx, n):
    """`{C[x]}` -> context applied to x; `{N}` -> n"""
    out, i = "", 0
    while True:
        j = tmpl.find("{C[", i)
        if j < 0:
            out += tmpl[i:]
            break
        depth, k = 0, j + 3
        while not (tmpl[k] == "]" and tmpl[k + 1] == "}" and depth == 0):
            depth += tmpl[k] == "["
            depth -= tmpl[k] == "]"
            k += 1
        out += tmpl[i:j] + ctx.replace("{}", tmpl[j + 3:k])
        i = k + 2
    return out.replace("{N}", str(n)).replace("{n1k}", "1000")


def family():
    """[(id, prelude template, main template, expected tail nest?)] with `{N}` left open"""
    fam = []
    for kn, kt in KINDS.items():
        for cn, ct in CTX.items():
            fam.append(("%s/%s" % (kn, cn), fill(PRELUDE.get(kn, ""), ct, "{N}"), fill(kt, ct, "{N}"), True))
        for cn, ct in NONTAIL.items():
            if kn in ("self", "parent", "sibling", "var-arg", "module-def"):
                fam.append(("%s/non-tail-%s" % (kn, cn), fill(PRELUDE.get(kn, ""), ct, "{N}"), fill(kt, ct, "{N}"), False))
    for mn, mt in MODES.items():
        for kn in ("self", "nested-sibling", "var-arg-parent", "fn-arg-inner"):
            for cn in ("comma", "else", "foreach"):
                fam.append(("%s/%s/%s" % (kn, cn, mn), "", mt.replace("{P}", fill(KINDS[kn], CTX[cn], "{N}")), True))
    for kn, kt in PATH_KINDS.items():
        for cn, ct in CTX.items():
            fam.append(("paths-%s/%s" % (kn, cn), "", fill(kt, ct, "{N}"), True))
    return fam


def quick_subset(fid):
    """runtime probes of the quick tier: every tail position for the basic kinds of recursion, three
    positions for the others, fewer consumption modes (the thorough tier runs the whole family)"""
    p = fid.split("/")
    full = ("self", "sibling", "nested-sibling", "fn-arg-inner")
    if len(p) == 3:
        return p[0] in ("self", "var-arg-parent") and p[1] in ("comma", "foreach")
    if p[1].startswith("non-tail-"):
        return p[0] in ("self", "sibling")
    return p[0] in full or p[1] in ("pipe", "foreach", "nested")


# --------------------------------------------------------------------------- runtime probes
def probe(binp, filt, timeout):
    try:
        p = subprocess.run([binp, str(STACK_KIB), "1000000000", filt], stdout=subprocess.PIPE, stderr=subprocess.PIPE,
                           text=True, errors="replace", timeout=timeout)
    except subprocess.TimeoutExpired:
        return {"status": "TIMEOUT"}
    if p.returncode != 0:
        why = "stack overflow" if "overflowed its stack" in p.stderr else "killed"
        return {"status": "CRASH", "rc": p.returncode, "why": why}
    line = p.stdout.strip().splitlines()[-1] if p.stdout.strip() else ""
    f = dict(x.split("=", 1) for x in line.split(" ")[1:] if "=" in x)
    return {"status": line.split(" ")[0] if line else "NOOUT", "outputs": int(f.get("outputs", -1)),
            "peak": int(f.get("peak", -1)), "end": int(f.get("end", -1)), "last": f.get("last", ""), "raw": line[:200]}


def run_probes(ctx, jobs, n, timeout):
    """jobs: [(id, filter template with {N} already in prelude-inlined form)] -> {id: (res N, res 2N)}"""
    binp = os.path.join(verif.HARNESS, "target", "debug", "c04_alloc")
    res = {}
    try:
        workers = int(os.environ.get("VERIF_C04_WORKERS", ""))
    except ValueError:
        workers = min(8, os.cpu_count() or 4)
    with concurrent.futures.ThreadPoolExecutor(max_workers=max(1, workers)) as ex:
        futs = {}
        for jid, tmpl in jobs:
            for k in (1, 2):
                futs[ex.submit(probe, binp, tmpl.replace("{N}", str(n * k)), timeout)] = (jid, k)
        for fu in concurrent.futures.as_completed(futs):
            jid, k = futs[fu]
            res.setdefault(jid, {})[k] = fu.result()
    return res


def judge(r, heap=True):
    """None if the pair of runs (N, 2N) shows constant stack and memory, else (kind, description)"""
    for k in (1, 2):
        if r[k]["status"] == "CRASH":
            return ("stack" if r[k]["why"] == "stack overflow" else "crash",
                    "%s at %dN iterations in a %d KiB thread stack (exit status %s)" % (r[k]["why"], k, STACK_KIB, r[k]["rc"]))
        if r[k]["status"] == "TIMEOUT":
            return ("timeout", "no result within the time limit at %dN iterations" % k)
        if r[k]["status"] != "OK":
            return ("result", "unexpected result at %dN: %s" % (k, r[k].get("raw", r[k]["status"])))
    if heap and r[2]["peak"] - r[1]["peak"] > HEAP_SLACK:
        return ("heap", "peak live heap grows with the iteration count: %d bytes at N, %d bytes at 2N" % (r[1]["peak"], r[2]["peak"]))
    if r[2]["end"] > HEAP_SLACK:
        return ("heap", "heap still live after the run: %d bytes" % r[2]["end"])
    return None


# --------------------------------------------------------------------------- the check
def run(ctx):
    thorough = ctx.tier == "thorough"
    n_iter = 1000000 if thorough else 100000
    ctx.build_harness()

    # 1. translator
    gen = ctx.harness(["c04", "defs"])
    if "def prelude" not in gen:
        raise verif.CheckError("translator printed no definitions")
    changed = ctx.write_gen("C04Defs", gen)
    ctx.log("translator: Gen/C04Defs.lean %s (%d definitions)" % ("rewritten" if changed else "unchanged", gen.count(" : DefS := ")))
    ctx.build_model()

    # 2. proofs
    proof = ctx.lean_check()
    ctx.log("lean:", "ok" if proof["ok"] else "BROKEN", len(proof["theorems"]), "theorems")

    # built-in definitions that are not tail nests (model side), loops among them are violations
    nontail = ctx.model(["c04.builtin_nontail"])[0].split()
    loops = ["repeat/1", "recurse/1", "recurse/0", "recurse/2", "while/2", "until/2", "range/1", "range/2", "paths/0", "paths/1"]
    bad_loops = [d for d in nontail if d in loops]

    # 3a. call classification: family + random nests
    fam = family()
    small = "\n".join("%s\t%s\t%s" % (fid, pre.replace("{N}", "7"), main.replace("{N}", "7")) for fid, pre, main, _ in fam) + "\n"
    nrand = 30000 if thorough else 4000
    out = ctx.harness(["c04", "calls", str(nrand)], input=small)
    cases = [l.split("\t") for l in out.splitlines() if l]
    cases = [c for c in cases if len(c) == 5]
    usable, skipped = [], []
    for c in cases:
        if c[2] == "-" or c[3].startswith("ERR") or c[3].startswith("PARSE") or c[3].startswith("TRANSLATOR"):
            skipped.append(c)
            if c[3].startswith("TRANSLATOR"):
                raise verif.CheckError("translator self-test failed on generated nest %s: %s" % (c[0], c[4][:300]))
        else:
            usable.append(c)
    fam_ids = {f[0] for f in fam}
    fam_skipped = [c for c in skipped if c[0] in fam_ids]
    if fam_skipped:
        raise verif.CheckError("family nest does not compile: %s %s" % (fam_skipped[0][0], fam_skipped[0][3]))
    corr = [(c[0], c[2] if c[1] == "1" else c[2].replace("c04.compile", "c04.callseq", 1), c[3]) for c in usable]
    text = {c[0]: c[4] for c in usable}

    def classify(cid, req, real, model):
        return "calls:%s" % (cid if cid in fam_ids else text[cid][:160])

    reqs = [c[1] for c in corr]
    ans = ctx.model(reqs)
    bad = 0
    for (cid, req, real), m in zip(corr, ans):
        if real != m:
            bad += 1
            if bad <= 10:
                ctx.violation(classify(cid, req, real, m),
                              "compile.rs and its proved model classify the calls of a definition nest differently "
                              "(model: every tail nest gets Throw/CatchOne/Inline, never CatchAll)",
                              {"case_id": cid, "program": text[cid], "request": req, "real_table": real, "model_table": m},
                              broken=["correspondence c04-calls", "tailnest_calls_throw"])
    ctx.log("call classification: %d nests (%d family, %d exact tables), %d disagreements, %d skipped"
            % (len(corr), len([c for c in corr if c[0] in fam_ids]), len([c for c in usable if c[1] == "1"]), bad, len(skipped)))

    # the theorem on the real output: a tail nest (as the model judges the source) has no CatchAll
    specs = ctx.model([c[2].replace("c04.compile", "c04.spec", 1) for c in usable])
    tn_narrow = tn_wide = tn_bad = 0
    accepted = {}
    for c, s in zip(usable, specs):
        narrow, wide = s.split(" ")
        accepted[c[0]] = narrow == "true"
        tn_narrow += narrow == "true"
        tn_wide += wide == "true"
        if wide == "true" and "CatchAll" in c[3]:
            tn_bad += 1
            ctx.violation("tailnest-catchall:%s" % (c[0] if c[0] in fam_ids else c[4][:160]),
                          "a tail nest is compiled with a CatchAll call (re-enters natively)",
                          {"case_id": c[0], "program": c[4], "real_table": c[3]}, broken=["tailnest_calls_throw"])
    for fid, pre, main, expect in fam:
        if accepted.get(fid) != expect:
            raise verif.CheckError("family nest %s: TailNest verdict %s, expected %s" % (fid, accepted.get(fid), expect))

    # 3b. compiled standard library: every CallDef
    bl = dict(l.split("\t", 1) for l in ctx.harness(["c04", "builtins"]).splitlines() if "\t" in l)
    if "SEQ" not in bl:
        raise verif.CheckError("standard library does not compile: %s" % bl)
    mseq = ctx.model(["c04.builtin_calls"])[0]
    ncalls = len(bl["SEQ"].split(","))
    if mseq != bl["SEQ"]:
        a, b = bl["SEQ"].split(","), mseq.split(",")
        k = next((i for i in range(min(len(a), len(b))) if a[i] != b[i]), min(len(a), len(b)))
        ctx.violation("builtins-calls", "call classification of the compiled standard library differs from the model",
                      {"first_difference_at_call": k, "real": a[max(0, k - 3):k + 3], "model": b[max(0, k - 3):k + 3]},
                      broken=["correspondence c04-builtins", "builtin_loops_are_tailnests"])
    ctx.log("standard library: %d CallDefs compared; not tail nests: %s" % (ncalls, nontail))

    # 3c. Stack::next
    nst = 20000 if thorough else 3000
    st = [l.split("\t") for l in ctx.harness(["c04", "stack", str(nst)]).splitlines() if l]
    st_bad = verif.diff_corr(ctx, [(c[0], c[1], c[2]) for c in st], "c04-stack",
                             lambda cid, req, real, m: "stack:" + req)
    ctx.log("Stack::next traces: %d scripts, %d disagreements" % (len(st), st_bad))

    # 3d. a Stack of Stacks: Stack::size_hint (be431db) vs Stack.hintZero (mutual_trampoline_bounded)
    nst2 = 20000 if thorough else 3000
    st2 = [l.split("\t") for l in ctx.harness(["c04", "nstack", str(nst2)]).splitlines() if l]
    st2_bad = verif.diff_corr(ctx, [(c[0], c[1], c[2]) for c in st2], "c04-nstack",
                              lambda cid, req, real, m: "nstack:" + req)
    nested_live = len([c for c in st2 if any("/" in t and not t.endswith("/0") for t in c[2].split(" "))])
    ctx.log("nested Stack traces: %d scripts (%d with a live nested stack after a pull), %d disagreements"
            % (len(st2), nested_live, st2_bad))

    # 3d'. the adapters of `,`: real once/Chain/once_with().flatten() vs the model `Ad` (trampoline_bounded_comma_shapes)
    ad = [l.split("\t") for l in ctx.harness(["c04", "adapters", "20000" if thorough else "3000"]).splitlines() if l]
    ad_bad = verif.diff_corr(ctx, [(c[0], c[1], c[2]) for c in ad], "c04-adapters",
                             lambda cid, req, real, m: "adapters:" + req)
    ctx.log("adapter traces: %d terms (%d distinct), %d disagreements" % (len(ad), len({c[1] for c in ad}), ad_bad))

    # 3e. run-time tie of fold.rs / rc_lazy_list.rs: the REAL source files (compiled into
    #     harness/src/bin/c04_rt.rs) on seeded scripted inputs vs `Fold.turn` / `LL.iterDrop`
    rt_bin = os.path.join(verif.HARNESS, "target", "debug", "c04_rt")   # built by ctx.build_harness()

    def c04_rt(args):
        p = subprocess.run([rt_bin] + args, timeout=900,
                           env={**os.environ, **verif.OFFLINE_ENV, "VERIF_SEED": str(ctx.seed), "VERIF_TIER": ctx.tier},
                           stdout=subprocess.PIPE, stderr=subprocess.PIPE, text=True, errors="replace")
        if p.returncode != 0:
            raise verif.CheckError("c04_rt %s failed (%d): %s" % (args, p.returncode, p.stderr[-3000:]))
        cases = [tuple(l.split("\t")) for l in p.stdout.splitlines() if l]
        broken = [c for c in cases if len(c) != 3 or "BUG-probe" in c[2]]
        if broken or not cases:
            raise verif.CheckError("c04_rt %s: instrumentation broken: %r" % (args, broken[:3]))
        return cases

    nfold, nll = (20000, 3000) if thorough else (2000, 500)
    fo = c04_rt(["fold", str(nfold)])
    fo_bad = verif.diff_corr(ctx, fo, "c04-fold", lambda cid, req, real, m: "fold:" + req)
    ll = c04_rt(["lldrop", str(nll)])
    ll_bad = verif.diff_corr(ctx, ll, "c04-lldrop", lambda cid, req, real, m: "lldrop:" + req)
    ctx.log("fold traces: %d cases, %d disagreements; Drop for List: %d chains (longest %d nodes), %d disagreements"
            % (len(fo), fo_bad, len(ll),
               max(sum(int(t.split("x")[1]) for t in c[1].split()[1:-1]) + 1 for c in ll), ll_bad))
    ctx.coverage.update({
        "fold_cases": len(fo), "fold_distinct_traces": len({c[2] for c in fo}),
        "fold_pulls": sum(len(c[2].split()) for c in fo),
        "fold_modes": {m: sum(1 for c in fo if c[1].split()[1] == m) for m in "123"},
        "fold_cases_yielding_error": sum(1 for c in fo if re.search(r">e\d", c[2])),
        "fold_max_stack": max(int(x) for c in fo for x in re.findall(r"#(\d+),", c[2])),
        "lldrop_cases": len(ll), "lldrop_distinct_traces": len({c[2] for c in ll}),
        "lldrop_nothing_freed": sum(1 for c in ll if " f0 " in c[2]),
    })

    # 4. runtime
    jobs, need = [], {}
    for fid, pre, main, expect in fam:
        if not thorough and not quick_subset(fid):
            continue
        jobs.append((fid, (pre + " " + main).strip()))
        need[fid] = (expect, True)
    for bn, (bt, heap) in BUILTINS.items():
        jobs.append(("builtin/" + bn, bt.replace("{n1k}", "1000")))
        need["builtin/" + bn] = (True, heap)
    res = run_probes(ctx, jobs, n_iter, 7200 if thorough else 1800)  # generous: the verdict is stack/heap, never time
    rt_bad, controls_ok, controls = 0, 0, 0
    samples = []
    templates = dict(jobs)
    for jid, r in sorted(res.items()):
        must, heap = need[jid]
        why = judge(r, heap)
        if must:
            if why:
                rt_bad += 1
                ctx.violation("runtime:%s:%s" % (jid, why[0]),
                              "tail-recursive nest `%s` does not run in constant stack and memory: %s" % (jid, why[1]),
                              {"filter": templates[jid].replace("{N}", str(n_iter)), "N": n_iter, "stack_KiB": STACK_KIB,
                               "at_N": r[1], "at_2N": r[2],
                               "replay": "harness/target/debug/c04_alloc %d 1000000000 '<filter>'" % STACK_KIB},
                              broken=["runtime C04"])
            elif len(samples) < 4:
                samples.append({"nest": jid, "filter": templates[jid].replace("{N}", str(n_iter)), "at_N": r[1]["raw"], "at_2N": r[2]["raw"]})
        else:
            controls += 1
            controls_ok += why is not None
    ctx.log("runtime: %d nests x (N=%d, 2N) in %d KiB stack; %d violations; controls (non-tail recursion) detected: %d/%d"
            % (len(res), n_iter, STACK_KIB, rt_bad, controls_ok, controls))
    if controls and controls_ok == 0:
        raise verif.CheckError("runtime probe is insensitive: no non-tail-recursive control overflowed")

    for d in bad_loops:
        ctx.violation("builtin-loop-not-tail:" + d, "built-in loop %s is no longer defined tail-recursively" % d,
                      {"definition": d, "see": "lean/JaqVerif/Gen/C04Defs.lean"}, broken=["builtin_loops_are_tailnests"])

    kinds = {}
    for fid, _, _, _ in fam:
        kinds[fid.split("/")[0]] = kinds.get(fid.split("/")[0], 0) + 1
    ctx.coverage.update({
        "evaluations": len(corr) + len(st) + len(st2) + len(ad) + len(fo) + len(ll) + 2 * len(res) + ncalls,
        "distinct_nontrivial": len({c[1] for c in corr if "C" in c[2]}) + len({c[1] for c in st}) + len({c[1] for c in st2}) + len({c[1] for c in ad}) + len({c[2] for c in fo}) + len({c[2] for c in ll}) + len(res),
        "rule": "call-classification cases whose real table contains at least one CallDef (distinct requests) + distinct "
                "Stack scripts (flat and nested) + distinct adapter terms + distinct fold / list-drop traces + runtime nests (each run at N and 2N iterations)",
        "samples": samples + [{"nest": c[0], "program": text[c[0]][:200], "real_table": c[2][:200]} for c in corr[:2]],
        "traces_validated_against_impl": len(corr) + len(st) + len(st2) + len(ad) + len(fo) + len(ll),
        "adapter_terms": len(ad),
        "nested_stack_scripts": len(st2), "nested_stack_scripts_with_live_inner_stack": nested_live,
        "family_kinds": kinds, "family_size": len(fam), "random_nests": nrand,
        "exact_tables": len([c for c in usable if c[1] == "1"]),
        "tail_nests_narrow": tn_narrow, "tail_nests_wide": tn_wide,
        "nests_with_catchall": len([c for c in usable if "CatchAll" in c[3]]),
        "nests_with_throw": len([c for c in usable if "Throw" in c[3]]),
        "stdlib_calldefs": ncalls, "stdlib_not_tailnest": nontail,
        "runtime": {"N": n_iter, "stack_KiB": STACK_KIB, "heap_slack_bytes": HEAP_SLACK, "nests": len(res),
                    "violations": rt_bad, "controls_detected": "%d/%d" % (controls_ok, controls)},
        "disagreements": bad + st_bad + st2_bad + ad_bad + fo_bad + ll_bad,
        "exhaustive": False,
    })
    ctx.assumptions += [
        "Lean model C04/Tco.lean written by hand from jaq-core/src/compile.rs; tied on every run by comparing whole term tables "
        "(hook Filter::verif_terms) on the family + seeded random nests, and all CallDefs of the compiled standard library",
        "C04/Stack.lean + C04/Nest.lean model Stack::next / Stack::size_hint / fold / Drop for List over abstract iterators; all four are "
        "tied by traces of the real source files (stack.rs, fold.rs, rc_lazy_list.rs compiled into the harness from the repo's "
        "working tree) on seeded scripted iterators: flat stacks, stacks of stacks, the three instantiations of fold, list chains "
        "with shared nodes; once_cell::unsync::Lazy is replaced by a stand-in with the same API (harness/src/bin/c04_rt.rs) whose "
        "Drop is the node probe",
        "C04/Run.lean (MayThrow: which constructs hand Err(TailCall) items on, which frames take them) is a may-semantics of "
        "filter.rs written by hand; values are abstracted; tied to the code by the runtime probes (an escaping TailCall is a RUNERR)",
        "trampoline_bounded/_tailLast assume the residual after a tail call reports size_hint() == (0, Some(0)); proved for the "
        "Once/Chain/lazy adapters of `,` as modelled after the standard library sources and compared with the real adapters on seeded "
        "terms (trampoline_bounded_comma_shapes); for other "
        "combinators (FlatMap, fold's from_fn) it is what the runtime probe measures (live heap at N vs 2N)",
        "native stack bytes and allocator behaviour are measured (256 KiB thread stack, counting global allocator), not proved",
        "translator: constructs that compile all sub-terms with empty tr (strings, objects, paths, destructuring patterns) are "
        "mapped to the n-ary non-tail node; table indices are then inexact and only the CallDef sequence is compared",
    ]
