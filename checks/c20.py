"""C20 — date and time filters agree with the Gregorian calendar and invert each other (DESIGN §6 C20).

1. Lean: Props/C20.lean (independent proleptic Gregorian calendar: days<->civil inverse on ALL
   integers; weekday/yearday; `gmtime` = that calendar for every epoch the code accepts;
   `gmtime|mktime`, `todate|fromdate` round trips; rejection of out-of-range / non-finite /
   malformed inputs — each false statement as `_partial` + a witness theorem) is rebuilt and audited.
2. Correspondence: the real filters `gmtime`, `mktime`, `todate`, `fromdate`, `gmtime|mktime`,
   `todate|fromdate` (harness, every evaluation under catch_unwind) against the Lean impl-model of
   jaq-std/src/time.rs on the edge set + seeded random inputs (floats bit for bit).
3. Property oracle on the real answers alone, with an independent calendar (Python `datetime`
   shifted by whole 400-year eras): accepted instants are the right ones, instants with UTC year in
   -9998..9998 are accepted, everything out of range / non-finite / malformed is an error (never a
   panic, never another instant), round trips return the original instant.
4. `strftime(F)|strptime(F)|mktime` on complete formats (real code only).
5. strftime / strptime model (JaqVerif/C20/Strtime.lean) against the real code (pysupport/c20_strtime.py):
   correspondence `c20 fmtcorr`, and the table of real single-directive renderings regenerated into
   Gen/C20Strtime.lean and re-proved (Lemmas/C20Strtime.lean; general round-trip theorem there).
"""
import datetime
import struct
from fractions import Fraction

import verif
import os, sys
sys.path.insert(0, os.path.join(verif.VERIF, "pysupport"))
import c20_strtime

SEC_MIN = -377705023201          # -9999-01-02T01:59:59Z  (jiff Timestamp::MIN)
SEC_MAX = 253402207200           #  9999-12-30T22:00:00Z  (jiff Timestamp::MAX, whole seconds)
Y_LO = -377673580800             # -9998-01-01T00:00:00Z
Y_HI = 253370764800              #  9999-01-01T00:00:00Z  (first instant after year 9998)
D2000 = 10957                    # days from 1970-01-01 to 2000-01-01


# ----------------------------------------------------------------------------- independent calendar
def civil_from_days(n):
    """(y, m, d, weekday Sunday=0, yearday from 0) of day n since 1970-01-01 — Python's datetime,
    moved into its range by whole 400-year eras (146097 days = 20871 weeks)."""
    era, r = divmod(n - D2000, 146097)
    d = datetime.date(2000, 1, 1) + datetime.timedelta(days=r)
    return d.year + 400 * era, d.month, d.day, d.isoweekday() % 7, d.timetuple().tm_yday - 1


def days_from_civil(y, m, d):
    era, yy = divmod(y - 2000, 400)
    return (datetime.date(2000 + yy, m, d) - datetime.date(2000, 1, 1)).days + D2000 + 146097 * era


def days_in_month(y, m):
    yy = 2000 + (y - 2000) % 400
    nxt = datetime.date(yy + (m == 12), m % 12 + 1, 1)
    return (nxt - datetime.date(yy, m, 1)).days


assert civil_from_days(0) == (1970, 1, 1, 4, 0) and days_from_civil(1970, 1, 1) == 0
assert civil_from_days(Y_LO // 86400)[:3] == (-9998, 1, 1) and civil_from_days(Y_HI // 86400)[:3] == (9999, 1, 1)


# ----------------------------------------------------------------------------- VX
def vx_dec(toks):
    t = toks.pop(0)
    h, r = t[0], t[1:]
    if h == "N":
        return None
    if h in "TF":
        return h == "T"
    if h in "IG":
        return ("int", int(r))
    if h == "D":
        return ("float", struct.unpack(">d", bytes.fromhex(r))[0])
    if h == "L":
        return ("dec", bytes.fromhex(r).decode())
    if h == "S":
        return ("str", bytes.fromhex(r))
    if h == "B":
        return ("bytes", bytes.fromhex(r))
    if h == "A":
        return [vx_dec(toks) for _ in range(int(r))]
    if h == "O":
        return {"obj": [(vx_dec(toks), vx_dec(toks)) for _ in range(int(r))]}
    raise verif.CheckError("bad VX token " + t)


def vx(s):
    return vx_dec(s.split())


def to_jq(v):
    """jq source text of a decoded VX value (for the replay command line)."""
    if v is None:
        return "null"
    if v is True or v is False:
        return "true" if v else "false"
    if isinstance(v, list):
        return "[" + ",".join(to_jq(x) for x in v) + "]"
    if isinstance(v, dict):
        return "{" + ",".join("(%s):%s" % (to_jq(k), to_jq(x)) for k, x in v["obj"]) + "}"
    k, x = v
    if k == "int":
        return str(x)
    if k == "float":
        if x != x:
            return "nan"
        if x in (float("inf"), float("-inf")):
            return "infinite" if x > 0 else "(-infinite)"
        return repr(x)
    if k == "dec":
        return x
    if k == "str":
        import json
        return json.dumps(x.decode("utf-8", "replace"))
    return "(%s|tobytes)" % list(x)


def num_exact(v):
    """exact rational value of a decoded numeric result, None if not a finite number"""
    if isinstance(v, tuple) and v[0] == "int":
        return Fraction(v[1])
    if isinstance(v, tuple) and v[0] == "float" and v[1] == v[1] and abs(v[1]) != float("inf"):
        return Fraction(v[1])
    return None


def ulp(x):
    import math
    return Fraction(math.ulp(float(x)))


def us_resolution(t):
    """k if the exact value t is the double nearest to k micro-seconds and doubles of that size
    resolve a quarter of a micro-second (|t| < 2^31 s), else None"""
    k = round(t * 10**6)
    if abs(t) < 2**31 and Fraction(float(Fraction(k, 10**6))) == t:
        return k
    return None


def same_instant(got, t):
    """is the answer `got` the instant `t`?  Integers: exactly.  Fractional instants written at
    micro-second resolution: the same micro-second.  Other fractional instants: within two
    micro-seconds (two truncating conversions) plus float resolution."""
    if got is None:
        return False
    if t.denominator == 1:
        return got == t
    k = us_resolution(t)
    if k is not None:
        return round(got * 10**6) == k
    return abs(got - t) <= Fraction(2, 10**6) + 2 * ulp(t)


# ----------------------------------------------------------------------------- oracles
class Oracle:
    def __init__(self, ctx):
        self.ctx = ctx
        self.count = 0
        self.bad = {}
        self.cats = {}

    def cat(self, c):
        self.cats[c] = self.cats.get(c, 0) + 1

    def fail(self, key, what, case):
        self.bad[key] = self.bad.get(key, 0) + 1
        if self.bad[key] <= 3:
            self.ctx.violation(key, what, case)

    def case(self, cid, req, real, meta):
        op = req.split(" ")[0][4:]
        inp = vx(req.split(" ", 2)[2])
        return {"case_id": cid, "filter": OPS[op], "input": to_jq(inp), "real": real, "meta": meta,
                "repro": "jaq -n '%s | %s'" % (to_jq(inp), OPS[op])}

    def instant_of_bdt(self, a):
        """exact instant (Fraction seconds) denoted by a broken-down array answer, after checking the
        derived fields weekday / yearday; None if the array is not a coherent UTC time"""
        if not (isinstance(a, list) and len(a) == 8):
            return None
        ints = [a[i] for i in (0, 1, 2, 3, 4, 6, 7)]
        if not all(isinstance(x, tuple) and x[0] == "int" for x in ints):
            return None
        y, mo, d, h, mi, wd, yd = [x[1] for x in ints]
        s = num_exact(a[5])
        if s is None or not (0 <= mo <= 11 and 1 <= d <= days_in_month(y, mo + 1) and 0 <= h <= 23 and 0 <= mi <= 59 and 0 <= s < 60):
            return None
        n = days_from_civil(y, mo + 1, d)
        if civil_from_days(n) != (y, mo + 1, d, wd, yd):
            return None
        return n * 86400 + h * 3600 + mi * 60 + s

    def epoch_case(self, cid, op, req, real, meta):
        kind = meta.get("kind")
        c = lambda: self.case(cid, req, real, meta)
        rk = real[:1]
        if kind == "nonnum":
            self.cat("non-number")
            if rk != "E":
                self.fail("c20-oracle:%s:non-number-accepted" % op, "a non-numeric input is not rejected by `%s`" % OPS[op], c())
            return
        if kind == "int":
            t = Fraction(int(meta["sec"]))
            finite = True
        elif kind == "float":
            f = struct.unpack(">d", bytes.fromhex(meta["bits"]))[0]
            finite = f == f and abs(f) != float("inf")
            t = Fraction(f) if finite else None
        else:
            return
        if not finite:
            self.cat("non-finite")
            if rk == "V":
                self.fail("F-20b:non-finite-epoch-accepted", "a non-finite epoch is answered with an instant instead of an error", c())
            elif rk != "E":
                self.fail("c20-oracle:%s:non-finite-panics" % op, "a non-finite epoch panics", c())
            return
        must_accept = Y_LO <= t < Y_HI
        must_reject = not (-377705116800 <= t < 253402300800)       # outside the years -9999..9999
        self.cat("year -9998..9998" if must_accept else "out of range" if must_reject else "range margin")
        if rk == "P":
            if real == "P mul":
                self.fail("F-20a:epoch-i64-mul-overflow", "`i as i64 * 1000000` overflows: panic with overflow checks, wrapped instant without", c())
            else:
                self.fail("c20-oracle:%s:panic" % op, "`%s` panics" % OPS[op], c())
            return
        if rk == "E":
            if must_accept:
                self.fail("c20-oracle:%s:in-range-rejected" % op, "an epoch with UTC year in -9998..9998 is rejected", c())
            return
        if rk != "V":
            self.fail("c20-oracle:%s:odd-outcome" % op, "unexpected outcome", c())
            return
        if must_reject:
            self.fail("c20-oracle:%s:out-of-range-accepted" % op, "an epoch outside the years -9999..9999 is answered with an instant", c())
            return
        res = vx(real[2:])
        frac = t.denominator != 1
        tol = 0 if not frac else max(Fraction(1, 1000000), 2 * ulp(t))
        if op == "gmtime":
            got = self.instant_of_bdt(res)
            if got is None:
                self.fail("c20-oracle:gmtime:incoherent-array", "gmtime answers an array that is not a coherent Gregorian UTC time (fields, weekday or yearday)", c())
            elif abs(got - t) > tol + (Fraction(1, 10**9) if frac else 0):
                self.fail("c20-oracle:gmtime:wrong-instant", "gmtime answers a different instant", c())
        elif op == "todate":
            got = parse_rfc3339(res)
            if got is None:
                self.fail("c20-oracle:todate:not-rfc3339", "todate prints text that is not RFC 3339", c())
            elif abs(got - t) > tol:
                self.fail("c20-oracle:todate:wrong-instant", "todate prints a different instant", c())
        else:   # round trips
            got = num_exact(res)
            if not same_instant(got, t):
                if op == "gm_mk" and frac and t < 0 and got is not None and got.denominator == 1:
                    self.fail("F-20c:negative-fractional-mktime-truncates",
                              "`mktime` of a negative fractional instant drops the fraction (`subsec_nanosecond() > 0` is false for negative instants)", c())
                elif frac and got is not None and abs(got - t) < Fraction(3, 10**6):
                    self.fail("F-20f:fractional-seconds-lose-a-microsecond",
                              "`%s` of a fractional epoch written at micro-second resolution returns the previous micro-second "
                              "(`(f * 1e6) as i64` and `(sec.fract() * 1e9) as i32` truncate instead of rounding)" % OPS[op], c())
                else:
                    self.fail("c20-oracle:%s:roundtrip" % op, "`%s` does not return the original instant" % OPS[op], c())

    def mktime_case(self, cid, req, real, meta):
        c = lambda: self.case(cid, req, real, meta)
        a = vx(req.split(" ", 2)[2])
        rk = real[:1]
        verdict, expect = judge_array(a)
        self.cat("array " + verdict)
        if rk == "P":
            if real == "P add":
                self.fail("F-05b:mktime-month-plus-one-overflow", "`i8(month)? + 1` overflows for month 127: panic with overflow checks", c())
            else:
                self.fail("c20-oracle:mktime:panic", "mktime panics", c())
            return
        if verdict == "malformed":
            if rk == "V":
                secs = a[5] if isinstance(a, list) and len(a) > 5 else None
                if isinstance(secs, tuple) and secs[0] == "float" and secs[1] != secs[1]:
                    self.fail("F-20d:nan-seconds-accepted", "a broken-down time with NaN seconds is answered with an instant (`NaN as i8 = 0`)", c())
                else:
                    self.fail("c20-oracle:mktime:malformed-accepted", "a malformed broken-down array is answered with an instant", c())
            return
        if verdict == "valid":
            if rk == "E":
                if Y_LO <= expect < Y_HI:
                    self.fail("c20-oracle:mktime:valid-rejected", "a valid broken-down time with year in -9998..9998 is rejected", c())
                return
            got = num_exact(vx(real[2:]))
            frac = expect.denominator != 1
            if not same_instant(got, expect):
                if frac and expect < 0 and got is not None and got.denominator == 1:
                    self.fail("F-20c:negative-fractional-mktime-truncates",
                              "`mktime` of a negative fractional instant drops the fraction (`subsec_nanosecond() > 0` is false for negative instants)", c())
                elif frac and got is not None and abs(got - expect) < Fraction(3, 10**6):
                    self.fail("F-20f:fractional-seconds-lose-a-microsecond",
                              "`mktime` of fractional seconds returns the previous micro-second (`(sec.fract() * 1e9) as i32` truncates)", c())
                else:
                    self.fail("c20-oracle:mktime:wrong-instant", "mktime answers a different instant", c())

    def fromdate_case(self, cid, req, real, meta):
        c = lambda: self.case(cid, req, real, meta)
        kind = meta.get("kind")
        rk = real[:1]
        if rk == "P":
            self.fail("c20-oracle:fromdate:panic", "fromdate panics", c())
            return
        if kind == "nonstr":
            self.cat("fromdate non-string")
            if rk != "E":
                self.fail("c20-oracle:fromdate:non-string-accepted", "fromdate accepts a non-string", c())
            return
        if kind == "iso":
            variant = meta["variant"]
            self.cat("iso " + variant)
            expect = Fraction(int(meta["expect_ns"]), 10**9)
            if rk == "E":
                if variant in ("z", "offset", "frac-pad9"):
                    self.fail("c20-oracle:fromdate:rfc3339-rejected", "fromdate rejects an RFC 3339 text of an instant in range", c())
                return
            got = num_exact(vx(real[2:]))
            if not (same_instant(got, expect) or (got is not None and abs(got - expect) < Fraction(1, 10**6) + 2 * ulp(expect))):
                if variant == "comma":
                    self.fail("F-20e:fromdate-comma-fraction-truncated",
                              "fromdate accepts an ISO 8601 text with a decimal comma but drops the fraction (`s.contains('.')`)", c())
                else:
                    self.fail("c20-oracle:fromdate:wrong-instant:" + variant, "fromdate answers a different instant than the text denotes", c())
            return
        # raw texts: compare with Python's own ISO 8601 reader where it accepts the text
        self.cat("iso raw")
        if rk == "V":
            text = meta.get("text", "")
            try:
                d = datetime.datetime.fromisoformat(text)
            except ValueError:
                return
            if d.tzinfo is None or ":60" in text:
                return
            exp = Fraction((d - datetime.datetime(1970, 1, 1, tzinfo=datetime.timezone.utc)) // datetime.timedelta(microseconds=1), 10**6)
            got = num_exact(vx(real[2:]))
            if got is None or abs(got - exp) > Fraction(1, 10**6):
                self.fail("c20-oracle:fromdate:differs-from-python", "fromdate and Python's datetime.fromisoformat read different instants", c())


def parse_rfc3339(v):
    """instant (Fraction) of the RFC 3339 text that `todate` printed, read independently"""
    import re
    if not (isinstance(v, tuple) and v[0] == "str"):
        return None
    m = re.fullmatch(rb"(-00\d{4}|\d{4})-(\d\d)-(\d\d)T(\d\d):(\d\d):(\d\d)(?:\.(\d{1,9}))?Z", v[1])
    if not m:
        return None
    ys = m.group(1).decode()
    y = -int(ys[1:]) if ys[0] == "-" else int(ys)
    mo, d, h, mi, s = (int(m.group(i)) for i in range(2, 7))
    if not (1 <= mo <= 12 and 1 <= d <= days_in_month(y, mo) and h < 24 and mi < 60 and s < 60):
        return None
    fr = m.group(7)
    f = Fraction(int(fr), 10 ** len(fr)) if fr else 0
    return days_from_civil(y, mo, d) * 86400 + h * 3600 + mi * 60 + s + f


def judge_array(a):
    """('malformed'|'valid'|'dontcare', instant) of a mktime input, judged independently of jaq"""
    if not isinstance(a, list) or len(a) < 6:
        return "malformed", None
    f = a[:6]
    if not all(isinstance(x, tuple) and x[0] in ("int", "float", "dec") for x in f):
        return "malformed", None
    if any(x[0] == "dec" for x in f):
        return "dontcare", None
    sec = f[5]
    if sec[0] == "float" and (sec[1] != sec[1] or abs(sec[1]) == float("inf")):
        return "malformed", None
    s = Fraction(sec[1])
    if any(x[0] != "int" for x in f[:5]):
        # 2024.0 is not an integer representation: rejecting and accepting are both defensible,
        # but a fractional field is malformed
        return ("malformed" if any(x[0] == "float" and x[1] != int(x[1]) for x in f[:5]) else "dontcare"), None
    y, mo, d, h, mi = (x[1] for x in f[:5])
    if not (-9999 <= y <= 9999 and 0 <= mo <= 11 and 0 <= h <= 23 and 0 <= mi <= 59) or s < 0 or s >= 61:
        return "malformed", None
    if not 1 <= d <= days_in_month(y, mo + 1):
        return "malformed", None
    if s >= 60:
        return "dontcare", None          # leap second: rejecting is fine
    return "valid", days_from_civil(y, mo + 1, d) * 86400 + h * 3600 + mi * 60 + s


OPS = {"gmtime": "gmtime", "mktime": "mktime", "todate": "todate", "fromdate": "fromdate",
       "gm_mk": "gmtime | mktime", "to_from": "todate | fromdate"}

COMPLETE_FORMATS = ["%Y-%m-%dT%H:%M:%SZ", "%F %T", "%s", "%d/%m/%Y %H.%M.%S", "%Y-%j %T", "%a, %d %b %Y %H:%M:%S %z",
                    "%A %B %e %Y %I:%M:%S %p", "%FT%T%:z", "%G-W%V-%u %T"]


def run(ctx):
    ctx.build_harness()
    ctx.build_model()
    # strftime / strptime: correspondence with the model + regeneration of Gen/C20Strtime.lean
    # (before the proof build, which re-proves the table lemma)
    strtime_stats = c20_strtime.run_strtime(ctx, "c20f." if os.environ.get("C20_MODEL") == "fixed" else "c20.")
    proof = ctx.lean_check(modules=["JaqVerif.Props.C20", "JaqVerif.Lemmas.C20Strtime"])
    ctx.log("lean:", "ok" if proof["ok"] else "BROKEN", len(proof["theorems"]), "theorems")

    out = ctx.harness(["c20", "gen"])
    cases = [l.split("\t") for l in out.splitlines() if l]
    cases = [c for c in cases if len(c) == 4]
    if len(cases) < 1000:
        raise verif.CheckError("harness produced only %d cases" % len(cases))

    # ---- correspondence (C20_MODEL=fixed compares with the model of the fully repaired code,
    #      `Fixes.all`, without editing `treeFixes`: a developer aid for trying the fix diffs)
    prefix = "c20f." if os.environ.get("C20_MODEL") == "fixed" else "c20."
    ans = ctx.model([prefix + c[1][4:] for c in cases])
    bad = unmodelled = 0
    for (cid, req, real, meta), m in zip(cases, ans):
        if m == "U":
            unmodelled += 1
            continue
        if m in ("bad-request", "unknown-op", "bad-op"):
            raise verif.CheckError("model driver cannot answer `%s`: %s" % (req, m))
        if real != m:
            bad += 1
            if bad <= 20:
                op = req.split(" ")[0][4:]
                inp = to_jq(vx(req.split(" ", 2)[2]))
                ctx.violation("c20-corr:%s:%s" % (op, inp[:200]),
                              "real `%s` and the proved model of time.rs disagree" % OPS[op],
                              {"case_id": cid, "request": req, "real": real, "model": m, "meta": meta,
                               "repro": "jaq -n '%s | %s'" % (inp, OPS[op])},
                              broken=["correspondence c20"])
    ctx.log("correspondence: %d cases (%d texts outside the modelled syntax), %d disagreements" % (len(cases), unmodelled, bad))

    # ---- property oracle on the real answers
    orc = Oracle(ctx)
    for cid, req, real, meta_s in cases:
        meta = dict(kv.split("=", 1) for kv in meta_s.split(";") if "=" in kv)
        op = req.split(" ")[0][4:]
        orc.count += 1
        if op == "mktime":
            orc.mktime_case(cid, req, real, meta)
        elif op == "fromdate":
            orc.fromdate_case(cid, req, real, meta)
        else:
            orc.epoch_case(cid, op, req, real, meta)
    ctx.log("property oracle: %d answers judged, failing keys: %s" % (orc.count, dict(orc.bad) or "none"))

    # ---- strftime / strptime round trip
    fout = ctx.harness(["c20", "fmt"])
    ftot = ffail = 0
    fsamples = []
    for l in fout.splitlines():
        p = l.split("\t")
        if len(p) != 5 or not p[0].startswith("FMT "):
            continue
        ftot += 1
        status, fm, t, got, text = p[0][4:], p[1], int(p[2]), p[3], p[4]
        if fm not in COMPLETE_FORMATS:
            raise verif.CheckError("harness format list and check disagree: " + fm)
        if status != "ok" and Y_LO <= t < Y_HI:
            ffail += 1
            if ffail <= 5:
                ctx.violation("c20-oracle:strftime-strptime:%s" % fm,
                              "`strftime(F)|strptime(F)|mktime` does not return the original instant for a complete format",
                              {"format": fm, "input": t, "got": got, "text": text,
                               "repro": "jaq -n '%d | strftime(\"%s\") | strptime(\"%s\") | mktime'" % (t, fm, fm)})
        elif len(fsamples) < 3 and t % 7 == 3:
            fsamples.append({"format": fm, "input": t, "got": got})
    ctx.log("strftime|strptime|mktime: %d round trips, %d failures" % (ftot, ffail))

    kinds = {}
    for c in cases:
        k = c[1].split(" ")[0]
        kinds[k] = kinds.get(k, 0) + 1
    outcome = {}
    for c in cases:
        k = c[1].split(" ")[0][4:] + ":" + c[2][:1]
        outcome[k] = outcome.get(k, 0) + 1
    distinct = len({c[1] for c in cases})
    step = max(1, len(cases) // 6)
    ctx.coverage.update({
        "evaluations": len(cases) + ftot,
        "distinct_nontrivial": distinct,
        "rule": "distinct (filter, input) requests; inputs are the edge set (range limits of years +/-9999, jiff's Timestamp limits, "
                "leap days, year/century/400-year boundaries, +/-2^31, +/-2^53, +/-2^63, i64 multiplication limits, each with neighbours, "
                "as machine / big integer / float), seeded random integer and micro-second fractional epochs, arbitrary float bit patterns, "
                "the product of edge field values of broken-down arrays, random arrays, RFC 3339 / ISO 8601 texts derived from known "
                "instants in 11 syntactic variants with numeric offsets; every case reaches time.rs, so every distinct case counts",
        "samples": [{"request": c[1], "real": c[2], "meta": c[3]} for c in cases[::step][:6]] + fsamples,
        "traces_validated_against_impl": len(cases) - unmodelled,
        "operator_distribution": kinds,
        "outcome_distribution": outcome,
        "oracle_categories": orc.cats,
        "oracle_failing_keys": orc.bad,
        "texts_outside_modelled_syntax": unmodelled,
        "format_round_trips": ftot,
        "disagreements": bad,
        "exhaustive": False,
    })
    c20_strtime.merge_coverage(ctx, strtime_stats)
    ctx.assumptions += [
        "jiff 0.2 is a parameter: Timestamp range (-9999-01-02T01:59:59Z ..= 9999-12-30T22:00:00.999999999Z; from_microsecond/from_second "
        "limits), DateTime::new range checks, UTC civil conversion, RFC 3339 printer and parser are specified by the independent calendar "
        "JaqVerif/C20/Civil.lean and exercised by this run's correspondence; its strftime/strptime are only exercised (round trip oracle)",
        "the harness is built with overflow checks (panic on overflow); the wrapping behaviour of release builds is modelled "
        "(Build.overflowChecks = false) and covered by the witness theorems but not executed",
        "IEEE-754 double arithmetic of the scaling `f * 1e6`, `us / 1e6`, `s + ns / 1e9`, `fract * 1e9` is the shared pure-integer model "
        "Jaq.F64, compared bit for bit with the hardware on every float case",
        "`to the microsecond` is read as: a fractional instant may move by less than one micro-second (plus float resolution) through "
        "`f * 1e6` truncation and the float seconds field; larger differences are violations",
        "texts that jiff accepts beyond strict RFC 3339 (lower case, blank, basic format, no seconds, +HH, bracketed zone, leap second) "
        "are outside the Lean parser model; they are judged against the instant they were generated from / Python's fromisoformat",
        "localtime, strflocaltime, now depend on the process environment (time zone database, clock) and are not covered",
    ]
