"""C13 — string codecs invert exactly; positions count characters; escaping is safe (DESIGN §6 C13).

1. Translator: the per-byte outputs of the REAL @html @uri @sh @csv @tsv @json ascii_downcase
   ascii_upcase (all 256 bytes) and the base64 alphabet are printed by the harness and written to
   lean/JaqVerif/Gen/C13Tables.lean; Props/C13.lean (+ Lemmas) is rebuilt: table lemmas are
   re-decided by the kernel (`decide +kernel`), everything is audited (#print axioms).
2. Correspondence: real filters vs the Lean model (`jaqverif c13 gen` → driver ops c13.f/fmt/rx).
3. Property oracles on the real code alone (in-language equations: `jaqverif c13 props`).
4. Independent consumers of the real output, in child processes: /bin/sh, Python csv / html /
   urllib.parse / base64 / json (pysupport/c13_oracle.py) and Python str indexing + re for match
   offsets (pysupport/c13_regex.py).
"""
import json
import os
import subprocess
import sys

import verif

HERE = os.path.dirname(os.path.abspath(__file__))
PYS = os.path.join(os.path.dirname(HERE), "pysupport")
sys.path.insert(0, PYS)
import c13_tables  # noqa: E402


def child(script, data, timeout):
    try:
        p = subprocess.run([sys.executable, os.path.join(PYS, script)], input=data, timeout=timeout,
                           stdout=subprocess.PIPE, stderr=subprocess.PIPE, text=True)
    except subprocess.TimeoutExpired:
        return None
    if p.returncode != 0:
        raise verif.CheckError("%s failed: %s" % (script, p.stderr[-2000:]))
    return json.loads(p.stdout)


def seg_last_invalid(b):
    """does the byte string end in an invalid / truncated UTF-8 sequence? (independent segmentation)"""
    i, last_ok = 0, True
    while i < len(b):
        b0 = b[i]
        if b0 < 0x80:
            n, lo, hi = 1, 0, 0
        elif 0xC2 <= b0 <= 0xDF:
            n, lo, hi = 2, 0x80, 0xBF
        elif b0 == 0xE0:
            n, lo, hi = 3, 0xA0, 0xBF
        elif b0 == 0xED:
            n, lo, hi = 3, 0x80, 0x9F
        elif 0xE1 <= b0 <= 0xEF:
            n, lo, hi = 3, 0x80, 0xBF
        elif b0 == 0xF0:
            n, lo, hi = 4, 0x90, 0xBF
        elif b0 == 0xF4:
            n, lo, hi = 4, 0x80, 0x8F
        elif 0xF1 <= b0 <= 0xF3:
            n, lo, hi = 4, 0x80, 0xBF
        else:
            n, lo, hi = 0, 0, 0
        if n <= 1:
            last_ok = n == 1
            i += 1
            continue
        k = 1
        while k < n and i + k < len(b):
            c = b[i + k]
            if not ((lo <= c <= hi) if k == 1 else (0x80 <= c <= 0xBF)):
                break
            k += 1
        last_ok = k == n
        i += k
    return not last_ok


def replay(ctx):
    """re-run exactly the case of a replay file against the current tree"""
    rp = json.load(open(ctx.replay))
    case = rp.get("case", {})
    req = case.get("request")
    if not req:
        ctx.notes.append("replay file has no request; running the full check instead")
        return False
    out = ctx.harness(["c13", "eval"], input=req + "\n").strip().split("\t")
    real = out[-1]
    if req.startswith("c13.prop"):
        if real != "V T":
            ctx.violation(rp.get("key", "replay"), rp.get("what", "replayed property oracle still fails"), {"request": req, "real": real})
    else:
        model = ctx.model([req])[0]
        if real != model or real.startswith("PANIC"):
            ctx.violation(rp.get("key", "replay"), rp.get("what", "replayed case still fails"), {"request": req, "real": real, "model": model})
    ctx.coverage.update({"evaluations": 1, "distinct_nontrivial": 1, "rule": "replay of one recorded case", "samples": [{"request": req, "real": real}]})
    return True


def run(ctx):
    ctx.build_harness()
    # ---- 1. translator + proofs
    tabs_txt = ctx.harness(["c13", "tables"])
    tabs = c13_tables.parse(tabs_txt)
    for n in c13_tables.NAMES:
        want = 64 if n == "b64" else 1 if n == "b64pad" else 256
        if len(tabs[n]) != want:
            raise verif.CheckError("table %s has %d entries (expected %d)" % (n, len(tabs[n]), want))
    changed = ctx.write_gen("C13Tables", c13_tables.lean_source(tabs))
    if changed:
        ctx.log("Gen/C13Tables.lean changed (the escape tables of /repo differ from the bootstrap copy)")
    ctx.build_model()
    if ctx.replay and replay(ctx):
        return
    proof = ctx.lean_check()
    ctx.log("lean:", "ok" if proof["ok"] else "BROKEN", len(proof["theorems"]), "theorems")

    # ---- 2. correspondence
    out = ctx.harness(["c13", "gen"])
    cases = [tuple(l.split("\t")) for l in out.splitlines() if l]
    cases = [c for c in cases if len(c) == 3]
    panics = [c for c in cases if c[2].startswith("PANIC")]
    implode_min = 0
    for c in panics:
        if c[1].startswith("c13.f implode") and "I-9223372036854775808" in c[1]:
            implode_min += 1  # `-i` overflows in overflow-checked builds: C05's subject (no string codec involved)
            continue
        if c[1].startswith("c13.rx") or c[1].startswith("c13.rxpanic"):
            what = "regex filter panics (`char_of_byte(..).unwrap()`): no offset is produced for a match"
            key = "c13-rx-panic:" + ("char_of_byte-unwrap" if "Option::unwrap" in c[2] else c[2][:60])
        else:
            what = "string filter panics"
            key = "c13-panic:" + c[1]
        ctx.violation(key, what, {"request": c[1], "real": c[2]}, broken=["match_offset_total"])
    if implode_min:
        ctx.notes.append("%d cases `[… , -9223372036854775808] | implode` panic in the overflow-checked build (`-i` in implode); "
                         "not a C13 matter (no string is involved), reported for C05" % implode_min)
    # model `PANIC` answers for c13.rx are compared like any other answer (the model follows the code as written)
    cmp_cases = [c for c in cases if not (c[2].startswith("PANIC") and not c[1].startswith("c13.rx "))]
    cmp_cases = [c for c in cmp_cases if not c[1].startswith("c13.rxpanic")]
    # normalise the real PANIC text of rx cases to the model's token
    cmp_cases = [(c[0], c[1], "PANIC" if c[2].startswith("PANIC") else c[2]) for c in cmp_cases]

    def classify(cid, req, real, model):
        return "c13-corr:" + req

    bad = verif.diff_corr(ctx, cmp_cases, "c13-model", classify)
    unsupported = 0
    ctx.log("correspondence: %d cases, %d disagreements, %d panics" % (len(cmp_cases), bad, len(panics)))

    # ---- 2b. ROUND 2: the explicit engine contract (EngineContract / contractB: whole matches increasing and
    # non-overlapping, groups inside group 0, every range on character boundaries) evaluated by the model on every
    # engine result that entered the correspondence; the theorems about offsets/lengths/reassembly assume it
    rxc = {}
    for c in cmp_cases:
        if c[1].startswith("c13.rx matches "):
            t = c[1].split(" ", 4)   # c13.rx matches G N <subject> <caps…>
            if len(t) == 5:
                rxc.setdefault("c13.rxc " + t[4], c[1])
    rxc_reqs = sorted(rxc)
    rxc_bad = 0
    for req, ans in zip(rxc_reqs, ctx.model(rxc_reqs) if rxc_reqs else []):
        if ans != "T":
            rxc_bad += 1
            if rxc_bad <= 5:
                ctx.violation("c13-engine-contract:" + req,
                              "the regex engine returned capture ranges outside the contract the C13 theorems assume "
                              "(ordered, non-overlapping, groups inside the whole match, on character boundaries)",
                              {"request": req, "from": rxc[req], "model": ans}, kind="no-failing-input-found",
                              broken=["regex_offsets_under_contract", "splits_interleave_reassemble_contract"])
    ctx.log("engine contract: %d engine results, %d outside the contract" % (len(rxc_reqs), rxc_bad))

    # ---- 3. in-language property oracles
    pout = ctx.harness(["c13", "props"])
    ptot, pfail, pdist = 0, 0, {}
    for l in pout.splitlines():
        if not l.startswith("PROP "):
            continue
        parts = l[5:].split("\t")
        if len(parts) < 4:
            continue
        status, name, args, real = parts[0], parts[1], parts[2], parts[3]
        ptot += 1
        pdist[name] = pdist.get(name, 0) + 1
        if status != "ok":
            pfail += 1
            key = "c13-prop:%s:%s" % (name, args)
            what = "in-language equation `%s` fails on the real code" % name
            if real.startswith("PANIC"):
                if "Option::unwrap" in real:
                    key = "c13-rx-panic:char_of_byte-unwrap"
                    what = "regex filter panics (`char_of_byte(..).unwrap()`): no offset is produced for a match"
            elif name == "indices_slice":
                toks = args.split(" ")
                needle = bytes.fromhex(toks[1][1:]) if len(toks) > 1 and toks[1].startswith("S") else b""
                if seg_last_invalid(needle):
                    key = "c13-prop:indices_slice:needle-ends-in-truncated-sequence"
                    what = ("`indices($x)` reports a position although `.[i:][:$x|length] != $x`: the needle ends in a truncated "
                            "UTF-8 sequence and matches the first bytes of a longer character of the input")
            ctx.violation(key, what, {"request": "c13.prop %s %s" % (name, args), "real": real}, broken=[name])
    ctx.log("property oracles: %d checks, %d failures" % (ptot, pfail))

    # ---- 4. independent consumers (child processes)
    orc = child("c13_oracle.py", out, 3000)
    timed_out = []
    if orc is None:
        timed_out.append("c13_oracle.py")
        orc = {"failures": [], "counts": {}, "n_failures": 0, "notes": ["independent consumers timed out (overloaded machine?)"]}
    for f in orc["failures"]:
        ctx.violation("c13-oracle:%s:%s" % (f["oracle"], f["request"]),
                      "independent consumer `%s` does not recover the original data from jaq's output" % f["oracle"], f,
                      broken=["consumer " + f["oracle"]])
    ctx.notes += orc.get("notes", [])
    ctx.log("consumers:", orc["counts"], "failures:", orc["n_failures"])
    rx1 = ctx.harness(["c13", "rx1"])
    rxo = child("c13_regex.py", rx1, 3000)
    if rxo is None:
        timed_out.append("c13_regex.py")
        rxo = {"failures": [], "n_failures": 0, "checked": 0, "objects": 0, "engine_agree": 0, "engine_differ": 0, "engine_skipped": 0}
        ctx.notes.append("regex oracle timed out (overloaded machine?)")
    for f in rxo["failures"]:
        ctx.violation("c13-oracle:re:%s:%s:%s" % (f["subject_hex"], f["regex_hex"], f["flags"]),
                      "match offset/length do not address the matched string in Python's character indexing", f,
                      broken=["match_slice_eq_string"])
    rx1_panics = sum(1 for l in rx1.splitlines() if "\tPANIC" in l)
    if rx1_panics:
        l = next(l for l in rx1.splitlines() if "\tPANIC" in l).split("\t")
        ctx.violation("c13-rx-panic:char_of_byte-unwrap" if "Option::unwrap" in l[4] else "c13-rx-panic:" + l[4][:60],
                      "regex filter panics (`char_of_byte(..).unwrap()`): no offset is produced for a match",
                      {"subject_hex": l[1], "regex": bytes.fromhex(l[2]).decode(), "flags": l[3], "real": l[4]}, broken=["match_offset_total"])
    ctx.log("regex oracle: %d subjects x regexes, %d match objects, %d failures, engines agree on %d / differ on %d"
            % (rxo["checked"], rxo["objects"], rxo["n_failures"], rxo["engine_agree"], rxo["engine_differ"]))

    if timed_out and not ctx.violations:
        # nothing was found and an oracle did not finish: that is a machinery problem, not a verdict
        raise verif.CheckError("oracle child process timed out: %s" % ", ".join(timed_out))

    # ---- evidence
    ops = {}
    for c in cmp_cases:
        t = c[1].split(" ")
        k = t[0] + " " + t[1]
        ops[k] = ops.get(k, 0) + 1
    outcomes = {"value": 0, "error": 0, "panic": 0}
    for c in cases:
        outcomes["value" if c[2].startswith("V") else "error" if c[2] == "E" else "panic"] += 1
    distinct = len({c[1] for c in cmp_cases})
    nontrivial = len({c[1] for c in cmp_cases if not c[1].endswith(" S") and " S " not in c[1] + " "})
    mid = len(cmp_cases) // 2
    ctx.coverage.update({
        "evaluations": len(cmp_cases) + ptot + sum(orc["counts"].values()) + rxo["objects"],
        "distinct_nontrivial": nontrivial,
        "rule": "distinct correspondence requests (filter, input, arguments) whose input is not the empty string; "
                "inputs: all 256 single bytes, all strings of up to 2 (quick) / 3 (thorough) atoms over 32 atoms "
                "(' \" \\ & < > , tab LF CR space % + = / $ ` ! * ? ~ # ; a Z 1 NUL, 2-/3-/4-byte characters, an invalid byte, a "
                "truncated sequence), seeded random strings up to 24 atoms, rows of scalars, malformed base64 / percent / entity "
                "input, slices over bounds -5..5/null, format strings with two interpolations, generated regexes x flags",
        "distinct_requests": distinct,
        "samples": [{"request": c[1], "real": c[2]} for c in cmp_cases[1000:1002] + cmp_cases[mid:mid + 2] + cmp_cases[-2:]],
        "traces_validated_against_impl": len(cmp_cases),
        "operation_distribution": ops,
        "outcome_distribution": outcomes,
        "property_oracle_checks": ptot,
        "property_oracle_distribution": pdist,
        "independent_consumer_checks": orc["counts"],
        "regex_oracle": {k: rxo[k] for k in ("checked", "objects", "engine_agree", "engine_differ", "engine_skipped")},
        "engine_contract_checks": len(rxc_reqs),
        "engine_contract_failures": rxc_bad,
        "tables_regenerated": {n: len(tabs[n]) for n in c13_tables.NAMES},
        "tables_changed_vs_bootstrap": bool(changed),
        "disagreements": bad,
        "model_unsupported_answers": unsupported,
        "exhaustive": False,
    })
    ctx.assumptions += [
        "the encoders @html @uri escape_sh @csv @tsv tojson-strings ascii_downcase/upcase act byte-wise (flatMap of the per-byte table regenerated "
        "from the real code on every run); validated by the correspondence on all strings of up to 2-3 atoms and random longer ones",
        "bstr::decode_utf8 / char_indices segmentation = Jaq.Utf8.chunks (valid scalar or maximal invalid prefix = one position); correspondence on explode/length/slices/indices",
        "base64 STANDARD engine = alphabet from the real encoder + canonical padding required + zero trailing bits (hand model, correspondence on all strings up to length 4-5 over a 10-symbol alphabet and mutated encodings)",
        "urlencoding::decode_binary and aho-corasick replace_all_bytes (HTML_REPS) are hand models of third-party code, exercised on malformed input",
        "the regex engine (regex-bites) is a parameter: its captures enter the model as byte ranges recovered from the real output with the harness's own UTF-8 segmentation; "
        "assumed contract (Lean: EngineContract): whole matches increasing / non-overlapping / inside the subject and groups inside group 0 (regex crate API guarantee), "
        "every range starts and ends on a bstr character boundary (holds for regex-bites' decoder, not documented for invalid UTF-8) - evaluated by the model (contractB, proved equivalent) on every engine result of the run",
        "numbers in rows / @sh arguments are printed for integers and decimal literals only (the JSON number printer is C07's subject)",
        "/bin/sh (dash) and Python csv/html/urllib/base64/json/re are oracles for searching failing inputs, not part of the proof",
    ]
