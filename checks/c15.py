"""C15 — parsing depends only on tokens and the documented grammar, precedence and sugar (DESIGN §6 C15).

1. Translator: the real parser's grouping of `a op1 b op2 c` for all 25 x 25 ordered operator
   pairs is regenerated into lean/JaqVerif/Gen/C15Group.lean; Props/C15.lean re-proves by
   `decide` that it equals the manual's table (hand transcription in C15/Spec.lean) and the
   model's table, and that associativity is a function of the level.  A differing pair is
   reported as the failing input.
2. Lean: Props/C15.lean (precedence climbing: yield, table respected, uniqueness, round trip
   parse(print) for operator trees of any size and parenthesisation incl. bindings; the lexer
   accepts exactly the declarative layouts `lex text = some ts <-> Layout ts text`, hence arbitrary
   trivia between lexemes never matters; sugar) rebuilt + audited.
3. Correspondence real parser vs model parser (AST as s-expression, or reject) on: all operator
   pairs and triples in all groupings; trees rendered by the independent Lean printer with
   minimal / full / random parentheses and random trivia (also compared with the tree that was
   printed: round trip through the REAL parser); shorthand x operand shapes; every code span of
   docs/*.dj; mutated manual examples; random token soups.
4. Property oracle on the real code alone: each documented shorthand yields the same outputs as
   its expansion.
"""
import itertools
import os
import random
import sys

import verif

sys.path.insert(0, os.path.join(verif.VERIF, "pysupport"))
import c15_docs  # noqa: E402
import c15_gen  # noqa: E402
import c15_cases  # noqa: E402


def hx(t):
    return t.encode("utf-8").hex()


class Corr:
    """real parser vs model parser on program texts"""

    def __init__(self, ctx):
        self.ctx = ctx
        self.total = 0
        self.accepted = 0
        self.bad = 0
        self.by_stream = {}
        self.kinds = {}
        self.samples = []
        self.seen = set()

    def real(self, texts):
        out = self.ctx.harness(["c15", "parse"], input="".join(hx(t) + "\n" for t in texts))
        ans = out.split("\n")
        if ans and ans[-1] == "":
            ans.pop()
        if len(ans) != len(texts):
            raise verif.CheckError("harness c15 parse answered %d lines for %d texts" % (len(ans), len(texts)))
        return ans

    def run(self, stream, texts, expected=None):
        """expected: optional list of s-expressions the texts must parse to (printer round trip)"""
        texts = list(texts)
        if not texts:
            return
        real = self.real(texts)
        model = self.ctx.model(["c15.parse " + hx(t) for t in texts])
        n_acc = 0
        for i, (t, r, m) in enumerate(zip(texts, real, model)):
            self.total += 1
            self.seen.add(t)
            if r not in ("ERR", "PANIC"):
                n_acc += 1
                for k in set(w.strip("()") for w in r.split(" ") if w.startswith("(")):
                    self.kinds[k] = self.kinds.get(k, 0) + 1
            if r != m:
                self.bad += 1
                if self.bad <= 20:
                    self.ctx.violation(
                        "c15-corr:%s:%s" % (stream, t),
                        "real parser and proved model parser disagree on a program text (stream %s)" % stream,
                        {"text": t, "real": r, "model": m, "stream": stream},
                        broken=["correspondence c15-parse"])
            elif expected is not None and expected[i] is not None and r != expected[i]:
                self.bad += 1
                if self.bad <= 20:
                    self.ctx.violation(
                        "c15-roundtrip:%s:%s" % (stream, t),
                        "a tree printed with (at least) the parentheses the manual's table requires does not parse back "
                        "to itself (stream %s)" % stream,
                        {"text": t, "real": r, "printed_tree": expected[i], "stream": stream},
                        broken=["parse_print on the real parser"])
        self.accepted += n_acc
        s = self.by_stream.setdefault(stream, {"texts": 0, "accepted": 0})
        s["texts"] += len(texts)
        s["accepted"] += n_acc
        if len(self.samples) < 14:
            self.samples.append({"stream": stream, "text": texts[len(texts) // 2], "real": real[len(texts) // 2][:200]})


def translator(ctx):
    out = ctx.harness(["c15", "matrix"])
    ops, rows = c15_gen.parse_matrix(out)
    ctx.write_gen("C15Group", c15_gen.lean_source(ops, rows))
    return ops, rows


def matrix_vs_spec(ctx, ops, rows):
    """find the failing operator pair when the generated matrix differs from the manual's table"""
    n = len(ops)
    reqs = ["c15.specgroup %d %d" % (i, j) for i in range(n) for j in range(n)]
    reqs += ["c15.specname %d" % i for i in range(n)]
    ans = ctx.model(reqs)
    bad = 0
    for i in range(n):
        name = ans[n * n + i]
        if name != hx(ops[i]):
            ctx.violation("c15-opname:%d" % i, "operator list of the translator differs from the manual's table",
                          {"index": i, "translator": ops[i], "spec_hex": name}, broken=["opNames_eq_spec"])
    for i in range(n):
        for j in range(n):
            spec, realg = ans[i * n + j], rows[i][j]
            if spec != realg:
                bad += 1
                text = "a %s b %s c" % (ops[i], ops[j])
                grp = {"L": "(a %s b) %s c" % (ops[i], ops[j]), "R": "a %s (b %s c)" % (ops[i], ops[j]),
                       "?": "(rejected or ambiguous)"}
                ctx.violation("c15-group:%s:%s" % (ops[i], ops[j]),
                              "the real parser groups `%s` as `%s`, the manual's precedence table says `%s`"
                              % (text, grp.get(realg, realg), grp.get(spec, spec)),
                              {"text": text, "real_grouping": realg, "manual_grouping": spec},
                              broken=["groupT_eq_spec"])
    return bad


def run(ctx):
    ctx.build_harness()
    ops, rows = translator(ctx)
    ctx.build_model()
    proof = ctx.lean_check(modules=["JaqVerif.Props.C15", "JaqVerif.Props.C15Sugar"])
    ctx.log("lean:", "ok" if proof["ok"] else "BROKEN", len(proof["theorems"]), "theorems")
    nbad = matrix_vs_spec(ctx, ops, rows)
    ctx.log("translator: %d x %d grouping matrix, %d entries differ from the manual's table" % (len(ops), len(ops), nbad))

    rng = random.Random(ctx.seed)
    thorough = ctx.tier == "thorough"
    corr = Corr(ctx)

    # --- operator pairs and triples in all groupings (exhaustive)
    corr.run("pairs", c15_cases.pairs(ops))
    corr.run("triples", c15_cases.triples(ops, rng, all_groupings=thorough))
    ctx.log("pairs/triples: %d texts, %d disagreements" % (corr.total, corr.bad))

    # --- trees rendered by the independent printer (Lean), round trip through the real parser
    for stream, reqs in c15_cases.render_requests(ops, rng, thorough):
        ans = ctx.model(reqs)
        texts, exp = [], []
        for a in ans:
            p = a.split(" ", 1)
            if len(p) != 2 or p[0] in ("bad-request", "unknown-op"):
                raise verif.CheckError("driver cannot render: %r" % a[:200])
            texts.append(bytes.fromhex(p[0]).decode("utf-8"))
            exp.append(p[1])
        corr.run(stream, texts, exp)
    ctx.log("printed trees: total %d texts, %d disagreements" % (corr.total, corr.bad))

    # --- shorthand x operand shapes
    corr.run("sugar-shapes", c15_cases.sugar_shapes(rng, thorough))

    # --- the manual: every code span of docs/*.dj (extracted now), and mutations of them
    spans = c15_docs.code_spans(verif.REPO)
    doc_texts = [s[2] for s in spans]
    n_examples = len([s for s in spans if s[1] == "example"])
    corr.run("manual", doc_texts)
    corr.run("manual-mutated", c15_cases.mutations(doc_texts, rng, 6 if thorough else 2))
    if n_examples < 300:
        ctx.notes.append("only %d manual examples found in docs/*.dj" % n_examples)

    # --- lexeme boundaries: the token TREES of both lexers (not only the verdict of the parser)
    lx = sorted(set(c15_cases.lexemes(rng, thorough)))
    lreal = ctx.harness(["c15", "lex"], input="".join(hx(t) + "\n" for t in lx)).split("\n")
    lmodel = ctx.model(["c15.lex " + hx(t) for t in lx])
    lbad = lacc = 0
    for t, r, m in zip(lx, lreal, lmodel):
        lacc += r.startswith("OK")
        if r != m:
            lbad += 1
            if lbad <= 10:
                ctx.violation("c15-lex:%s" % t, "real lexer and proved model lexer cut a text into different tokens "
                              "(the model is proved to accept exactly the layouts: lexemes separated by arbitrary trivia)",
                              {"text": t, "real": r[:400], "model": m[:400]}, broken=["correspondence c15-lex", "lex_iff_layout on the real lexer"])
    if len(lreal) < len(lx):
        raise verif.CheckError("harness c15 lex answered %d lines for %d texts" % (len(lreal), len(lx)))
    ctx.log("lexeme boundaries: %d texts (%d accepted), %d disagreements" % (len(lx), lacc, lbad))
    corr.total += len(lx)
    corr.bad += lbad
    corr.seen.update(lx)
    corr.by_stream["lexeme-boundaries(token trees)"] = {"texts": len(lx), "accepted": lacc}

    # --- random token soups (rejection side)
    corr.run("soup", c15_cases.soups(rng, 60000 if thorough else 15000))
    ctx.log("correspondence: %d texts (%d accepted by the real parser), %d disagreements"
            % (corr.total, corr.accepted, corr.bad))

    # --- property oracle: shorthand = expansion, by running both (real code only)
    out = ctx.harness(["c15", "sugar"])
    stot = sfail = 0
    sugar_samples = []
    for l in out.splitlines():
        p = l.split("\t")
        if p[0] not in ("SUGAR-OK", "SUGAR-FAIL"):
            continue
        stot += 1
        if p[0] == "SUGAR-FAIL":
            sfail += 1
            ctx.violation("c15-sugar:%s:%s" % (p[1], p[2]),
                          "shorthand `%s` and its documented expansion `%s` give different outputs" % (p[2], p[3]),
                          {"name": p[1], "shorthand": p[2], "expansion": p[3], "input": p[4],
                           "shorthand_out": p[5], "expansion_out": p[6]})
        elif len(sugar_samples) < 4:
            sugar_samples.append({"name": p[1], "shorthand": p[2], "expansion": p[3], "input": p[4], "out": p[5][:80]})
    ctx.log("sugar oracle: %d (shorthand, expansion, input) runs, %d differ" % (stot, sfail))

    ctx.coverage.update({
        "checker_cmd": "cd lean && lake build JaqVerif.Props.C15 JaqVerif.Props.C15Sugar && lake env lean Audit/C15.lean  "
                       "(#print axioms of every theorem of both files; thorough: lake env leanchecker)",
        "evaluations": corr.total + stot + len(ops) ** 2,
        "distinct_nontrivial": len(corr.seen),
        "rule": "distinct program texts given to both parsers (every text exercises lexer + parser; texts are "
                "distinct renderings: operator combination x grouping x parenthesisation x trivia, shorthand x operand "
                "shape, manual code span, mutation, token soup); accepted/rejected split and AST node kinds recorded",
        "samples": corr.samples + sugar_samples,
        "traces_validated_against_impl": corr.total,
        "streams": corr.by_stream,
        "accepted_by_real_parser": corr.accepted,
        "rejected_by_real_parser": corr.total - corr.accepted,
        "ast_node_kinds_seen": dict(sorted(corr.kinds.items())),
        "manual_code_spans": len(doc_texts),
        "manual_examples": n_examples,
        "grouping_matrix": {"operators": ops, "rows": rows, "entries_differing_from_manual": nbad},
        "sugar_oracle_runs": stot,
        "disagreements": corr.bad,
        "exhaustive": False,
        "exhaustive_part": "operator pairs (625 x 3 groupings) and triples (15625 flat%s); all operator trees with <= 2 "
                      "operators x minimal/full parentheses; the rest is seeded random" % (" x 6 groupings" if thorough else ""),
    })
    ctx.assumptions += [
        "model C15/{Lex,PrecClimb,Parse}.lean written by hand from jaq-core/src/load/{lex,prec_climb,parse}.rs; tied by this run's correspondence (AST s-expressions printed from the public structure of parse::Term)",
        "`Str`/`Block` tokens keep only what the parser reads of their source slice (nothing / the opening delimiter)",
        "errors are modelled as abort (Option): Lexer::lex / Parser::parse return Err iff any error was recorded",
        "the manual's table is transcribed by hand in C15/Spec.lean from docs/corelang.dj and the property text; "
        "`==` etc. are left-associative as the property text says (the manual's sentence about operators containing `=` is read as the assignments)",
        "Layout (C15/Layout.lean) is the declarative reading of 'tokens separated by arbitrary white space and comments': "
        "lexeme shapes, Trivia/CommentBody (odd number of trailing backslashes, optional CR, continues a comment), "
        "separation condition Token.glues; it is proved equivalent to the lexer MODEL, which this run ties to lex.rs",
        "desugaring that happens in compile.rs ({a}, {$x}, elif, missing else, interpolation, @fmt, def f($x), folds) is checked by running shorthand and expansion on sample inputs (property oracle), not by a theorem",
    ]
