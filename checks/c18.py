"""C18 — `--in-place` replaces a file atomically and only after complete success (DESIGN §6 C18).

1. Lean: Props/C18.lean (all scenarios x all kill points x all abort positions of the protocol
   model `JaqVerif/C18/InPlace.lean`) is rebuilt and audited.
2. Trace validation: the real `jaq` binary (built from the tree) runs under `strace` on scenarios
   1..3 files x output larger/smaller x permission bits x relative/absolute paths x error kinds;
   every trace is translated into the model's `Op`s and must be accepted by the protocol
   automaton (`accepts`, proved sound); the file-system state afterwards is compared with
   `exec fs0 ops` of the model, the bytes written with the stdout of the same invocation
   without `-i`, and the whole operation sequence with `protocol` of the scenario.
3. Fault enumeration: `strace -e inject=<call>:signal=SIGKILL:when=n` kills the process
   immediately before the n-th call (every call after start-up in the thorough tier), and
   `inject=<call>:error=E…:when=n` fails writes / temp creation / stat / rename / chmod; after
   each run the property is asserted on the real file system and against the model.
"""
import concurrent.futures as cf
import json
import os
import random
import sys
import time
import zlib

import verif

sys.path.insert(0, os.path.join(verif.VERIF, "pysupport"))
import c18_scen as S    # noqa: E402
import c18_trace as T   # noqa: E402

WORKERS = int(os.environ.get("C18_WORKERS", "0")) or max(2, min(8, (os.cpu_count() or 4) // 2))


# --------------------------------------------------------------------------- scenario lists

def scenario_list(tier, seed):
    rng = random.Random(seed)
    out = []
    shapes = [(1, None), (1, 0), (2, 1), (3, None), (3, 1), (2, 0), (3, 2), (2, None), (3, 0)]
    n = 0
    for fam, f in S.FAMILIES.items():
        for (nf, fail) in shapes:
            if fail is not None and f["bad"] is None:
                continue
            if tier == "quick" and fam == "big" and nf > 1:
                continue
            ks = [0, 2] if tier == "thorough" else [(n % 3)]
            if fail is None:
                ks = [0]
            for k in ks:
                style = S.STYLES[n % len(S.STYLES)]
                modes = S.MODES[n % len(S.MODES):] + S.MODES[:n % len(S.MODES)]
                out.append(S.make(fam, nf, fail, k, style, modes))
                n += 1
    # seeded random combinations of the axes
    extra = 10 if tier == "quick" else 150
    fams = sorted(S.FAMILIES)
    for i in range(extra):
        fam = rng.choice(fams)
        f = S.FAMILIES[fam]
        nf = rng.randint(1, 3)
        fail = rng.choice([None] + list(range(nf))) if f["bad"] is not None else None
        k = rng.randint(0, 5)
        modes = [rng.choice(S.MODES + [0o640, 0o604, 0o440, 0o700, 0o666]) for _ in range(3)]
        sc = S.make(fam, nf, fail, k, rng.choice(S.STYLES), modes, sid=None)
        sc["id"] = "rnd%d-" % i + sc["id"]
        out.append(sc)
    if tier == "quick":
        # keep the quick tier inside its budget: all families and shapes, but not every combination
        keep, seen = [], set()
        for i, s in enumerate(out):
            sig = (s["family"], s["fail"] is None)
            if s["id"].startswith("rnd") or sig not in seen or i % 5 == 0:
                keep.append(s)
                seen.add(sig)
        out = keep
    return out


def fault_scenarios(scs, tier):
    """Scenarios on which kill points / failing calls are enumerated."""
    if tier == "thorough":
        out, seen = [], set()
        for s in scs:
            sig = (s["family"], len(s["files"]), s["fail"])
            if s["id"].startswith("rnd") or sig in seen or (s["family"] == "big" and len(s["files"]) > 1):
                continue
            seen.add(sig)
            out.append(s)
        return out
    want = [("grow", 1, None, 0, "rel"), ("shrink", 2, None, 0, "abs"), ("ferr", 2, 1, 2, "sub"), ("perr", 3, 1, 1, "dot"),
            ("emptyin", 1, None, 0, "updown"), ("tomlerr", 2, 1, 1, "abssub")]
    out = []
    for n, (fam, nf, fail, k, style) in enumerate(want):
        modes = S.MODES[(n + 1) % len(S.MODES):] + S.MODES[:(n + 1) % len(S.MODES)]
        sc = S.make(fam, nf, fail, k, style, modes)
        sc["id"] = "flt-" + sc["id"]
        out.append(sc)
    return out


# --------------------------------------------------------------------------- one run

def expect_kind(sc, run):
    if run.end[0] != "exit":
        return "kill"
    if run.rc == 0 and not (sc["may_halt"] and sc["fail"] is not None):
        return "ok"
    return "err"


def one_run(jaq, sc, inject=None, label="clean", outs=None):
    """Set the scenario up in a fresh directory, run it (optionally with an injected fault) and
    collect everything the assertions need.  Returns a dict (no open resources)."""
    def body(root):
        S.setup(sc, root)
        outs_ = outs if outs is not None else S.stdout_runs(jaq, sc, root)
        fs0 = S.snapshot(root)
        run = S.run_inplace(jaq, sc, root, inject=inject)
        fs1 = S.snapshot(root)
        completed = run.end[0] == "exit"
        probs = S.property_problems(sc, root, fs0, fs1, run, outs_, completed)
        if run.end[0] == "unknown":
            raise verif.CheckError("strace trace of `%s` has no end marker (strace failed?): %s"
                                   % (" ".join(run.argv[1:]), run.stderr[-300:]))
        for c in run.tr.foreign:
            probs.append(("foreign-op", "call outside the in-place protocol on a scenario file: " + c.raw[:200]))
        queries = sorted(set(fs0) | set(fs1) | set(run.tr.temps))
        kind = expect_kind(sc, run)
        rel = lambda p: os.path.relpath(p, root)
        return {
            "sc": sc, "inject": inject, "label": label, "root": root, "rc": run.rc, "end": run.end, "kind": kind,
            "outs": outs_, "fs0": fs0, "fs1": fs1, "ops": run.tr.ops, "queries": queries, "probs": probs,
            "targets": run.targets, "temps": run.tr.temps, "renames": run.tr.renames,
            "failed": [c.raw[:160] for c in run.tr.failed], "stderr": run.stderr[-300:].decode("utf-8", "replace"),
            "request": S.trace_request(kind, fs0, run.tr.ops, queries),
            "calls": run.calls, "first_idx": run.tr.first_idx, "op_calls": run.tr.op_calls,
            "pretty_ops": [pretty_op(o, root) for o in run.tr.ops],
        }
    try:
        return S.with_root(body)
    except T.TraceTimeout:
        try:
            return S.with_root(body)     # the machine may be overloaded: once more
        except T.TraceTimeout as e:
            raise verif.CheckError("run under strace does not end within 300 s (twice): %s" % e)


def pretty_op(tok, root):
    x = tok.split(",")

    def p(h):
        d, n = h.split("/")
        return os.path.relpath(os.path.join(bytes.fromhex(d).decode("utf-8", "replace"),
                                            bytes.fromhex(n).decode("utf-8", "replace")), root)
    name = {"L": "load", "T": "mkTemp", "W": "write", "U": "unlink", "S": "stat", "R": "rename", "C": "chmod"}[x[0]]
    if x[0] == "W":
        return "%s(%s, %d bytes)" % (name, p(x[1]), len(x[2]) // 2)
    if x[0] in ("S", "C"):
        return "%s(%s, %o)" % (name, p(x[1]), int(x[2]))
    if x[0] == "R":
        return "%s(%s -> %s)" % (name, p(x[1]), p(x[2]))
    return "%s(%s)" % (name, p(x[1]))


def coalesce(ops):
    """merge consecutive writes to the same file; drop empty writes"""
    out = []
    for o in ops:
        x = o.split(",")
        if x[0] == "W":
            if x[2] == "":
                continue
            if out and out[-1][0] == "W" and out[-1][1] == x[1]:
                out[-1][2] += x[2]
                continue
        out.append(x)
    return [",".join(x) for x in out]


def scenario_request(res):
    """Predict the whole run from the scenario alone (only for clean runs): jobs with the stdout
    of the plain invocation as output, the fault the scenario was built with."""
    sc = res["sc"]
    jobs = []
    for i, t in enumerate(res["targets"]):
        if sc["fail"] is not None and i > sc["fail"]:
            break
        rc, out = res["outs"][i]
        failing = sc["fail"] is not None and i == sc["fail"]
        if i >= len(res["temps"]):
            return None
        tmp = res["temps"][i]
        mode = res["fs0"][t][1]
        vals = "_" if not out else out.hex()
        fault = "none"
        if failing:
            fault = "f0.1" if out else "f0.0"
        jobs.append("J,%s,%s,%d,%s,%s" % (T.hexpath(t), T.hexpath(tmp), mode, fault, vals))
    ft = S.fs_tokens(res["fs0"])
    q = res["queries"]
    return " ".join(["c18.scenario", "-", str(len(ft))] + ft + [str(len(jobs))] + jobs + [str(len(q))] +
                    [T.hexpath(x) for x in q])


# --------------------------------------------------------------------------- comparison with the model

def case_of(res, extra=None):
    sc = dict(res["sc"])
    d = {"scenario": sc, "inject": res["inject"], "label": res["label"], "exit": list(res["end"]), "rc": res["rc"],
         "ops": res["pretty_ops"], "failed_calls": res["failed"], "stderr": res["stderr"],
         "argv": ["jaq", "-i"] + sc["opts"] + [sc["filter"]] + [S.arg_path(sc, "<root>", f["rel"]) for f in sc["files"]],
         "before": {os.path.relpath(p, res["root"]): S.describe_state(v) for p, v in res["fs0"].items()},
         "after": {os.path.relpath(p, res["root"]): S.describe_state(v) for p, v in res["fs1"].items()}}
    if extra:
        d.update(extra)
    return d


def vkey(res, what):
    inj = res["inject"][0].split(":")[0] + ":" + res["inject"][0].split(":")[1].split("=")[0] if res["inject"] else "clean"
    return "c18:%s:%s:%s" % (what, res["sc"]["family"], inj)


def judge(ctx, res, ans, stats):
    """Compare one run with the model's answer; record violations."""
    for key, msg in res["probs"]:
        ctx.violation(vkey(res, key), "in-place property violated by the real binary: " + msg, case_of(res))
        stats["property_violations"] += 1
    d = S.parse_trace_answer(ans, res["queries"])
    if d is None:
        raise verif.CheckError("model driver answered `%s` for %s" % (ans[:200], res["sc"]["id"]))
    stats["traces"] += 1
    if not d["acc"]:
        at = int(d["rej"]) if d["rej"] != "-" else None
        where = ("operation %d `%s` is not allowed after %s" % (at, res["pretty_ops"][at], res["pretty_ops"][max(0, at - 3):at])
                 if at is not None else "the run ends in phase `%s` (status %d, %s)" % (d["phase"], res["rc"], res["kind"]))
        ctx.violation(vkey(res, "trace-rejected"), "trace of the real binary is rejected by the protocol automaton: " + where,
                      case_of(res, {"automaton": {"rejected_at": at, "phase": d["phase"]}}),
                      broken=["accepts / acceptsPrefix on the real trace"])
        stats["rejected"] += 1
        return
    if d["v"] != "111":
        ctx.violation(vkey(res, "trace-not-wellformed"),
                      "accepted trace does not satisfy the hypotheses of the theorems (prefix-of-protocol, static, file-system: %s)" % d["v"],
                      case_of(res, {"decoded": [(j["fault"]) for j in d["jobs"]]}), broken=["WF of the decoded scenario"])
        stats["rejected"] += 1
        return
    # final file-system state: model's exec vs reality
    for q in res["queries"]:
        real = res["fs1"].get(q)
        if d["state"][q] != real:
            ctx.violation(vkey(res, "state-differs"),
                          "file-system state after the run differs from the model at %s: real %s, model %s"
                          % (os.path.relpath(q, res["root"]), S.describe_state(real), S.describe_state(d["state"][q])),
                          case_of(res), broken=["exec fs0 ops = real file system"])
            stats["state_diffs"] += 1
            break
    # bytes written = stdout of the same invocation without -i (complete for replaced files, a prefix otherwise)
    for i, j in enumerate(d["jobs"]):
        if i >= len(res["outs"]):
            break
        rc_i, out_i = res["outs"][i]
        if j["fault"] in ("none", "chmod"):
            good = j["output"] == out_i and rc_i == 0 and not (res["sc"]["may_halt"] and i == res["sc"]["fail"])
        else:
            good = out_i.startswith(j["output"])
        if not good:
            ctx.violation(vkey(res, "output-differs"),
                          "bytes written for file %d (%s) differ from the stdout of the same invocation without -i (%s, status %d)"
                          % (i, j["output"][:80].hex(), out_i[:80].hex(), rc_i), case_of(res),
                          broken=["success_equals_stdout_run on the real trace"])
            stats["output_diffs"] += 1
    stats["phases"][d["phase"]] = stats["phases"].get(d["phase"], 0) + 1
    for j in d["jobs"]:
        f = j["fault"].rstrip("0123456789.")
        stats["decoded_faults"][f] = stats["decoded_faults"].get(f, 0) + 1


def judge_prediction(ctx, res, ans, stats):
    toks = ans.split(" ")
    if len(toks) < 4 or not toks[0].startswith("A"):
        raise verif.CheckError("model driver answered `%s`" % ans[:200])
    n = int(toks[3])
    mops = toks[4:4 + n]
    st = toks[4 + n + 1:]
    stats["predictions"] += 1
    if coalesce(mops) != coalesce(res["ops"]):
        a, b = coalesce(mops), coalesce(res["ops"])
        i = next((i for i in range(min(len(a), len(b))) if a[i] != b[i]), min(len(a), len(b)))
        ctx.violation(vkey(res, "protocol-differs"),
                      "operation sequence of the real binary differs from `protocol` of the scenario at operation %d: real `%s`, model `%s`"
                      % (i, pretty_op(b[i], res["root"]) if i < len(b) else "<end>", pretty_op(a[i], res["root"]) if i < len(a) else "<end>"),
                      case_of(res, {"model_ops": [pretty_op(o, res["root"]) for o in a]}), broken=["protocol jobs = real trace"])
        stats["protocol_diffs"] += 1
        return
    for q, s in zip(res["queries"], st):
        real = res["fs1"].get(q)
        model = None if s == "-" else (bytes.fromhex(s.split(",")[0]), int(s.split(",")[1]))
        if real != model:
            ctx.violation(vkey(res, "prediction-differs"), "final state predicted from the scenario differs at %s: real %s, model %s"
                          % (os.path.relpath(q, res["root"]), S.describe_state(real), S.describe_state(model)), case_of(res),
                          broken=["exec fs0 (protocol jobs) = real file system"])
            stats["state_diffs"] += 1
            break


# --------------------------------------------------------------------------- fault plans

ERRNO_FOR = {"T": ("EACCES", "EEXIST", "ENOSPC"), "S": ("EACCES",), "R": ("EXDEV", "EACCES"), "C": ("EPERM",), "L": ("EACCES",)}


def fault_plan(res, tier, rng):
    """From a clean run: the list of (label, inject-spec) to try."""
    calls, first = res["calls"], res["first_idx"]
    if first is None:
        return []
    plan = []
    op_calls = res["op_calls"]
    opidx = {c.idx for c in op_calls}
    after = [c for c in calls if c.idx >= first and c.name != "exit_group"]
    # which write calls: all (thorough) or the first two / last two per temp file (quick)
    wsel = set()
    by_tmp = {}
    for c, tok in zip(op_calls, res["ops"]):
        if tok.startswith("W,"):
            by_tmp.setdefault(tok.split(",")[1], []).append(c)
    for lst in by_tmp.values():
        pick = lst if tier == "thorough" or len(lst) <= 4 else lst[:2] + lst[-2:]
        if tier == "thorough" and len(lst) > 40:
            pick = lst[:10] + lst[-10:] + lst[10:-10:max(1, len(lst) // 20)]
        wsel |= {c.idx for c in pick}
    # kill points
    for c in after:
        is_op = c.idx in opidx
        is_write = is_op and c.name == "write"
        if tier == "quick":
            if is_write and c.idx not in wsel:
                continue
            if not is_op and c.name not in ("close", "munmap") and rng.random() > 0.15:
                continue
            if not is_op and c.name in ("close", "munmap") and rng.random() > 0.5:
                continue
        elif is_write and c.idx not in wsel:
            continue
        plan.append(("kill-before-%s#%d" % (c.name, c.nth), ["%s:signal=SIGKILL:when=%d" % (c.name, c.nth)]))
    # also: killed right before exiting
    for c in calls:
        if c.name == "exit_group":
            plan.append(("kill-before-exit", ["exit_group:signal=SIGKILL:when=1"]))
    # failing calls
    for c, tok in zip(op_calls, res["ops"]):
        k = tok[0]
        if k == "W":
            if c.idx in wsel:
                errs = ("ENOSPC", "EIO") if tier == "thorough" else ("ENOSPC",)
                for e in errs:
                    plan.append(("fail-write#%d-%s" % (c.nth, e), ["write:error=%s:when=%d" % (e, c.nth)]))
        elif k in ERRNO_FOR:
            for e in ERRNO_FOR[k]:
                plan.append(("fail-%s#%d-%s" % (c.name, c.nth, e), ["%s:error=%s:when=%d" % (c.name, e, c.nth)]))
    # mmap of the input fails: load_file falls back to read
    seen = 0
    for c in after:
        if c.name == "mmap" and len(c.args) >= 5 and c.args[4].isdigit() and c.args[4] not in ("-1",) and c.ok:
            seen += 1
            if seen <= (3 if tier == "thorough" else 1):
                plan.append(("fail-mmap#%d" % c.nth, ["mmap:error=ENODEV:when=%d" % c.nth]))
    return plan


# --------------------------------------------------------------------------- main

def strace_sanity():
    rc, out = verif.sh(["strace", "-o", "/dev/null", "-e", "inject=getpid:error=EPERM:when=1", "true"])
    if rc != 0:
        raise verif.CheckError("strace with syscall injection does not work here: " + out[-500:])


def run(ctx):
    jaq = ctx.build_jaq()
    ctx.build_model()
    proof = ctx.lean_check()
    ctx.log("lean:", "ok" if proof["ok"] else "BROKEN", len(proof["theorems"]), "theorems")
    strace_sanity()
    rng = random.Random(ctx.seed ^ 0xC18)
    stats = {"traces": 0, "rejected": 0, "state_diffs": 0, "output_diffs": 0, "property_violations": 0,
             "predictions": 0, "protocol_diffs": 0, "phases": {}, "decoded_faults": {}}

    if ctx.replay:
        case = json.load(open(ctx.replay))["case"]
        res = one_run(jaq, case["scenario"], inject=case.get("inject"), label=case.get("label", "replay"))
        ans = ctx.model([res["request"]])[0]
        judge(ctx, res, ans, stats)
        ctx.log("replay: %s inject=%s -> %d problem(s)" % (case["scenario"]["id"], case.get("inject"), len(ctx.violations)))
        ctx.coverage.update({"evaluations": 1, "distinct_nontrivial": 1, "rule": "replay of one scenario", "samples": [case_of(res)]})
        return

    scs = scenario_list(ctx.tier, ctx.seed)
    fsel = fault_scenarios(scs, ctx.tier)
    scs = scs + [s for s in fsel if s["id"].startswith("flt-")]
    ctx.log("clean traces: %d scenarios" % len(scs))
    with cf.ThreadPoolExecutor(WORKERS) as ex:
        clean = list(ex.map(lambda s: one_run(jaq, s), scs))
    answers = ctx.model([r["request"] for r in clean], timeout=900)
    for r, a in zip(clean, answers):
        judge(ctx, r, a, stats)
    preds = [(r, scenario_request(r)) for r in clean]
    preds = [(r, q) for r, q in preds if q]
    for (r, _), a in zip(preds, ctx.model([q for _, q in preds])):
        judge_prediction(ctx, r, a, stats)
    clean_traces = stats["traces"]
    ctx.log("clean traces: %d validated, %d rejected, %d state diffs, %d property violations; %d predictions, %d protocol diffs"
            % (stats["traces"], stats["rejected"], stats["state_diffs"], stats["property_violations"],
               stats["predictions"], stats["protocol_diffs"]))

    # fault enumeration
    by_id = {r["sc"]["id"]: r for r in clean}
    jobs = []
    for s in fsel:
        r = by_id[s["id"]]
        for label, inj in fault_plan(r, ctx.tier, rng):
            jobs.append((s, inj, label))
    ctx.log("fault enumeration: %d scenarios, %d injected runs" % (len(fsel), len(jobs)))
    # interleave the scenarios (so that a time budget cuts all of them evenly), run in chunks
    rng.shuffle(jobs)
    budget = float(os.environ.get("C18_FAULT_BUDGET_S", "240" if ctx.tier == "quick" else "1500"))
    t_start = time.time()
    faulty, skipped = [], 0
    with cf.ThreadPoolExecutor(WORKERS) as ex:
        for i in range(0, len(jobs), 4 * WORKERS):
            if time.time() - t_start > budget:
                skipped = len(jobs) - i
                break
            chunk = jobs[i:i + 4 * WORKERS]
            faulty += list(ex.map(lambda j: one_run(jaq, j[0], inject=j[1], label=j[2], outs=by_id[j[0]["id"]]["outs"]), chunk))
    if skipped:
        ctx.notes.append("fault enumeration stopped after %.0f s: %d of %d injected runs not executed (machine load)" % (budget, skipped, len(jobs)))
    answers = ctx.model([r["request"] for r in faulty], timeout=900)
    kinds = {}
    prefix_cover = {}
    not_hit = 0
    not_hit_labels = []
    for r, a in zip(faulty, answers):
        judge(ctx, r, a, stats)
        what = r["label"].split("#")[0].split("-")[0] + ":" + r["kind"]
        kinds[what] = kinds.get(what, 0) + 1
        if r["label"].startswith("kill") and r["kind"] != "kill":
            not_hit += 1
            not_hit_labels.append(r["sc"]["id"] + " " + r["label"])
        if r["kind"] == "kill":
            prefix_cover.setdefault(r["sc"]["id"], set()).add(len(r["ops"]))
    # exhaustiveness of the kill points: every prefix length of the clean operation sequence was produced
    full = 0
    for s in fsel:
        n = len(by_id[s["id"]]["ops"])
        got = prefix_cover.get(s["id"], set())
        # (writes not selected in big scenarios leave gaps; count scenarios covered completely)
        if all(i in got for i in range(n + 1)):
            full += 1
    ctx.log("fault enumeration: %d runs, %d skipped for time (%s); %d scenarios with every operation prefix produced; %d kill specs did not fire"
            % (len(faulty), skipped, kinds, full, not_hit))
    if not_hit > len(jobs) // 3 + 2:
        raise verif.CheckError("%d of %d kill injections did not fire: system-call counts are not reproducible" % (not_hit, len(jobs)))

    allr = clean + faulty
    samples = []
    for r in (clean[:2] + faulty[:1] + faulty[len(faulty) // 2: len(faulty) // 2 + 2]):
        samples.append({"scenario": r["sc"]["id"], "inject": r["inject"], "exit": list(r["end"]), "ops": r["pretty_ops"][:12],
                        "kind": r["kind"]})
    fams = {}
    styles = {}
    for r in allr:
        fams[r["sc"]["family"]] = fams.get(r["sc"]["family"], 0) + 1
        styles[r["sc"]["style"]] = styles.get(r["sc"]["style"], 0) + 1
    distinct = len({(r["sc"]["id"], tuple(r["inject"] or [])) for r in allr})
    ctx.coverage.update({
        "evaluations": len(allr) + stats["predictions"],
        "distinct_nontrivial": distinct,
        "rule": "one evaluation = one run of the real jaq binary under strace (scenario x injected fault), its trace checked by the "
                "protocol automaton and its final file system compared with the model; distinct = distinct (scenario, injection) pairs; "
                "every run performs at least one in-place file operation, so each counts as non-trivial",
        "samples": samples,
        "traces_validated_against_impl": stats["traces"],
        "clean_traces": clean_traces,
        "scenario_predictions": stats["predictions"],
        "injected_runs": len(faulty),
        "injected_runs_planned": len(jobs),
        "injected_runs_skipped_for_time": skipped,
        "injection_kinds": kinds,
        "fault_scenarios": len(fsel),
        "fault_scenarios_with_every_prefix_killed": full,
        "kill_specs_not_fired": not_hit,
        "kill_specs_not_fired_labels": not_hit_labels[:20],
        "final_phase_distribution": stats["phases"],
        "decoded_fault_distribution": stats["decoded_faults"],
        "family_distribution": fams,
        "path_style_distribution": styles,
        "rejected_traces": stats["rejected"],
        "state_diffs": stats["state_diffs"],
        "exhaustive": False,
    })
    ctx.assumptions += [
        "rename(2) replaces the target atomically (one step of the model); mmap coherence and durability after power loss (no fsync) are the OS's / outside the property (process kill only)",
        "tempfile (third party) creates the file with O_CREAT|O_EXCL mode 0600 under a name that did not exist, and removes it when dropped; checked on every trace (mkTemp = openat O_EXCL, unlink)",
        "a failing unlink of the temp file (which would leave it behind) is not injected: the OS refusing the clean-up is outside the model's faults",
        "strace delivers `signal=SIGKILL` on syscall entry, the call is not executed (checked: the trace of the killed run ends before it); per-syscall `when=` counters are reproducible between runs (kill specs that did not fire are counted)",
        "symbolic links, hard links and the same file named twice are outside the scenarios (the automaton rejects a repeated target)",
        "the process is not multi-threaded and no other process changes the scenario directory during the run",
    ]
