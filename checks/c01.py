"""C01 — compiled filters compute exactly the jq semantics the manual defines (DESIGN §6 C01).

1. Lean: Props/C01.lean (refinement of the definitional semantics `Core/Sem` by the impl-models
   `Core/Compile` + `Core/Machine`, `compile_tr_subset`, lookup lemmas, corollaries) is rebuilt
   and audited.
2. Correspondence (i), observable: programs are generated as jq text (exhaustive small scope over
   the binder alphabet, seeded random up to ~40 nodes, manual examples and mutations), parsed by
   the REAL parser, printed as s-expressions of `parse::Term`; the driver compiles them with the
   Compile model and runs the Machine model (as written / with the proposed repair) and the
   definitional semantics; the harness runs the real `Loader::load -> Compiler::compile ->
   filter.id.run` item by item (bounded count, up to and including the first error).
      real vs Machine(as written)  = model tie;   real vs Sem = the property itself.
   Programs on which the definitional semantics runs out of fuel before `LIMIT` outputs are not
   run on the real code (they may not terminate).
3. Correspondence (ii), structural: the compiled table (`Filter::verif_terms`, hook) against the
   Compile model's table — every TermId, `Var` index, `skip`, `CallType`; on a raw difference the
   canonical forms (DESIGN §13: definitions numbered by first visit, everything else unfolded)
   are compared.
"""
import collections
import json
import os
import re
import sys
from concurrent.futures import ThreadPoolExecutor

import verif

sys.path.insert(0, os.path.join(verif.VERIF, "pysupport"))
import c01_lib as L  # noqa: E402

# Term constructors (heads of the s-expression) — for the distribution in the evidence
HEADS = ["id", "rec", "num", "str", "arr0", "arr1", "obj", "neg", "pipe", "bin", "label", "brk", "fold", "try",
         "ite", "defs", "call", "var", "path"]

# Which Machine variant models the code in /repo:  "asis" = `cartesian` and `Path::combinations` as written
# (an error item of the left/outer stream is dropped when the right/inner stream is empty);
# "cartfixed" = after design/fixes/C01-cartesian-left-error.diff has been applied (/repo has it: 37351c6);
# "fixed" = after design/fixes/C01-path-combinations-left-error.diff as well (integrator: switch here when
# that patch is applied; the Machine variant is then exactly the `cfgF` of the theorems).
MODEL_OF_CODE = os.environ.get("C01_MODEL_OF_CODE", "cartfixed")

# which constructors of `Ast.Term` are inside the proved fragment (`Core.inFragment`, see Props/C01.lean);
# the measured number of generated programs inside the fragment comes from the driver (flag F).
FRAGMENT_DOC = {
    "inside (refinement theorem run_refines_eval_partial; program compiled with the prelude definition `!empty`)": [
        "id", "recurse (..)", "num", "str: literals and interpolation \\(f) (no @format)", "arr (some f)", "arr none ([])",
        "obj: {(k): v}, {k: v}, {$x}, {k}, {} with multi-valued keys and values", "neg",
        "pipe l none r", "pipe l (some PATTERN) r with variable, array and object patterns, computed keys (f): p, nested to any depth",
        "binop comma/alt/or/and/math/cmp", "label", "brk", "tryCatch f (some c)", "tryCatch f none (try f, f?)",
        "ite with any number of elif branches and an optional else",
        "defs (any number of definitions, any arity, `$` and filter parameters, nested/shadowed/recursive)",
        "call (locals: arguments, siblings, parents; any arity; the native error_empty)", "var",
        "fold reduce/foreach (with and without projection) with ANY pattern",
        "path f[x], f[x:y], f[x:], f[:y], f[], each with and without `?`, any number of parts (cartesian order of explode)",
    ],
    "theorems for every term (no fragment hypothesis)": ["compile_tr_subset", "compile_appends"],
    "correspondence only": [
        "str with @format", "calls of prelude (module 0) definitions other than `!empty`, natives other than error_empty",
        "CallType other than Inline is executed inline (stage C `tco_invisible` not proved)",
        "the path variant of the dropped left error (Path::combinations as written) — the theorem is about pathDropsErr = false",
    ],
    "not modelled (driver answers UNSUPPORTED)": ["assign/update/updateMath/updateAlt (C02)", "@format strings", "`/` (float results are not rendered in error messages)"],
}


def canon_table(text):
    """canonical form of a `<entry> ;; term ;; term …` table: unfold from the entry, name a definition
    body by the order of its first visit (TermId renumbering is invisible)"""
    parts = text.split(" ;; ")
    try:
        entry = int(parts[0])
    except ValueError:
        return text
    terms = parts[1:]
    defs = {}
    for t in terms:
        for m in re.finditer(r"CallDef\(TermId\((\d+)\)", t):
            defs.setdefault(int(m.group(1)), None)
    names = {}
    out = []

    def unfold(i, depth):
        if depth > 400 or i >= len(terms):
            return "?"
        t = terms[i]

        def sub(m):
            j = int(m.group(1))
            if j in defs:
                if j not in names:
                    names[j] = "D%d" % len(names)
                    out.append((names[j], None))
                    body = unfold_def(j, depth + 1)
                    out.append((names[j], body))
                return names[j]
            return "<" + unfold(j, depth + 1) + ">"
        return re.sub(r"TermId\((\d+)\)", sub, t)

    def unfold_def(j, depth):
        t = terms[j]

        def sub(m):
            k = int(m.group(1))
            if k in defs:
                if k not in names:
                    names[k] = "D%d" % len(names)
                    out.append((names[k], unfold_def(k, depth + 1)))
                return names[k]
            return "<" + unfold(k, depth + 1) + ">"
        return re.sub(r"TermId\((\d+)\)", sub, t)

    root = unfold(entry, 0)
    return root + " WHERE " + " ; ".join("%s=%s" % (n, b) for n, b in out if b is not None)


def norm_real_table(t):
    t = re.sub(r"\\u\{([0-9a-f]+)\}", lambda m: chr(int(m.group(1), 16)), t)
    return t.replace("\\0", "\x00")


def construct_of(code):
    for k, pat in (("obj", r"\{"), ("cmp", r"[<>=!]=|<|>"), ("math", r"[-+*%]")):
        if re.search(pat, code):
            return k
    return "other"


def run(ctx):
    ctx.build_harness()
    ctx.build_model()
    proof = ctx.lean_check()
    ctx.log("lean:", "ok" if proof["ok"] else "BROKEN", len(proof["theorems"]), "theorems")
    env = {**os.environ, **verif.OFFLINE_ENV, "VERIF_SEED": str(ctx.seed), "VERIF_TIER": ctx.tier,
           "JAQ_REPO": verif.REPO}
    prelude = ctx.harness(["c01", "prelude"]).strip()

    if ctx.replay:
        rp = json.load(open(ctx.replay))
        code = rp["case"]["program"]
        sx = ctx.harness(["c01", "sexpr"], input=code.encode().hex() + "\n").strip()
        cases = [{"id": "replay0", "kind": "replay", "code_hex": code.encode().hex(), "sx": sx,
                  "input": rp["case"].get("input", "N"), "code": code}]
    else:
        cases = L.parse_cases(ctx.harness(["c01", "gen"]))
    ctx.log("generated %d cases" % len(cases))
    if not cases:
        raise verif.CheckError("generator produced no cases")

    # ---- models (8 driver processes)
    reqs = [L.run_request(prelude, c) for c in cases]
    nproc = 4
    step = (len(reqs) + nproc - 1) // nproc
    slices = [reqs[i:i + step] for i in range(0, len(reqs), step)]
    with ThreadPoolExecutor(max_workers=nproc) as ex:
        answers = [a for part in ex.map(ctx.model, slices) for a in part]
    stat = collections.Counter()
    sel = []
    for c, a in zip(cases, answers):
        st, asis0, cartfx, fx, sem = L.split_model(a)
        asis = asis0 if MODEL_OF_CODE == "asis" else fx if MODEL_OF_CODE == "fixed" else cartfx
        c["m"] = (st, asis, fx, sem)
        c["cartfx"] = cartfx
        c["frag"] = st.endswith("F")
        stat["model:" + st] += 1
        if st.startswith("ok"):
            if L.conclusive(sem) and L.conclusive(asis):
                sel.append(c)
            else:
                stat["skipped: semantics out of fuel before %d outputs" % L.LIMIT] += 1
            # the two models against each other (what the refinement theorem says, observed)
            okm = (fx == sem) if (L.conclusive(fx) and L.conclusive(sem)) else L.prefix_compatible(fx, sem)
            if not okm:
                stat["MODEL-INCONSISTENT"] += 1
                ctx.violation("c01-models:%s:%s" % (c["code"], c["input"]),
                              "Machine model (repaired cartesian) and definitional semantics disagree — the refinement "
                              "theorem's models differ outside the proved fragment, or a model is wrong",
                              {"program": c["code"], "input": c["input"], "machine_fixed": fx, "sem": sem, "in_fragment": c["frag"]},
                              kind="no-failing-input-found", broken=["run_refines_eval"])
        elif st == "C":
            sel.append(c)
        elif st == "UNSUPPORTED":
            pass
        else:
            raise verif.CheckError("driver could not handle a request: %s -> %s" % (c["code"], a[:200]))
    ctx.log("models done; %d cases go to the real code" % len(sel))

    # ---- real code
    real = L.run_real_chunked(ctx.harness_bin, env, sel)
    n_cart = 0
    cart_examples = []
    for c in sel:
        r = real.get(c["id"], "MISSING")
        st, asis, fx, sem = c["m"]
        case = {"program": c["code"], "input": c["input"], "expected": sem, "observed": r, "model": asis,
                "kind_of_case": c["kind"], "in_fragment": c["frag"]}
        if r.startswith("PANIC"):
            stat["real:panic"] += 1
            ctx.violation("c01-panic:%s:%s" % (c["code"], c["input"]), "the real compiler/interpreter panics", case)
            continue
        if r in ("TIMEOUT", "CRASH", "MISSING"):
            if st.startswith("ok-R"):
                # recursion + a sub-evaluation whose outcome the semantics does not need (the real
                # code evaluates some positions at construction time: subject of C03) — inconclusive
                stat["inconclusive: real %s on a recursive program" % r] += 1
                continue
            stat["real:" + r] += 1
            ctx.violation("c01-hang:%s:%s" % (c["code"], c["input"]),
                          "the real code does not finish (%s) on a program without recursion whose semantics is %s" % (r, sem), case)
            continue
        if st == "C":
            if r != "C":
                stat["compile-status differs"] += 1
                ctx.violation("c01-compile:%s" % c["code"], "real compiler accepts a program the Compile model rejects (scope resolution)", case)
            continue
        if r == "C":
            stat["compile-status differs"] += 1
            ctx.violation("c01-compile:%s" % c["code"], "real compiler rejects a program the Compile model accepts (scope resolution)", case)
            continue
        stat["compared"] += 1
        if r != sem:
            if r == asis and fx == sem:
                n_cart += 1
                k = "cartesian:" + construct_of(c["code"]) if c["cartfx"] == sem else "path"
                if len(cart_examples) < 5:
                    cart_examples.append(case)
                ctx.violation("c01:cartesian-err-dropped:" + k,
                              "an error (or break) raised by the left/outer operand of a cartesian construct (%s) is dropped when the "
                              "right/inner operand yields nothing; the manual's `f as $x | g as $y | …` raises it" % k,
                              case, broken=["run_refines_eval (cfg.cartDropsErr = false)"])
            else:
                stat["REAL != SEM"] += 1
                ctx.violation("c01-sem:%s:%s" % (c["code"], c["input"]),
                              "compiled program and definitional semantics differ", case, broken=["run_refines_eval"])
        elif r != asis:
            stat["REAL != MACHINE"] += 1
            ctx.violation("c01-corr:%s:%s" % (c["code"], c["input"]),
                          "real interpreter and Machine model differ (semantics agrees with the real code: model bug)", case,
                          broken=["correspondence machine"])
    ctx.log("observable: %d compared, %d explained by the cartesian finding; %s" % (
        stat["compared"], n_cart, {k: v for k, v in stat.items() if k.isupper() or k.startswith("real:")}))

    # ---- structural: tables of distinct programs
    seen, uniq = set(), []
    for c in cases:
        if ctx.tier == "quick" and c["kind"] == "exs" and len(seen) % 3:
            continue  # quick tier: a third of the sampled stream
        if c["code_hex"] not in seen and c["m"][0] != "UNSUPPORTED":
            seen.add(c["code_hex"])
            uniq.append(c)
    treqs = ["c01.table %s %s" % (prelude, c["sx"]) for c in uniq]
    step = (len(treqs) + nproc - 1) // nproc
    with ThreadPoolExecutor(max_workers=nproc) as ex:
        mtabs = [a for part in ex.map(ctx.model, [treqs[i:i + step] for i in range(0, len(treqs), step)]) for a in part]
    rt = ctx.harness(["c01", "table"], input="".join("%s\t%s\n" % (c["id"], c["code_hex"]) for c in uniq))
    rtabs = dict(l.split("\t", 1) for l in rt.splitlines() if "\t" in l)
    tab_raw = tab_canon = 0
    failing_programs = {v["case"].get("program") for v in ctx.violations if isinstance(v.get("case"), dict)}
    for c, mt in zip(uniq, mtabs):
        r = norm_real_table(rtabs.get(c["id"], "MISSING"))
        if r == mt:
            continue
        tab_raw += 1
        if canon_table(r) == canon_table(mt):
            continue
        tab_canon += 1
        if c["code"] in failing_programs:
            continue  # already reported with a failing input
        ra, ma = r.split(" ;; "), mt.split(" ;; ")
        diff = [(i - 1, x, y) for i, (x, y) in enumerate(zip(ra, ma)) if x != y][:4]
        ctx.violation("c01-table:%s" % c["code"],
                      "compiled table differs from the Compile model (binder bookkeeping / call resolution) although the outputs agree on the inputs tried",
                      {"program": c["code"], "first_differences(term, real, model)": diff, "lengths": [len(ra) - 1, len(ma) - 1]},
                      kind="no-failing-input-found", broken=["correspondence compile-table"])
    ctx.log("structural: %d tables, %d raw differences, %d canonical differences" % (len(uniq), tab_raw, tab_canon))

    # ---- evidence
    heads = collections.Counter()
    for c in uniq:
        for tok in c["sx"].split(" "):
            if tok in HEADS:
                heads[tok] += 1
    kinds = collections.Counter(c["kind"] for c in cases)
    outcome_kinds = collections.Counter()
    for c in sel:
        r = real.get(c["id"], "")
        outcome_kinds["compile-error" if r == "C" else "error-ended" if " E " in " " + r else "break-escapes" if "X brk" in r
                      else "no-output" if r == "-" else "values"] += 1
    nontrivial = len({(c["code_hex"], c["input"]) for c in sel if c["m"][0].startswith("ok")})
    infrag = len([c for c in cases if c["frag"]])
    ctx.coverage.update({
        "evaluations": len(cases),
        "distinct_nontrivial": nontrivial,
        "rule": "distinct (program, input) pairs that compile, whose definitional semantics is conclusive within the fuel "
                "(complete outcome or >= %d outputs) and that were run on the real code and compared item by item" % L.LIMIT,
        "samples": [{"program": c["code"], "input": c["input"], "real": real.get(c["id"]), "sem": c["m"][3]}
                    for c in (sel[:2] + sel[len(sel) // 2: len(sel) // 2 + 2] + sel[-2:])],
        "traces_validated_against_impl": stat["compared"],
        "programs_by_stream": dict(kinds),
        "term_constructor_distribution": dict(heads),
        "outcome_distribution": dict(outcome_kinds),
        "model_status": {k: v for k, v in stat.items()},
        "tables_compared": len(uniq), "table_raw_differences": tab_raw, "table_canonical_differences": tab_canon,
        "cases_inside_proved_fragment": infrag,
        "cases_outside_proved_fragment": len(cases) - infrag,
        "fragment": FRAGMENT_DOC,
        "cartesian_finding_instances": n_cart,
        "cartesian_finding_examples": cart_examples,
        "exhaustive": False,
        "exhaustive_scope": "all well-scoped programs over the binder alphabet (DESIGN §13) with <= %d nodes; %d-node programs sampled"
                      % ((5, 6) if ctx.tier == "thorough" else (4, 5)),
        "fuel": {"non_recursive": L.FUEL_N, "recursive": L.FUEL_R, "output_limit": L.LIMIT},
    })
    ctx.assumptions += [
        "models Core/{Compile,Machine}.lean written by hand from jaq-core/src/{compile,filter,path,fold}.rs; tied by this run (outputs and whole compiled tables)",
        "the definitional semantics Core/Sem.lean is written from docs/corelang.dj + docs/advanced.dj (Patterns); label numbers are a dynamic counter in both Sem and Machine",
        "prelude = `!empty` + 18 definitions copied from jaq-core/jaq-std defs.jq; natives restricted to error_empty",
        "value operations: arithmetic/order from the shared Val models (C08/C09); index/slice/iterate and the compact JSON text of error messages are local small functions (Core/ValOps.lean) tied by this correspondence; floats never occur",
        "lazy evaluation order / construction-time evaluation (C03) and tail-call trampolining (C04) are outside L1: all CallTypes run inline in the Machine model; the computed CallType of every call is compared structurally",
        "programs whose semantics runs out of fuel before %d outputs are not run on the real code" % L.LIMIT,
    ]
