"""C11 — stream combinators and generators satisfy their defining equations (DESIGN §6 C11).

1. Lean: Props/C11.lean (stream algebra; natives of funs.rs and the explicit-stack fold of
   fold.rs proved equal to the manual's defining expansions, for every argument stream with
   errors anywhere and every count) is rebuilt and audited.
2. Correspondence (real natives vs impl-model): `limit skip nth first last isempty` in run and
   paths flavour, `range/3`, `reduce`/`foreach`/`foreach` with projection/`add` through the real
   `fold`; the outcome of the argument filters is computed by the real code and sent as data.
3. Property oracle on the real code alone: every defining equation of the manual
   (`[try (lhs | ["V", .]) catch ["E", .]]` against the same wrapping of the rhs).
"""
import concurrent.futures as cf

import verif


def short(s, n=400):
    return s if len(s) <= n else s[:n] + "…"


def run(ctx):
    ctx.build_harness()
    # translator: the pinned definitions of defs.jq as the real parser reads them
    gen = ctx.harness(["c11", "defs"])
    if "def defs : List DefRow" not in gen:
        raise verif.CheckError("c11 defs printed no table")
    if ctx.write_gen("C11Defs", gen):
        ctx.log("Gen/C11Defs.lean changed (defs.jq differs from the committed transcription)")
    ctx.build_model()
    proof = ctx.lean_check()
    if not proof["ok"]:
        ctx.notes.append("Props/C11 no longer builds; if `defs_as_transcribed` is the failing theorem, a definition in defs.jq "
                         "changed: the equations below search for an input on which it now violates its defining equation")
    ctx.log("lean:", "ok" if proof["ok"] else "BROKEN", len(proof["theorems"]), "theorems")

    with cf.ThreadPoolExecutor(max_workers=4) as ex:
        futs = {k: ex.submit(ctx.harness, ["c11", k]) for k in ("nat", "range", "fold", "eqs")}
        outs = {k: f.result() for k, f in futs.items()}

    # a case that no longer terminates (the harness watchdog names it and ends that generator)
    hangs = 0
    for part, out in outs.items():
        for l in out.splitlines():
            if l.startswith("HANG\t"):
                hangs += 1
                case = l.split("\t", 1)[1]
                ctx.violation("c11-hang:%s:%s" % (part, case),
                              "a bounded run of the real code does not terminate within 240 s (stream combinator pulls more than "
                              "its defining equation allows, or a generator diverges): %s" % short(case, 200),
                              {"generator": part, "case": case,
                               "replay": "harness/target/debug/jaqverif c11 run '<program>' '<input json>' (see case; vars in VX)"},
                              broken=["termination of bounded case in c11-" + part])
    if hangs:
        ctx.log("hanging cases: %d" % hangs)

    # ---------------------------------------------------------------- correspondence
    total = 0
    distinct = set()
    dist = {}
    samples = []
    skipped_fuel = 0
    disagreements = 0
    for part in ("nat", "range", "fold"):
        rows = [l.split("\t") for l in outs[part].splitlines() if l and not l.startswith("SKIP") and not l.startswith("HANG")]
        rows = [r for r in rows if len(r) >= 3]
        for l in outs[part].splitlines():
            if l.startswith("SKIP"):
                ctx.notes.append(l[:200])
        ans = ctx.model([r[1] for r in rows])
        bad = []
        for r, m in zip(rows, ans):
            real = r[2]
            if m in ("bad-request", "unknown-op", "bad-op"):
                raise verif.CheckError("driver rejected request: " + short(r[1]))
            # a model answer ending in `fuel` means the argument prefix sent was too short to
            # decide (infinite argument streams); not comparable, counted separately
            if m.endswith("fuel") and part != "range":
                skipped_fuel += 1
                continue
            if part == "fold" and real.endswith("fuel"):
                skipped_fuel += 1
                continue
            total += 1
            distinct.add(r[1])
            op = " ".join(r[1].split(" ")[:2])
            dist[op] = dist.get(op, 0) + 1
            if real != m:
                bad.append((r, m))
            elif len(samples) < 8 and total % 3001 == 1:
                samples.append({"program": r[3] if len(r) > 3 else "", "input": r[4] if len(r) > 4 else "",
                                "request": short(r[1], 200), "real": short(real, 200)})
        disagreements += len(bad)
        # report the smallest failing programs per operation (at most 3 each)
        bad.sort(key=lambda b: (len(b[0][3]) if len(b[0]) > 3 else 0, len(b[0][1])))
        per_op = {}
        for r, m in bad:
            op = " ".join(r[1].split(" ")[:2])
            per_op[op] = per_op.get(op, 0) + 1
            if per_op[op] > 3:
                continue
            prog = r[3] if len(r) > 3 else ""
            inp = r[4] if len(r) > 4 else ""
            ctx.violation("c11-corr:%s:%s:%s" % (op, prog, inp),
                          "real `%s` differs from the proved model of funs.rs/fold.rs" % prog,
                          {"program": prog, "input_and_vars_vx": inp, "request": r[1], "real": r[2], "model": m,
                           "replay": "harness/target/debug/jaqverif c11 run '<program>' '<input as jq literal>' [n=<vx> | a=<vx> b=<vx> c=<vx>]  "
                                     "(VX tokens of a compound value joined by '+'); prints the real outcome to compare with `model`"},
                          broken=["correspondence c11-" + part])
        ctx.log("correspondence %s: %d cases, %d disagreements" % (part, len(rows), len(bad)))

    # ---------------------------------------------------------------- equations on the real code
    eq_tot = eq_fail = eq_skip = 0
    eq_dist = {}
    fails = []
    for l in outs["eqs"].splitlines():
        if not l.startswith("EQ "):
            continue
        p = l.split("\t")
        if len(p) < 7:
            continue
        status = p[0][3:]
        name = p[1]
        if status == "SKIP":
            eq_skip += 1
            ctx.notes.append("equation skipped (does not compile): " + short(p[2], 120))
            continue
        eq_tot += 1
        eq_dist[name] = eq_dist.get(name, 0) + 1
        if status == "FAIL":
            eq_fail += 1
            fails.append(p)
        elif len(samples) < 16 and eq_tot % 1499 == 1:
            samples.append({"equation": name, "lhs": short(p[2], 160), "rhs": short(p[3], 160), "input": p[4], "both": short(p[5], 160)})
    fails.sort(key=lambda p: len(p[2]) + len(p[3]))
    per_name = {}
    for p in fails:
        per_name[p[1]] = per_name.get(p[1], 0) + 1
        if per_name[p[1]] > 3:
            continue
        ctx.violation("c11-eq:%s:%s:%s" % (p[1], p[2], p[4]),
                      "manual equation `%s` fails on the real code: `%s` vs `%s`" % (p[1], short(p[2], 150), short(p[3], 150)),
                      {"equation": p[1], "lhs": p[2], "rhs": p[3], "input_and_vars": p[4], "lhs_result": p[5], "rhs_result": p[6],
                       "replay": "jaq -c '[try ((LHS) | [\"V\", .]) catch [\"E\", .]]' <<< INPUT   (same for RHS)"},
                      broken=["equation " + p[1]])
    ctx.log("equations: %d evaluated, %d fail, %d skipped" % (eq_tot, eq_fail, eq_skip))
    if (eq_tot < 1000 or total < 1000) and not hangs:
        raise verif.CheckError("generator produced too few cases (%d corr, %d eqs)" % (total, eq_tot))

    ctx.coverage.update({
        "evaluations": total + eq_tot,
        "distinct_nontrivial": len(distinct) + eq_tot,
        "rule": "correspondence: distinct (operation, count, argument outcome) requests — argument streams are all sequences up to "
                "length 3 over {1, 2, error, empty, (3,4)} plus seeded random streams (values, errors with several payloads, empty parts, "
                "multiplicities, input-dependent parts, halt), counts −2…len+2, big integers, floats, NaN/∞, decimal literals, null/bool and "
                "wrong types; every request runs one native on one outcome. equations: each (equation, argument, count, input) instance "
                "evaluated on the real code with try/catch markers on both sides",
        "samples": samples,
        "traces_validated_against_impl": total,
        "operation_distribution": dist,
        "equation_distribution": eq_dist,
        "equations_evaluated": eq_tot,
        "disagreements": disagreements,
        "equation_failures": eq_fail,
        "not_comparable_infinite_prefix": skipped_fuel,
        "exhaustive": False,
    })
    ctx.assumptions += [
        "consumers of a stream stop at its first Err item (try_catch_run, collect, the CLI loop): the model observes a stream as "
        "`Out` = values before the first non-value item + the stop; items a Rust iterator could deliver after an error are not modelled",
        "argument filters are parameters of the model; their outcome on the given input is computed by the real interpreter and sent as data "
        "(update/project of reduce/foreach as finite tables obtained by single-step runs)",
        "value operations (`+`, `-`, comparison) are the shared models Val/Arith.lean, Val/Order.lean (C09/C08), exercised here through "
        "limit/skip counts and range",
        "the size_hint optimisation of fold.rs is modelled by an arbitrary sound hint (theorem) and `hintExact` (driver)",
        "rc_lazy_list (shared memoised xs) is modelled as a value: re-reading xs yields the same items",
    ]
