"""C12 — collection built-ins obey the invariants and equations the manual states (DESIGN §6 C12).

1. Lean: Props/C12.lean (laws of the impl-model of sort_by / group_by / unique_by / min_by /
   max_by / keys / entries / indices / flatten / transpose / bsearch / contains / round /
   tonumber / prefixes / type, for ALL inputs) is rebuilt and audited.
2. Correspondence: the real natives and definitions vs the Lean impl-model on the same inputs
   (key filters are run by the real interpreter, their outputs travel as key tables; the
   JSON reader's output stream is a parameter of `tonumber`).
3. Specification: the real `flatten($d)`, `floor/round/ceil`, `tonumber/toboolean` vs the
   manual's definition computed by the Lean model (`flattenSpec`, `roundSpecNum`, `toTypeSpec`).
4. Oracle on the real library alone: ~85 equations / invariants, several verbatim from the
   manual (`verify` definitions of indices / transpose, `flattens`, `paths(p)`, jq's `walk`, …),
   on arrays/objects with duplicates, ties, mixed types, empties, non-string keys × key filters
   with 0..2 outputs.
"""
import verif


def _short(s, n=300):
    return s if len(s) <= n else s[:n] + "…"


def run(ctx):
    ctx.build_harness()
    # translator: the definitions of the three defs.jq files that the models transcribe, as the
    # real parser reads the real files (Props/C12 `defs_as_transcribed` compares them with the
    # transcription the models were written from)
    gen = ctx.harness(["c12", "defs"])
    if "def defs : List DefRow" not in gen:
        raise verif.CheckError("c12 defs printed no table")
    old_rows = {}
    try:
        import os
        for l in open(os.path.join(verif.LEAN, "JaqVerif", "C12", "Defs.lean")):
            if l.startswith('  ("'):
                old_rows[l.split("], ")[0].strip() + "]"] = l.strip().rstrip(",")
    except OSError:
        pass
    changed_defs = []
    for l in gen.splitlines():
        if l.startswith('  ("'):
            k = l.split("], ")[0].strip() + "]"
            if old_rows and old_rows.get(k) != l.strip().rstrip(","):
                changed_defs.append(k)
    if ctx.write_gen("C12Defs", gen):
        ctx.log("Gen/C12Defs.lean changed")
    if changed_defs:
        ctx.log("definitions that differ from the transcription in C12/Defs.lean:", "; ".join(changed_defs))
        ctx.notes.append("defs.jq definitions differ from the transcription the C12 models were written from: " + "; ".join(changed_defs)
                         + " — `defs_as_transcribed` (Props/C12) does not hold; the correspondence below looks for a failing input")
    ctx.build_model()
    proof = ctx.lean_check()
    ctx.log("lean:", "ok" if proof["ok"] else "BROKEN", len(proof["theorems"]), "theorems")

    # ------------------------------------------------------------ correspondence + spec
    out = ctx.harness(["c12", "gen"], check=False)
    cases, specs = [], []
    last_pre, ended = None, False
    for l in out.splitlines():
        if not l:
            continue
        if l == "END":
            ended = True
            continue
        parts = l.split("\t")
        if parts[0] == "PRE":
            last_pre = parts[1] if len(parts) > 1 else None
            continue
        if parts[0] == "SPEC" and len(parts) == 6:
            specs.append(parts[1:])
        elif len(parts) in (3, 4):
            cases.append(tuple(parts[:3]) + (parts[3] if len(parts) == 4 else "",))
    if len(cases) < 1000:
        raise verif.CheckError("harness produced only %d correspondence cases" % len(cases))
    if not ended:
        # the generator died inside the real library (e.g. stack overflow of a diverging definition)
        if last_pre is None:
            raise verif.CheckError("harness c12 gen ended early after %d cases" % len(cases))
        ctx.violation("c12:crash:" + _short(last_pre, 200), "the real library does not return on `%s` (process died)" % _short(last_pre, 120),
                      {"replay": "jaq -nc '%s'" % last_pre, "program": last_pre}, broken=["walk_eqn"])

    panics = [c for c in cases if "PANIC" in c[2]]
    for c in panics[:10]:
        ctx.violation("c12:panic:" + c[1].split(" ")[0] + ":" + c[1][:120], "built-in panics", {"replay": "jaq -nc '%s'" % c[3], "request": c[1], "real": c[2]})
    cases = [c for c in cases if "PANIC" not in c[2]]

    # the model declares some transpose rows outside its scope
    reqs = [c[1] for c in cases]
    ans = ctx.model(reqs)
    bad = unmodelled = 0
    kinds = {}
    unm_by_op = {}
    for (cid, req, real, human), m in zip(cases, ans):
        op = req.split(" ")[0] + (":" + req.split(" ")[1] if req.startswith(("c12.keyed", "c12.round ", "c12.is ", "c12.totype")) else "")
        kinds[op] = kinds.get(op, 0) + 1
        if m == "unmodelled":
            unmodelled += 1
            unm_by_op[op] = unm_by_op.get(op, 0) + 1
            continue
        if m == "bad-request":
            raise verif.CheckError("driver rejects request: " + _short(req, 300))
        if real != m:
            bad += 1
            if bad <= 25:
                ctx.violation("c12-corr:" + op + ":" + _short(req, 200),
                              "real code and proved impl-model disagree on `%s`" % _short(req, 120),
                              {"case_id": cid, "replay": "jaq -nc '%s'" % human, "request": req, "real": real, "model": m},
                              broken=["correspondence " + op])
    ctx.log("correspondence: %d cases, %d disagreements, %d outside the model, %d panics" % (len(cases), bad, unmodelled, len(panics)))
    # the models of the defs.jq filters declare inputs outside their scope (slices, byte strings, big
    # integers as positions); a model that covers too little of what is generated is a machinery error
    for op, n in unm_by_op.items():
        if ended and kinds.get(op, 0) >= 50 and n * 2 > kinds.get(op, 0):
            raise verif.CheckError("model covers less than half of the generated cases of %s (%d of %d outside)" % (op, n, kinds[op]))

    # real code vs the manual's definition (computed by the Lean model)
    sreq = [s[1] for s in specs]
    sans = ctx.model(sreq)
    sbad = {}
    for (key, req, real, prog, inp), m in zip(specs, sans):
        if real != m:
            if key.startswith("c12:flatten-depth:array:depth>=0"):
                # arrays at depth >= 0: the only deviation the current definition has is `null` for an empty result
                key += ":null-for-empty-result" if (real == "V N" and m == "V A0") else ":other:" + _short(req, 160)
            if key not in sbad:
                sbad[key] = 0
                what = {"c12:flatten-depth": "flatten($d) differs from the manual's [flattens($d)]",
                        "c12:round-exact": "floor/round/ceil does not yield the closest integer",
                        "c12:totype": "tonumber/toboolean on a string yields neither one value nor a failure"}
                w = next((v for k, v in what.items() if key.startswith(k)), "real code differs from the manual's definition")
                ctx.violation(key, "%s: `%s | %s`" % (w, _short(inp, 80), prog),
                              {"program": prog, "input": inp, "real": real, "manual": m, "spec_request": req,
                               "replay": "jaq -nc '%s | [%s]'" % (inp, prog)},
                              broken=["flatten_spec" if "flatten" in key else "round_spec" if "round" in key else "tonumber_spec"])
            sbad[key] += 1
    ctx.log("specification: %d cases, %d differ from the manual (%d keys)" % (len(specs), sum(sbad.values()), len(sbad)))

    # ------------------------------------------------------------ oracle on the real library
    orc = ctx.harness(["c12", "oracle"])
    eq_total = eq_fail = 0
    sums = {}
    fails = {}
    samples = []
    for l in orc.splitlines():
        p = l.split("\t")
        if p[0] == "ORACLE SKIP":
            raise verif.CheckError("oracle equation does not compile: " + l)
        if p[0] == "ORACLE SUM":
            name, var, ok, fail, errs = p[1], p[2], int(p[3]), int(p[4]), int(p[5])
            eq_total += ok + fail
            eq_fail += fail
            s = sums.setdefault(name, [0, 0, 0])
            s[0] += ok
            s[1] += fail
            s[2] += errs
        elif p[0] == "ORACLE FAIL" and len(p) >= 8:
            name, cl, lhs, rhs, inp, lv, rv = p[1:8]
            key = "c12-oracle:%s:%s" % (name, cl)
            if key not in fails:
                fails[key] = 0
                ctx.violation(key, "the manual's equation `%s` fails on the real library" % name,
                              {"equation": name, "lhs": lhs, "rhs": rhs, "input": inp, "lhs_result": lv, "rhs_result": rv,
                               "replay": "jaq -nc '%s | [%s], [%s]'   (pairs: `. as [$in,$x] | $in | …`)" % (inp, lhs, rhs)},
                              broken=["oracle " + name])
            fails[key] += 1
    if len(sums) < 60:
        raise verif.CheckError("oracle evaluated only %d equations" % len(sums))
    trivial = [n for n, s in sums.items() if s[0] + s[1] == 0 or s[2] == s[0] + s[1]]
    if trivial:
        raise verif.CheckError("oracle equations never evaluated to a value: %s" % trivial)
    ctx.log("oracle: %d equations, %d evaluations, %d failures (%d keys)" % (len(sums), eq_total, eq_fail, len(fails)))

    for c in cases[:2] + cases[len(cases) // 3: len(cases) // 3 + 2] + cases[-2:]:
        samples.append({"request": _short(c[1], 160), "real": _short(c[2], 160)})
    distinct = len({c[1] for c in cases}) + len({s[1] for s in specs})
    ctx.coverage.update({
        "evaluations": len(cases) + len(specs) + eq_total,
        "distinct_nontrivial": distinct,
        "rule": "distinct (operation, input[, key table]) requests: keyed natives exhaustively on all arrays of length <= 3 (thorough: 4) "
                "over 6 elements with ties (1, 1.0, objects equal on .a) x 8 key filters (0..2 outputs, failing), seeded random arrays "
                "with 1..4 distinct elements x 18 key filters; every other built-in on pools of every type incl. non-string keys, "
                "byte strings, multi-byte text, nested empties; floats at every integer / isize boundary. Oracle evaluations are "
                "counted separately (equation x input); an equation whose sides only ever fail is a machinery error.",
        "samples": samples,
        "traces_validated_against_impl": len(cases),
        "operation_distribution": kinds,
        "spec_comparisons": len(specs),
        "oracle_equations": len(sums),
        "oracle_evaluations": eq_total,
        "oracle_per_equation": {n: {"ok": s[0], "fail": s[1], "both_error": s[2]} for n, s in sums.items()},
        "disagreements": bad,
        "outside_model": unmodelled,
        "outside_model_by_operation": unm_by_op,
        "definitions_pinned": len(old_rows),
        "definitions_changed": changed_defs,
        "exhaustive": False,
    })
    ctx.assumptions += [
        "models JaqVerif/C12/{Sort,Coll}.lean written by hand from jaq-std/src/lib.rs, jaq-json/src/funs.rs and the defs.jq files; tied by this run's correspondence",
        "slice::sort_by_cached_key / sort_by / sort are stable sorts by the given comparison; slice::binary_search satisfies its documented contract (checked on every generated case)",
        "order laws of Val.cmp / Val.eq (total preorder, == is its equivalence) are hypotheses of the sorting theorems (C08 proves them); the generators avoid NaN and integers beyond 2^53 next to floats, where they fail",
        "the JSON reader behind fromjson (hifijson) is a parameter of the tonumber/toboolean model: its real output stream is passed in",
        "format!(\"{f:.0}\") of an integer-valued double is its exact decimal expansion (round conversion of out-of-range floats)",
        "IndexMap lookup is modelled as first entry with equal hash feed and == (hash collisions ignored)",
        "text-string indices: theorem at the level of byte windows on character starts; equivalence with character slicing for valid UTF-8 is C13's",
        "filter arguments of map / map_values / walk / with_entries / paths / all / any are finite streams `Val -> List ValR`; the correspondence passes the real filter as a table of its real outputs on the values the model applies it to (tostring for join, path_value(f) for pick, split_ for splits likewise)",
        "models of delpaths / del(.[k]) / has cover object keys and machine-integer array positions; slices, big integers and byte strings answer `unmodelled` (counted in the evidence)",
    ]
