"""C16 — a program split into modules computes what its inlined form computes (DESIGN §6 C16).

1. Lean: Props/C16.lean (whole-program refinement modular run = inlined run, loader terminates /
   loads every path once / reachable cycles are always errors, search order, absolute refused,
   extension rule, variable index incl. the command line's vector, shadowing, module isolation)
   is rebuilt and audited.
2. In-memory correspondence (`Loader::with_read`): all shapes over three modules + seeded random
   graphs (cycles, aliases of one file, missing and broken files, data imports, globals, name
   clashes, calls from under binders).  For every graph:
     real reader-call trace / load errors / compile errors / output   ==  model (`c16.run`)
     real run of the *inlined* single program (printed by the model's `inline`)  ==  real modular run
   Also compared with the real output: the model's lexical evaluator on the inlined text and on
   the closure form of the inlined program (`runLexical`, subject of run_modules_eq_run_inlined).
2b. Module graphs through the jaq binary with --arg/--argjson/--slurpfile/--rawfile, data imports,
   $ENV, $ARGS, input_filename inside modules: real output == model under the run-time vector
   order of `real_main` (`cliGlobals`, var_index_correct_cli).
3. CLI with real temporary directories: `-L`, `search` metadata, `$ORIGIN`, `~` (HOME), default
   library paths, relative-to-importing-file, absolute paths, extensions; every placement of
   the file among the candidate directories.  real `jaq`  ==  model `findFile`
   (the code as it is), and  ==  the property's rule (`.jq`/`.json` only when no extension).
"""
import itertools
import json
import os
import random
import shutil
import subprocess
import tempfile

import verif

DIRS = ["work", "work/sub", "work/lib1", "work/lib2", "work/meta1", "work/sub/meta1", "home/.jq",
        "home/hl", "lib/jq", "lib", "bin/x", "abs"]


def eq(s):
    return "=" + s


class Cli:
    """One temporary tree: <root>/bin/jaq (copy of the binary, so that $ORIGIN = <root>/bin),
    HOME=<root>/home, working directory <root>/work."""

    def __init__(self, ctx, link_from=None):
        self.ctx = ctx
        self.root = os.path.realpath(tempfile.mkdtemp(prefix="c16-"))
        for d in DIRS + ["bin", "home", "work"]:
            os.makedirs(os.path.join(self.root, d), exist_ok=True)
        self.jaq = os.path.join(self.root, "bin", "jaq")
        try:
            if link_from is None:
                raise OSError
            os.link(link_from, self.jaq)
        except OSError:
            shutil.copy(ctx.jaq_bin, self.jaq)
        self.placed = []

    def close(self):
        shutil.rmtree(self.root, ignore_errors=True)

    def clear(self):
        for p in self.placed:
            try:
                os.remove(p)
            except OSError:
                pass
        self.placed = []

    def place(self, rel_to_root, content):
        p = os.path.join(self.root, rel_to_root)
        os.makedirs(os.path.dirname(p), exist_ok=True)
        with open(p, "w") as f:
            f.write(content)
        self.placed.append(p)
        return p

    def snapshot(self):
        files, dirs = [], []
        for dp, dn, fn in os.walk(self.root):
            dirs.append(dp)
            files += [os.path.join(dp, f) for f in fn]
        return files, dirs

    def run(self, args):
        env = {"HOME": os.path.join(self.root, "home"), "PATH": "/usr/bin:/bin", "NO_COLOR": "1"}
        # no timing is checked: the generous timeout only guards against a hang; one retry on a loaded machine
        for attempt in (0, 1):
            try:
                p = subprocess.run([self.jaq] + args, cwd=os.path.join(self.root, "work"), env=env, timeout=900,
                                   stdin=subprocess.DEVNULL, stdout=subprocess.PIPE, stderr=subprocess.PIPE,
                                   text=True, errors="replace")
                return p.returncode, p.stdout, p.stderr
            except subprocess.TimeoutExpired:
                if attempt == 1:
                    raise verif.CheckError("jaq did not finish within 900 s (twice): " + " ".join(args)[:300])


def meta_text(meta):
    if meta is None:
        return ""
    if isinstance(meta, str):
        return " {search: %s}" % json.dumps(meta)
    return " {search: [%s]}" % ", ".join(json.dumps(m) for m in meta)


def meta_list(meta):
    if meta is None:
        return []
    return [meta] if isinstance(meta, str) else list(meta)


def classify_real(rc, out, err, kind):
    if rc == 0:
        try:
            v = json.loads(out)
        except ValueError:
            return "ERR unparsable:" + out[:80]
        if kind == "data":
            v = v[0] if isinstance(v, list) and len(v) == 1 else v
        return "OK " + str(v)
    if "non-relative path" in err:
        return "ERR nonrelative"
    if "file not found" in err:
        return "ERR notfound"
    return "ERR other:" + err.strip().replace("\n", " ")[:120]


def find_request(cli, fix, ext, parent_file, rel, metas, libs):
    files, dirs = cli.snapshot()
    toks = ["c16.find", "1" if fix else "c", eq(ext), eq(os.path.join(cli.root, "home")),
            eq(os.path.join(cli.root, "bin")), eq(os.path.join(cli.root, "work")), eq(parent_file), eq(rel),
            "M%d" % len(metas)] + [eq(m) for m in metas] + ["L%d" % len(libs)] + [eq(l) for l in libs] + \
           ["F%d" % len(files)] + [eq(f) for f in files] + ["D%d" % len(dirs)] + [eq(d) for d in dirs]
    return " ".join(toks)


def cli_scenarios(rng, n_random):
    """Yield scenario dicts: kind, rel, meta, libs, main ('inline' | path of main file relative to
    work), placements (list of paths relative to root)."""
    R = "<root>"
    absdir = "<root>/abs"
    # (a) candidate order: file `m.jq` in every single directory and every pair of directories
    order_meta = ["meta1", "~/hl", "$ORIGIN/x", absdir]
    order_libs = ["lib1", "~/hl", "lib1/../lib2", "$ORIGIN/../lib"]
    cand_dirs = ["work/meta1", "home/hl", "bin/x", "abs", "work/lib1", "work/lib2", "lib", "work", "work/sub/meta1"]
    placements = [[]] + [[d] for d in cand_dirs] + [list(p) for p in itertools.combinations(cand_dirs, 2)]
    for kind in ("mod", "data"):
        fname = "m.jq" if kind == "mod" else "m.json"
        for pl in placements:
            yield dict(kind=kind, rel="m", meta=order_meta, libs=order_libs, main="inline",
                       files=[os.path.join(d, fname) for d in pl], group="order")
    # the same from a main file in work/sub: `search` is relative to the file, -L to the cwd
    for pl in placements[:1 + len(cand_dirs)] + [["work/meta1", "work/sub/meta1"], ["work/sub/meta1", "work/lib1"]]:
        yield dict(kind="mod", rel="m", meta=["meta1", "."], libs=["lib1", "."], main="sub/main.jq",
                   files=[os.path.join(d, "m.jq") for d in pl] + (["work/sub/m.jq"] if "work" in pl else []),
                   group="relative-to-file")
    # (b) default library paths (no -L)
    for pl in [[], ["home/.jq"], ["lib/jq"], ["lib"], ["home/.jq", "lib/jq"], ["lib/jq", "lib"], ["home/.jq", "lib"], ["work"]]:
        yield dict(kind="mod", rel="m", meta=None, libs=[], main="inline",
                   files=[os.path.join(d, "m.jq") for d in pl], group="defaults")
    # (c) extensions: which file name is looked for
    ext_rels_mod = ["m", "m.jq", "m.txt", "m.", ".m", "a.b.c", "d1/m", "d1/m.txt", "d.x/m", "m.jq.txt", "m.json"]
    ext_rels_data = ["m", "m.json", "m.cbor", "m.jq", "d1/m.yaml", "a.b", ".m"]
    for kind, rels in (("mod", ext_rels_mod), ("data", ext_rels_data)):
        ext = "jq" if kind == "mod" else "json"
        for rel in rels:
            base = os.path.join("work/lib1", rel)
            name = os.path.basename(base)
            stem = base.rsplit(".", 1)[0] if "." in name[1:] else base
            variants = sorted({base, base + "." + ext, stem + "." + ext})
            subsets = [[]] + [[v] for v in variants] + [variants]
            for fl in subsets:
                yield dict(kind=kind, rel=rel, meta=None, libs=["lib1"], main="inline", files=fl, group="extension")
    # (d) absolute and odd paths
    yield dict(kind="mod", rel="<root>/work/lib1/m", meta=None, libs=["lib1"], main="inline",
               files=["work/lib1/m.jq"], group="absolute")
    yield dict(kind="data", rel="<root>/work/lib1/m", meta=None, libs=["lib1"], main="inline",
               files=["work/lib1/m.json"], group="absolute")
    yield dict(kind="mod", rel="/m", meta=["/"], libs=["/"], main="inline", files=[], group="absolute")
    for rel in ["../lib2/m", "./m", "lib1/../lib2/m", "nodir/../m", "m/", "..", "m.jq/../m"]:
        yield dict(kind="mod", rel=rel, meta=["."], libs=["lib1"], main="inline",
                   files=["work/lib2/m.jq", "work/lib1/m.jq", "work/m.jq"], group="dots")
    # (e) seeded random mixtures
    meta_pool = ["meta1", ".", "..", "~/hl", "$ORIGIN/x", absdir, "nonexist", "~", "$ORIGIN", "sub/../meta1", "~x", "lib1"]
    lib_pool = ["lib1", "lib2", "~/hl", "$ORIGIN/x", "nonexist", "lib1/../lib2", ".", "sub", absdir, "~/.jq"]
    rel_pool = ["m", "m.jq", "m.txt", "d1/m", "../m", "m.json"]
    all_dirs = ["work", "work/sub", "work/lib1", "work/lib2", "work/meta1", "work/sub/meta1", "home/.jq", "home/hl",
                "lib/jq", "lib", "bin/x", "abs", "home", "bin", "work/lib1/d1", "work/d1"]
    for _ in range(n_random):
        kind = rng.choice(["mod", "data"])
        ext = "jq" if kind == "mod" else "json"
        rel = rng.choice(rel_pool)
        nm = rng.choice([0, 1, 1, 2, 3])
        meta = [rng.choice(meta_pool) for _ in range(nm)]
        if nm == 0:
            meta = None
        elif nm == 1 and rng.random() < 0.5:
            meta = meta[0]
        libs = [rng.choice(lib_pool) for _ in range(rng.choice([0, 1, 2, 3]))]
        main = rng.choice(["inline", "inline", "sub/main.jq", "main.jq", "sub/../main.jq"])
        fl = []
        for d in rng.sample(all_dirs, rng.choice([0, 1, 2, 3, 4])):
            base = os.path.basename(rel) if "/" not in rel or rng.random() < 0.3 else rel
            name = rng.choice([base, base + "." + ext, base.rsplit(".", 1)[0] + "." + ext])
            fl.append(os.path.normpath(os.path.join(d, name)))
        yield dict(kind=kind, rel=rel, meta=meta, libs=libs, main=main, files=fl, group="random")


def exec_scenarios(cli, scen):
    """Run the scenarios one after the other in the tree `cli`; returns
    (scenario, argv, real outcome, request for the model as the code is, request for the property's rule, root)."""
    res = []
    for sc in scen:
        cli.clear()
        if sc["group"] == "nested":
            for d in ("work", "work/lib1", "work/lib2", "work/lib1/d1"):
                cli.place(os.path.join(d, "m.jq"), "def probe: %s;" % json.dumps(os.path.join(cli.root, d, "m.jq")))
            a = cli.place("work/lib1/a.jq", 'include "m" {search: %s}; def probe2: probe;' % json.dumps(sc["meta"]))
            args = ["-n", "-c", "-L", "lib1", 'include "a"; probe2']
            parent = a
        else:
            for f in sc["files"]:
                if f.startswith(".."):
                    continue
                p = os.path.join(cli.root, f)
                if os.path.isdir(p):
                    continue
                cli.place(f, ("def probe: %s;" if sc["kind"] == "mod" else "%s") % json.dumps(p))
            mt = meta_text(sc["meta"])
            rel = sc["rel"].replace("<root>", cli.root)
            if sc["kind"] == "mod":
                prog = 'include %s%s; probe' % (json.dumps(rel), mt.replace("<root>", cli.root))
            else:
                prog = 'import %s as $d%s; $d' % (json.dumps(rel), mt.replace("<root>", cli.root))
            largs = []
            for l in sc["libs"]:
                largs += ["-L", l.replace("<root>", cli.root)]
            if sc["main"] == "inline":
                args = ["-n", "-c"] + largs + [prog]
                parent = "<inline>"
            else:
                cli.place(os.path.normpath(os.path.join("work", sc["main"])), prog)
                args = ["-n", "-c"] + largs + ["-f", sc["main"]]
                parent = sc["main"]
        rc, out, err = cli.run(args)
        real = classify_real(rc, out, err, sc["kind"])
        ext = "jq" if sc["kind"] == "mod" else "json"
        metas = [m.replace("<root>", cli.root) for m in meta_list(sc["meta"])]
        libs = [l.replace("<root>", cli.root) for l in sc["libs"]]
        rel = sc["rel"].replace("<root>", cli.root)
        res.append((sc, args, real, find_request(cli, False, ext, parent, rel, metas, libs),
                    find_request(cli, True, ext, parent, rel, metas, libs), cli.root))
    return res


def run_cli_part(ctx):
    from concurrent.futures import ThreadPoolExecutor
    ctx.build_jaq()
    rng = random.Random(ctx.seed ^ 0xC16)
    n_random = 1500 if ctx.tier == "thorough" else 250
    scen = list(cli_scenarios(rng, n_random))
    # a module found through -L includes another one with `search` relative to itself
    for search in ("./", "../lib2", "d1", "~/hl"):
        scen.append(dict(kind="mod", rel="m", meta=search, libs=["lib1"], main="module:lib1/a.jq",
                         files=["(m.jq in work, lib1, lib2, lib1/d1)"], group="nested"))
    nw = 4
    clis = []
    try:
        for i in range(nw):
            clis.append(Cli(ctx, clis[0].jaq if clis else None))
        with ThreadPoolExecutor(nw) as ex:
            parts = list(ex.map(lambda i: exec_scenarios(clis[i], scen[i::nw]), range(nw)))
    finally:
        for c in clis:
            c.close()
    results = [r for p in parts for r in p]
    ans = ctx.model([r[3] for r in results] + [r[4] for r in results])
    bad_corr = bad_prop = 0
    groups = {}
    distinct = set()
    samples = []
    for i, (sc, args, real, _, _, root) in enumerate(results):
        impl, spec = ans[i], ans[len(results) + i]
        rel_show = sc["rel"]
        groups[sc["group"]] = groups.get(sc["group"], 0) + 1
        desc = {"program_kind": sc["kind"], "rel": rel_show, "search": sc["meta"], "L": sc["libs"], "main": sc["main"],
                "files_present": sc["files"], "argv": [a.replace(root, "<root>") for a in args],
                "real": real.replace(root, "<root>"), "model_as_is": impl.replace(root, "<root>"),
                "property_rule": spec.replace(root, "<root>")}
        if real.startswith("OK") or real in ("ERR notfound", "ERR nonrelative"):
            distinct.add(json.dumps([sc["kind"], rel_show, sc["meta"], sc["libs"], sc["main"], sorted(sc["files"])], default=str))
        if len(samples) < 4 and sc["group"] in ("order", "extension") and len(sc["files"]) >= 2 and i % 7 == 0:
            samples.append(desc)
        if real != impl:
            bad_corr += 1
            ctx.violation("c16-find-corr:%s:%s:%s" % (sc["group"], sc["kind"], rel_show),
                          "file search: real jaq and the model of Import::find disagree (look-up order / prefix expansion / "
                          "relative-to-file / absolute test changed?)", desc, broken=["correspondence c16-find"])
        elif real != spec and os.path.splitext(os.path.basename(sc["rel"]))[1] not in ("", "."):
            # (a name ending in a bare `.` is left out: whether that "gives an extension" is ambiguous)
            bad_prop += 1
            kindname = "include" if sc["kind"] == "mod" else "import-data"
            ctx.violation("c16-ext:%s:%s" % (kindname, rel_show),
                          "`%s \"%s\"` looks for a file with the given extension REPLACED by .%s (property: appended only "
                          "when no extension is given)" % (kindname, rel_show, "jq" if sc["kind"] == "mod" else "json"),
                          desc, broken=["JaqVerif.Props.C16.extension_only_when_missing"])
    ctx.log("cli search: %d scenarios, %d model disagreements, %d extension-rule violations" % (len(results), bad_corr, bad_prop))
    return len(results), len(distinct), groups, samples, bad_corr, bad_prop


def run_graph_part(ctx):
    import subprocess
    pr = subprocess.run([ctx.harness_bin, "c16", "gen"], stdout=subprocess.PIPE, stderr=subprocess.PIPE, text=True,
                        errors="replace", timeout=3600,
                        env={**os.environ, "VERIF_SEED": str(ctx.seed), "VERIF_TIER": ctx.tier})
    reqs, anss = {}, {}
    order = []
    for l in pr.stdout.splitlines():
        if l.startswith("REQ "):
            cid, req = l[4:].split("\t", 1)
            reqs[cid] = req
            order.append(cid)
        elif l.startswith("ANS "):
            cid, a = l[4:].split("\t", 1)
            anss[cid] = a
    if pr.returncode != 0:
        crashed = [cid for cid in order if cid not in anss]
        if not crashed:
            raise verif.CheckError("harness c16 gen failed: " + pr.stderr[-2000:])
        cid = crashed[0]
        ctx.violation("c16-crash:" + cid,
                      "the real loader/compiler crashes the process on this module graph (stack overflow: a circular "
                      "include/import is followed instead of being reported?)",
                      {"request": reqs[cid], "exit": pr.returncode, "stderr": pr.stderr[-600:]},
                      broken=["JaqVerif.Props.C16.cycle_is_error", "correspondence c16-graph"])
    cases = [(cid, reqs[cid], anss[cid]) for cid in order if cid in anss]
    for c in [c for c in cases if c[2].startswith("PANIC")][:10]:
        ctx.violation("c16-panic:" + c[0], "loading/compiling/running a module graph panics", {"request": c[1], "real": c[2]})
    cases = [c for c in cases if not c[2].startswith("PANIC")]

    def classify(cid, req, real, model):
        r, m = real.split(" ## "), model.split(" ## ")
        if r[0] != m[0]:
            what = "trace"
        elif r[-1].split(" ")[0] != m[-1].split(" ")[0]:
            what = "outcome-" + r[-1].split(" ")[0] + "-vs-" + m[-1].split(" ")[0]
        else:
            what = r[-1].split(" ")[0]
        return "c16-graph-corr:%s:%s" % (what, cid)

    bad = verif.diff_corr(ctx, cases, "c16-graph", classify)
    # inlined programs: printed by the model, run by the real code
    inl = ctx.model(["c16.inline" + c[1][len("c16.run"):] for c in cases])
    single_in, want = [], {}
    model_inline_bad = 0
    for c, a in zip(cases, inl):
        if not a.startswith("PROG "):
            continue
        prog, mout, lout, cout = a[5:].rsplit(" ## ", 3)
        toks = c[1].split(" ")
        k = int(toks[1][1:])
        real_out = c[2].split(" ## ")[-1]
        if not real_out.startswith("OUT "):
            continue
        # mout: modular evaluator on the inlined text; lout: lexical evaluator `evalL` on the inlined text;
        # cout: `runLexical`, the closure form of the inlined program (subject of run_modules_eq_run_inlined)
        for what, got_m in (("text/eval", mout), ("text/evalL", lout), ("closure-form/runLexical", cout)):
            if got_m != real_out:
                model_inline_bad += 1
                if model_inline_bad <= 5:
                    ctx.violation("c16-inline-model:%s:%s" % (what, c[0]),
                                  "model: the inlined program (%s) evaluates differently from the modular one" % what,
                                  {"request": c[1], "modular": real_out, "inlined_model": got_m, "program": prog},
                                  broken=["JaqVerif.Props.C16.run_modules_eq_run_inlined"])
        single_in.append("%s\t%s\t%s" % (c[0], ",".join(toks[2:2 + k]), prog))
        want[c[0]] = (real_out, c[1], prog)
    res = ctx.harness(["c16", "single"], input="\n".join(single_in) + "\n", check=False)
    got = dict(l.split("\t", 1) for l in res.splitlines() if "\t" in l)
    bad_inline = 0
    for line in single_in:
        cid = line.split("\t", 1)[0]
        real_out, req, prog = want[cid]
        if cid not in got:
            # the process died on this program (stack overflow); the rest was not run
            bad_inline += 1
            ctx.violation("c16-inline-crash:" + cid, "the inlined form of a terminating modular program crashes the real code",
                          {"request": req, "modular_real": real_out, "inlined_program": prog},
                          broken=["JaqVerif.Props.C16.resolve_modules_eq_resolve_inlined_partial"])
            break
        if got[cid] != real_out:
            bad_inline += 1
            if bad_inline <= 10:
                ctx.violation("c16-inline:" + cid,
                              "the modular program and its inlined form give different results on the real code",
                              {"request": req, "modular_real": real_out, "inlined_real": got[cid], "inlined_program": prog},
                              broken=["JaqVerif.Props.C16.resolve_modules_eq_resolve_inlined_partial"])
    kinds = {}
    feats = {"circular": 0, "same-file-two-names": 0, "default-path": 0, "syntax": 0, "notfound": 0,
             "data-import": 0, "globals": 0, "undefined-mod": 0, "undefined-var": 0, "undefined-filter": 0}
    for c in cases:
        k = c[2].split(" ## ")[-1].split(" ")[0]
        kinds[k] = kinds.get(k, 0) + 1
        feats["circular"] += "=circular" in c[2]
        feats["same-file-two-names"] += "@" in c[1]
        feats["default-path"] += ">@" in c[2]
        feats["syntax"] += ":syntax" in c[2]
        feats["notfound"] += "=notfound" in c[2]
        feats["data-import"] += " d|" in c[1]
        feats["globals"] += not c[1].startswith("c16.run G0")
        feats["undefined-mod"] += "/mod" in c[2]
        feats["undefined-var"] += "/var" in c[2]
        feats["undefined-filter"] += "/filter" in c[2]
    ctx.log("graphs: %d cases %s, %d model disagreements; inlined: %d programs, %d differ on real code, %d differ in the model"
            % (len(cases), kinds, bad, len(want), bad_inline, model_inline_bad))
    samples = [{"request": c[1][:600], "real": c[2][:400]} for c in cases[5:6] + cases[2000:2001]]
    if want:
        cid = sorted(want)[len(want) // 3]
        samples.append({"modular_request": want[cid][1][:500], "inlined_program": want[cid][2][:700], "output": want[cid][0][:300]})
    return cases, kinds, feats, len(want), bad, bad_inline, samples


def run_vars_part(ctx):
    """Command-line variables: module graphs run by the jaq binary with --arg/--argjson/--slurpfile/--rawfile,
    data imports, $ENV, $ARGS and input_filename used inside modules; the model orders the run-time vector
    as `binds`/`real_main` do (`cliGlobals`, theorem var_index_correct_cli) and must predict the output."""
    from concurrent.futures import ThreadPoolExecutor
    ctx.build_jaq()
    pr = subprocess.run([ctx.harness_bin, "c16", "gencli"], stdout=subprocess.PIPE, stderr=subprocess.PIPE, text=True,
                        errors="replace", timeout=600,
                        env={**os.environ, "VERIF_SEED": str(ctx.seed), "VERIF_TIER": ctx.tier})
    if pr.returncode != 0:
        raise verif.CheckError("harness c16 gencli failed: " + pr.stderr[-1500:])
    cases = []
    for l in pr.stdout.splitlines():
        if not l.startswith("CLI "):
            continue
        cid, named, graph, mainhex, files = (l[4:].split("\t") + [""])[:5]
        named = [tuple(x.split("|")) for x in named.split(",") if x]
        files = dict(x.split("=", 1) for x in files.split(",") if "=" in x)
        cases.append((cid, named, graph, bytes.fromhex(mainhex).decode(), {k: bytes.fromhex(v).decode() for k, v in files.items()}))
    root = os.path.realpath(tempfile.mkdtemp(prefix="c16v-"))
    envv = {"HOME": root, "PATH": "/usr/bin:/bin", "NO_COLOR": "1", "C16_PROBE": "x y"}

    def one(case):
        cid, named, graph, main, files = case
        d = os.path.join(root, cid)
        os.makedirs(d)
        for name, text in files.items():
            if name:
                with open(os.path.join(d, name + ".jq"), "w") as f:
                    f.write(text)
        for dn in ("da", "db", "dc"):
            with open(os.path.join(d, dn + ".json"), "w") as f:
                f.write(json.dumps("D:" + dn))
        with open(os.path.join(d, "in.json"), "w") as f:
            f.write("null")
        argv, groups = [], {"arg": [], "rawfile": [], "slurpfile": [], "argjson": []}
        for i, (kind, name, val) in enumerate(named):
            k = name[1:]
            if kind == "arg":
                argv += ["--arg", k, val]
                groups[kind].append((k, val))
            elif kind == "argjson":
                argv += ["--argjson", k, json.dumps(val)]
                groups[kind].append((k, val))
            elif kind == "rawfile":
                with open(os.path.join(d, "r%d.txt" % i), "w") as f:
                    f.write(val)
                argv += ["--rawfile", k, "r%d.txt" % i]
                groups[kind].append((k, val))
            else:
                with open(os.path.join(d, "s%d.json" % i), "w") as f:
                    f.write(json.dumps(val))
                argv += ["--slurpfile", k, "s%d.json" % i]
                groups[kind].append((k, [val]))
        binds = groups["arg"] + groups["rawfile"] + groups["slurpfile"] + groups["argjson"]
        args_json = json.dumps({"positional": [], "named": dict(binds)})
        env_json = json.dumps(envv)
        full = [ctx.jaq_bin, "-c", "-L", "."] + argv + [main, "in.json"]
        real = None
        for attempt in (0, 1):
            try:
                p = subprocess.run(full, cwd=d, env=envv, timeout=600, stdin=subprocess.DEVNULL, stdout=subprocess.PIPE,
                                   stderr=subprocess.PIPE, text=True, errors="replace")
                real = (p.returncode, p.stdout, p.stderr)
                break
            except subprocess.TimeoutExpired:
                pass
        shutil.rmtree(d, ignore_errors=True)
        if real is None:
            raise verif.CheckError("jaq did not finish within 600 s (twice): " + " ".join(full)[:300])
        req = "c16.cli NAMED%d %s E|%s A|%s F|%s %s" % (
            len(named), " ".join("|".join(x) for x in named), env_json.encode().hex(), args_json.encode().hex(),
            b"in.json".hex(), graph)
        return cid, full[1:], real, " ".join(req.split()), main, files

    try:
        with ThreadPoolExecutor(4) as ex:
            results = list(ex.map(one, cases))
    finally:
        shutil.rmtree(root, ignore_errors=True)
    ans = ctx.model([r[3] for r in results])
    bad = 0
    kinds = {}
    feats = {"named": 0, "named-clash": 0, "ENV-in-module": 0, "input_filename-in-module": 0, "ARGS": 0, "data-import": 0,
             "data-in-dependency-and-main": 0, "include+import-same-file": 0}
    samples = []
    for (cid, argv, (rc, out, err), req, main, files), model in zip(results, ans):
        if rc == 0:
            try:
                real = ("OUT", json.loads(out))
            except ValueError:
                real = ("UNPARSABLE", out[:200])
        else:
            real = ("ERR", None)
        parts = model.split(" ## ")
        if parts[0].startswith("OUT "):
            try:
                mv = [json.loads(x[4:]) if x.startswith("OUT ") else x for x in parts]
            except ValueError:
                mv = parts
            ok = real[0] == "OUT" and all(x == real[1] for x in mv)
        elif parts[0] in ("LOADERR", "COMPERR"):
            ok = real[0] == "ERR"
        else:
            ok = False
        kkey = real[0] if real[0] != "ERR" else ("ERR-vs-" + parts[0].split(" ")[0] if parts[0].startswith("OUT") else parts[0].split(" ")[0])
        kinds[kkey] = kinds.get(kkey, 0) + 1
        mods_text = " ".join(files.values())
        feats["named"] += "NAMED0" not in req
        nn = [x.split("|")[1] for x in req.split(" ")[2:] if x.count("|") == 2 and x.split("|")[0] in ("arg", "argjson", "rawfile", "slurpfile")]
        feats["named-clash"] += len(set(nn)) < len(nn)
        feats["ENV-in-module"] += "$ENV" in mods_text
        feats["input_filename-in-module"] += "input_filename" in mods_text
        feats["ARGS"] += "$ARGS" in mods_text or "$ARGS" in main
        feats["data-import"] += " as $" in mods_text or " as $" in main.split(";")[0] + ";".join(main.split(";")[:6])
        feats["data-in-dependency-and-main"] += " as $" in mods_text and any((" as $" in x) for x in main.split(";")[:6])
        feats["include+import-same-file"] += ('include "a"' in main and 'import "a" as m' in main) or \
            ('include "a"' in main and 'import "./a" as m' in main)
        desc = {"argv": argv[:-2] + ["<main program>", "in.json"], "main": main[:700], "files": {k: v[:500] for k, v in files.items()},
                "real": {"rc": rc, "stdout": out[:500], "stderr": err[:300]}, "model": model[:700]}
        if len(samples) < 2 and real[0] == "OUT" and len(nn) >= 2 and "$ENV" in mods_text:
            samples.append(desc)
        if not ok:
            bad += 1
            if bad <= 10:
                ctx.violation("c16-cli-vars:" + cid,
                              "command-line variables / data imports inside modules: the jaq binary and the model of the run-time "
                              "vector (binds, real_main, Vars::new) disagree", desc,
                              broken=["JaqVerif.Props.C16.var_index_correct_cli", "correspondence c16-cli-vars"])
    ctx.log("cli variables: %d programs %s, %d disagreements" % (len(results), kinds, bad))
    return len(results), kinds, feats, samples, bad


def run(ctx):
    ctx.build_harness()
    ctx.build_model()
    proof = ctx.lean_check()
    ctx.log("lean:", "ok" if proof["ok"] else "BROKEN", len(proof["theorems"]), "theorems")

    part = os.environ.get("C16_PART", "all")   # self-test aid: run only one half (`graphs` | `cli`)
    cases, kinds, feats, n_inl, bad, bad_inline, gsamples = ([], {}, {}, 0, 0, 0, [])
    n_cli, n_cli_distinct, groups, csamples, bad_corr, bad_prop = (0, 0, {}, [], 0, 0)
    if part in ("all", "graphs"):
        cases, kinds, feats, n_inl, bad, bad_inline, gsamples = run_graph_part(ctx)
    n_vars, vkinds, vfeats, vsamples, bad_vars = (0, {}, {}, [], 0)
    if part in ("all", "vars"):
        n_vars, vkinds, vfeats, vsamples, bad_vars = run_vars_part(ctx)
    if part in ("all", "cli"):
        n_cli, n_cli_distinct, groups, csamples, bad_corr, bad_prop = run_cli_part(ctx)
    if part != "all":
        ctx.notes.append("partial run: C16_PART=" + part)

    distinct_graphs = len({c[1] for c in cases})
    ctx.coverage.update({
        "evaluations": len(cases) + n_inl + n_cli + n_vars,
        "distinct_nontrivial": distinct_graphs + n_cli_distinct + vkinds.get("OUT", 0),
        "rule": "graphs: every shape over 3 modules + main (6 forward edges x none/include/import = 729, several random fillings each) "
                "plus 1200/6000 targeted graphs in four families (data imports in a dependency AND in later modules/main under clashing "
                "names next to globals of the same names; include inside an included/imported module = non-transitivity; one file reached "
                "as include and as import, also under a second name; diamond with data imports at every level) "
                "plus seeded random graphs of 2-5 modules with back edges (cycles), one file under two names, duplicate directives, "
                "missing and syntactically broken files, the default path, data imports, 0-3 global variables and 0-25% out-of-scope "
                "names; definitions are arrays of a unique tag and probes (calls with $/filter parameters, qualified calls, variables "
                "under as/label/def binders); distinct = distinct request text (every graph loads >= 1 module or fails to). "
                "cli variables: 160/700 module graphs (2/3 targeted families, 1/3 random) run by the jaq binary with 0-4 named "
                "variables of mixed kinds and clashing names ($ENV among them), $ENV/$ARGS/input_filename probes inside modules; "
                "non-trivial = the program produced an output; "
                "cli: scenarios (kind, path text, search metadata, -L list, main inline/file, set of files present); non-trivial = "
                "the run ended in a found file / file not found / non-relative path (not another error)",
        "samples": gsamples + csamples + vsamples,
        "traces_validated_against_impl": len(cases) + n_cli + n_vars,
        "cli_variable_programs": n_vars,
        "cli_variable_outcomes": vkinds,
        "cli_variable_features": vfeats,
        "graph_outcomes": kinds,
        "graph_features": feats,
        "inlined_programs_run_on_real_code": n_inl,
        "cli_scenarios": n_cli,
        "cli_groups": groups,
        "disagreements": bad + bad_corr + bad_vars,
        "exhaustive": False,
    })
    ctx.assumptions += [
        "model C16/{Load,Search,Inline}.lean written by hand from jaq-core/src/load/mod.rs and compile.rs; tied by this run's correspondences",
        "the probe language covers name resolution only (tags, arrays, variables, calls, qualified calls, as/label/def binders); the meaning of "
        "all other filters inside modules is C01's subject",
        "file system model: no symbolic links, Unix paths; std::fs::canonicalize = every prefix exists, `..` needs a directory",
        "run_modules_eq_run_inlined is proved for the inlined program in closure form (C16/Lexical.lean); the inlined program TEXT printed by "
        "the model's `inline` (wrapper definitions with fresh names) is run by the real compiler and by the model's lexical evaluator on every "
        "generated graph: that text and closure form agree is checked, not proved",
        "command line: $ENV / $ARGS values are computed by the check from the environment and argument list it passes; the model is given "
        "them as opaque JSON; what is compared is which slot every variable of every module reads",
        "the documentation (docs/advanced.dj, Search paths) lists the -L paths BEFORE the `search` metadata; the code, jq and the property "
        "statement use the opposite order; the check follows the property statement",
    ]
