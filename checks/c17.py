"""C17 — the command line prints each output once, in order, and reports the true outcome
(DESIGN §6 C17).

1. Lean: Props/C17.lean (exit-code table, stdout = frames of the outputs up to the first error,
   each flushed before the next is computed, one shared cursor per file consumed in order,
   per-option effect of `Cli::parse`, binding order) is rebuilt and audited.
2. Translator: the frame (markers, terminator) of sample values through the real
   `jaq_fmts::write::write` for every (format, join) → `Gen/C17Frames.lean`, re-proved by `decide`.
3. Process-level correspondence: the `jaq` binary built from the tree vs the proved model
   `procMain` (driver op `c17.run`) on generated command lines × filters × input streams.  The
   model's parameters (reader items, events of the filter on ONE input, value bodies) come from
   the library through the harness (`jaqverif c17 oracle`), which calls none of the modelled
   functions.  Compared: stdout bytes, exit status, presence of an error message on stderr.
4. Interactive runs (pipes): the output for input k is on stdout before input k+1 is supplied.
"""
import hashlib
import json
import os
import select
import shutil
import subprocess
import sys
import tempfile
import time
from concurrent.futures import ThreadPoolExecutor

import verif

sys.path.insert(0, os.path.join(verif.VERIF, "pysupport"))
import c17_gen  # noqa: E402

KNOWN_LAST_FILE = "exit-status-last-file-without-output"


def hx(b):
    return "x" + b.hex()


def unhx(s):
    return bytes.fromhex(s[1:])


def proc_env(home):
    return {"PATH": "/usr/bin:/bin", "HOME": home, "C17_MARK": "märk", "LANG": "C.UTF-8", "RUST_BACKTRACE": "0"}


def materialise(root, case):
    d = os.path.join(root, case["id"])
    os.makedirs(d, exist_ok=True)
    for name, content in case["files"].items():
        p = os.path.join(d, name)
        os.makedirs(os.path.dirname(p), exist_ok=True)
        with open(p, "wb") as f:
            f.write(content)
    return d


def run_real(jaq, d, case, env, timeout=120):
    try:
        p = subprocess.run([jaq.encode()] + case["argv"], cwd=d, input=case["stdin"] or b"", env=env,
                           stdout=subprocess.PIPE, stderr=subprocess.PIPE, timeout=timeout)
        return p.returncode, p.stdout, p.stderr
    except subprocess.TimeoutExpired:
        return "timeout", b"", b""


def oracle_job(case, plan, d):
    L = ["JOB " + case["id"], "CWD " + hx(d.encode())]
    f = plan["filter"]
    L.append("FILTER N" if f["kind"] == "none" else "FILTER %s %s" % ("I" if f["kind"] == "inline" else "F", f["hex"]))
    for b in plan["binds"]:
        L.append("BIND %s %s %s" % (b["kind"], b["name"], b["val"]))
    for p in plan["positional"]:
        L.append("POS " + p)
    pp = plan["pp"]
    L.append("PP %s %d %d %d" % (pp["indent"] if pp["indent"] is not None else "-", pp["sort"], pp["color"], pp["sep"]))
    L.append("TO " + plan["to"])
    L.append("OPTS %d %d" % (plan["slurp"], plan["null"]))
    for s in plan["srcs"]:
        if s["stdin"]:
            L.append("IN S " + s["fmt"])
            L.append("STDIN " + hx(case["stdin"] or b""))
        else:
            L.append("IN F %s %s" % (s["name"], s["fmt"]))
    L.append("END")
    return "\n".join(L) + "\n"


def parse_oracle(text):
    res, cur = {}, None
    for line in text.split("\n"):
        if line.startswith("JOB "):
            cur = {"binds": [], "compile": None, "srcs": {}, "traces": [], "panic": False}
            res[line[4:]] = cur
        elif cur is None:
            continue
        elif line.startswith("BIND "):
            cur["binds"].append(line.split(" ")[2])
        elif line.startswith("COMPILE "):
            cur["compile"] = line.split(" ")[1]
        elif line.startswith("SRC "):
            t = line.split(" ")
            cur["srcs"][int(t[1])] = t[2:]
        elif line.startswith("TR "):
            cur["traces"].append(line.split(" ")[1:])
        elif line == "PANIC":
            cur["panic"] = True
    return res


def run_request(case, plan, orc, ver, helptext, fix):
    toks = ["c17.run", "1" if fix else "0", hx(ver), hx(helptext), str(len(case["argv"]))]
    toks += [hx(a) for a in case["argv"]]
    if orc is not None:
        toks += ["B", str(len(orc["binds"]))] + orc["binds"]
        toks += ["C", orc["compile"] or "ok"]
        toks += ["NULL", "1" if plan["null"] else "0"]
        for i, s in enumerate(plan["srcs"]):
            key = "STDIN" if s["stdin"] else s["name"]
            o = orc["srcs"].get(i)
            if o is None:
                # not reached by the harness (earlier failure): an empty source
                toks += ["SRC", key, s["fmt"], "ok", "-", "0"]
            elif o[0] != "ok":
                toks += ["SRC", key, s["fmt"], o[0], "-", "0"]
            else:
                toks += ["SRC", key, s["fmt"], "ok", o[1], o[2]] + [x for x in o[3:] if x]
        for t in orc["traces"]:
            toks += ["TR"] + [x for x in t if x]
    return " ".join(toks)


def skip_reason(plan, orc):
    if not plan.get("ok"):
        return None
    if plan["special"] in ("tests", "inplace"):
        return "unmodelled:" + plan["special"]
    if orc is None:
        return None
    if orc["panic"]:
        return "oracle-panic"
    for t in orc["traces"]:
        if t[-1] in ("L", "X"):
            return "oracle-limit"
    return None


def workers():
    """16 processes at a time, 4 when the machine is already overloaded (more would only thrash)"""
    try:
        busy = os.getloadavg()[0] > 1.5 * (os.cpu_count() or 16)
    except OSError:
        busy = False
    return 4 if busy else 16


def correspondence(ctx, root, cases, ver, helptext):
    jaq = ctx.jaq_bin
    env = proc_env(root)
    t0 = time.time()
    dirs = {c["id"]: materialise(root, c) for c in cases}
    with ThreadPoolExecutor(max_workers=workers()) as ex:
        real = list(ex.map(lambda c: run_real(jaq, dirs[c["id"]], c, env), cases))
    # a timeout under machine load is not a verdict: run those again alone, with a long limit
    for i, r in enumerate(real):
        if r[0] == "timeout":
            real[i] = run_real(jaq, dirs[cases[i]["id"]], cases[i], env, timeout=900)
    ctx.log("real runs: %d processes in %.1fs" % (len(cases), time.time() - t0))

    plans = [json.loads(a) if a.startswith("{") else {"ok": None, "raw": a}
             for a in ctx.model(["c17.parse " + " ".join(hx(a) for a in c["argv"]) for c in cases])]
    jobs = []
    for c, p in zip(cases, plans):
        if p.get("ok") and p["special"] == "none":
            jobs.append(oracle_job(c, p, dirs[c["id"]]))
    # the oracle runs with the same environment as the jaq processes ($ENV)
    nch = min(8, workers())
    chunks = [jobs[i::nch] for i in range(nch)]

    def run_chunk(ch):
        if not ch:
            return ""
        p = subprocess.run([ctx.harness_bin, "c17", "oracle"], input="".join(ch).encode(), env=env,
                           stdout=subprocess.PIPE, stderr=subprocess.PIPE, timeout=1800)
        if p.returncode != 0:
            raise verif.CheckError("harness c17 oracle failed: " + p.stderr.decode(errors="replace")[-2000:])
        return p.stdout.decode()

    with ThreadPoolExecutor(max_workers=nch) as ex:
        orcs = {}
        for out in ex.map(run_chunk, chunks):
            orcs.update(parse_oracle(out))
    ctx.log("oracle: %d jobs" % len(jobs))

    reqs, idx = [], []
    skipped = {}
    for i, (c, p) in enumerate(zip(cases, plans)):
        if p.get("ok") is None:
            raise verif.CheckError("model could not parse request for case %s: %s" % (c["id"], p.get("raw")))
        orc = orcs.get(c["id"])
        sr = skip_reason(p, orc)
        if sr:
            skipped[sr] = skipped.get(sr, 0) + 1
            continue
        reqs.append(run_request(c, p, orc, ver, helptext, True))
        idx.append(i)
    answers = ctx.model(reqs)
    stats = {"compared": 0, "exit": {}, "kinds": {}, "opts": {}, "consumption_patterns": set(), "nontrivial": set()}
    bad = []
    for i, req, ans in zip(idx, reqs, answers):
        c, p = cases[i], plans[i]
        t = ans.split(" ")
        if len(t) != 6:
            raise verif.CheckError("model answer malformed for case %s: %s" % (c["id"], ans[:200]))
        m_exit, m_msg, m_unmod, m_trunc, m_out, m_steps = int(t[0]), t[1] == "1", t[2] == "1", t[3] == "1", unhx(t[4]), t[5]
        if m_unmod or m_trunc:
            k = "unmodelled" if m_unmod else "truncated-items"
            skipped[k] = skipped.get(k, 0) + 1
            continue
        rc, out, err = real[i]
        stats["compared"] += 1
        stats["exit"][str(rc)] = stats["exit"].get(str(rc), 0) + 1
        stats["kinds"][c["kind"]] = stats["kinds"].get(c["kind"], 0) + 1
        for o in c["opts"]:
            stats["opts"][o] = stats["opts"].get(o, 0) + 1
        stats["consumption_patterns"].add(m_steps)
        stats["nontrivial"].add((tuple(c["argv"]), c["stdin"], tuple(sorted(c["files"].items()))))
        diffs = []
        if rc != m_exit:
            diffs.append("exit status %s, model %d" % (rc, m_exit))
        if out != m_out:
            diffs.append("stdout differs")
        real_msg = len(err) > 0
        if c["noisy"]:
            if m_msg and not real_msg:
                diffs.append("no error message on stderr")
        elif real_msg != m_msg:
            diffs.append("stderr %s, model expects %s" % ("non-empty" if real_msg else "empty", "a message" if m_msg else "none"))
        if diffs:
            bad.append((i, diffs, (m_exit, m_msg, m_out, m_steps), req))
    # classify disagreements: is it the known `last = run(..)` per-file overwrite?
    known = 0
    if bad:
        unfixed = ctx.model([b[3].replace("c17.run 1 ", "c17.run 0 ", 1) for b in bad])
        for (i, diffs, m, req), ans0 in zip(bad, unfixed):
            c = cases[i]
            rc, out, err = real[i]
            t = ans0.split(" ")
            same_as_code = (len(t) == 6 and rc == int(t[0]) and out == unhx(t[4]))
            case = {
                "argv": [a.decode("utf-8", "backslashreplace") for a in c["argv"]],
                "argv_hex": [a.hex() for a in c["argv"]],
                "stdin": None if c["stdin"] is None else c["stdin"].decode("utf-8", "backslashreplace"),
                "stdin_hex": None if c["stdin"] is None else c["stdin"].hex(),
                "files": {k: v.decode("utf-8", "backslashreplace") for k, v in c["files"].items()},
                "files_hex": {k: v.hex() for k, v in c["files"].items()},
                "real": {"exit": rc, "stdout": out.decode("utf-8", "backslashreplace"), "stderr": err.decode("utf-8", "backslashreplace")[:400]},
                "model": {"exit": m[0], "message": m[1], "stdout": m[2].decode("utf-8", "backslashreplace"), "steps": m[3]},
                "differences": diffs,
                "how_to_replay": "create the files in an empty directory and run `jaq <argv>` there with the given stdin",
            }
            panic_at = None
            if rc == 101 and b"panicked at " in err:
                panic_at = err.split(b"panicked at ", 1)[1].split(b":", 1)[0].decode("utf-8", "replace")
            if panic_at:
                ctx.violation("c17-panic:" + panic_at,
                              "jaq crashes (exit status 101, not a documented status) instead of finishing the run: panic in " + panic_at,
                              case, broken=["correspondence c17-process", "JaqVerif.C17.exit_code_table"])
            elif same_as_code and diffs == ["exit status %s, model %d" % (rc, m[0])]:
                known += 1
                ctx.violation(KNOWN_LAST_FILE,
                              "--exit-status looks only at the LAST FILE: a last file without outputs turns the status into 4 "
                              "although earlier files produced outputs (`last = run(..)?` overwrites per file)", case,
                              broken=["JaqVerif.C17.exit_status_uses_last_output_of_all_files"])
            else:
                h = hashlib.sha1(repr((c["argv"], c["stdin"], sorted(c["files"].items()))).encode()).hexdigest()[:12]
                ctx.violation("c17-corr:%s:%s" % (" ".join(case["argv"])[:120], h),
                              "jaq binary and proved process model disagree: " + "; ".join(diffs), case,
                              broken=["correspondence c17-process"])
    stats["disagreements"] = len(bad)
    stats["known_last_file"] = known
    stats["skipped"] = skipped
    return stats, plans, real


# ---------------------------------------------------------------- interactive flush check
def interactive(ctx, root, n):
    """Values are supplied one by one on a pipe; the frame for value k must be readable from the
    stdout pipe before value k+1 is written (the property's "each completely before the next is
    computed"; `write` flushes per value)."""
    import random
    rng = random.Random(ctx.seed + 99)
    env = proc_env(root)
    combos = [([b"-c"], b"."), ([], b"."), ([b"-r"], b"., 10"), ([b"-j"], b"[.]"), ([b"--to", b"yaml"], b"."),
              ([b"--raw-output0"], b"."), ([b"-c"], b"[., input]"), ([b"-c"], b"., ., ."), ([b"-S"], b"{b:1,a:.}")]
    vals = [b"1", b'"s"', b"[1,2]", b'{"a":1}', b"null", b"false"]
    done = fails = 0
    samples = []
    for k in range(n):
        if fails >= 2:
            break   # every further failure would cost another long wait
        opts, filt = combos[k % len(combos)]
        seq = [rng.choice(vals) for _ in range(rng.randrange(2, 5))]
        group = 2 if b"input" in filt else 1
        # expected frame per supplied group, from batch runs on the group alone
        frames = []
        for g in range(0, len(seq) - len(seq) % group, group):
            txt = b"\n".join(seq[g:g + group]) + b"\n"
            p = subprocess.run([ctx.jaq_bin.encode()] + opts + [filt], input=txt, env=env, stdout=subprocess.PIPE,
                               stderr=subprocess.PIPE, timeout=300)
            frames.append((txt, p.stdout))
        p = subprocess.Popen([ctx.jaq_bin.encode()] + opts + [filt], stdin=subprocess.PIPE, stdout=subprocess.PIPE,
                             stderr=subprocess.PIPE, env=env, bufsize=0)
        ok = True
        try:
            for j, (txt, want) in enumerate(frames):
                p.stdin.write(txt)
                p.stdin.flush()
                got = b""
                deadline = time.time() + 90
                while len(got) < len(want) and time.time() < deadline:
                    r, _, _ = select.select([p.stdout], [], [], 0.25)
                    if r:
                        chunk = os.read(p.stdout.fileno(), 65536)
                        if not chunk:
                            break
                        got += chunk
                if got != want:
                    ok = False
                    ctx.violation("c17-flush:%s %s" % (b" ".join(opts).decode(), filt.decode()),
                                  "output for input %d is not on stdout before the next input is supplied "
                                  "(outputs must be written completely and flushed one by one)" % j,
                                  {"argv": [o.decode() for o in opts] + [filt.decode()], "supplied_so_far": [t.decode() for t, _ in frames[:j + 1]],
                                   "expected_on_stdout_now": want.decode("utf-8", "backslashreplace"),
                                   "seen_within_90s": got.decode("utf-8", "backslashreplace")},
                                  broken=["JaqVerif.C17.each_output_flushed_before_next_is_computed"])
                    break
        finally:
            try:
                p.stdin.close()
            except OSError:
                pass
            try:
                p.wait(timeout=120)
            except subprocess.TimeoutExpired:
                p.kill()
            p.stdout.close()
            p.stderr.close()
        done += 1
        fails += 0 if ok else 1
        if len(samples) < 2:
            samples.append({"interactive_argv": [o.decode() for o in opts] + [filt.decode()], "values": [v.decode() for v in seq], "ok": ok})
    return done, fails, samples


# ---------------------------------------------------------------- translator: frame table
def frames_table(ctx):
    out = ctx.harness(["c17", "table"])
    rows = []
    for l in out.splitlines():
        if not l.startswith("ROW "):
            continue
        _, fmt, join, name, status, frame, body = l.split(" ")
        if status != "ok" or body == "!":
            continue
        frame, body = unhx(frame), unhx(body)
        is_str = name == "str"
        rows.append((fmt, join == "1", is_str, body if not (is_str and fmt in ("raw", "raw0")) else b"s", frame))
    lst = lambda b: "[" + ", ".join(str(x) for x in b) + "]"
    src = ["/- GENERATED by checks/c17.py from `jaqverif c17 table`: frames written by the real",
           "   `jaq_fmts::write::write` for sample values: (format, join, value is a string, body, frame). -/",
           "import JaqVerif.C17.Run", "", "namespace Jaq.C17.Gen", "",
           "def frames : List (Format × Bool × Bool × List UInt8 × List UInt8) := ["]
    src.append(",\n".join("  (.%s, %s, %s, %s, %s)" % (f, "true" if j else "false", "true" if s else "false", lst(b), lst(fr))
                          for f, j, s, b, fr in rows))
    src += ["]", "", "end Jaq.C17.Gen", ""]
    ctx.write_gen("C17Frames", "\n".join(src))
    return rows


def find_frame_counterexample(ctx, rows):
    """If the decide-lemma over the generated table broke: which row does the model's frame miss?"""
    term = {"cbor": b"", "toml": b"", "raw0": b"\0", "yaml": b"\n", "csv": b"\n", "tsv": b"\n"}
    found = 0
    for fmt, join, is_str, body, frame in rows:
        ydoc = (not join) and fmt == "yaml"
        t = term.get(fmt, b"" if join else b"\n")
        want = (b"---\n" if ydoc else b"") + body + t + (b"...\n" if ydoc else b"")
        if want != frame:
            found += 1
            ctx.violation("c17-frame:%s:%s" % (fmt, "join" if join else "nojoin"),
                          "`write` frames a value differently from the documented terminators/markers "
                          "(format %s, join=%s)" % (fmt, join),
                          {"format": fmt, "join": join, "value_is_string": is_str, "body": body.decode("utf-8", "backslashreplace"),
                           "frame_written_by_write": frame.decode("utf-8", "backslashreplace"),
                           "frame_of_the_model": want.decode("utf-8", "backslashreplace")},
                          broken=["JaqVerif.C17.frames_match_write"])
    return found


def run(ctx):
    ctx.build_harness()
    ctx.build_jaq()
    rows = frames_table(ctx)
    ctx.build_model()
    proof = ctx.lean_check()
    ctx.log("lean:", "ok" if proof["ok"] else "BROKEN", len(proof["theorems"]), "theorems")
    if not proof["ok"]:
        n = find_frame_counterexample(ctx, rows)
        ctx.log("frame table: %d rows differ from the model" % n)

    ver = subprocess.run([ctx.jaq_bin, "-V"], stdout=subprocess.PIPE, env=proc_env("/tmp"), timeout=300).stdout
    helptext = open(os.path.join(verif.REPO, "jaq", "src", "help.txt"), "rb").read() + b"\n"

    shm = "/dev/shm" if os.path.isdir("/dev/shm") and os.access("/dev/shm", os.W_OK) else None
    root = tempfile.mkdtemp(prefix="c17-", dir=shm)
    try:
        if ctx.replay:
            rp = json.load(open(ctx.replay))["case"]
            cases = [{"id": "replay", "kind": "replay", "argv": [bytes.fromhex(a) for a in rp["argv_hex"]],
                      "stdin": None if rp.get("stdin_hex") is None else bytes.fromhex(rp["stdin_hex"]),
                      "files": {k: bytes.fromhex(v) for k, v in rp.get("files_hex", {}).items()},
                      "noisy": True, "opts": [], "filter": ""}]
        else:
            cases = c17_gen.generate(ctx.seed, ctx.tier)
        stats, plans, real = correspondence(ctx, root, cases, ver, helptext)
        ctx.log("correspondence: %d compared, %d disagreements (%d the known last-file finding), skipped %s"
                % (stats["compared"], stats["disagreements"], stats["known_last_file"], stats["skipped"]))
        n_int = 0 if ctx.replay else (18 if ctx.tier == "quick" else 90)
        idone, ifail, isamples = interactive(ctx, root, n_int)
        ctx.log("interactive flush runs: %d, failures %d" % (idone, ifail))
    finally:
        shutil.rmtree(root, ignore_errors=True)

    usage_errors = sum(1 for p in plans if p.get("ok") is False)
    samples = []
    for c, r in list(zip(cases, real))[:: max(1, len(cases) // 5)][:5]:
        samples.append({"argv": [a.decode("utf-8", "backslashreplace") for a in c["argv"]],
                        "stdin": None if c["stdin"] is None else c["stdin"].decode("utf-8", "backslashreplace")[:80],
                        "files": sorted(c["files"]), "exit": r[0], "stdout": r[1].decode("utf-8", "backslashreplace")[:120]})
    ctx.coverage.update({
        "evaluations": stats["compared"] + idone,
        "distinct_nontrivial": len(stats["nontrivial"]),
        "rule": "distinct (argv, stdin bytes, file contents) triples whose process run was compared with the model on "
                "stdout bytes, exit status and stderr class; every case runs the whole chain parse -> bind -> compile -> "
                "read -> main loop -> write -> exit status, so every distinct case counts",
        "samples": samples + isamples,
        "traces_validated_against_impl": stats["compared"],
        "exit_status_distribution": stats["exit"],
        "case_kinds": stats["kinds"],
        "option_occurrences": stats["opts"],
        "distinct_consumption_patterns": len(stats["consumption_patterns"]),
        "usage_errors_predicted": usage_errors,
        "skipped": stats["skipped"],
        "interactive_flush_runs": idone,
        "frame_table_rows": len(rows),
        "disagreements": stats["disagreements"],
        "exhaustive": False,
        "generator": "all singles (x8) and all pairs (x2) of 28 documented options in random positions, random subsets of 3-7 of 48 "
                     "spellings, argv token fuzz (combined shorts, `--`, `-`, missing/invalid option arguments, invalid UTF-8), "
                     "consumption-heavy filters x streams with an invalid value at every position; inputs over stdin or 1-3 files "
                     "(json/yaml/raw/raw0, missing file, same file twice)",
    })
    ctx.assumptions += [
        "the filter, the readers (hifijson, saphyr, …) and the value formatters are parameters of the model; on every run they are "
        "taken from the library by the harness (filter run on ONE input with the rest of the stream, pulls of the cursor logged)",
        "a formatter either fails before writing or writes its whole body (no partial body on a conversion error)",
        "stdout is a pipe (BufWriter path of with_stdout); terminal detection and JQ_COLORS are not exercised",
        "`--in-place` with files (C18), `--run-tests`, `repl`, module loading through -L (C16) are outside this model",
        "`--indent n` with huge n (memory) is not generated",
        "exit status of halt(c) is c mod 256 (POSIX wait status)",
    ]
