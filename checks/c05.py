"""C05 — no filter text, argument value or input document can crash jaq (DESIGN §6 C05).

PROOF part
  1. Lean: Props/C05.lean (panic-freedom of the arithmetic / cast / slice / unwrap kernels of jaq's own
     logic, modelled with Rust's CHECKED semantics as `Except Panic α`; spans of lexer errors in
     bounds; balance of the compiler's scope stack) is rebuilt and audited.
  2. Correspondence: the harness runs the real kernels through their public filters / functions under
     `catch_unwind` (overflow-checks + debug-assertions on); the compiled model must agree, including
     "panics" vs "does not panic".

SEARCH part (labelled as search, NOT proof, in the evidence) — child processes with time and memory budgets:
  a. every native filter, every definition of the standard library and ~70 core syntax forms discovered
     from the CURRENT tree x tuples of a pool of boundary values (exhaustive for arity <= 2 in the thorough
     tier; all argument pairs x 4 inputs in the quick tier; sampled above);
  b. filter texts: manual examples (docs/*.dj, extracted at run time), stdlib sources and seeds, mutated
     grammar-aware + token soups, through lexer, parser, compiler, the error reports and execution;
  c. documents per decoder (JSON/XJON, YAML, CBOR, TOML, XML, CSV, TSV, raw) mutated, through the real
     readers (both CLI paths), the from* filters and all writers;
  d. the CLI binary: exit status 101 / death by signal.
Every panic is a violation `panic:<file:line>:<native or stage>`; stack overflow and memory exhaustion are
excepted by the property and only counted.
"""
import json
import os
import subprocess
import sys
import tempfile
import time
from concurrent.futures import ThreadPoolExecutor

import verif

sys.path.insert(0, os.path.join(verif.VERIF, "pysupport"))
import c05_workers  # noqa: E402

NSHARDS = int(os.environ.get("C05_WORKERS", "16"))      # child processes per sweep
DEV = bool(os.environ.get("C05_DEV"))                    # development: a small sample of every sweep


def unhex(h):
    try:
        return bytes.fromhex(h)
    except ValueError:
        return b""


# ----------------------------------------------------------------------------- sweeps
def sweep_natives(ctx, tmp, cov, findings):
    tier = ctx.tier
    inv = [l.split("\t") for l in ctx.harness(["c05", "inventory", "--tier", tier]).splitlines()]
    total = [r for r in inv if r[0] == "TOTAL"][0]
    inv = [r for r in inv if r[0] != "TOTAL"]
    ranges = [(int(r[4]), int(r[4]) + int(r[5]), r[3]) for r in inv]
    kinds = {}
    for r in inv:
        kinds[r[0]] = kinds.get(r[0], 0) + 1
    names = {"native": sorted({r[1] for r in inv if r[0] == "native"}), "def": sorted({r[1] for r in inv if r[0] == "def"})}
    ctx.log("inventory: %d targets (%s), %s cases, pool %s (+%d structured)" % (
        len(inv), kinds, total[1], total[2], int(total[3]) - int(total[2])))

    # probe: the first cases of every target find the filters that loop forever on (almost) every input
    probe = c05_workers.run_workers(ctx, "natives", NSHARDS, ["--tier", tier, "--timeout", "2500", "--probe", "3"], tmp,
                                    deadline=time.time() + 900, progress_every=1)
    hits = {}
    for r in probe:
        for ti in r.timeouts + [d[0] for d in r.deaths if d[1] not in ("abort", "segv")]:
            for lo, hi, tx in ranges:
                if lo <= ti < hi:
                    hits[(lo, tx)] = hits.get((lo, tx), 0) + 1
    skips = sorted(k for k, v in hits.items() if v >= 2)
    ctx.log("probe: targets that time out on most inputs (not swept further): %s" % [k[1] for k in skips])

    tms = "15" if DEV else ("4000" if tier == "thorough" else "200")
    res = c05_workers.run_workers(
        ctx, "natives", NSHARDS,
        ["--tier", tier, "--timeout", "5000" if tier == "thorough" else "2500", "--target-ms", tms,
         "--skip", ",".join(str(k[0]) for k in skips)],
        tmp, deadline=time.time() + (3000 if tier == "thorough" else 1200), progress_every=256)
    st = {"cases": 0, "yielded": 0, "errored": 0, "empty": 0, "halted": 0, "skipped_alloc_guard": 0, "panics": 0,
          "alloc_panics_excepted": 0, "cut_by_time_budget": 0}
    per_target = {}
    dist = {}       # native/definition/core form -> outcome classes and behaviour diversity
    timeouts, deaths, abandoned, incomplete = [], [], set(), []
    for r in probe + res:
        timeouts += r.timeouts
        deaths += r.deaths
        abandoned |= {a[0] for a in r.abandoned}
        if r.incomplete:
            incomplete.append(r.incomplete)
        for l in r.lines:
            f = l[2:].split("\t")
            if l.startswith("F "):
                vals = [int(x) for x in f[2:12]]
                for k, v in zip(["cases", "yielded", "errored", "empty", "halted", "skipped_alloc_guard", "panics",
                                 "alloc_panics_excepted"], vals[:8]):
                    st[k] += v
                st["cut_by_time_budget"] += vals[9]
                pt = per_target.setdefault(f[1], [0, 0])
                pt[0] += vals[0]
                pt[1] += vals[9]
                if len(f) >= 16:
                    d = dist.setdefault(f[14], {"kind": f[0], "arity": int(f[15]), "cases": 0, "yielded": 0, "errored": 0, "empty": 0,
                                                "halted": 0, "panics": 0, "behaviours": 0, "last_new": 0})
                    for k, v in zip(["cases", "yielded", "errored", "empty", "halted"], vals[:5]):
                        d[k] += v
                    d["panics"] += vals[6]
                    d["behaviours"] = max(d["behaviours"], int(f[12]))     # per worker; a lower bound of the union
                    d["last_new"] = max(d["last_new"], int(f[13]))
            elif l.startswith("P "):
                findings.append({"sweep": "natives", "site": f[1], "msg": f[2], "kind": f[3], "name": f[4], "text": f[5],
                                 "input": f[6], "args": f[7], "cli": unhex(f[8]).decode("utf-8", "replace") if len(f) > 8 else ""})
            elif l.startswith("C "):
                ctx.notes.append("target does not compile: " + l[2:200])
    for idx, cls, rc, err in deaths:
        desc = ctx.harness(["c05", "natives", "--tier", tier, "--describe", str(idx)]).strip().split("\t")
        if cls in ("abort", "segv"):
            findings.append({"sweep": "natives", "site": "process-" + cls, "msg": err[-200:], "kind": desc[0], "name": desc[1],
                             "text": desc[2], "input": desc[3], "args": desc[4] if len(desc) > 4 else "", "cli": ""})
    cut_targets = {k: v for k, v in per_target.items() if v[1] > 0}
    strata = 12 ** 3
    ar2 = {k: d for k, d in dist.items() if d["arity"] == 2 and tier != "thorough"}
    classes = {}
    for k, d in dist.items():
        cls = "+".join(c for c in ("yielded", "errored", "empty", "halted", "panics") if d[c]) or "nothing-ran"
        classes.setdefault(d["kind"] + ":" + cls, []).append(k)
    diversity = {
        "what": "per native / definition / core form: calls by outcome class (a value, a run-time error, no output, halt/break, panic) and "
                "the number of distinct behaviours (outcome class x class of the error message) one worker saw; `last_new` is the position "
                "of the case that showed the last new behaviour",
        "targets": len(dist),
        "targets_by_outcome_classes_seen": {k: len(v) for k, v in sorted(classes.items())},
        "never_yielded_a_value": sorted(k for k, d in dist.items() if d["cases"] and not d["yielded"])[:60],
        "never_raised_an_error": sorted(k for k, d in dist.items() if d["cases"] and not d["errored"])[:80],
        "behaviours_per_target_histogram": {str(b): sum(1 for d in dist.values() if d["behaviours"] == b) for b in sorted({d["behaviours"] for d in dist.values()})},
        "arity2_stratified_prefix": {"positions": strata, "targets": len(ar2),
                                     "targets_whose_last_new_behaviour_is_inside_the_prefix": sum(1 for d in ar2.values() if d["last_new"] < strata),
                                     "later": {k: d["last_new"] for k, d in sorted(ar2.items()) if d["last_new"] >= strata}},
        "natives_x_outcomes": {k: [d["cases"], d["yielded"], d["errored"], d["empty"], d["halted"], d["panics"], d["behaviours"]]
                               for k, d in sorted(dist.items()) if d["kind"] == "native"},
        "natives_x_outcomes_columns": ["cases", "yielded", "errored", "empty", "halted", "panics", "behaviours"],
    }
    ctx.log("natives x outcomes: %s; arity-2 targets with all behaviours inside the stratified prefix: %d/%d" % (
        diversity["targets_by_outcome_classes_seen"], diversity["arity2_stratified_prefix"]["targets_whose_last_new_behaviour_is_inside_the_prefix"], len(ar2)))
    cov["natives"] = {
        "label": "SEARCH (not proof): built-in filters x boundary tuples",
        "targets": len(inv), "target_kinds": kinds,
        "natives_discovered": len(names["native"]), "definitions_discovered": len(names["def"]),
        "pool_size": int(total[2]), "structured_extra_inputs": int(total[3]) - int(total[2]),
        "case_space": int(total[1]), **st,
        "exhaustive_arity_le_2": tier == "thorough" and not cut_targets,
        "targets_cut_by_cpu_budget": len(cut_targets),
        "cut_examples": {k: {"run": v[0], "cut": v[1]} for k, v in list(sorted(cut_targets.items(), key=lambda kv: -kv[1][1]))[:12]},
        "timeouts_not_violations": len(timeouts),
        "targets_not_swept_loop_forever": [k[1] for k in skips],
        "targets_abandoned_after_repeated_timeouts": sorted(abandoned),
        "process_deaths": [{"idx": d[0], "class": d[1], "rc": d[2]} for d in deaths][:20],
        "incomplete": incomplete,
        "diversity": diversity,
    }
    return st["cases"], st["yielded"] + st["errored"]


def sweep_generic(ctx, sub, extra, tmp, cov, findings, label):
    if DEV:
        extra = extra + ["--end", "6000"]
    res = c05_workers.run_workers(ctx, sub, NSHARDS, ["--tier", ctx.tier, "--timeout", "5000"] + extra, tmp, mem_gb=2,
                                  deadline=time.time() + (3000 if ctx.tier == "thorough" else 1200))
    agg, n = {}, 0
    timeouts, deaths, incomplete = [], [], []
    for r in res:
        timeouts += r.timeouts
        deaths += r.deaths
        if r.incomplete:
            incomplete.append(r.incomplete)
        for l in r.lines:
            if l.startswith("S "):
                for tok in l[2:].split():
                    k, _, v = tok.partition("=")
                    if k in ("seeds", "doc_examples"):
                        agg[k] = v
                    elif "/" in v:
                        a = [int(x) for x in v.split("/")]
                        b = agg.setdefault(k, [0, 0, 0])
                        agg[k] = [x + y for x, y in zip(a, b)]
                    else:
                        agg[k] = agg.get(k, 0) + int(v)
            elif l.startswith("DONE"):
                n += int(l.split()[1])
            elif l.startswith("P "):
                f = l[2:].split("\t")
                if sub == "filters":
                    findings.append({"sweep": "filters", "site": f[1], "msg": f[2], "name": "filter-text:" + f[3],
                                     "text_hex": f[4], "text": unhex(f[4]).decode("utf-8", "replace")})
                else:
                    findings.append({"sweep": "docs", "site": f[1], "msg": f[2], "name": f[3], "format": f[4], "doc_hex": f[5]})
    for idx, cls, rc, err in deaths:
        if cls in ("abort", "segv"):
            desc = ctx.harness(["c05", sub, "--tier", ctx.tier, "--describe", str(idx)] + extra).strip().split("\t")
            if sub == "filters":
                findings.append({"sweep": "filters", "site": "process-" + cls, "msg": err[-200:], "name": "filter-text:pipeline",
                                 "text_hex": desc[0], "text": unhex(desc[0]).decode("utf-8", "replace")})
            else:
                findings.append({"sweep": "docs", "site": "process-" + cls, "msg": err[-200:], "name": "read-" + desc[0],
                                 "format": desc[0], "doc_hex": desc[1]})
    cov[sub] = {"label": label, "cases": n, **agg, "timeouts_not_violations": len(timeouts),
                "process_deaths": [{"idx": d[0], "class": d[1], "rc": d[2]} for d in deaths][:20], "incomplete": incomplete}
    return n, agg


# ----------------------------------------------------------------------------- CLI
def cli_cases(ctx, tmp, findings):
    """(label, argv, stdin bytes) for the jaq binary."""
    cases = []
    d = os.path.join(tmp, "cli")
    os.makedirs(d, exist_ok=True)

    def wfile(name, data):
        p = os.path.join(d, name)
        with open(p, "wb") as f:
            f.write(data)
        return p

    js = wfile("in.json", b'{"a":[1,2,{"b":null}],"c":"x"} [1,2] "s" 3\n')
    # 1. every distinct finding of the native sweep again through the binary
    seen = set()
    for f in findings:
        if f["sweep"] == "natives" and f.get("cli") and (f["site"], f["name"]) not in seen and len(seen) < 60:
            seen.add((f["site"], f["name"]))
            cases.append(("confirm:%s:%s" % (f["site"], f["name"]), ["-n", f["cli"]], b"", f))
        if f["sweep"] == "filters" and (f["site"], "ft") not in seen:
            seen.add((f["site"], "ft"))
            cases.append(("confirm:%s:filter-text" % f["site"], ["-n", "-f", wfile("ft%d.jq" % len(seen), unhex(f["text_hex"]))], b"", f))
        if f["sweep"] == "docs" and (f["site"], f["name"]) not in seen and f["format"] in ("json", "yaml", "cbor", "toml", "xml", "csv", "tsv"):
            seen.add((f["site"], f["name"]))
            cases.append(("confirm:%s:%s" % (f["site"], f["name"]), ["--from", f["format"], ".", wfile("doc%d" % len(seen), unhex(f["doc_hex"]))], b"", f))
    # 2. options with boundary arguments
    big = "99999999999999999999999"
    for opt in (["--indent", "0"], ["--indent", "7"], ["--indent", "8"], ["--indent", "255"], ["--indent", "256"], ["--indent", "-1"],
                ["--indent", big], ["--indent", "x"], ["--indent", ""], ["--tab"], ["--tab", "--indent", "3"], ["-c"], ["-r"], ["-j"], ["--raw-output0"],
                ["-S"], ["-C"], ["-M"], ["-s"], ["-n"], ["-R"], ["--raw-input0"], ["-R", "-s"], ["-e"], ["--seq"], ["--stream"], ["-sR", "-r"],
                ["--arg"], ["--arg", "x"], ["--argjson", "x", "{"], ["--argjson", "x", "1e1000"], ["--slurpfile", "x", "/nonexistent"],
                ["--rawfile", "x", js], ["--slurpfile", "x", js], ["--args"], ["--from"], ["--from", "nope"], ["--to", "nope"], ["--to"],
                ["-L"], ["-L", "/nonexistent"], ["--run-tests"], ["--run-tests", js], ["-h"], ["-V"], ["--"], ["-"], ["-\xe9"], ["--no-such"], ["-nnn"], ["-ncrjSCMse"]):
        cases.append(("opt:" + " ".join(opt)[:40], opt + [".", js], b"", None))
    for to in ("json", "yaml", "cbor", "toml", "xml", "csv", "tsv", "raw", "raw0"):
        for filt in (".", "[1,[2,{\"a\":nan}],infinite,-0.0,1e1000,\"\\u0000\"]|., .[]",
                     "{\"t\":\"a\",\"a\":{\"x\":\"1\"},\"c\":[\"t\",{\"t\":\"b\"}]}", "\"x\"|tobytes, {(1):2}", "[[1,\"a\",null],[true]]|., .[]"):
            cases.append(("to:%s:%s" % (to, filt[:20]), ["--to", to, filt, js], b"", None))
    # 3. documents per reader through files and stdin (seeds and a few mutants of the harness generator)
    idxs = list(range(0, 9 * 10)) + [100003 + 7 * k for k in range(50)]
    descs = ctx.harness(["c05", "docs", "--tier", ctx.tier, "--describe-many", ",".join(map(str, idxs))]).split("\n")
    for idx, line in zip(idxs, descs):
        desc = line.strip().split("\t")
        if len(desc) < 2:
            continue
        fmt, data = desc[0], unhex(desc[1])
        if idx % 2:
            cases.append(("doc-file:%s:%d" % (fmt, idx), ["--from", fmt, "-c", ".", wfile("d%d" % idx, data)], b"", None))
        else:
            cases.append(("doc-stdin:%s:%d" % (fmt, idx), ["--from", fmt, "-c", "."], data, None))
    # 4. filter texts from files (incl. invalid UTF-8) and the command line
    docs = os.path.join(verif.REPO, "docs")
    idxs = [7 * k for k in range(30)] + [1000 + 37 * k for k in range(70)]
    descs = ctx.harness(["c05", "filters", "--tier", ctx.tier, "--docs", docs, "--describe-many", ",".join(map(str, idxs))]).split("\n")
    for idx, line in zip(idxs, descs):
        data = unhex(line.strip().split("\t")[0])
        if idx % 3 == 0:
            cases.append(("filter-file:%d" % idx, ["-n", "-f", wfile("f%d.jq" % idx, data)], b"", None))
        else:
            try:
                txt = data.decode("utf-8")
                if "\0" in txt:
                    raise ValueError
                cases.append(("filter-arg:%d" % idx, ["-n", txt], b"", None))
            except ValueError:
                cases.append(("filter-file:%d" % idx, ["-n", "-f", wfile("f%d.jq" % idx, data)], b"", None))
    cases.append(("filter-file:invalid-utf8", ["-n", "-f", wfile("bad.jq", b". \xff\xfe")], b"", None))
    cases.append(("filter-file:empty", ["-n", "-f", wfile("empty.jq", b"")], b"", None))
    cases.append(("filter:none", [], b"1", None))
    cases.append(("input:invalid-utf8", ["."], b'"\xff" 1', None))
    cases.append(("in-place:missing", ["-i", ".", "/nonexistent/x.json"], b"", None))
    return cases


def run_cli(ctx, cases):
    env = dict(os.environ)
    env.pop("RUST_BACKTRACE", None)
    env["RUST_BACKTRACE"] = "0"
    env["NO_COLOR"] = "1"

    def one(c):
        label, argv, stdin, f = c
        try:
            p = subprocess.run([ctx.jaq_bin] + argv, input=stdin, stdout=subprocess.PIPE, stderr=subprocess.PIPE, timeout=20,
                               env=env, preexec_fn=c05_workers._limits(2 << 30))
            return label, argv, p.returncode, p.stderr[-400:].decode("utf-8", "replace"), f
        except subprocess.TimeoutExpired:
            return label, argv, None, "timeout", f
        except (ValueError, OSError) as e:   # e.g. NUL in an argument
            return label, argv, None, "not-run: %s" % e, f

    with ThreadPoolExecutor(max_workers=NSHARDS) as ex:
        return list(ex.map(one, cases))


# ----------------------------------------------------------------------------- main
def replay(ctx):
    rp = json.load(open(ctx.replay))
    c = rp.get("case", {})
    if c.get("sweep") == "natives":
        out = ctx.harness(["c05", "case", c["text"]] + (c["input"] + " ; " + c["args"]).split(" "))
    elif c.get("sweep") == "filters":
        out = ctx.harness(["c05", "filter-case", c["text_hex"]])
    elif c.get("sweep") == "docs":
        out = ctx.harness(["c05", "doc-case", c["format"], c["doc_hex"]])
    elif c.get("sweep") == "cli":
        ctx.build_jaq()
        p = subprocess.run([ctx.jaq_bin] + c["argv"], input=unhex(c.get("stdin_hex", "")), stdout=subprocess.PIPE, stderr=subprocess.PIPE)
        out = "exit %s\n%s" % (p.returncode, p.stderr.decode("utf-8", "replace")[-600:])
        if p.returncode == 101 or p.returncode < 0:
            out = "PANIC " + out
    elif c.get("sweep") == "kernel":
        run_kernels(ctx)      # the whole correspondence (1 s): reports the case again if it still fails
        return
    else:
        raise verif.CheckError("replay file has no sweep case")
    print(out)
    if "PANIC" in out or "PROBLEM" in out:
        ctx.violation(rp["key"], rp["what"], c)


def key_of(f):
    name = f["name"]
    if name.startswith("filter-text:"):
        stage = name.split(":", 1)[1]
        if f["site"] in ("span", "render"):
            return "report:%s:%s" % (f["site"], stage)      # a reported span outside the text / a report that does not render
        name = "filter-text"
    return "panic:%s:%s" % (f["site"], name)


def run(ctx):
    ctx.build_harness()
    if ctx.replay:
        return replay(ctx)
    ctx.build_jaq()
    tmp = tempfile.mkdtemp(prefix="c05-")
    cov = {}
    findings = []

    # ---- proof part (kernels): see run_kernels
    proof_info = run_kernels(ctx)

    # ---- search part
    t = time.time()
    n_nat, nt_nat = sweep_natives(ctx, tmp, cov, findings)
    ctx.log("natives sweep: %d cases in %.0fs, %d findings so far" % (n_nat, time.time() - t, len(findings)))
    t = time.time()
    n_f, agg_f = sweep_generic(ctx, "filters", ["--docs", os.path.join(verif.REPO, "docs")], tmp, cov, findings,
                               "SEARCH (not proof): filter texts through lexer, parser, compiler, error reports, execution")
    ctx.log("filter texts: %d in %.0fs (%s)" % (n_f, time.time() - t, {k: v for k, v in agg_f.items() if not isinstance(v, list)}))
    t = time.time()
    n_d, agg_d = sweep_generic(ctx, "docs", [], tmp, cov, findings,
                               "SEARCH (not proof): documents per decoder (cases/with a value/with an error), writers on the results")
    ctx.log("documents: %d in %.0fs" % (n_d, time.time() - t))
    t = time.time()
    cases = cli_cases(ctx, tmp, findings)
    results = run_cli(ctx, cases)
    crashed = 0
    confirmed = 0
    statuses = {}
    for (label, argv, rc, err, f), c in zip(results, cases):
        statuses[str(rc)] = statuses.get(str(rc), 0) + 1
        bad = rc is not None and (rc == 101 or rc < 0) and not ("memory allocation" in err or "overflowed its stack" in err)
        if f is not None:
            f["cli_exit"] = rc
            confirmed += bool(bad)
        elif bad:
            crashed += 1
            site = "?"
            for line in err.splitlines():
                if "panicked at " in line:
                    site = line.split("panicked at ")[1].strip().rstrip(":")
                    site = ":".join(site.split(":")[:2])
            findings.append({"sweep": "cli", "site": site, "msg": err[-300:], "name": "cli:" + label.split(":")[0], "argv": argv,
                             "stdin_hex": c[2].hex(), "exit": rc})
    cov["cli"] = {"label": "SEARCH (not proof): jaq binary, exit status 101 / signal", "runs": len(cases), "exit_statuses": statuses,
                  "findings_of_other_sweeps_confirmed_through_binary": confirmed, "crashes_only_seen_through_binary": crashed}
    ctx.log("cli: %d runs in %.0fs, statuses %s" % (len(cases), time.time() - t, statuses))

    # ---- verdicts: one violation per (site, native/stage)
    by_key = {}
    for f in findings:
        by_key.setdefault(key_of(f), []).append(f)
    for key, fs in sorted(by_key.items()):
        f = min(fs, key=lambda f: len(f.get("cli") or f.get("text") or f.get("doc_hex") or ""))
        what = "jaq panics at %s (%s) in %s" % (f["site"], f["msg"][:80], f["name"])
        if f["sweep"] == "natives":
            what += ": `%s`" % (f.get("cli") or f["text"])[:160]
        elif f["sweep"] == "filters":
            what += ": filter text %r" % f["text"][:80]
        case = dict(f)
        case["occurrences_in_this_run"] = len(fs)
        ctx.violation(key, what, case)
    import shutil
    shutil.rmtree(tmp, ignore_errors=True)

    evals = n_nat + n_f + n_d + len(cases) + proof_info.get("cases", 0)
    nontrivial = nt_nat + sum(v for k, v in agg_f.items() if k in ("parse-error", "compile-error", "compiled")) + \
        sum(v[1] for v in agg_d.values() if isinstance(v, list)) + proof_info.get("cases", 0)
    samples = [{"sweep": f["sweep"], "key": key_of(f), "case": (f.get("cli") or f.get("text") or f.get("doc_hex", ""))[:200]}
               for f in [fs[0] for fs in by_key.values()][:6]]
    samples += proof_info.get("samples", [])
    if not samples:
        samples = [{"sweep": "natives", "note": "no panic found; see natives/filters/docs counters"}]
    ctx.coverage.update({
        "evaluations": evals,
        "distinct_nontrivial": nontrivial,
        "rule": "kernel correspondence cases (all count) + sweep cases that got past the first rejection: native/definition calls that "
                "yielded a value or a run-time error, filter texts accepted by the lexer, documents from which at least one value was read",
        "samples": samples,
        "search_not_proof": cov,
        "distinct_panic_sites": sorted({f["site"] for f in findings}),
        "kernel_correspondence": proof_info,
        "exhaustive": False,
    })
    ctx.assumptions += [
        "the sweeps (natives x boundary pool, filter texts, documents, CLI) are SEARCH: absence of a panic there is evidence, not proof; "
        "proof covers only the kernels modelled in JaqVerif/C05/Kernels.lean",
        "third-party parsers (hifijson, saphyr, ciborium-ll, toml_span, xmlparser), regex, jiff, libm and codesnake are not modelled; their panic-freedom is only swept",
        "excepted by the property and therefore only counted: stack overflow, allocation failure / `capacity overflow`; a case that exceeds its time budget is a timeout, not a crash",
        "string repetition by counts > 1e5 is not executed in the operator forms (allocation by argument)",
        "harness profile: opt-level 1, overflow-checks and debug-assertions ON, so integer overflow and debug_assert are observable as panics",
    ]


def run_kernels(ctx):
    """Lean theorems + correspondence of the kernels (filled in below)."""
    import c05_kernels
    return c05_kernels.run(ctx)
