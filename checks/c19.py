"""C19 — a compiled filter is immutable shared data: concurrent runs equal isolated runs (DESIGN §6 C19).

1. Translator / static facts.  pysupport/c19_scan.py lists every `static`, `thread_local!`,
   interior-mutability type (`Cell`, `RefCell`, `OnceCell`, `Lazy`, `Mutex`, `RwLock`, `Atomic*`, …) and
   `unsafe` in the source of jaq-core, jaq-std, jaq-json, jaq-fmts, jaq-all plus the presence of
   `#![forbid(unsafe_code)]`; the list is written to lean/JaqVerif/Gen/C19Shared.lean and
   `shared_state_allowlisted` / `unsafe_forbidden_in_core` (Props/C19.lean, `decide`) demand it is
   within the hand-audited allow-list (JaqVerif/C19/Allow.lean).  A new item is reported with file:line.
2. Compile-time facts.  harness-c19 (own crate) is built against the tree twice — default features
   and `jaq-json/sync` —; it does not build unless `Filter`/`Lut` are `Send + Sync` (both) and `Val`
   is `Send + Sync` (sync).  A Send/Sync build error is a VIOLATION.
3. Lean: Props/C19.lean (cow_transparent, schedule_independent, runs_deterministic,
   compile_independent, …) rebuilt and audited.
4. Correspondence.  (a) the copy-on-write heap model vs real `Val` arrays (`Rc` and `Arc`) on
   exhaustive short and random long operation scripts; (b) T ∈ {2,4,8,16} threads × R repetitions:
   one compiled filter shared by all threads (own context/inputs each; in the sync build also the
   same `Arc`'d input values), threads compiling concurrently, a filter moved to another thread —
   every output sequence must equal the isolated run (fresh compile, alone, other process, other
   build); (c) sequential non-interference and re-run determinism.
"""
import json
import os
import re
import shutil
import subprocess
import sys

import verif

sys.path.insert(0, os.path.join(verif.VERIF, "pysupport"))
import c19_scan  # noqa: E402

HC = os.path.join(verif.VERIF, "harness-c19")
ALLOW = os.path.join(verif.LEAN, "JaqVerif", "C19", "Allow.lean")


def allowed_items():
    src = open(ALLOW).read()
    body = src[src.index("def allowed"):]
    body = body[:body.index("]\n")]
    return {(m.group(1), m.group(2), m.group(3), m.group(4), int(m.group(5)))
            for m in re.finditer(r'⟨"([^"]*)",\s*"([^"]*)",\s*"([^"]*)",\s*"([^"]*)",\s*(\d+)⟩', body)}


def must_forbid():
    src = open(ALLOW).read()
    m = re.search(r"def mustForbidUnsafe[^\[]*\[([^\]]*)\]", src)
    return re.findall(r'"([^"]*)"', m.group(1))


def static_scan(ctx):
    items, occs, forbid = c19_scan.scan(verif.REPO)
    changed = ctx.write_gen("C19Shared", c19_scan.render(items, occs, forbid))
    allow = allowed_items()
    new = [it for it in items if it not in allow]
    for crate, f, kind, path, n in new:
        lines = [o["line"] for o in occs if (o["crate"], o["file"], o["kind"], o["path"]) == (crate, f, kind, path)]
        similar = [a for a in allow if a[:4] == (crate, f, kind, path)]
        what = ("state-carrying construct `%s` (%s) in %s/%s line(s) %s is not on the audited allow-list"
                % (path, kind, crate, f, ",".join(map(str, lines))))
        if similar:
            what += " (allow-listed with %d occurrence(s), found %d)" % (similar[0][4], n)
        ctx.violation("shared-state:%s/%s:%s:%s" % (crate, f, kind, path), what,
                      {"crate": crate, "file": f, "lines": lines, "kind": kind, "path": path, "count": n,
                       "replay": "python3 pysupport/c19_scan.py $JAQ_REPO | grep -n '%s'" % kind},
                      broken=["Jaq.C19.shared_state_allowlisted"])
    for c in must_forbid():
        if not forbid.get(c, False):
            ctx.violation("forbid-unsafe:" + c, "%s/src/lib.rs no longer carries #![forbid(unsafe_code)]" % c,
                          {"crate": c}, broken=["Jaq.C19.unsafe_forbidden_in_core"])
    ctx.log("static scan: %d occurrence(s), %d item(s), %d not allow-listed%s"
            % (len(occs), len(items), len(new), " (Gen/C19Shared.lean rewritten)" if changed else ""))
    return items, occs, forbid, new


def build_own(ctx, sync):
    """Build harness-c19 in one configuration; returns the path of the binary or None after
    recording a Send/Sync violation."""
    cfg = "sync" if sync else "default"
    tmpl = open(os.path.join(HC, "Cargo.toml.in")).read().replace("@REPO@", verif.REPO.rstrip("/"))
    toml = os.path.join(HC, "Cargo.toml")
    if not os.path.exists(toml) or open(toml).read() != tmpl:
        open(toml, "w").write(tmpl)
    lock = os.path.join(HC, "Cargo.lock")
    if not os.path.exists(lock):
        src = os.path.join(verif.HARNESS, "Cargo.lock")
        shutil.copy(src if os.path.exists(src) else os.path.join(verif.REPO, "Cargo.lock"), lock)
    # third-party crates are shared with the harness' target directory (same profile, same flags)
    tdir = os.path.join(verif.HARNESS, "target")
    cmd = ["cargo", "build", "--offline", "--target-dir", tdir] + (["--features", "sync"] if sync else [])
    with verif.BuildLock("cargo"):
        rc, out = verif.sh(cmd, cwd=HC, timeout=3000)
        if rc == 0:
            os.makedirs(os.path.join(HC, "bin"), exist_ok=True)
            dst = os.path.join(HC, "bin", "jaqverif-c19-" + cfg)
            tmp = dst + ".tmp"
            shutil.copy(os.path.join(tdir, "debug", "jaqverif-c19"), tmp)
            os.replace(tmp, dst)
            return dst
    errs = re.findall(r"error\[E0277\]: (`[^\n]*` cannot be (?:sent|shared) between threads safely)", out)
    if errs:
        # which assertion failed: take the source lines quoted by rustc
        quoted = sorted(set(m.strip() for m in re.findall(r"\|\s+(assert_send(?:_sync)?::<[^\n]*>\(\);)", out)))
        ctx.violation("static:send-sync:" + cfg,
                      "compile-time fact fails in the %s build: %s — %s" % (cfg, "; ".join(quoted) or "?", sorted(set(errs))[0]),
                      {"configuration": cfg, "assertions": quoted, "rustc": sorted(set(errs))[:6],
                       "replay": "cd harness-c19 && " + " ".join(cmd), "log": out[-3000:]},
                      kind="static-fact", broken=["harness-c19 static_facts (%s)" % cfg])
        ctx.log("harness-c19 (%s) does not build: Send/Sync fact violated (%d error(s)) " % (cfg, len(errs)))
        return None
    raise verif.CheckError("harness-c19 (%s) does not build:\n%s" % (cfg, out[-6000:]))


def run_own(binary, args, input, timeout):
    p = subprocess.run([binary] + args, input=input, timeout=timeout, stdout=subprocess.PIPE, stderr=subprocess.PIPE,
                       text=True, errors="replace", env={**os.environ, **verif.OFFLINE_ENV})
    if p.returncode != 0:
        raise verif.CheckError("%s %s failed (%d): %s" % (binary, args, p.returncode, p.stderr[-2000:]))
    return p.stdout


def run(ctx):
    thorough = ctx.tier == "thorough"
    items, occs, forbid, new_items = static_scan(ctx)

    ctx.build_harness()
    bins = {}
    for sync in (False, True):
        b = build_own(ctx, sync)
        if b:
            bins["sync" if sync else "default"] = b
    facts = {cfg: run_own(b, ["facts"], None, 60).splitlines() for cfg, b in bins.items()}
    ctx.build_model()
    proof = ctx.lean_check()
    ctx.log("lean:", "ok" if proof["ok"] else "BROKEN", len(proof["theorems"]), "theorems")

    # ---------------------------------------------------------------- cases
    replay = None
    if ctx.replay:
        replay = json.load(open(ctx.replay)).get("case", {})
    if replay and replay.get("case_line"):
        case_lines = [replay["case_line"]]
    else:
        case_lines = [l for l in ctx.harness(["c19", "gen"]).splitlines() if l]
    cases = {}
    for l in case_lines:
        p = l.split("\t")
        cases[p[0]] = {"line": l, "prog": p[1], "input": p[2], "inputs": p[3] if len(p) > 3 else ""}
    data = "\n".join(case_lines) + "\n"

    def key_of(cid, what):
        c = cases.get(cid, {"prog": "?", "input": "?"})
        return "%s:%s" % (what, c["prog"])

    def case_of(cid, **kw):
        c = cases.get(cid, {})
        d = {"case_id": cid, "program": c.get("prog"), "input": c.get("input"),
             "inputs": c.get("inputs", "").split("\x01") if c.get("inputs") else [], "case_line": c.get("line")}
        d.update(kw)
        return d

    # isolated reference: fresh compile per case, alone, default build — twice (re-run determinism)
    seq1 = dict(l.split("\t", 1) for l in ctx.harness(["c19", "seq"], input=data).splitlines() if "\t" in l)
    seq2 = dict(l.split("\t", 1) for l in ctx.harness(["c19", "seq"], input=data).splitlines() if "\t" in l)
    seq3 = dict(l.split("\t", 1) for l in ctx.harness(["c19", "seq", "rev"], input=data).splitlines() if "\t" in l)
    rerun_bad = 0
    for cid, o in seq1.items():
        if seq2.get(cid) != o:
            rerun_bad += 1
            ctx.violation(key_of(cid, "rerun"), "re-running a filter on an equal input gives a different output stream",
                          case_of(cid, first=o, second=seq2.get(cid)), broken=["correspondence runs_deterministic"])
        elif seq3.get(cid) != o:
            rerun_bad += 1
            ctx.violation(key_of(cid, "order"),
                          "what a filter yields depends on which other filters were compiled/run before it in the process",
                          case_of(cid, in_generation_order=o, in_reverse_order=seq3.get(cid),
                                  replay="jaqverif c19 gen | jaqverif c19 seq  vs  jaqverif c19 gen | jaqverif c19 seq rev"),
                          broken=["correspondence compile_independent"])
    panics = [cid for cid, o in seq1.items() if "PANIC" in o]
    ctx.log("isolated reference: %d cases, %d differ on re-run, %d panic" % (len(seq1), rerun_bad, len(panics)))

    # sequential non-interference
    inter = ctx.harness(["c19", "interfere"], input=data)
    inter_bad = 0
    for l in inter.splitlines():
        if l.startswith("INTERFERE\t"):
            inter_bad += 1
            p = l.split("\t")
            ctx.violation(key_of(p[1], "interfere"),
                          "compiling/running other filters changes what a compiled filter yields",
                          case_of(p[1], detail=p[5:]), broken=["correspondence compile_independent"])
    istat = re.search(r"STAT interfere checked=(\d+) bad=(\d+)", inter)
    if not istat:
        raise verif.CheckError("interfere: no STAT line")

    # concurrent runs, both builds
    ts = "2,4,8,16"
    reps = "8" if thorough else "3"
    conc_stats = {}
    for cfg, b in bins.items():
        out = run_own(b, ["conc", ts, reps], data, 3000)
        refbad = mism = 0
        for l in out.splitlines():
            p = l.split("\t")
            if p[0] == "REF" and len(p) >= 3:
                if seq1.get(p[1]) != p[2]:
                    refbad += 1
                    ctx.violation(key_of(p[1], "ref-" + cfg),
                                  "a filter compiled once and run in the %s build yields something else than its isolated run" % cfg,
                                  case_of(p[1], configuration=cfg, isolated=seq1.get(p[1]), got=p[2]),
                                  broken=["correspondence schedule_independent"])
            elif p[0] == "MISMATCH":
                mism += 1
                fields = dict(x.split("=", 1) for x in p[5:] if "=" in x)
                cid = p[1]
                ctx.violation("concurrent:%s:%s" % (fields.get("mode", "?"), cases.get(cid, {}).get("prog", cid)),
                              "concurrent execution (%s build, %s, %s threads) yields something else than the isolated run"
                              % (cfg, fields.get("mode"), fields.get("T")),
                              case_of(cid, configuration=cfg, threads=fields.get("T"), thread=fields.get("thread"),
                                      mode=fields.get("mode"), expected=fields.get("expected"), got=fields.get("got"),
                                      replay="bin/check C19 --replay <this file>  (or: echo '<case_line>' | harness-c19/bin/jaqverif-c19-%s conc %s %s)" % (cfg, ts, reps)),
                              broken=["correspondence schedule_independent"])
        m = re.search(r"STAT conc sync=(\w+) programs=(\d+) cases=(\d+) runs=(\d+) compiles=(\d+) shared_value_runs=(\d+) mismatches=(\d+)", out)
        if not m:
            raise verif.CheckError("conc (%s): no STAT line" % cfg)
        conc_stats[cfg] = {"programs": int(m.group(2)), "cases": int(m.group(3)), "runs": int(m.group(4)),
                           "compiles": int(m.group(5)), "shared_value_runs": int(m.group(6)),
                           "mismatches": int(m.group(7)), "reference_differs_from_isolated": refbad}
        ctx.log("concurrent (%s): %s" % (cfg, conc_stats[cfg]))

    # ---------------------------------------------------------------- copy-on-write model vs real Rc/Arc
    if replay and replay.get("request"):
        reqs = [replay["request"]]
    elif replay:
        reqs = []
    else:
        reqs = [l for l in ctx.harness(["c19", "cow-gen"]).splitlines() if l]
    rdata = "\n".join(reqs) + "\n"
    cow_total = cow_bad = 0
    if reqs:
        outs = {"rc": ctx.harness(["c19", "cow"], input=rdata)}
        if "sync" in bins:
            outs["arc"] = run_own(bins["sync"], ["cow"], rdata, 600)
        for flavour, out in outs.items():
            cs = [tuple(l.split("\t")) for l in out.splitlines() if l]
            cs = [c for c in cs if len(c) == 3]
            if len(cs) != len(reqs):
                raise verif.CheckError("cow (%s): %d answers for %d requests" % (flavour, len(cs), len(reqs)))
            cow_total += len(cs)
            cow_bad += verif.diff_corr(ctx, cs, "c19-cow-" + flavour, lambda cid, req, real, model, fl=flavour: "cow-%s:%s" % (fl, req))
        ctx.log("copy-on-write correspondence: %d scripts x %d flavours, %d disagreements" % (len(reqs), len(outs), cow_bad))

    # ---------------------------------------------------------------- evidence
    total_runs = sum(s["runs"] for s in conc_stats.values())
    nontrivial = len({c["prog"] for cid, c in cases.items() if seq1.get(cid) not in (None, "-", "COMPILE-ERROR")})
    sample_ids = list(cases)[:2] + list(cases)[len(cases) // 2: len(cases) // 2 + 2]
    ctx.coverage.update({
        "evaluations": total_runs + 3 * len(seq1) + int(istat.group(1)) * 4 + cow_total,
        "distinct_nontrivial": nontrivial + len(set(reqs)),
        "rule": "distinct programs whose isolated run yields at least one output or error (curated list over every area named by the "
                "property + seeded random core-language programs), each run from T in {2,4,8,16} threads x R repetitions in two builds; "
                "plus distinct copy-on-write scripts (all scripts of length <= 3 over 2 owners/1 shared array exhaustively, seeded random longer ones)",
        "samples": [{"program": cases[i]["prog"], "input": cases[i]["input"], "isolated": seq1.get(i, "")[:120]} for i in sample_ids]
                   + [{"cow_request": r} for r in reqs[-2:]],
        "traces_validated_against_impl": cow_total,
        "thread_counts": [2, 4, 8, 16], "repetitions": int(reps),
        "concurrent": conc_stats,
        "configurations_built": sorted(bins),
        "compile_time_facts": facts,
        "interfere_checked": int(istat.group(1)), "interfere_bad": inter_bad,
        "rerun_differs": rerun_bad, "isolated_panics": len(panics),
        "cow_scripts": len(reqs), "cow_disagreements": cow_bad,
        "static_items": [list(i) for i in items], "static_occurrences": len(occs), "static_not_allowlisted": len(new_items),
        "forbid_unsafe": forbid,
        "exhaustive": False,
    })
    ctx.assumptions += [
        "memory-model effects are outside the Lean model: operations on reference-counted cells are atomic steps (std's Arc); the crates forbid `unsafe` (checked for jaq-core, jaq-std, jaq-json)",
        "real interleavings are sampled (OS scheduler, T x R runs), the theorem covers all interleavings of the model",
        "the model's shape (a step reads the table and writes only its own thread's state) is tied to the code by the generated shared-state list (text scan of the five core crates; macros from other crates are not expanded) and by the Send+Sync compile-time facts",
        "third-party crates are not scanned: jiff (time-zone database cache), log (global logger), foldhash (process-wide hash seed; IndexMap keeps insertion order so it is not observable), regex-lite, hifijson, std::env/SystemTime (excepted by the property)",
        "programs avoid now/env/localtime/debug/stderr/halt_error; `input`/`inputs` are used with a private input stream per run",
        "the default build's `Val` (Rc) is not Send: there each thread builds its own inputs; sharing of values between threads is exercised in the `sync` build only (the property's 'thread-safe representation')",
    ]
