"""C14 — every supported data format round-trips values on its documented domain (DESIGN §6 C14).

1. Lean: Props/C14.lean is rebuilt and audited (YAML quoting decision vs scalar resolution,
   CBOR header mapping, TOML domain / key quoting, CSV/TSV writer-reader inversion).
2. Correspondence of the impl-model with the real code:
   * YAML `must_quote` (observed through the real writer) and the reader's scalar resolution
     (real `parse_many` on raw plain text) on all strings up to length 3 (thorough: 4) over the
     indicator alphabet + reserved-word neighbourhood + random number-like spellings;
   * CSV/TSV reader on all byte strings up to length 4 (5) over the delimiter alphabet, writer on rows;
   * CBOR `encode` (bytes decoded to header tokens) and `parse` (header tokens encoded to bytes);
   * TOML writer decisions (domain, bare vs quoted key).
3. Round trips through the real code (`toF|fromF` filters, `write::write`/`read::parse` = what
   `--to/--from` call, and the CLI binary on a sample) on generated values whose string atoms are the
   formats' reserved words, indicators and number-like spellings; values just outside a domain must
   be rejected.  XML: `fromxml|toxml|fromxml = fromxml` on generated documents and mutations of the
   repository's XHTML files.
4. Independent readers (search only): Python tomllib, csv, xml.dom.minidom, json.
"""
import os
import subprocess
import sys
import tempfile

import verif

sys.path.insert(0, os.path.join(verif.VERIF, "pysupport"))
import c14_vx as vx  # noqa: E402
import c14_oracles as oracles  # noqa: E402


class Tally:
    """one violation per key (first case kept, occurrences counted)"""

    def __init__(self, ctx):
        self.ctx = ctx
        self.seen = {}

    def add(self, key, what, case, broken=None):
        if key in self.seen:
            self.seen[key]["count"] += 1
            if len(self.seen[key]["more"]) < 5:
                self.seen[key]["more"].append(case.get("input", case.get("value", "")))
            return
        case = dict(case)
        self.seen[key] = {"what": what, "case": case, "broken": broken or [], "count": 1, "more": []}

    def flush(self):
        for key, e in self.seen.items():
            e["case"]["occurrences_in_this_run"] = e["count"]
            if e["more"]:
                e["case"]["further_inputs"] = e["more"]
            self.ctx.violation(key, e["what"], e["case"], broken=e["broken"])


def run(ctx):
    ctx.build_harness()
    ctx.build_model()
    proof = ctx.lean_check()
    ctx.log("lean:", "ok" if proof["ok"] else "BROKEN", len(proof["theorems"]), "theorems")
    tally = Tally(ctx)
    stats = {}

    # C14_ONLY=yaml,tab,cbor,toml,rt,xml,cli restricts the parts (development aid; default: all)
    only = [x for x in os.environ.get("C14_ONLY", "").split(",") if x]
    parts = [("yaml", lambda: yaml_strings(ctx, tally, stats)), ("tab", lambda: tabular(ctx, tally, stats)),
             ("cbor", lambda: corr(ctx, tally, stats, "cbor", "c14-cbor")), ("toml", lambda: corr(ctx, tally, stats, "toml", "c14-toml")),
             ("rt", lambda: round_trips(ctx, tally, stats)), ("xml", lambda: xml_fixpoint(ctx, tally, stats)),
             ("xmlm", lambda: xml_model(ctx, tally, stats)),
             ("cli", lambda: cli_agreement(ctx, tally, stats))]
    for name, f in parts:
        if not only or name in only:
            f()
    if only:
        ctx.notes.append("restricted run: C14_ONLY=" + ",".join(only))

    tally.flush()
    ev = sum(stats.get(k, 0) for k in ("yaml_strings", "yaml_raw_reads", "tab_cases", "cbor_cases", "toml_cases", "rt_cases", "xml_model_cases"))
    ctx.coverage.update({
        "evaluations": ev,
        "distinct_nontrivial": stats.get("yaml_plain", 0) + stats.get("yaml_read_claims", 0) + stats.get("tab_cases", 0)
        + stats.get("cbor_cases", 0) + stats.get("toml_cases", 0) + stats.get("rt_in_domain", 0) + stats.get("rt_reject", 0)
        + stats.get("xml_model_cases", 0),
        "rule": "a YAML string counts when the writer leaves it plain (the quoting decision matters) or the model makes a claim "
                "about its raw reading; a tabular text / row counts always (every byte drives the field state machine); a round trip "
                "counts when the value is inside the documented domain or must be rejected",
        "samples": stats.get("samples", [])[:8],
        "traces_validated_against_impl": stats.get("yaml_strings", 0) + stats.get("yaml_read_claims", 0) + stats.get("tab_cases", 0)
        + stats.get("cbor_cases", 0) + stats.get("toml_cases", 0) + stats.get("xml_model_cases", 0),
        "distribution": {k: v for k, v in stats.items() if k != "samples"},
        "exhaustive": False,
        "exhaustive_small_scope": "YAML: all strings of length <= %d over a 35-symbol indicator alphabet; CSV/TSV: all texts of length <= %d over 16 bytes"
                      % ((4, 5) if ctx.tier == "thorough" else (3, 4)),
    })
    ctx.assumptions += [
        "saphyr-parser delivers a one-line plain scalar (accepted by jaq's ns_plain_one_line, not led by a document marker) with trailing "
        "blanks removed and otherwise unchanged, and a double-quoted JSON string unescaped (exercised on every string of the YAML scope)",
        "base64 STANDARD engine inverts itself; ryu prints a finite double so that it parses back to the same double (round trips of the float pool)",
        "the reader's char-level tests only involve ASCII, so the byte-level model equals the char-level code on valid UTF-8",
        "hifijson's number lexer is modelled from its source (num_part); tied by the CSV/TSV field correspondence",
        "xmlparser delivers for a well-formed text the token stream the document generator intends (names split at their one colon, "
        "payloads and literals without delimiters, white space outside the root dropped), and for what toxml writes the tokens of "
        "Xml.render — both exercised on every generated document (xp / xr cases); the internal DTD subset is the source slice between DtdStart and DtdEnd",
    ]


# ----------------------------------------------------------------------------------------------- YAML strings

def yaml_strings(ctx, tally, stats):
    out = ctx.harness(["c14", "yaml-strings"])
    W, R = [], []
    for l in out.splitlines():
        p = l.split("\t")
        if p[0] == "W" and len(p) == 5:
            W.append((p[1], p[2], p[3], p[4]))
        elif p[0] == "R" and len(p) == 3:
            R.append((p[1], p[2]))
    arg = lambda h: h if h else "-"
    mq = ctx.model(["c14.ymq " + arg(h) for h, _, _, _ in W])
    cls = ctx.model(["c14.yclass " + arg(h) for h, _, _, _ in W])
    rd = ctx.model(["c14.yread " + arg(h) for h, _ in R])
    stats["yaml_strings"] = len(W)
    stats["yaml_raw_reads"] = len(R)
    nplain = 0
    by_class = {}
    for (h, q, back, inctx), m, c in zip(W, mq, cls):
        s = bytes.fromhex(h)
        show = repr(s.decode("utf8", "backslashreplace"))
        if back == "U":
            continue  # invalid UTF-8 is written as is and documented to be unreadable
        if q != m:
            tally.add("yaml-mustquote-corr:" + h,
                      "real YAML writer %s the string %s but the model of must_quote says %s" % (
                          {"Q": "quotes", "P": "leaves plain", "X": "rewrites"}[q], show, m),
                      {"input": show, "hex": h, "real": q, "model": m}, broken=["correspondence yaml must_quote"])
            continue
        want = "V S" + h
        if q == "Q":
            if back != want:
                tally.add("yaml-quoted:" + h, "quoted YAML string %s does not read back as itself" % show,
                          {"input": show, "hex": h, "read_back": back, "replay": "jaq -n '%s | toyaml | fromyaml'" % jq_str(s)})
            continue
        nplain += 1
        by_class[c] = by_class.get(c, 0) + 1
        if back != want:
            key = "yaml-plain:" + c if c not in ("ok", "other") else "yaml-plain:unexplained:" + h
            tally.add(key,
                      "string %s is written as a plain YAML scalar and read back as %s (%s)" % (show, back, c),
                      {"input": show, "hex": h, "read_back": back, "cause": c,
                       "replay": "jaq -nc '%s | toyaml | fromyaml'" % jq_str(s)},
                      broken=["yaml_plain_is_string"])
        elif inctx != "ok":
            # fine at top level, broken inside a collection
            if s[-2:] in (b" -", b"\t-"):
                key, cause = "yaml-flow:blank-dash-end", "saphyr rejects a plain scalar ending in blank + '-' before `,` or `]` in flow context"
            else:
                key, cause = "yaml-context:unexplained:" + h, "unexplained"
            tally.add(key, "string %s round-trips alone but not inside a collection (%s): %s" % (show, inctx, cause),
                      {"input": show, "hex": h, "context_and_result": inctx,
                       "replay": "jaq -nc '[%s] | toyaml | fromyaml'" % jq_str(s)})
        elif c != "ok":
            tally.add("yaml-class-corr:" + h, "model predicts %s for %s but the real round trip is the identity" % (c, show),
                      {"input": show, "hex": h}, broken=["correspondence yaml resolve"])
    claims = 0
    for (h, real), m in zip(R, rd):
        if m == "-" or real == "U":
            continue
        claims += 1
        if real != m:
            s = bytes.fromhex(h)
            tally.add("yaml-read-corr:" + h,
                      "real YAML reader and the model of the scalar resolution disagree on the plain text %r" % s.decode("utf8", "replace"),
                      {"input": repr(s), "hex": h, "real": real, "model": m}, broken=["correspondence yaml resolve"])
    stats["yaml_plain"] = nplain
    stats["yaml_read_claims"] = claims
    stats["yaml_plain_by_cause"] = by_class
    stats.setdefault("samples", []).extend(
        [{"yaml_string_hex": h, "writer": q, "read_back": b} for h, q, b, _ in W[1:2] + W[len(W) // 2: len(W) // 2 + 1]])
    ctx.log("yaml strings: %d (plain %d), raw-read claims %d, causes %s" % (len(W), nplain, claims, by_class))


def jq_str(b):
    import json
    try:
        return json.dumps(b.decode("utf8"))
    except UnicodeDecodeError:
        return "(b\"%s\" | tostring)" % "".join("\\x%02x" % c for c in b)


# ----------------------------------------------------------------------------------------------- CSV / TSV

def tabular(ctx, tally, stats):
    out = ctx.harness(["c14", "tab"])
    cases = [tuple(l.split("\t")) for l in out.splitlines() if l]
    cases = [c for c in cases if len(c) == 3]

    def classify(cid, req, real, model):
        return "tab-corr:" + req

    for c in cases:
        if c[2] == "PANIC":
            tally.add("panic:" + c[1], "tabular reader/writer panics", {"request": c[1]})
    cases = [c for c in cases if c[2] != "PANIC"]
    bad = verif.diff_corr(ctx, cases, "c14-tabular", classify)
    stats["tab_cases"] = len(cases)
    stats["tab_disagreements"] = bad
    stats.setdefault("samples", []).extend([{"request": c[1], "real": c[2]} for c in cases[5:6] + cases[-1:]])
    ctx.log("tabular correspondence: %d cases, %d disagreements" % (len(cases), bad))


def corr(ctx, tally, stats, sub, name):
    """generic `id \t request \t real` correspondence of one harness sub-command"""
    out = ctx.harness(["c14", sub])
    cases, trunc = [], 0
    for l in out.splitlines():
        p = l.split("\t")
        if p[0] == "CBORTRUNC":
            trunc += 1
            if not p[2].startswith("E"):
                tally.add("cbor-truncated-accepted:" + p[1], "truncated CBOR input is not rejected", {"input": p[1], "real": p[2]})
        elif len(p) == 3:
            cases.append(tuple(p))
    for c in cases:
        if c[2] == "PANIC":
            tally.add("panic:" + c[1], "%s reader/writer panics" % sub, {"request": c[1]})
    cases = [c for c in cases if c[2] != "PANIC"]
    bad = verif.diff_corr(ctx, cases, name, lambda cid, req, real, model: "%s-corr:%s" % (sub, req[:200]))
    stats[sub + "_cases"] = len(cases)
    stats[sub + "_disagreements"] = bad
    if trunc:
        stats[sub + "_truncated_inputs"] = trunc
    stats.setdefault("samples", []).extend([{"request": c[1][:200], "real": c[2][:200]} for c in cases[7:8]])
    ctx.log("%s correspondence: %d cases, %d disagreements" % (sub, len(cases), bad))


# ----------------------------------------------------------------------------------------------- round trips

def toml_cause(v):
    for k in vx.obj_keys(v):
        if k == ("S", b""):
            return "empty-key"
    for l in vx.leaves(v, keys=False):
        if l[0] == "G" and not (-2 ** 63 <= l[1] < 2 ** 63):
            return "int-beyond-64-bits"
    for l in vx.leaves(v, keys=False):
        if l[0] == "L":
            try:
                f = float(l[1])
            except ValueError:
                f = None
            if f is None or f in (float("inf"), float("-inf")):
                return "dec-literal-beyond-f64"
    return None


def round_trips(ctx, tally, stats):
    out = ctx.harness(["c14", "rt"])
    rows = []
    for l in out.splitlines():
        p = l.split("\t")
        if p[0] == "RT" and len(p) == 8:
            rows.append(p[1:])
    stats["rt_cases"] = len(rows)
    dist = {}
    for fmt, path, dom, status, v, written, detail in rows:
        dist["%s/%s/%s" % (fmt, dom, status)] = dist.get("%s/%s/%s" % (fmt, dom, status), 0) + 1
    stats["rt_distribution"] = dist
    stats["rt_in_domain"] = sum(1 for r in rows if r[2] == "in")
    stats["rt_reject"] = sum(1 for r in rows if r[2] == "reject")
    # YAML: ask the model for the cause of every string leaf of failing values
    failing = [r for r in rows if r[2] == "in" and r[3] != "ok" and r[0] == "yaml"]
    leafset = {}
    for r in failing:
        for l in vx.leaves(vx.parse_vx(r[4])):
            if l[0] == "S":
                leafset[l[1]] = None
    leaflist = list(leafset)
    for b, c in zip(leaflist, ctx.model(["c14.yclass " + vx.hexarg(b) for b in leaflist])):
        leafset[b] = c
    for fmt, path, dom, status, v, written, detail in rows:
        val = None
        case = {"format": fmt, "path": path, "value_vx": v, "status": status, "written_hex": written[:400], "detail": detail[:300]}
        if status == "PANIC":
            tally.add("panic:%s:%s" % (fmt, v), "%s round trip panics" % fmt, case)
            continue
        if dom == "in" and status != "ok":
            val = vx.parse_vx(v)
            case["value"] = vx.show(val)
            case["replay"] = "jaq -nc '<value> | to%s | from%s'" % (fmt, fmt)
            if fmt == "yaml":
                causes = [leafset.get(l[1]) for l in vx.leaves(val) if l[0] == "S"]
                causes = [c for c in causes if c not in (None, "ok", "other")]
                if not causes and any(l[0] == "S" and l[1][-2:] in (b" -", b"\t-") for l in vx.leaves(val)):
                    tally.add("yaml-flow:blank-dash-end", "YAML written by jaq is rejected by its reader (plain scalar ending in blank + '-' "
                              "in flow context): %s" % case["value"], case)
                    continue
                if causes:
                    tally.add("yaml-plain:" + causes[0],
                              "YAML round trip changes a value containing a plain-written string (%s): %s" % (causes[0], case["value"]),
                              case, broken=["yaml_plain_is_string"])
                    continue
            if fmt == "toml":
                c = toml_cause(val)
                if c:
                    tally.add("toml:" + c, "TOML written by jaq is not read back (%s): %s" % (c, case["value"]), case,
                              broken=["toml_key_quoting_safe"] if c == "empty-key" else [])
                    continue
            tally.add("%s-roundtrip:%s:%s" % (fmt, path, v), "%s round trip (%s) does not return the value %s" % (fmt, path, case["value"]), case)
        elif dom == "reject" and status != "WERR":
            val = vx.parse_vx(v)
            case["value"] = vx.show(val)
            c = toml_cause(val) if fmt == "toml" else None
            if c == "int-beyond-64-bits":
                tally.add("toml:int-beyond-64-bits",
                          "TOML writer accepts an integer beyond 64 bits (outside the documented domain) instead of rejecting it: %s"
                          % case["value"], case, broken=["toml_domain_rejects_outside"])
            else:
                tally.add("%s-not-rejected:%s" % (fmt, v), "%s writer accepts a value outside its domain: %s" % (fmt, case["value"]), case)
    # independent readers of what jaq wrote (search only)
    nor = 0
    for fmt, path, dom, status, v, written, detail in rows:
        if path != "filter" or written == "-" or fmt not in ("toml", "csv") or dom != "in" or status != "ok":
            continue
        val = vx.parse_vx(v)
        msg = (oracles.toml_oracle if fmt == "toml" else oracles.csv_oracle)(val, bytes.fromhex(written))
        nor += 1
        if msg:
            tally.add("%s-independent-reader:%s" % (fmt, v), "%s written by jaq for %s: %s" % (fmt, vx.show(val), msg),
                      {"format": fmt, "value": vx.show(val), "value_vx": v, "written_hex": written[:400], "oracle": msg})
    stats["independent_reader_checks"] = nor
    stats.setdefault("samples", []).extend(
        [{"rt": r[:5]} for r in rows[3:4] + rows[len(rows) // 2: len(rows) // 2 + 1]])
    ctx.log("round trips: %d cases; %s" % (len(rows), {k: n for k, n in sorted(dist.items()) if not k.endswith("/ok") and "/out/" not in k}))


# ----------------------------------------------------------------------------------------------- XML

def xml_cause(doc):
    import re
    if re.search(rb"=\s*'[^'<]*\"[^'<]*'", doc):
        # (only a third of the generated documents contain such values)
        return "attr-double-quote"
    if b"standalone" in doc.split(b"?>")[0]:
        return "xmldecl-standalone"
    if b"<!DOCTYPE" in doc and (b"SYSTEM" in doc or b"PUBLIC" in doc):
        return "doctype-external-id"
    return None


def xml_fixpoint(ctx, tally, stats):
    out = ctx.harness(["c14", "xml"])
    dist = {}
    nwf = 0
    for l in out.splitlines():
        p = l.split("\t")
        if p[0] != "XML" or len(p) != 5:
            continue
        status, doc, written, detail = p[1], bytes.fromhex(p[2]), p[3], p[4]
        dist[status] = dist.get(status, 0) + 1
        if status in ("ok", "malformed"):
            if status == "ok" and written != "-" and nwf < 400:
                # single-root documents: the output must be well-formed for an independent reader
                w = bytes.fromhex(written)
                if b"<!DOCTYPE" not in w and b"&" not in w and oracles.xml_oracle(doc) is None:
                    nwf += 1
                    msg = oracles.xml_oracle(w)
                    if msg:
                        tally.add("xml-independent-reader:" + p[2][:80], "toxml output is not well-formed: " + msg,
                                  {"input": doc.decode("utf8", "replace")[:300], "written": w.decode("utf8", "replace")[:300]})
            continue
        if oracles.xml_oracle(doc) is not None:
            # xmlparser accepted a document that is not well-formed XML (e.g. `<?xml<x?>`): outside the property
            dist["not-well-formed-per-expat"] = dist.get("not-well-formed-per-expat", 0) + 1
            continue
        show = doc.decode("utf8", "replace")
        cause = xml_cause(doc)
        key = "xml:" + cause if cause else "xml-fixpoint:%s:%s" % (status, p[2][:120])
        tally.add(key, "fromxml|toxml|fromxml differs from fromxml (%s%s)" % (status, ", " + cause if cause else ""),
                  {"input": show[:400], "status": status, "written_hex": written[:300], "detail": detail[:300],
                   "replay": "jaq -Rs '[fromxml] | (map(toxml) | add | [fromxml]) == .' <<< '<doc>'"},
                  broken=["xml_fixpoint"])
    stats["xml_documents"] = sum(dist.values())
    stats["xml_distribution"] = dist
    stats["xml_minidom_checks"] = nwf
    ctx.log("xml fixpoint: %s" % dist)



def xml_model(ctx, tally, stats):
    """impl-model of the XML reader/writer (Lean `C14/Xml.lean`, theorem `xml_fixpoint`) vs the real code:
    `xp` reader on the generator's token stream vs `fromxml` on its text (this is also where the xmlparser
    contract — the text tokenizes to the intended tokens — is exercised); `xw`/`xm` writer bytes / rejection;
    `xr` real `fromxml` of the real `toxml` output vs the model reader on `render`."""
    out = ctx.harness(["c14", "xml-model"])
    rows = [l.split("\t") for l in out.splitlines() if l]
    rows = [r for r in rows if len(r) == 4]
    answers = ctx.model([r[1] for r in rows])
    kinds, bad = {}, 0
    verdicts = {}
    for (cid, req, real, doc), m in zip(rows, answers):
        kind = cid[:2]
        kinds[kind] = kinds.get(kind, 0) + 1
        verdicts[kind + ":" + real.split(" ")[0] + ("" if real[:1] != "E" else real[1:])] = verdicts.get(kind + ":" + real.split(" ")[0] + ("" if real[:1] != "E" else real[1:]), 0) + 1
        text = bytes.fromhex(doc).decode("utf8", "replace") if doc != "-" else None
        if real in ("PANIC", "E panic"):
            tally.add("panic:xml:" + req[:160], "XML reader/writer panics", {"request": req[:400], "document": text})
            continue
        if m == real or (kind in ("xw", "xm") and m == "-"):
            continue
        case = {"request": req[:600], "real": real[:400], "model": m[:400]}
        if text is not None:
            case["document"] = text[:400]
            case["replay"] = "printf '%s' '<document>' | jaq -Rs -c '[fromxml] | ., (map(toxml) | add), (map(toxml) | add | [fromxml])'"
        if kind == "xr" and m == "Q":
            # an attribute value contains the quote the writer puts around it: outside the tokenizer contract.
            # The property demands fromxml|toxml|fromxml = fromxml: compare the real result with the values.
            orig = "V " + " ".join(req.split(" ")[1:])
            if vx_canon_eq(orig, real):
                continue
            tally.add("xml:attr-double-quote",
                      "fromxml|toxml|fromxml differs from fromxml: an attribute value containing `\"` (legal between single quotes) "
                      "is written between double quotes by toxml: " + (text or "")[:200], case, broken=["xml_fixpoint"])
            continue
        bad += 1
        tally.add("xml-corr:%s:%s" % (kind, req[:160]),
                  {"xp": "real fromxml and the model reader disagree on a generated document (or xmlparser does not tokenize it as intended)",
                   "xw": "real toxml and the model writer emit different bytes for a value fromxml produced",
                   "xm": "real toxml and the model writer disagree on a user-made / invalid value",
                   "xr": "real fromxml(toxml(v)) and the model reader on the rendered tokens disagree"}.get(kind, kind),
                  case, broken=["correspondence xml"])
    stats["xml_model_cases"] = len(rows)
    stats["xml_model_kinds"] = kinds
    stats["xml_model_real_verdicts"] = verdicts
    stats["xml_model_disagreements"] = bad
    stats.setdefault("samples", []).extend([{"request": r[1][:200], "real": r[2][:200]} for r in rows[0:1] + rows[2:3]])
    ctx.log("xml model correspondence: %d cases %s, %d disagreements; real verdicts %s" % (len(rows), kinds, bad, verdicts))


def vx_canon_eq(a, b):
    return a.split() == b.split()

# ----------------------------------------------------------------------------------------------- CLI

def cli_agreement(ctx, tally, stats):
    """`--to F` / `--from F` of the real binary agree with the filters on a sample (the full
    generator already goes through `write::write` / `read::parse`, the functions main.rs calls)."""
    jaq = ctx.build_jaq()
    sample = ['{"a":[1,"+1",".5","a ",null,true,1.5,"x\\ty"],"b":{"c":"null","d":[]}}', '[1,"a,b","c\\"d",null,true,"1"]', '["a","b c","d\\te"]',
              '{"k":{"x":1,"y":[{"z":"v"},{"z":"w"}]},"s":"é"}']
    n = bad = 0

    def run(args, inp):
        p = subprocess.run([jaq] + args, input=inp, stdout=subprocess.PIPE, stderr=subprocess.PIPE, timeout=120)
        return p.returncode, p.stdout

    for fmt, idx in (("yaml", [0, 1, 2, 3]), ("cbor", [0, 1, 2, 3]), ("toml", [3]), ("csv", [1]), ("tsv", [2])):
        for i in idx:
            src = sample[i].encode()
            rc1, text = run(["--to", fmt, "."], src)
            # the same document read by --from and by the filter
            rc2, via_cli = run(["--from", fmt, "-c", "."], text)
            rc3, via_filter = run(["-Rs", "-c", "from" + fmt] if fmt != "cbor" else ["--from", "raw", "-s", "-c", "tobytes | fromcbor"], text)
            # the filter's writer, read back by --from
            rc4, text2 = run(["-j", "to" + fmt] if fmt != "cbor" else ["--to", "raw", "-j", "tocbor | tostring"], src)
            n += 1
            if rc1 or rc2 or rc3 or via_cli != via_filter:
                bad += 1
                tally.add("cli-agreement:%s:%d" % (fmt, i), "--from %s and from%s disagree on what --to %s wrote" % (fmt, fmt, fmt),
                          {"input": sample[i], "written": text[:300].decode("utf8", "replace"), "via_cli": via_cli[:300].decode("utf8", "replace"),
                           "via_filter": via_filter[:300].decode("utf8", "replace"), "exit_codes": [rc1, rc2, rc3]})
            if fmt in ("yaml", "toml", "csv", "tsv") and rc4 == 0:
                rc5, back = run(["--from", fmt, "-c", "."], text2)
                if rc5 or (fmt not in ("yaml",) and back != via_cli):
                    # (YAML with F-14 atoms differs from the input either way; only the reader's agreement is checked there)
                    bad += 1
                    tally.add("cli-agreement-write:%s:%d" % (fmt, i), "to%s output is not read by --from %s like --to %s output" % (fmt, fmt, fmt),
                              {"input": sample[i], "filter_written": text2[:300].decode("utf8", "replace")})
    # XML: `--from xml` / `--to xml` against `fromxml` / `toxml`
    for i, doc in enumerate([b'<?xml version="1.0" standalone="yes"?><!DOCTYPE a SYSTEM "a.dtd"><a x="1" y:z=\'2\'>t<b/><!--c--><![CDATA[d]]><?p q?></a>',
                             b'<a>\n <b k="v">x &amp; y</b>\n</a>\n']):
        rc1, via_cli = run(["--from", "xml", "-c", "."], doc)
        rc2, via_filter = run(["-Rs", "-c", "fromxml"], doc)
        rc3, w_cli = run(["--from", "xml", "--to", "xml", "."], doc)
        rc4, w_filter = run(["-Rs", "-r", "[fromxml | toxml] | .[]"], doc)
        rc5, back = run(["--from", "xml", "-c", "."], w_cli)
        n += 1
        if rc1 or rc2 or rc3 or rc4 or rc5 or via_cli != via_filter or w_cli.split() != w_filter.split() or back != via_cli:
            bad += 1
            tally.add("cli-agreement:xml:%d" % i, "--from/--to xml and fromxml/toxml disagree",
                      {"input": doc.decode(), "via_cli": via_cli[:300].decode("utf8", "replace"), "via_filter": via_filter[:300].decode("utf8", "replace"),
                       "to_cli": w_cli[:300].decode("utf8", "replace"), "to_filter": w_filter[:300].decode("utf8", "replace"),
                       "exit_codes": [rc1, rc2, rc3, rc4, rc5]})
    stats["cli_checks"] = n
    ctx.log("cli agreement: %d checks, %d disagreements" % (n, bad))
