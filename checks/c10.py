"""C10 — indexing, slicing and element updates follow one position model per container (DESIGN §6 C10).

1. Lean: Props/C10.lean (the impl-model `C10/Index.lean` of jaq-json's index/range/map_* functions
   equals the Python-style position model on lists, for all lists and positions) is rebuilt and
   audited.
2. Correspondence: the real filters (`.[i]`, `.[i:j]`, `.[{start,end}]`, `has`, `length`, `keys`,
   `.[]`, `first/last/nth`, destructuring, `.[p] |= f`, `.[p] = v`, `.[p] += v`, `del(.[p])`, with
   `?` variants) vs the Lean model, exhaustively on the small scope of the property and on seeded
   random larger cases.  Also bstr's character chunks (`text / ""`) vs the shared Utf8 model.
3. Property oracle independent of the model: Python's own sequence semantics (`l[i]`, `l[i:j]`,
   slice assignment) on the array / byte-string cases.
4. The manual's defining jq code of `iter_upd / index_upd / slice_upd` (cut out of
   docs/advanced.dj at run time) evaluated by the same library against the real updates.
"""
import json
import verif

# ------------------------------------------------------------------ VX (python side)


def parse_vx(toks, i):
    """returns (value, next index); ints -> ('I'|'G', n); lists -> ('A', [..]); bytes -> ('B'|'S', bytes)"""
    t = toks[i]
    h, r = t[0], t[1:]
    if h in "NTF":
        return ({"N": None, "T": True, "F": False}[h],), i + 1
    if h in "IG":
        return (h, int(r)), i + 1
    if h in "DL":
        return (h, r), i + 1
    if h in "SB":
        return (h, bytes.fromhex(r)), i + 1
    if h == "A":
        n, out, i = int(r), [], i + 1
        for _ in range(n):
            v, i = parse_vx(toks, i)
            out.append(v)
        return ("A", out), i
    if h == "O":
        n, out, i = int(r), [], i + 1
        for _ in range(n):
            k, i = parse_vx(toks, i)
            v, i = parse_vx(toks, i)
            out.append((k, v))
        return ("O", out), i
    raise ValueError(t)


def enc_vx(v):
    if len(v) == 1:
        return {None: "N", True: "T", False: "F"}[v[0]]
    h, x = v
    if h in "IG":
        return "%s%d" % (h, x)
    if h in "DL":
        return h + x
    if h in "SB":
        return h + x.hex()
    if h == "A":
        return " ".join(["A%d" % len(x)] + [enc_vx(e) for e in x])
    return " ".join(["O%d" % len(x)] + [enc_vx(k) + " " + enc_vx(e) for k, e in x])


def is_int(v):
    return len(v) == 2 and v[0] in "IG"


def seq_of(v):
    """python sequence of an array / byte string value, with a re-wrapper"""
    if len(v) == 2 and v[0] == "A":
        return list(v[1]), (lambda l: ("A", list(l)))
    if len(v) == 2 and v[0] == "B":
        return [("I", b) for b in v[1]], None
    return None, None


def py_bound(b):
    """'-' / null -> None, integer -> int, anything else -> 'bad'"""
    if b is None or b == (None,):
        return None
    if is_int(b):
        return b[1]
    return "bad"


def python_oracle(req):
    """Expected answer by Python's own list semantics, or None when the case is outside the
    oracle's domain (text strings, objects, wrong-typed positions, non-container outputs)."""
    toks = req.split()
    op = toks[0]
    try:
        if op == "c10.has":
            v, i = parse_vx(toks, 1)
            k, i = parse_vx(toks, i)
            l, _ = seq_of(v)
            if l is None or not is_int(k):
                return None
            return "V " + ("T" if -len(l) <= k[1] < len(l) else "F")
        if op not in ("c10.run", "c10.upd"):
            return None
        form, opt, kind = toks[1], toks[2], toks[3]
        i = 4
        if kind == "I":
            idx, i = parse_vx(toks, i)
            bounds = None
        else:
            bs = []
            for _ in range(2):
                if toks[i] == "-":
                    bs.append(None)
                    i += 1
                else:
                    b, i = parse_vx(toks, i)
                    bs.append(b)
            bounds = [py_bound(b) for b in bs]
            if bs[0] is None and bs[1] is None:
                return None  # iteration
            if "bad" in bounds:
                return None
        terms = None
        if op == "c10.upd":
            n = int(toks[i])
            i += 1
            terms = []
            for _ in range(n):
                t = toks[i]
                i += 1
                if t in ".X":
                    terms.append((t, None))
                else:
                    c, i = parse_vx(toks, i)
                    terms.append((t, c))
        v, i = parse_vx(toks, i)
        l, wrap = seq_of(v)
        if l is None:
            return None
        n = len(l)
        if op == "c10.run":
            if bounds is None:
                if not is_int(idx):
                    return None
                k = idx[1]
                if form == "lit" and False:
                    return None
                return "V " + (enc_vx(l[k]) if -n <= k < n else "N")
            s = l[bounds[0]:bounds[1]]
            return "V " + (enc_vx(("A", s)) if wrap else "B" + bytes(x[1] for x in s).hex())
        # updates: arrays only, first output decides
        if wrap is None:
            return None
        if bounds is None:
            if not is_int(idx):
                return None
            k = idx[1]
            if not (-n <= k < n):
                return "V " + enc_vx(v) if opt == "O" else "E oob"
            old = l[k]
            if not terms:
                del l[k]
                return "V " + enc_vx(("A", l))
            t, c = terms[0]
            if t == ".":
                new = old
            elif t == "C":
                new = c
            elif t == "P" and is_int(old) and is_int(c):
                new = ("G" if "G" in (old[0], c[0]) else "I", old[1] + c[1])  # big + anything stays big
            else:
                return None
            l[k] = new
            return "V " + enc_vx(("A", l))
        sl = slice(bounds[0], bounds[1])
        old = l[sl]
        if not terms:
            new = []
        else:
            t, c = terms[0]
            if t == ".":
                new = old
            elif t == "C" and len(c) == 2 and c[0] == "A":
                new = c[1]
            elif t == "P" and len(c) == 2 and c[0] == "A":
                new = old + c[1]
            else:
                return None
        # Python's slice assignment inserts at `start` when the bounds cross
        l[sl] = new
        return "V " + enc_vx(("A", l))
    except (ValueError, IndexError):
        return None


def shape(req):
    """stable shape signature of a request: op, form, container kind, kinds of the positions"""
    toks = req.split()
    kinds = "".join(t[0] if t[0] in "NTFIGDLSBAO" else t for t in toks[1:8])
    return toks[0] + ":" + kinds


def beyond_usize(req):
    for t in req.split():
        if t[0] == "G":
            try:
                if abs(int(t[1:])) > 18446744073709551615:
                    return True
            except ValueError:
                pass
    return False


def run(ctx):
    ctx.build_harness()
    ctx.build_model()

    # ------------------------------------------------------------ replay of one stored case
    if ctx.replay:
        rp = json.load(open(ctx.replay))
        case = rp.get("case", {})
        req = case.get("request")
        if req:
            real = ctx.harness(["c10", "real"], input=req + "\n").strip()
            model = ctx.model([req])[0]
            exp = python_oracle(req)
            ctx.log("replay:", req, "| real:", real, "| model:", model, "| python:", exp)
            if real != model:
                ctx.violation(rp.get("key", "replay"), "replayed case still disagrees with the proved model",
                              {"request": req, "real": real, "model": model})
            elif exp is not None and exp != real:
                ctx.violation(rp.get("key", "replay"), "replayed case still disagrees with the position model",
                              {"request": req, "real": real, "expected": exp})
        elif "real_code" in case:
            line = "\t".join([case.get("kind", "slice"), case["real_code"], case["manual_code"], case["input"], case["i"], case["j"], case.get("f", ".")])
            out = ctx.harness(["c10", "manual1"], input=line + "\n").strip()
            ctx.log("replay:", out)
            if out.startswith("MAN FAIL"):
                ctx.violation(rp.get("key", "replay"), "replayed manual-oracle case still fails", case)
        ctx.coverage.update({"evaluations": 1, "distinct_nontrivial": 1, "rule": "replay of one stored case",
                             "samples": [case]})
        return

    proof = ctx.lean_check()
    ctx.log("lean:", "ok" if proof["ok"] else "BROKEN", len(proof["theorems"]), "theorems")

    # ------------------------------------------------------------ correspondence
    out = ctx.harness(["c10", "gen"])
    cases = [tuple(l.split("\t")) for l in out.splitlines() if l]
    cases = [c for c in cases if len(c) == 3]
    if len(cases) < 1000:
        raise verif.CheckError("harness produced only %d cases" % len(cases))
    broken = [c for c in cases if c[2].startswith(("COMPILE-ERROR", "BAD-REQUEST"))]
    if broken:
        raise verif.CheckError("harness cannot evaluate its own request: %r" % (broken[0],))
    panics = [c for c in cases if c[2].startswith("PANIC") or " X " in " " + c[2]]
    for c in panics[:20]:
        ctx.violation("c10-panic:" + shape(c[1]), "index/slice/update panics or escapes with a non-error exception",
                      {"request": c[1], "real": c[2]})
    cases = [c for c in cases if not c[2].startswith("PANIC")]

    # The property leaves the order of the remaining keys after a *deleting* update open (jaq
    # uses `swap_remove`); such results are compared as sets of entries.
    def same_entries(a, b):
        try:
            va, _ = parse_vx(a.split()[1:], 0)
            vb, _ = parse_vx(b.split()[1:], 0)
        except (ValueError, IndexError):
            return False
        if not (len(va) == 2 and va[0] == "O" and len(vb) == 2 and vb[0] == "O"):
            return False
        key = lambda e: enc_vx(e[0]) + " " + enc_vx(e[1])
        return sorted(map(key, va[1])) == sorted(map(key, vb[1]))

    ans = ctx.model([c[1] for c in cases])
    bad = order_only = 0
    for (cid, req, real), m in zip(cases, ans):
        if real == m:
            continue
        toks = req.split()
        if toks[0] == "c10.upd" and toks[3] == "I" and " 0 O" in req and real.startswith("V O") and same_entries(real, m):
            order_only += 1
            continue
        bad += 1
        if bad <= 20:
            ctx.violation("c10-corr:" + shape(req) + ":" + req,
                          "c10-position-model: real code and proved model disagree on `%s`" % req,
                          {"case_id": cid, "request": req, "real": real, "model": m},
                          broken=["correspondence c10-position-model"])
    if order_only:
        ctx.notes.append("%d object deletions differ from the model only in the order of the remaining keys (left open by the property)" % order_only)
    ctx.log("correspondence: %d cases, %d disagreements, %d panics" % (len(cases), bad, len(panics)))

    # ------------------------------------------------------------ Python's own sequence semantics
    npy = pybad = 0
    nkey = {}
    py_samples = []
    for cid, req, real in cases:
        exp = python_oracle(req)
        if exp is None:
            continue
        npy += 1
        if exp != real:
            pybad += 1
            if beyond_usize(req):
                key = "c10-bigint-bound:" + req.split()[0]
                what = ("an integer position beyond ±(2^64-1) used as slice bound is rejected as `not an integer` "
                        "instead of being clipped (as an index the same integer reads null)")
            else:
                key = "c10-python:" + shape(req) + ":" + req
                what = "result differs from the list position model (Python `l[i]`, `l[i:j]`, slice assignment)"
            cap = key if beyond_usize(req) else "c10-python:" + shape(req)
            nkey[cap] = nkey.get(cap, 0) + 1
            if nkey[cap] <= 3 and len(nkey) <= 40:
                ctx.violation(key, what, {"request": req, "real": real, "expected": exp})
        elif len(py_samples) < 3 and cid.startswith("updslice"):
            py_samples.append({"request": req, "real": real, "python": exp})
    ctx.log("python list oracle: %d cases, %d failures" % (npy, pybad))

    # ------------------------------------------------------------ the manual's defining jq code
    man = ctx.harness(["c10", "manual"])
    mtot = mfail = 0
    mcap = {}
    man_samples = []
    fail_kinds = {}
    for l in man.splitlines():
        if l.startswith("MAN SKIP"):
            raise verif.CheckError("manual definitions not found: " + l)
        if not l.startswith("MAN "):
            continue
        f = l.split("\t")
        if len(f) < 13:
            continue
        status = f[0][4:]
        kind, real_code, man_code, v, vi, vj, ftext, real, manr, ln, na, nb = f[1:13]
        mtot += 1
        if status == "ok":
            if len(man_samples) < 3 and kind == "slice" and mtot % 5000 == 7:
                man_samples.append({"real_code": real_code, "manual_code": man_code, "input": v, "i": vi, "j": vj, "result": real})
            continue
        mfail += 1
        case = {"kind": kind, "real_code": real_code, "manual_code": man_code, "input": v, "i": vi, "j": vj,
                "f": ftext, "real": real, "manual": manr}
        # shape of the disagreement (for known_findings; every other shape is keyed by its input)
        if kind in ("slice", "objslice") and int(ln) >= 0 and ftext == "null":
            # the update yields null: jaq refuses (typ:array), the manual's slice_upd deletes — whatever the bounds
            key = "c10-manual:slice_upd:null-output"
        elif kind in ("slice", "objslice") and int(ln) >= 0 and (vi == "N" or vj == "N") and "$i:$j" in real_code.replace("start: $i, end: $j", "$i:$j"):
            key = "c10-manual:slice_upd:null-bound"
        elif kind == "slice" and vi == "N" and "[$i:]" in real_code or kind == "slice" and vj == "N" and "[:$j]" in real_code:
            key = "c10-manual:slice_upd:null-bound"
        elif kind in ("slice", "objslice") and int(ln) >= 0 and int(na) > int(nb):
            key = "c10-manual:slice_upd:crossing-bounds"
        elif kind == "slice" and int(ln) >= 0 and ftext == "null":
            key = "c10-manual:slice_upd:null-output"
        elif kind == "iter" and ftext == "empty" and v.startswith("O"):
            key = "c10-manual:iter_upd:object-empty"
        else:
            key = "c10-manual:%s:%s:%s:%s:%s" % (kind, real_code, v, vi, vj)
        fail_kinds[key.split(":", 3)[2] if key.count(":") >= 2 else key] = fail_kinds.get(key, 0) + 1
        capk = key if key.count(":") == 2 else "c10-manual:" + kind + ":" + real_code
        mcap[capk] = mcap.get(capk, 0) + 1
        if mcap[capk] <= 3 and len(mcap) <= 40:
            ctx.violation(key, "`%s` differs from the manual's `%s`" % (real_code, man_code), case)
    ctx.log("manual definitions: %d checks, %d disagreements" % (mtot, mfail))

    groups = {}
    for c in cases:
        g = c[0].rstrip("0123456789")
        groups[g] = groups.get(g, 0) + 1
    errs = {}
    for c in cases:
        for part in c[2].split(" ; "):
            if part.startswith("E "):
                k = part.split()[1]
                errs[k] = errs.get(k, 0) + 1
    distinct = len({c[1] for c in cases})
    ctx.coverage.update({
        "evaluations": len(cases) + mtot,
        "distinct_nontrivial": distinct,
        "rule": "distinct (filter form, path part, update outputs, container) requests; every request runs one real filter on one "
                "container and is compared with the proved model; exhaustive part: arrays over {0,1} and with distinct elements up to "
                "length 4, text strings over {a, é, €, 😀, 0xFF, truncated E2 82, stray 0x80} up to length 3 and over the first five "
                "up to length 4, byte strings over {61, FF, 00} up to length 4, indices and slice bounds in [-6,6] ∪ {null, absent} as "
                "machine and big integers, 90 objects with ≤ 3 keys of every kind in every insertion order; wrong-typed / huge "
                "positions; update filters with 0/1/2 outputs and errors",
        "samples": [{"request": c[1], "real": c[2]} for c in (cases[5:6] + cases[len(cases) // 3: len(cases) // 3 + 1] +
                                                            cases[2 * len(cases) // 3: 2 * len(cases) // 3 + 1] + cases[-2:-1])] + py_samples + man_samples,
        "traces_validated_against_impl": len(cases),
        "group_distribution": groups,
        "error_classes_hit": errs,
        "python_oracle_cases": npy,
        "manual_oracle_checks": mtot,
        "manual_oracle_disagreements_by_shape": fail_kinds,
        "disagreements": bad,
        "exhaustive": True,
    })
    ctx.assumptions += [
        "model C10/Index.lean written by hand from jaq-json/src/{lib,num,funs}.rs and jaq-core/src/path.rs; tied by this run's correspondence",
        "bstr::char_indices is modelled by the shared Val/Utf8.lean (maximal invalid prefix = one position); validated here through `text / \"\"` on all byte sequences over 11 lead/continuation bytes up to length 4",
        "IndexMap: `get`/`entry` = first entry with equal hash feed and `==`; `swap_remove` moves the last entry into the hole; collecting entries with pairwise distinct keys keeps their order (hash collisions of foldhash ignored)",
        "`Vec::splice`, `Vec::remove`, `BytesMut::{resize, copy_within, copy_from_slice, truncate}` have their documented list semantics",
        "lengths of real containers fit a usize (the theorems about integers beyond ±(2^64-1) assume `len ≤ usize::MAX`)",
        "update filters are observed through their first outputs only (the model takes the finite list of outputs; laziness is C03's concern)",
    ]
