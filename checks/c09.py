"""C09 — integer arithmetic is exact at any size; operators follow the manual (DESIGN §6 C09).

1. Lean: Props/C09.lean (exactness of + - * % neg for every representation, representation
   independence of the integer consumers of `Num`, operator equations) is rebuilt and audited.
   Round 2: hash/cmp/index/slice/limit/skip/range/tobytes/implode/i32/key/render representation
   independence with `_exact` specifications, object `*` merge law, join/split inverse, "everything
   else errors" for `+ * /`, IEEE correct-rounding lemmas.
2. Correspondence: the real `impl Add/Sub/Mul/Div/Rem/Neg for Val` vs the Lean model on the
   exhaustive pool product + random integer pairs (floats bit for bit: the model's IEEE
   arithmetic is pure integer arithmetic).
3. Property oracle on the real code alone: every integer consumer gives the same result for
   `Int(n)` and `BigInt(n)` and for integers computed by different routes.
"""
import verif


def run(ctx):
    ctx.build_harness()
    ctx.build_model()
    proof = ctx.lean_check()
    ctx.log("lean:", "ok" if proof["ok"] else "BROKEN", len(proof["theorems"]), "theorems")

    out = ctx.harness(["c09", "gen"])
    cases = [tuple(l.split("\t")) for l in out.splitlines() if l]
    cases = [c for c in cases if len(c) == 3]
    panics = [c for c in cases if c[2].startswith("PANIC")]
    for c in panics[:20]:
        ctx.violation("panic:" + c[1], "arithmetic operator panics (integer overflow / unwrap)",
                      {"request": c[1], "real": c[2]})
    cases = [c for c in cases if not c[2].startswith("PANIC")]

    def classify(cid, req, real, model):
        return "c09-corr:" + req

    def norm(ans):
        # integer representation is not part of the property: `G<n>` that fits a machine integer ~ `I<n>`
        toks = []
        for t in ans.split(" "):
            if t[:1] == "G":
                try:
                    if -2 ** 63 <= int(t[1:]) < 2 ** 63:
                        t = "I" + t[1:]
                except ValueError:
                    pass
            toks.append(t)
        return " ".join(toks)

    bad = verif.diff_corr(ctx, cases, "c09-arith", classify, harmless=lambda req, real, m: norm(real) == norm(m))
    ctx.log("correspondence: %d cases, %d disagreements, %d panics" % (len(cases), bad, len(panics)))

    # round 2: comparison / equality / length and the integer consumers, real code vs proved model
    cout = ctx.harness(["c09", "cons"])
    ccases, joininv = [], []
    for l in cout.splitlines():
        if l.startswith("JOININV "):
            joininv.append(l[8:].split("\t"))
            continue
        c = tuple(l.split("\t"))
        if len(c) == 3:
            ccases.append(c)
    cpanics = [c for c in ccases if c[2].startswith("PANIC")]
    for c in cpanics[:20]:
        ctx.violation("panic:" + c[1], "integer consumer panics", {"request": c[1], "real": c[2]})
    ccases = [c for c in ccases if not c[2].startswith("PANIC")]
    cbad = verif.diff_corr(ctx, ccases, "c09-consumers", classify, harmless=lambda req, real, m: norm(real) == norm(m))
    ckinds = {}
    for c in ccases:
        k = c[1].split(" ")[0]
        ckinds[k] = ckinds.get(k, 0) + 1
    jfail = [j for j in joininv if j[0] != "ok"]
    for j in jfail[:10]:
        ctx.violation("c09-join-inverse:%s:%s" % (j[1], j[2]), "`join` does not invert string `/`",
                      {"string_hex": j[1], "separator_hex": j[2]})
    ctx.log("consumers: %d cases, %d disagreements, %d panics; join-inverse %d checks, %d failures"
            % (len(ccases), cbad, len(cpanics), len(joininv), len(jfail)))

    meta = ctx.harness(["c09", "meta"])
    mtot = mfail = 0
    samples_meta = []
    for l in meta.splitlines():
        if not l.startswith("META "):
            continue
        parts = l[5:].split("\t")
        st = parts[0].split(" ", 1)
        status = st[0]
        if status == "SKIP":
            ctx.notes.append("meta skipped: " + l[10:90])
            continue
        tmpl = st[1] if len(st) > 1 else ""
        mtot += 1
        if status == "FAIL":
            mfail += 1
            n, a, b = parts[1], parts[2], parts[3]
            ctx.violation("c09-repr:%s:%s" % (tmpl, n),
                          "integer consumer `%s` distinguishes representations of %s" % (tmpl, n),
                          {"filter": tmpl, "n": n, "with_int": a, "with_big_or_computed": b})
        elif len(samples_meta) < 3:
            samples_meta.append({"filter": tmpl, "n": parts[1], "result": parts[2][:80]})
    ctx.log("representation independence: %d checks, %d failures" % (mtot, mfail))

    kinds = {}
    for c in cases:
        k = c[1].split(" ")[1] if c[1].startswith("c09.bin") else "neg"
        kinds[k] = kinds.get(k, 0) + 1
    distinct = len({c[1] for c in cases})
    ctx.coverage.update({
        "evaluations": len(cases) + mtot + len(ccases) + len(joininv),
        "distinct_nontrivial": distinct + len({c[1] for c in ccases}),
        "rule": "distinct (operator, left, right) requests over the pool product (84 numbers incl. every representation boundary, "
                "floats, decimal literals; 25 non-numbers) plus seeded random integers clustered at 2^k boundaries in machine/big "
                "representation; every case exercises one operator arm, so every distinct case counts as non-trivial; "
                "plus distinct consumer requests (c09.cmp/eq/len/idx/slice/limit/skip/range/tobytes/implode/i32/show/key/join) over the same pool, "
                "49 boundary integers (i32, u8, code-point, isize and usize limits) in both representations, and seeded random integers",
        "samples": [{"request": c[1], "real": c[2]} for c in cases[:2] + cases[len(cases) // 2: len(cases) // 2 + 2]] + samples_meta,
        "traces_validated_against_impl": len(cases) + len(ccases),
        "operator_distribution": kinds,
        "consumer_distribution": ckinds,
        "consumer_disagreements": cbad,
        "join_inverse_checks": len(joininv),
        "representation_independence_checks": mtot,
        "disagreements": bad,
        "exhaustive": False,
    })
    ctx.assumptions += [
        "model Val/Num.lean, Val/Arith.lean, Val/Float.lean written by hand from jaq-json/src/{num,lib}.rs; tied by this run's correspondence",
        "IEEE-754 double arithmetic is modelled in pure integer arithmetic (round-to-nearest-even) and compared bit for bit with the hardware",
        "string repetition with counts > 1000 on non-empty strings is not executed (memory exhaustion is excepted by C05/C09)",
        "libm `ldexp`/`scalbn` of 1.0 is taken to be the correctly rounded 2^n (compared bit for bit on every run)",
        "IndexMap lookup is modelled as first entry with equal hash feed and `==` (hash collisions of foldhash ignored)",
    ]
