"""C02 — path(f), getpath and updates agree on the positions a filter denotes (DESIGN §6 C02).

1. Translator: the prelude definitions the theorems speak about (`empty`, `error`, `select`,
   `recurse`, `getpath`, `setpath`, `delpaths`, `paths`, `del`, `map_values`, `walk`) are printed by
   the harness from the *real* `defs.jq` (real parser, definitions inlined) into
   `lean/JaqVerif/Gen/C02Defs.lean`; `Props/C02.lean` re-proves that they are the terms the
   theorems are about (`*_def` by `rfl`), then all theorems are rebuilt and audited.
2. Correspondence: real `Id::run` / `Id::paths` / `Id::update` (observed in-language through
   `[p]`, `[path(p)]`, `[path_value(p)]`, `[p |= u]`, `[p = w]`, `[p += w]`, `[p //= w]`, derived
   filters) against the Lean impl-model on: every path expression of depth <= 2 over the atom
   alphabet (quick: 17 atoms, thorough: 27), seeded random expressions of depth 3-4, all JSON trees
   up to 2 nodes plus a seeded sample of trees up to 5 nodes (each expression on a rotating fifth), update filters
   `empty . (.,0) .+1 error [.] (1,.,2) (.,error)` (none / one / first≠last / first, last, all differ / value then error),
   conditions with several outputs inside `if` / `select` in update position (12 fixed programs on every value + the
   condition alphabet `(true,false) (false,true,true) (.[]?|.==1) …` in the exhaustive enumeration).
3. Model-free oracles on the real binary alone: `[p]` vs `[getpath(path(p))]` (with the manual's
   `//` rule), `path_value`, each row of the manual's update table (`(f|g) |= u` vs
   `f |= (g |= u)` …, `.[] |= u` vs `iter_upd` … with the definitions extracted from
   docs/advanced.dj at run time), the desugarings of `=`, `+=`, `//=`, and `paths`, `del`,
   `delpaths`, `setpath`, `to_entries`, `keys_unsorted`, `pick`, `map_values`, `walk`.
"""
import json
import os
import re
import subprocess
import tempfile
from concurrent.futures import ThreadPoolExecutor

import verif

NSHARDS = 8
JOBS = max(1, min(int(os.environ.get("VERIF_JOBS", "4")), NSHARDS))

ARITY = {
    ".": 0, "..": 0, "pipe": 2, "comma": 2, "alt": 2, "ite": 3, "first": 1, "last": 1, "limit": 2, "skip": 2,
    "try": 1, "arr": 1, "obj0": 0, "obj1": 2, "neg": 1, "or": 2, "and": 2, "upd": 2, "assign": 2, "updalt": 2,
    "error_empty": 0, "pathof": 1, "pathvalue": 1, "keys_unsorted": 0,
}
CTOR = {
    ".": ".id", "..": ".recurse", "pipe": ".pipe", "comma": ".comma", "alt": ".alt", "ite": ".ite", "first": ".first",
    "last": ".last", "limit": ".limit", "skip": ".skip", "try": ".tryE", "arr": ".arr", "obj0": ".obj0", "obj1": ".obj1",
    "neg": ".neg", "or": ".logic true", "and": ".logic false", "upd": ".update", "assign": ".assign",
    "updalt": ".updateAlt", "error_empty": ".errorEmpty", "pathof": ".pathOf", "pathvalue": ".pathValue",
    "keys_unsorted": ".keysUnsorted",
}


def lean_str(s):
    return '"' + s.replace("\\", "\\\\").replace('"', '\\"') + '"'


def lean_val(tok):
    h, r = tok[0], tok[1:]
    if h == "N":
        return ".null"
    if h == "T":
        return "(.bool true)"
    if h == "F":
        return "(.bool false)"
    if h == "I":
        return "(.num (.int (%s)))" % r
    if h == "S":
        bs = [str(int(r[i:i + 2], 16)) for i in range(0, len(r), 2)]
        return "(.tstr [%s])" % ", ".join(bs)
    raise verif.CheckError("emit-defs: literal not supported in Gen file: " + tok)


def tokens_to_lean(toks):
    """prefix token syntax of Driver/C02.lean -> Lean term of type `Jaq.C02.PE`"""
    pos = [0]

    def nxt():
        t = toks[pos[0]]
        pos[0] += 1
        return t

    def pe():
        t = nxt()
        if t in ARITY:
            kids = [pe() for _ in range(ARITY[t])]
            return "(" + " ".join([CTOR[t]] + kids) + ")" if kids else CTOR[t]
        if t == "path":
            f = pe()
            return "(.path %s %s)" % (f, parts())
        if t == "bind":
            f = pe()
            x = nxt()
            return "(.bind %s %s %s)" % (f, lean_str(x), pe())
        if t in ("reduce", "foreach", "foreachp"):
            xs = pe()
            x = nxt()
            i = pe()
            u = pe()
            p = pe() if t == "foreachp" else ".id"
            k = {"reduce": ".reduce", "foreach": ".foreach", "foreachp": ".foreachProj"}[t]
            return "(.fold %s %s %s %s %s %s)" % (k, xs, lean_str(x), i, u, p)
        if t == "fix":
            x = nxt()
            return "(.fix %s %s)" % (lean_str(x), pe())
        if t == "rcall":
            return "(.rcall %s)" % lean_str(nxt())
        if t == "var":
            return "(.var %s)" % lean_str(nxt())
        if t == "lit":
            return "(.lit %s)" % lean_val(nxt())
        if t in ("math", "updmath"):
            op = nxt()
            return "(%s .%s %s %s)" % (".math" if t == "math" else ".updateMath", op, pe(), pe())
        if t == "cmp":
            op = nxt()
            return "(.cmp .%s %s %s)" % (op, pe(), pe())
        raise verif.CheckError("emit-defs: unknown token " + t)

    def parts():
        t = nxt()
        if t == "end":
            return ".nil"
        opt = "true" if t.endswith("?") else "false"
        k = t[:2]
        if k == "ix":
            i = pe()
            return "(.index %s %s %s)" % (i, opt, parts())
        if k == "it":
            return "(.iter %s %s)" % (opt, parts())
        if k == "rf":
            i = pe()
            return "(.rangeFrom %s %s %s)" % (i, opt, parts())
        if k == "rt":
            i = pe()
            return "(.rangeTo %s %s %s)" % (i, opt, parts())
        if k == "rb":
            i = pe()
            j = pe()
            return "(.rangeBoth %s %s %s %s)" % (i, j, opt, parts())
        raise verif.CheckError("emit-defs: unknown part " + t)

    r = pe()
    if pos[0] != len(toks):
        raise verif.CheckError("emit-defs: trailing tokens")
    return r


def gen_defs(ctx):
    out = ctx.harness(["c02", "emit-defs"])
    src = ["/- GENERATED by checks/c02.py from the real defs.jq (real parser; definitions inlined by",
           "   harness/src/props/c02.rs).  `$F`, `$G`, `$P`, `$X` stand for the arguments. -/",
           "import JaqVerif.C02.PathAst", "", "namespace Jaq.C02.Gen", ""]
    for l in out.splitlines():
        f = l.split("\t")
        if f[0] == "DEFERR":
            raise verif.CheckError("prelude definition `%s` is no longer in the modelled fragment: %s" % (f[2], f[3]))
        if f[0] != "DEF":
            continue
        src.append("/-- `%s` -/" % f[2])
        src.append("def %s : PE :=\n  %s\n" % (f[1], tokens_to_lean(f[3].split(" "))))
    src.append("end Jaq.C02.Gen\n")
    return ctx.write_gen("C02Defs", "\n".join(src))


def manual_defs(ctx):
    """`iter_upd`, `index_upd`, `slice_upd` as written in docs/advanced.dj"""
    s = open(os.path.join(verif.REPO, "docs", "advanced.dj")).read()
    defs = []
    for name in ("iter_upd", "index_upd", "slice_upd"):
        m = re.search(r"^def " + name + r"\(.*?(?=^def eq\()", s, re.M | re.S)
        if not m:
            ctx.notes.append("manual definition of %s not found in docs/advanced.dj; its oracle is skipped" % name)
            return ""
        defs.append(" ".join(re.sub(r"#.*", "", m.group(0)).split()))
    return " ".join(defs)


def run_shard(ctx, i, env):
    p = subprocess.run([ctx.harness_bin, "c02", "gen", str(i), str(NSHARDS)], env=env, timeout=7200,
                       stdout=subprocess.PIPE, stderr=subprocess.PIPE, text=True, errors="replace")
    crash = None
    if p.returncode != 0:
        runs = [l for l in p.stderr.splitlines() if l.startswith("RUN ")]
        if runs:  # the watchdog of the harness names the run that does not come back
            return p.stdout, (runs[-1][4:], p.stderr[-300:])
        # find the program on which the real code died (stack overflow = non-termination, abort)
        q = subprocess.run([ctx.harness_bin, "c02", "gen", str(i), str(NSHARDS)], env={**env, "C02_TRACE": "1"},
                           timeout=7200, stdout=subprocess.DEVNULL, stderr=subprocess.PIPE, text=True, errors="replace")
        runs = [l for l in q.stderr.splitlines() if l.startswith("RUN ")]
        crash = (runs[-1][4:] if runs else "<unknown>", (q.stderr or p.stderr)[-300:])
    return p.stdout, crash


def replay(ctx):
    case = json.load(open(ctx.replay)).get("case", {})
    prog, vx = case.get("program"), case.get("input")
    if not prog or not vx:
        ctx.notes.append("replay file has no program/input")
        return
    out = ctx.harness(["c02", "one", prog] + vx.split(" "))
    f = dict(l.split("\t", 1) for l in out.splitlines() if "\t" in l)
    real = f.get("real", "")
    ctx.log("replay real :", real)
    if f.get("request", "").startswith("c02.eval"):
        model = ctx.model([f["request"]])[0]
        ctx.log("replay model:", model)
        if model != real:
            ctx.violation("c02-corr:%s:%s" % (prog, vx), "real code and proved model disagree on `%s`" % prog,
                          {"program": prog, "input": vx, "real": real, "model": model})
    if case.get("program_b"):
        out2 = ctx.harness(["c02", "one", case["program_b"]] + vx.split(" "))
        ctx.log("replay B    :", out2.strip().splitlines()[-1])


def run(ctx):
    ctx.build_harness()
    changed = gen_defs(ctx)
    ctx.build_model()
    proof = ctx.lean_check()
    ctx.log("lean:", "ok" if proof["ok"] else "BROKEN", len(proof["theorems"]), "theorems",
            "(Gen/C02Defs.lean %s)" % ("rewritten" if changed else "unchanged"))
    if ctx.replay:
        replay(ctx)
        return

    manual = manual_defs(ctx)
    mf = tempfile.NamedTemporaryFile("w", suffix=".jq", delete=False)
    mf.write(manual)
    mf.close()
    env = {**os.environ, **verif.OFFLINE_ENV, "VERIF_SEED": str(ctx.seed), "VERIF_TIER": ctx.tier,
           "VERIF_C02_MANUAL": mf.name}
    with ThreadPoolExecutor(JOBS) as ex:
        outs = list(ex.map(lambda i: run_shard(ctx, i, env), range(NSHARDS)))
    os.unlink(mf.name)

    cases, oracle_fail, oracle_ok, osum, info = [], [], [], {}, {}
    for i, (out, crash) in enumerate(outs):
        if crash:
            prog = crash[0]
            ctx.violation("c02-crash:" + prog, "the real code aborts (stack overflow / non-termination) on `%s`" % prog,
                          {"program_and_input": prog, "stderr": crash[1], "shard": i}, kind="failing-input")
        for l in out.splitlines():
            f = l.split("\t")
            if f[0] == "C" and len(f) >= 5:
                cases.append(("%d.%s" % (i, f[1]), f[2], f[3], f[4]))
            elif f[0] == "O" and len(f) >= 8:
                (oracle_fail if f[1] == "FAIL" else oracle_ok).append(f[2:])
            elif f[0] == "OSUM":
                a = osum.setdefault(f[1], [0, 0])
                a[0] += int(f[2])
                a[1] += int(f[3])
            elif f[0] == "INFO":
                info[f[1]] = info.get(f[1], 0) + int(f[2]) if f[1] in ("corr", "skipped") else int(f[2])

    # --- correspondence real code <-> model
    panics = [c for c in cases if "PANIC" in c[2]]
    for c in panics[:10]:
        ctx.violation("c02-panic:" + c[3], "the real code panics on `%s`" % c[3], {"program": c[3], "request": c[1], "real": c[2]})
    live = [c for c in cases if "PANIC" not in c[2]]
    ans = ctx.model([c[1] for c in live])
    bad = fuel = 0
    # smallest programs first: the first replays written are the most readable ones
    order = sorted(range(len(live)), key=lambda k: (len(live[k][3]) + len(live[k][1].split(" arr ")[0]), live[k][3]))
    for k in order:
        (cid, req, real, prog), m = live[k], ans[k]
        if m.endswith("FUEL") or m in ("bad-program", "bad-request"):
            fuel += 1
            if fuel <= 3:
                ctx.notes.append("model gave `%s` on %s" % (m[-20:], prog))
            continue
        if real != m:
            bad += 1
            if bad <= 20:
                ctx.violation("c02-corr:%s:%s" % (prog, input_of(req)),
                              "real code and proved model disagree on `%s`" % prog,
                              {"case_id": cid, "program": prog, "input": input_of(req), "request": req, "real": real, "model": m,
                               "replay_cmd": "bin/check C02 --replay <this file>"},
                              broken=["correspondence c02-eval"])
    if fuel > len(live) // 100 + 3:
        raise verif.CheckError("model ran out of fuel / rejected %d of %d requests" % (fuel, len(live)))
    ctx.log("correspondence: %d cases, %d disagreements, %d panics, %d without model answer" % (len(live), bad, len(panics), fuel))

    # --- model-free oracles
    seen = {}
    oracle_fail.sort(key=lambda o: (len(o[1]) + len(o[3]), o[1]))
    for rule, a, b, inp, ra, rb in oracle_fail:
        n = seen.get(rule, 0)
        seen[rule] = n + 1
        if n >= 6:
            continue
        ctx.violation("c02-oracle:%s:%s:%s" % (rule, a, inp),
                      "`%s` and the manual's `%s` differ on the real binary (rule %s)" % (a, b[:160], rule),
                      {"rule": rule, "program": a, "program_b": b, "input": inp, "result": ra, "result_b": rb})
    tot_o = sum(v[0] for v in osum.values())
    bad_o = sum(v[1] for v in osum.values())
    ctx.log("oracles: %d comparisons over %d rules, %d failures" % (tot_o, len(osum), bad_o))

    kinds = {}
    for c in live:
        p = c[3]
        k = ("path_value" if p.startswith("[path_value(") else "path" if p.startswith("[path(") else
             "update" if " |= " in p else "assign" if re.search(r" (=|\+=|//=) ", p) else "run/derived")
        kinds[k] = kinds.get(k, 0) + 1
    term = {"ok": 0, "error": 0}
    for c in live:
        term["ok" if c[2].endswith("| ok") else "error"] += 1
    nontrivial = len({(c[3], c[1].split(" ")[2:6].__str__()) for c in live if not c[2].startswith("A0 |")})
    samples = [{"program": c[3], "request": c[1][:200], "real": c[2][:160]} for c in live[:2] + live[len(live) // 2: len(live) // 2 + 2]]
    samples += [{"rule": o[0], "program": o[1], "manual": o[2][:200], "input": o[3], "result": o[4][:120]} for o in oracle_ok[:3]]
    ctx.coverage.update({
        "evaluations": len(live) + 2 * tot_o,
        "distinct_nontrivial": nontrivial,
        "rule": "distinct (program, input) pairs of the correspondence whose real result is not the empty list "
                "(the program has an output or an error on that input); every case runs a whole jq program through the real "
                "parser, compiler and one of Id::run / Id::paths / Id::update",
        "samples": samples,
        "traces_validated_against_impl": len(live),
        "disagreements": bad,
        "oracle_comparisons": tot_o,
        "oracle_rules": {k: {"n": v[0], "failed": v[1]} for k, v in sorted(osum.items())},
        "observation_distribution": kinds,
        "terminator_distribution": term,
        "values": info.get("values"),
        "depth2_expressions": info.get("depth2"),
        "skipped_unsupported_or_too_long": info.get("skipped"),
        "exhaustive": False,
        "exhaustive_part": "all expressions of depth <= 2 over the atom alphabet (each on a rotating subset of the values in the quick tier); "
                      "depth 3-4 seeded random",
    })
    ctx.assumptions += [
        "impl-model JaqVerif/C02/{Prims,Run,Paths,Update}.lean written by hand after jaq-core/src/{filter,path,fold,funs}.rs and "
        "jaq-json/src/lib.rs; tied to the code by this run's correspondence",
        "definitions and filter arguments are inlined by the harness before the model sees a program (call semantics = substitution "
        "is C01's subject); a mistake there shows as a correspondence disagreement",
        "streams are modelled as prefix + terminator (every consumer in jaq-core stops at the first error item); laziness, "
        "tail-call optimisation and the explicit stack of fold.rs are C03/C04/C11's subjects",
        "IndexMap lookup is modelled as first entry with equal hash feed and `==`",
        "error values are compared by class (message text is not modelled)",
    ]


def input_of(req):
    """the VX input of a `c02.eval <fuel> <vx…> <program…>` request"""
    toks = req.split(" ")[2:]
    n, i = 1, 0
    while n > 0 and i < len(toks):
        t = toks[i]
        n -= 1
        if t[0] == "A":
            n += int(t[1:])
        elif t[0] == "O":
            n += 2 * int(t[1:])
        i += 1
    return " ".join(toks[:i])
