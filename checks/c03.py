"""C03 — streams are produced on demand; consumers of a prefix never run the rest (DESIGN §6 C03).

1. Lean: Props/C03.lean (`take_prefix`: for every program of the fragment, every world and every
   k >= 1 the iterator model — with all construction-time fast paths of the code — delivers the
   same k items as the left-to-right reference and leaves the same inputs unread; adapter
   lemmas; incremental consumption of infinite generators; the F-03 witness) is rebuilt and
   audited.
2. Correspondence + property oracle in one run: the real interpreter is run with a counting
   input iterator and exactly k items of `filter.id.run(..)` are taken (worker thread with a
   time budget); the compiled Lean driver runs the iterator model `It` and the reference `force`
   on the same program.  real != It  -> the proved model no longer describes the code;
   real != reference -> the k-th output needed more (or other) evaluation than the
   left-to-right order allows: a failing input of the property.
   Cases: hand-written construction-time cases (incl. finding F-03), the exhaustive product
   consumer x generator x bomb x position, seeded random programs of the fragment.
3. CLI level: `jaq -n 'first(inputs)'`-style runs on input streams whose unread rest is
   malformed or endless.
"""
import os
import re
import subprocess
import time

import verif

NSHARDS = 4


def run_shards(ctx):
    procs = []
    env = {**os.environ, **verif.OFFLINE_ENV, "VERIF_SEED": str(ctx.seed), "VERIF_TIER": ctx.tier}
    for i in range(NSHARDS):
        procs.append(subprocess.Popen([ctx.harness_bin, "c03", "gen", ctx.tier, str(i), str(NSHARDS)],
                                      stdout=subprocess.PIPE, stderr=subprocess.PIPE, text=True, env=env))
    rows = []
    for p in procs:
        try:
            out, err = p.communicate(timeout=3000)
        except subprocess.TimeoutExpired:
            p.kill()
            raise verif.CheckError("c03 gen shard did not finish")
        if p.returncode != 0:
            raise verif.CheckError("c03 gen failed: " + err[-2000:])
        for l in out.splitlines():
            f = l.split("\t")
            if len(f) == 6:
                rows.append(f)
    rows.sort(key=lambda f: int(f[0].rsplit("#", 1)[1]))
    return rows


def rerun(ctx, prog, ins, k, budget_ms=60000):
    """One real run in a fresh process with a generous budget (confirms a suspected divergence)."""
    try:
        out = ctx.harness(["c03", "run1", str(k), str(budget_ms), prog, ins], timeout=budget_ms / 1000 + 60)
    except Exception as e:  # noqa
        return "RERUN-FAILED %s" % e
    return out.strip()


IMPURE = re.compile(r"\binputs?\b")

_STR_TOK = re.compile(r"\bS((?:[0-9a-f]{2})+)\b")
_MSGS = [b"cannot calculate", b"cannot index"]


def canon_line(s):
    """Error messages built by the interpreter are compared by class: a string (error value or,
    after `catch`, ordinary value, also after concatenation) that contains such a message is
    replaced by the first message class it contains.  Applied to real runs and model answers alike."""
    def rep(m):
        try:
            raw = bytes.fromhex(m.group(1))
        except ValueError:
            return m.group(0)
        hits = [(raw.find(x), x) for x in _MSGS if x in raw]
        if not hits:
            return m.group(0)
        return "S" + min(hits)[1].hex()
    return _STR_TOK.sub(rep, s)


def index_filters(prog):
    """Texts of the index filters `…[i]` of a program printed by the harness (`(f)[i]`)."""
    res, i = [], 0
    while True:
        j = prog.find(")[", i)
        if j < 0:
            return res
        depth, m = 1, j + 2
        while m < len(prog) and depth:
            depth += {"[": 1, "]": -1}.get(prog[m], 0)
            m += 1
        res.append(prog[j + 2:m - 1])
        i = j + 2


def cli_cases():
    big = "1 " * 20000
    return [
        # (name, args, stdin, expected stdout, expected exit code)
        ("first-inputs-rest-malformed", ["-n", "first(inputs)"], "1 2 ]]]", "1\n", 0),
        ("limit-inputs-rest-malformed", ["-n", "limit(2; inputs)"], "1 2 ]]]", "1\n2\n", 0),
        ("input-input-rest-malformed", ["-n", "input, input"], "1 2 }", "1\n2\n", 0),
        ("first-inputs-per-main-input", ["first(inputs)"], "1 2 3 4", "2\n4\n", 0),
        ("isempty-inputs", ["-n", "isempty(inputs), input"], "1 2 3", "false\n2\n", 0),
        ("nth-inputs", ["-n", "nth(1; inputs), input"], "1 2 3 4", "2\n3\n", 0),
        ("label-break-inputs", ["-n", "label $l | inputs | (., break $l)"], "1 2 ]", "1\n", 0),
        ("foreach-inputs-incremental", ["-n", "limit(3; foreach inputs as $x (0; . + $x))"], big + "]", "1\n2\n3\n", 0),
        ("first-range-zero-step", ["-n", "first(range(0; 1; 0))"], "", "0\n", 0),
        ("limit-repeat", ["-n", "-c", "[limit(3; repeat(1))]"], "", "[1,1,1]\n", 0),
        ("limit-recurse", ["-n", "-c", "[0 | limit(4; recurse(. + 1))]"], "", "[0,1,2,3]\n", 0),
        ("first-recursive-def", ["-n", "def f: 1, f; first(f)"], "", "1\n", 0),
        ("first-before-error", ["-n", "first(1, error)"], "", "1\n", 0),
        ("isempty-before-error", ["-n", "isempty(1, error)"], "", "false\n", 0),
        ("any-stops", ["-n", "any((true, error); .)"], "", "true\n", 0),
        ("all-stops", ["-n", "all((false, error); .)"], "", "false\n", 0),
        ("alt-stops", ["-n", "first((1, error) // 2)"], "", "1\n", 0),
        ("label-divergence-after-break", ["-n", "label $l | (1, break $l, (def g: g; g))"], "", "1\n", 0),
        ("limit-before-divergence", ["-n", "def g: g; limit(2; (1, 2, g))"], "", "1\n2\n", 0),
        ("halt-before-divergence", ["-n", "def g: g; 1, halt, g"], "", "1\n", 0),
        ("limit-zero-does-not-read", ["-n", "limit(0; input), input"], "1 2", "1\n", 0),
        # round 2
        ("foreach-proj-inputs-rest-malformed", ["-n", "-c", "limit(2; foreach inputs as $x (0; . + $x; [$x, .]))"], "1 2 ]]]", "[1,1]\n[2,3]\n", 0),
        ("reduce-limit-inputs-rest-malformed", ["-n", "reduce limit(2; inputs) as $x (0; . + $x), input"], "1 2 3 ]", "3\n3\n", 0),
        ("first-foreach-multi-init", ["-n", "first(foreach inputs as $x ((0, error); . + $x))"], "1 }", "1\n", 0),
        ("array-limit-inputs", ["-n", "-c", "[limit(2; inputs)], input"], "1 2 3 ]", "[1,2]\n3\n", 0),
        ("while-inputs", ["-n", "-c", "[limit(3; 0 | while(true; input))]"], "5 6 }", "[0,5,6]\n", 0),
        ("until-stops", ["-n", "0 | until(. != 0; input)"], "0 0 7 ]", "7\n", 0),
        ("closure-first", ["-n", "def f(g): first(g); f(inputs), input"], "1 2 ]", "1\n2\n", 0),
        ("recurse-limit-closure", ["-n", "-c", "[limit(3; 1 | recurse(. + input))]"], "10 20 }", "[1,11,31]\n", 0),
        ("repeat-input-limit", ["-n", "-c", "[limit(2; repeat(input))]"], "1 2 ]", "[1,2]\n", 0),
        ("math-left-outer", ["-n", "first((input, error) + 1), input"], "1 2", "2\n2\n", 0),
        # path mode (`path(..)` runs the separate paths evaluator: the same laziness is demanded of it)
        ("path-first-comma-right-untouched", ["-n", "-c", "path(first(.a, (input as $x | .b))), input"], "1 2 3", '["a"]\n1\n', 0),
        ("path-limit-nontail-recursion", ["-n", "-c", "[limit(3; path(def f: ., (f | .a); f))]"], "", '[[],["a"],["a","a"]]\n', 0),
        ("path-limit-before-error", ["-n", "-c", "path(limit(1; (.a, error)))"], "", '["a"]\n', 0),
        ("path-first-before-divergence", ["-n", "-c", "def g: g; first(path(.a, g))"], "", '["a"]\n', 0),
        ("path-limit-recurse", ["-c", "[limit(2; path(..))]"], '{"a":{"b":1}}', '[[],["a"]]\n', 0),
        ("path-if-then-comma", ["-n", "-c", "path(first(if input then .a else .b end, .c)), input"], "1 2", '["a"]\n2\n', 0),
        ("path-pipe-right-comma", ["-n", "-c", "first(path(.a | (., (input|error)))), input"], "1 2", '["a"]\n1\n', 0),
        ("path-label-break-divergence", ["-n", "-c", "path(label $l | (.a, break $l, (def g: g; g)))"], "", '["a"]\n', 0),
        ("path-isempty-before-error", ["-n", "-c", "isempty(path(.a, error))"], "", "false\n", 0),
        ("path-binding-body-comma", ["-n", "-c", "path(first(.a as $x | (.b, (input | .c)))), input"], "1 2", '["b"]\n1\n', 0),
        ("path-limit-inputs-rest", ["-n", "-c", "path(limit(1; .a, (inputs | error))), input"], "1 2", '["a"]\n1\n', 0),
        ("path-comma-input-right", ["-n", "-c", "first(path(.a, (input | .b))), input"], "1 2", '["a"]\n1\n', 0),
        ("path-alt-then-comma", ["-n", "-c", "path(first(.a // .b, (input|.c))), input"], "1 2", '["b"]\n1\n', 0),
    ]


def run_cli(ctx):
    n = bad = 0
    samples = []
    for name, args, stdin, exp_out, exp_rc in cli_cases():
        n += 1
        try:
            p = subprocess.run([ctx.jaq_bin] + args, input=stdin, stdout=subprocess.PIPE, stderr=subprocess.PIPE,
                               text=True, timeout=120)
            got, rc = p.stdout, p.returncode
        except subprocess.TimeoutExpired:
            got, rc = "<no result within 120 s>", None
        if got != exp_out or rc != exp_rc:
            bad += 1
            ctx.violation("c03-cli:" + name,
                          "command line: a prefix consumer evaluated (or waited for) the unconsumed rest: jaq %s" % " ".join(args),
                          {"args": args, "stdin": stdin[:200], "expected_stdout": exp_out, "expected_rc": exp_rc,
                           "stdout": got[:500], "rc": rc})
        elif len(samples) < 3:
            samples.append({"cli": args, "stdin": stdin[:40], "stdout": got})
    return n, bad, samples


def run(ctx):
    ctx.build_harness()
    ctx.build_model()
    proof = ctx.lean_check()
    ctx.log("lean:", "ok" if proof["ok"] else "BROKEN", len(proof["theorems"]), "theorems")

    t0 = time.time()
    rows = run_shards(ctx)
    ctx.log("real runs: %d cases in %.1fs" % (len(rows), time.time() - t0))
    if len(rows) < 1000:
        raise verif.CheckError("c03 gen produced only %d cases" % len(rows))
    ans = ctx.model([r[4] for r in rows])

    stats = {"agree": 0, "model_differs": 0, "order_violation": 0, "spurious_timeouts": 0, "confirmed_timeouts": 0,
             "unconfirmed_timeouts": 0, "skipped": 0, "in_proved_class": 0, "outside_proved_class": 0,
             "fold_header_order_not_fixed_by_manual": 0}
    kinds, consumers, bombs = {}, {}, {}
    samples = []
    diverge_expected = 0
    for (tag, prog, ins, k, req, real), a in zip(rows, ans):
        kind = tag.split(":", 1)[0].split("#")[0]
        kinds[kind] = kinds.get(kind, 0) + 1
        if kind == "enum":
            parts = tag.split(":")
            consumers[parts[1]] = consumers.get(parts[1], 0) + 1
            bombs[parts[3]] = bombs.get(parts[3], 0) + 1
        if real.startswith("SKIPPED"):
            # the generator stops running cases in-process after several time-outs (spinning
            # threads); run the case in a process of its own
            stats["skipped"] += 1
            if ctx.violations:
                continue  # failing inputs are already in hand; do not spend a process per remaining case
            real = canon_line(rerun(ctx, prog, ins, int(k)))
        if " | R " not in a or not a.startswith("I ") or " | P " not in a:
            raise verif.CheckError("model driver answered `%s` to `%s`" % (a, req[:200]))
        a, in_class = a.rsplit(" | P ", 1)
        stats["in_proved_class" if in_class == "1" else "outside_proved_class"] += 1
        it, ref = a[2:].split(" | R ")
        real, it, ref = canon_line(real), canon_line(it), canon_line(ref)
        if "DIVERGE" in real and (real != it or real != ref):
            # a time-out of the real run that the models do not predict: confirm it in a fresh
            # process with a long budget before believing it (the machine may be loaded)
            if stats["confirmed_timeouts"] >= 3:
                # enough confirmed divergences are reported already; do not spend a minute on each further one
                stats["unconfirmed_timeouts"] += 1
                continue
            real2 = canon_line(rerun(ctx, prog, ins, int(k)))
            if "DIVERGE" not in real2:
                stats["spurious_timeouts"] += 1
            else:
                stats["confirmed_timeouts"] += 1
            real = real2
        if "DIVERGE" in ref:
            diverge_expected += 1
        case = {"program": prog, "inputs": ins, "k": int(k), "real": real, "iterator_model": it,
                "reference": ref, "request": req, "replay": "harness/target/debug/jaqverif c03 run1 %s 30000 '%s' '%s'" % (k, prog, ins)}
        if real == it and real == ref:
            stats["agree"] += 1
            if len(samples) < 4 and (kind != "special" or len(samples) < 2):
                samples.append({"program": prog, "k": int(k), "inputs": ins, "real": real})
            continue
        if real != it:
            stats["model_differs"] += 1
            ctx.violation("c03-corr:%s:k=%s:in=%s" % (prog, k, ins),
                          "the real interpreter and the proved iterator model disagree on what taking %s item(s) of `%s` "
                          "delivers / consumes (real `%s`, model `%s`, reference `%s`)" % (k, prog, real, it, ref),
                          case, broken=["correspondence c03-take"])
            continue
        if tag.startswith("special:hdr:") and in_class == "0":
            # effects while the source of a reduce/foreach is *built*: the manual does not say whether `xs` or
            # `init` is started first (theorem fold_header_order_witness); the iterator model agrees with the code
            stats["fold_header_order_not_fixed_by_manual"] += 1
            continue
        # real == iterator model != reference: something was evaluated that the left-to-right
        # order does not reach before the k-th output (or in another order)
        stats["order_violation"] += 1
        impure_idx = [i for i in index_filters(prog) if IMPURE.search(i)]
        if impure_idx:
            key = "c03-order:index-filter-at-construction:%s:k=%s" % (prog, k)
            what = ("path index filter `%s` is evaluated when the path expression is built (collect_if_once), before the head "
                    "of the path and even when the head has no output: taking %s item(s) of `%s` gives `%s`, the "
                    "left-to-right semantics gives `%s` (c = inputs consumed)" % (impure_idx[0], k, prog, real, ref))
        else:
            key = "c03-order:%s:k=%s:in=%s" % (prog, k, ins)
            what = ("taking %s item(s) of `%s` gives `%s`, the left-to-right semantics gives `%s`" % (k, prog, real, ref))
        ctx.violation(key, what, case, broken=["take_prefix hypothesis PureIndexFilters"] if impure_idx else
                      ["take_prefix" if in_class == "1" else "left-to-right order (program outside the class of take_prefix)"])

    ctx.log("correspondence: %d cases, %d agree, %d model-differs, %d order violations, %d spurious time-outs"
            % (len(rows), stats["agree"], stats["model_differs"], stats["order_violation"], stats["spurious_timeouts"]))

    ctx.build_jaq()
    ncli, badcli, cli_samples = run_cli(ctx)
    ctx.log("command line: %d cases, %d failures" % (ncli, badcli))

    distinct = len({(r[1], r[2], r[3]) for r in rows})
    ctx.coverage.update({
        "evaluations": len(rows) + ncli,
        "distinct_nontrivial": distinct,
        "rule": "distinct (program, inputs, k) triples; every case runs the real interpreter with a counting input iterator, "
                "takes exactly k items and compares items, exceptions, number of inputs consumed and termination with the "
                "iterator model and with the reference; enum cases place a bomb (error, halt, input, inputs, two kinds of "
                "divergence) behind position 1..%d of %d generator shapes (15 of round 1; round 2: reduce/foreach with the bomb in xs, "
                "update, projection, init, behind an endless inputs; definitions with closures; while; arithmetic on either side; "
                "arrays) inside %d prefix consumers (round 2: [limit(k; g)], a definition with a closure, foreach with a projection)" % (
                    3 if ctx.tier == "quick" else 4, len(consumers and {t.split(":")[2] for t, *_ in rows if t.startswith("enum")}), len(consumers)),
        "samples": samples + cli_samples,
        "traces_validated_against_impl": len(rows),
        "case_kinds": kinds,
        "consumer_distribution": consumers,
        "bomb_distribution": bombs,
        "cases_where_reference_diverges": diverge_expected,
        "outcomes": stats,
        "cli_cases": ncli,
        "exhaustive": False,
        "exhaustive_part": "the consumer x generator x bomb x position product is enumerated completely; random programs are sampled",
    })
    ctx.assumptions += [
        "iterator model C03/Iter.lean written by hand from jaq-core/src/{filter,box_iter,into_iter,funs}.rs and jaq-std/src/input.rs; "
        "tied to the code by this run's correspondence (items, exceptions, inputs consumed, termination)",
        "std iterator adapters (Chain, FlatMap, Flatten, OnceWith, Filter, MapWhile, Map, from_fn) behave as documented, incl. their size_hint",
        "the trampoline `Stack` of tail-recursive definitions is modelled as transparent for pulls (its stack discipline is C04's subject); "
        "a tail call (`Throw`) is modelled as the body built lazily in place; call types and `skip` of the lowered definitions "
        "(defs.jq: repeat recurse while until; test prelude d1..d6) are written down in the harness following Locals::call",
        "the shared rc_lazy_list is modelled as the list of forced nodes + the underlying iterator inside the fold state "
        "(all clones of the list are positions in that one sequence); `size_hint() != (0, Some(0))` is read as `upper bound != 0` (lower <= upper)",
        "FlatMap(init, i -> FlatMap(fold_i, proj)) of foreach with projection is modelled in the associated form FlatMap(FlatMap(init, fold_i), proj) (same pulls)",
        "`$`-arguments of definitions that are not `.`/literal/variable are bound with `as` by the harness before the call "
        "(same construction-time behaviour: both go through next_if_one on the argument's iterator)",
        "error messages built by the interpreter (cannot index / cannot calculate) are compared by class, also after catch and concatenation",
        "a real run that produces nothing for 10 s (60 s when re-run for confirmation) counts as divergence; the model's divergence is fuel 3000",
        "programs are compiled with the definitions of jaq-core/src/defs.jq (+ `def null: [][0];` as in jaq-std) to keep compile time per case small; "
        "the command-line cases use the complete binary",
        "sources xs of generated reduce/foreach are of the class T.lazySrc (construction touches nothing): the manual does not fix "
        "whether xs or init is started first (theorem fold_header_order_witness shows the two orders differ observably)",
    ]
