#!/usr/bin/env python3
"""Prints the markdown table of seeded breaking changes (DESIGN.md §15) from seeded/*/meta.json and results."""
import glob, json, os, re
H = os.path.dirname(os.path.abspath(__file__))
print("| id | property | change (summary) | what it needs to manifest | checks run → result | history |")
print("|---|---|---|---|---|---|")
for d in sorted(glob.glob(os.path.join(H, "seeded/*/"))):
    m = json.load(open(os.path.join(d, "meta.json")))
    sid = os.path.basename(d.rstrip("/"))
    res = []
    for f in sorted(glob.glob(os.path.join(d, "results/*.stdout"))):
        p = os.path.basename(f)[:-7]
        out = open(f).read()
        n = len(re.findall(r"^VIOLATION", out, re.M))
        res.append("%s: %s" % (p, ("caught (%d VIOLATION lines)" % n) if n else "MISSED"))
    cut = lambda s, n: (s[:n] + "…") if len(s) > n else s
    print("| %s | %s | %s | %s | %s | %s |" % (sid, m["property"], cut(m["summary"].replace("|", "\\|").replace("\n", " "), 260),
          cut(m["needs"].replace("|", "\\|").replace("\n", " "), 300), "; ".join(res) or "not run yet", m.get("history", "")))
