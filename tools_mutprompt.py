#!/usr/bin/env python3
"""Prints the prompt given to a fresh mutation sub-agent for property Cxx, variant v.
The agent gets ONLY the property text and a scratch worktree — nothing from /verif."""
import json, sys
pid, variant, wt = sys.argv[1], sys.argv[2], sys.argv[3]
p = [json.loads(l) for l in open('/verif/properties.jsonl') if json.loads(l)['id'] == pid][0]
hints = {
 "a": "an unusual input or boundary value (a particular magnitude, representation, length, byte, nesting or option combination)",
 "b": "a multi-step sequence of operations, or two cooperating code sites that each look fine alone",
 "c": "a particular position, order or count (the k-th output, the second binding, a tie, an empty case) rather than the common case",
}
print(f"""You are helping test a verification framework for jaq (a Rust clone of the jq JSON query language). Your job: produce ONE realistic, subtle change to jaq's source that BREAKS the semantic property below while jaq still compiles and its existing test suite still passes — the kind of regression a plausible refactoring, optimisation or "small fix" could introduce and that ordinary use would not expose at once.

Work ONLY inside your own scratch git worktree of the jaq repository: {wt} (already created; it has a warm `target` directory). Do not read or write anything under /verif, and do not touch /repo. Everything is offline: always pass `--offline` to cargo.

THE PROPERTY ({p['id']}: {p['title']})
Statement: {p['statement']}
Quantified over: {p['quantifier']['text']}
Why the existing tests cannot settle it: {p['why_tests_cant']}
Code it is anchored in: {', '.join(p['anchors']['files'])}

REQUIREMENTS
1. The change must need something specific to manifest: {hints[variant]}. Not something that every ordinary invocation would expose immediately. Keep it small (a few lines, at most two sites), plausible-looking, in jaq's own crates (not in tests, not in third-party code), no new dependencies, no `unsafe`, no cfg tricks, no randomness/time dependence.
2. After the change: `cd {wt} && cargo build --workspace --offline` succeeds and the full suite `cd {wt} && cargo test --workspace --no-fail-fast --offline 2>&1 | grep -E "^test result|FAILED|panicked"` shows no failure (run it; if a test fails, pick a different change). The suite takes ~2–4 minutes.
3. Write a demonstration that FAILS with your change and PASSES without it: a shell script `demo.sh` that takes the path of a jaq binary as $1 (build it with `cargo build --offline -p jaq`; binary at {wt}/target/debug/jaq) and exits 0 when the property holds on your chosen input and non-zero when it is violated (compare jaq's actual output/exit status with the correct expected one, which you state). Verify both directions yourself: run demo.sh against the changed binary (must fail), then save your change with `git -C {wt} diff > {wt}/out/patch.diff` and remove it with `git -C {wt} apply -R {wt}/out/patch.diff`, rebuild, run against the original binary (must pass), then re-apply with `git -C {wt} apply {wt}/out/patch.diff` and rebuild. Do NOT use `git stash` (the stash is shared with other worktrees that other agents use concurrently).
4. Deliver in {wt}/out/ : `patch.diff` (output of `git -C {wt} diff` for the source change only — not the out/ directory), `demo.sh`, and `meta.json` with keys: "property" ("{p['id']}"), "summary" (one sentence: what was changed), "needs" (what specific input/sequence/position is needed for it to manifest and why ordinary use and the existing tests miss it), "expected" and "actual" (outputs on the demo input), "files" (list of changed files), "ran" (the commands you ran and their outcomes: build ok, tests ok, demo fails with change, demo passes without).
Leave the worktree with your change applied. Your final message: the meta.json content and the diff, nothing else.""")
