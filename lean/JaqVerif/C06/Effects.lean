/- C06 — effect rows of the native filters and the effect set of a program (DESIGN §6 C06).

   * `EffectSet`: the lattice `pure < clock, env, stdin-cursor, stderr-log, tzdb-read < repl`
     (a set of the five middle effects; `repl` is the top element: the interactive filter may do
     anything a terminal session does and is the documented exception of the property).
   * `rows`: one HAND-WRITTEN row per native filter, keyed by name/arity.  The list of natives
     that exist is GENERATED from the code (`JaqVerif.Gen.C06Inventory`); `inventory_closed`
     (Props/C06.lean) fails to build when a native has no row.
   * `Term`: a small program AST (what `jaq_core::load::parse::Term` is, with everything that
     cannot matter for effects erased); `effectsOf` by structural recursion: core constructs
     contribute nothing, a call contributes the row of the native it resolves to, or — for a
     definition of the prelude (`defs.jq` files) — the union over the natives its body reaches. -/
import JaqVerif.Gen.C06Inventory

namespace Jaq.C06

/-- Which kinds of interaction with the outside world a filter may have. -/
structure EffectSet where
  /-- reads the wall clock (`now`) -/
  clock : Bool := false
  /-- reads the process environment (`env`, `$ENV`) -/
  env : Bool := false
  /-- advances the cursor of the input stream (`input`, `inputs`): reads standard input /
      the next command-line input file -/
  cursor : Bool := false
  /-- writes a message to standard error (`debug`, `stderr`) -/
  log : Bool := false
  /-- read-only look-up in the system time-zone database (`localtime`, `strflocaltime`, `%Q`/`%Z`
      zone names in `strptime`) -/
  tzdb : Bool := false
  /-- interactive read-eval-print loop (terminal, history file): the documented exception -/
  repl : Bool := false
  deriving DecidableEq, Repr, Inhabited

namespace EffectSet

def pure : EffectSet := {}
def top : EffectSet := ⟨true, true, true, true, true, true⟩

def union (a b : EffectSet) : EffectSet :=
  ⟨a.clock || b.clock, a.env || b.env, a.cursor || b.cursor, a.log || b.log, a.tzdb || b.tzdb, a.repl || b.repl⟩

instance : Union EffectSet := ⟨union⟩

/-- the order of the lattice: component-wise implication -/
def le (a b : EffectSet) : Bool :=
  (!a.clock || b.clock) && (!a.env || b.env) && (!a.cursor || b.cursor) && (!a.log || b.log) &&
  (!a.tzdb || b.tzdb) && (!a.repl || b.repl)

/-- may a filter with this effect set touch the file system at all (open or probe a path)? -/
def fsAccess (a : EffectSet) : Bool := a.tzdb || a.repl

def joinAll (l : List EffectSet) : EffectSet := l.foldr union pure

def toStr (a : EffectSet) : String :=
  let l := (if a.clock then ["clock"] else []) ++ (if a.env then ["env"] else []) ++
    (if a.cursor then ["cursor"] else []) ++ (if a.log then ["log"] else []) ++
    (if a.tzdb then ["tzdb"] else []) ++ (if a.repl then ["repl"] else [])
  if l.isEmpty then "pure" else ",".intercalate l

def ofStr (s : String) : EffectSet :=
  let l := s.splitOn ","
  ⟨l.contains "clock", l.contains "env", l.contains "cursor", l.contains "log", l.contains "tzdb", l.contains "repl"⟩

end EffectSet

open EffectSet

abbrev FnRef := String × Nat

def eClock : EffectSet := { clock := true }
def eEnv : EffectSet := { env := true }
def eCursor : EffectSet := { cursor := true }
def eLog : EffectSet := { log := true }
def eTzdb : EffectSet := { tzdb := true }
def eRepl : EffectSet := top

/-- Natives whose row is `pure`: they compute their output from the input value and the
    arguments only (hand-written from reading jaq-core/src/funs.rs, jaq-std/src/{lib,math,regex,time}.rs,
    jaq-json/src/funs.rs, jaq-fmts/src/{read,write}/funs.rs). -/
def pureNatives : List FnRef := [
  -- jaq-core/src/funs.rs
  ("error_empty", 0), ("path", 1), ("path_value", 1), ("range", 3), ("keys_unsorted", 0), ("key_values", 0),
  ("first", 1), ("last", 1), ("limit", 2), ("skip", 2),
  -- jaq-std/src/lib.rs: base_run
  ("floor", 0), ("round", 0), ("ceil", 0), ("utf8bytelength", 0), ("explode", 0), ("implode", 0),
  ("ascii_downcase", 0), ("ascii_upcase", 0), ("reverse", 0), ("sort", 0), ("sort_by", 1), ("group_by", 1),
  ("min_by_or_empty", 1), ("max_by_or_empty", 1), ("startswith", 1), ("endswith", 1), ("ltrimstr", 1),
  ("rtrimstr", 1), ("trim", 0), ("ltrim", 0), ("rtrim", 0), ("escape_sh", 0),
  -- `halt` ends the run with an exit code; it is control flow, not I/O
  ("halt", 1),
  -- format
  ("escape_html", 0), ("unescape_html", 0), ("encode_uri", 0), ("decode_uri", 0), ("encode_base64", 0),
  ("decode_base64", 0),
  -- math (libm)
  ("acos", 0), ("acosh", 0), ("asin", 0), ("asinh", 0), ("atan", 0), ("atanh", 0), ("cbrt", 0), ("cos", 0),
  ("cosh", 0), ("erf", 0), ("erfc", 0), ("exp", 0), ("exp10", 0), ("exp2", 0), ("expm1", 0), ("fabs", 0),
  ("frexp", 0), ("ilogb", 0), ("j0", 0), ("j1", 0), ("lgamma", 0), ("log", 0), ("log10", 0), ("log1p", 0),
  ("log2", 0), ("modf", 0), ("nearbyint", 0), ("rint", 0), ("sin", 0), ("sinh", 0), ("sqrt", 0), ("tan", 0),
  ("tanh", 0), ("tgamma", 0), ("trunc", 0), ("y0", 0), ("y1", 0),
  ("atan2", 2), ("copysign", 2), ("fdim", 2), ("fmax", 2), ("fmin", 2), ("fmod", 2), ("hypot", 2), ("jn", 2),
  ("ldexp", 2), ("nextafter", 2), ("pow", 2), ("remainder", 2), ("scalbln", 2), ("yn", 2), ("fma", 3),
  -- regex
  ("matches", 2), ("split_matches", 2), ("split_", 2),
  -- time with the fixed zone UTC
  ("fromdateiso8601", 0), ("todateiso8601", 0), ("strftime", 1), ("gmtime", 0), ("mktime", 0),
  -- jaq-json/src/funs.rs
  ("fromjson", 0), ("tojson", 0), ("tobytes", 0), ("length", 0), ("contains", 1), ("has", 1), ("indices", 1),
  ("bsearch", 1),
  -- jaq-fmts: decoders and encoders work on the value in memory
  ("fromcbor", 0), ("fromyaml", 0), ("fromxml", 0), ("fromtoml", 0), ("fromcsv", 0), ("fromtsv", 0),
  ("tocbor", 0), ("toyaml", 0), ("totoml", 0), ("toxml", 0), ("tocsv", 0), ("totsv", 0), ("@csv", 0), ("@tsv", 0)
]

/-- Natives with an effect. -/
def impureRows : List (FnRef × EffectSet) := [
  (("now", 0), eClock),                -- SystemTime::now()
  (("env", 0), eEnv),                  -- std::env::vars()
  (("input", 0), eCursor), (("inputs", 0), eCursor),
  (("debug_empty", 0), eLog),          -- log::debug!
  (("stderr_empty", 0), eLog),         -- log::error!
  (("localtime", 0), eTzdb),           -- TimeZone::system()
  (("strflocaltime", 1), eTzdb),       -- TimeZone::system()
  (("strptime", 1), eTzdb),            -- `%Q` (IANA zone name) is resolved through the tz database
  (("repl", 0), eRepl)                 -- jaq/src/funs.rs (CLI only)
]

/-- The effect table: one row per native, keyed by name/arity. -/
def rows : List (FnRef × EffectSet) := pureNatives.map (fun n => (n, pure)) ++ impureRows

def rowOf (n : FnRef) : Option EffectSet := (rows.find? (fun r => r.1 == n)).map (·.2)

/-- Row used by the policy: a native without a row gets `pure`, the strictest policy (every
    file access of it is then rejected by the monitor) — and `inventory_closed` fails. -/
def rowD (n : FnRef) : EffectSet := (rowOf n).getD pure

def isNative (n : FnRef) : Bool := Gen.natives.contains n

/-! ## definitions of the prelude: which natives does a definition reach? -/

/-- natives reached by a call of `c`, given the table of the definitions before it
    (most recent first): a definition shadows a native of the same name/arity, as in
    `Compiler::call` (locals/siblings, then included modules, then natives) -/
def expandIn (tab : List (FnRef × List FnRef)) (c : FnRef) : List FnRef :=
  match tab.find? (fun d => d.1 == c) with
  | some d => d.2
  | none => if isNative c then [c] else []

/-- table `(definition, natives reached)`; definitions are processed in source order, each sees
    the ones before it (a call to itself was removed by the translator) -/
def defTableFrom : List (FnRef × List FnRef) → List (FnRef × List FnRef) → List (FnRef × List FnRef)
  | [], acc => acc
  | (d, calls) :: rest, acc => defTableFrom rest ((d, (calls.flatMap (expandIn acc)).eraseDups) :: acc)

def defTable : List (FnRef × List FnRef) := defTableFrom Gen.defs []

/-- natives that a call to `name/arity` from a user program reaches -/
def expand (c : FnRef) : List FnRef := expandIn defTable c

/-- effect of calling `name/arity` (prelude definition, native, or neither) -/
def callEffect (c : FnRef) : EffectSet := joinAll ((expand c).map rowD)

/-! ## program AST -/

/-- core constructs of the language (informational: none of them has an effect) -/
inductive Core
  | id | recurse | num | str | arr | obj | neg | binop | label | brk | fold | try_ | ite | var | path | pat
  deriving DecidableEq, Repr

mutual
/-- Program term: the shape of `jaq_core::load::parse::Term` with literals, operators, variable
    names and patterns' names erased. -/
inductive Term
  /-- core construct with its sub-terms -/
  | core (k : Core) (subs : Terms)
  /-- call `name(args)`; also the format of a string `@name "…"` (arity 0) -/
  | call (name : String) (args : Terms)
  /-- local definitions `def …: body; … rest` -/
  | defs (bodies : Terms) (rest : Term)
inductive Terms
  | nil
  | cons (t : Term) (ts : Terms)
end

def Terms.length : Terms → Nat
  | .nil => 0
  | .cons _ ts => ts.length + 1

def Terms.ofList : List Term → Terms
  | [] => .nil
  | t :: ts => .cons t (Terms.ofList ts)

mutual
/-- the effect set of a program -/
def effectsOf : Term → EffectSet
  | .core _ subs => effectsOfs subs
  | .call name args => callEffect (name, args.length) ∪ effectsOfs args
  | .defs bodies rest => effectsOfs bodies ∪ effectsOf rest
def effectsOfs : Terms → EffectSet
  | .nil => pure
  | .cons t ts => effectsOf t ∪ effectsOfs ts
end

mutual
/-- the calls (name/arity) a program mentions, in source order -/
def mentions : Term → List FnRef
  | .core _ subs => mentionss subs
  | .call name args => (name, args.length) :: mentionss args
  | .defs bodies rest => mentionss bodies ++ mentions rest
def mentionss : Terms → List FnRef
  | .nil => []
  | .cons t ts => mentions t ++ mentionss ts
end

/-- the natives a program mentions, directly or through definitions of the prelude -/
def nativesOf (t : Term) : List FnRef := (mentions t).flatMap expand

end Jaq.C06
