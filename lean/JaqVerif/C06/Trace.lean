/- C06 — monitor automaton over system-call events (DESIGN §6 C06).

   A run of jaq is observed at the system-call boundary (`strace`); every call of the traced
   classes (files, network, processes, reads of fd 0, writes to fd 1/2) becomes an `Event`.
   The run has phases `load → exec → done`: the harness child (or the CLI) first loads —
   compiles the filter, reads modules, parses inputs —, then emits a marker call, then executes.
   The monitor accepts a trace iff every event of the exec phase is permitted by the policy:
     * never: opening a file for writing/creating, any change of the file system, any
       socket call, starting a process;
     * opening or probing (stat/access/readlink) a path only if it is a command-line input or
       — when the program has the `tzdb` effect — lies in the time-zone database;
     * reading fd 0 only with the `cursor` effect, writing fd 2 only with the `log` effect,
       writing fd 1 only if the host prints results there.
   The policy's effect set is `effectsOf program ∪ host effects`. -/
import JaqVerif.C06.Effects

namespace Jaq.C06

/-- absolute path as its list of segments (`/usr/share/zoneinfo` = `["usr","share","zoneinfo"]`) -/
abbrev Path := List String

inductive Event
  /-- marker: execution starts -/
  | markBegin
  /-- marker: execution is over (what follows is reporting by the host) -/
  | markEnd
  /-- open a path read-only -/
  | openRead (p : Path)
  /-- open a path with write access, or with O_CREAT / O_TRUNC / O_APPEND / O_TMPFILE -/
  | openWrite (p : Path)
  /-- look at a path without opening it: stat, lstat, access, readlink, statx, getxattr … -/
  | probe (p : Path)
  /-- change the file system: rename, link, symlink, unlink, rmdir, mkdir, mknod, chmod, chown,
      truncate, utimes, setxattr, mount, chdir/chroot … (`call` = system call name) -/
  | mutate (call : String) (p : Path)
  /-- socket, connect, bind, listen, accept, send*, recv*, … -/
  | net (call : String)
  /-- fork, vfork, clone/clone3 creating a process, execve, kill/ptrace of another process … -/
  | proc (call : String)
  /-- clone of a thread inside the process (allowed) -/
  | thread
  /-- read from file descriptor 0 -/
  | readStdin
  /-- write to file descriptor 2 -/
  | writeStderr
  /-- write to file descriptor 1 -/
  | writeStdout
  /-- a traced system call the translator could not classify (rejected) -/
  | unknown (call : String)
  deriving DecidableEq, Repr

inductive Phase | load | exec | done
  deriving DecidableEq, Repr

def Phase.next : Phase → Event → Phase
  | .load, .markBegin => .exec
  | .exec, .markEnd => .done
  | ph, _ => ph

/-- directories / files that make up the system time-zone database (jiff's search list and the
    conventional locations); look-ups below them are the documented exception -/
def tzRoots : List Path := [
  ["usr", "share", "zoneinfo"], ["etc", "localtime"], ["usr", "lib", "zoneinfo"],
  ["usr", "share", "lib", "zoneinfo"], ["etc", "zoneinfo"]]

/-- no `.`/`..`/empty segment: the path cannot leave the root it starts with -/
def cleanPath (p : Path) : Bool := p.all (fun s => s != ".." && s != "." && s != "")

def tzPath (p : Path) : Bool := cleanPath p && tzRoots.any (fun r => r.isPrefixOf p)

structure Policy where
  /-- effect set of the program united with the host's own effects -/
  eff : EffectSet
  /-- paths named on the command line as inputs (the host reads them between executions) -/
  inputs : List Path := []
  /-- does the host print results to fd 1 while executing (the CLI does, the harness child does not) -/
  stdout : Bool := false
  deriving Repr

/-- may a path be opened read-only / probed during execution? -/
def allowedRead (pol : Policy) (p : Path) : Bool :=
  pol.inputs.contains p || (pol.eff.tzdb && tzPath p) || pol.eff.repl

/-- is the event permitted during the exec phase? -/
def permitted (pol : Policy) : Event → Bool
  | .markBegin | .markEnd | .thread => true
  | .openRead p | .probe p => allowedRead pol p
  | .openWrite _ | .mutate _ _ | .net _ | .proc _ | .unknown _ => false
  | .readStdin => pol.eff.cursor || pol.eff.repl
  | .writeStderr => pol.eff.log || pol.eff.repl
  | .writeStdout => pol.stdout || pol.eff.repl

inductive Reason
  | writeOpen | fsMutation | network | process | readOutside | probeOutside | stdin | stderr | stdout | unclassified
  deriving DecidableEq, Repr

def Reason.toStr : Reason → String
  | .writeOpen => "open-for-write" | .fsMutation => "fs-mutation" | .network => "network"
  | .process => "process" | .readOutside => "read-outside-allowed-set" | .probeOutside => "probe-outside-allowed-set"
  | .stdin => "stdin-without-cursor-effect" | .stderr => "stderr-without-log-effect"
  | .stdout => "stdout-by-host-that-prints-nothing" | .unclassified => "unclassified-syscall"

def reasonOf : Event → Reason
  | .openWrite _ => .writeOpen | .mutate _ _ => .fsMutation | .net _ => .network | .proc _ => .process
  | .openRead _ => .readOutside | .probe _ => .probeOutside | .readStdin => .stdin | .writeStderr => .stderr
  | .writeStdout => .stdout | _ => .unclassified

inductive Verdict
  | accept
  /-- index of the first offending event and why -/
  | reject (idx : Nat) (why : Reason)
  deriving DecidableEq, Repr

/-- state of the monitor automaton -/
structure MState where
  phase : Phase
  idx : Nat
  verdict : Verdict
  deriving Repr

def MState.init : MState := ⟨.load, 0, .accept⟩

/-- one transition: in the exec phase an event that is not permitted turns the verdict to
    `reject` (the first offence is kept); the phase follows the markers -/
def step (pol : Policy) (s : MState) (e : Event) : MState :=
  let v := match s.verdict with
    | .accept => if s.phase == .exec && !permitted pol e then .reject s.idx (reasonOf e) else .accept
    | r => r
  ⟨s.phase.next e, s.idx + 1, v⟩

def runFrom (pol : Policy) (s : MState) (tr : List Event) : MState := tr.foldl (step pol) s

/-- the monitor -/
def monitor (pol : Policy) (tr : List Event) : Verdict := (runFrom pol MState.init tr).verdict

def accepts (pol : Policy) (tr : List Event) : Bool := monitor pol tr == .accept

/-! ## specification of "occurs in the exec phase", independent of the automaton -/

/-- `ExecEvent ph tr e`: reading `tr` from phase `ph`, the event `e` occurs while the phase is `exec` -/
inductive ExecEvent : Phase → List Event → Event → Prop
  | here {e : Event} {tr : List Event} : ExecEvent .exec (e :: tr) e
  | there {ph : Phase} {e' e : Event} {tr : List Event} : ExecEvent (ph.next e') tr e → ExecEvent ph (e' :: tr) e

/-- number of events seen in the exec phase (for the evidence) -/
def execCount : Phase → List Event → Nat
  | _, [] => 0
  | ph, e :: tr => (if ph == .exec then 1 else 0) + execCount (ph.next e) tr

/-- was the begin marker seen at all? (a trace without it validates nothing) -/
def sawExec (tr : List Event) : Bool := tr.contains .markBegin

end Jaq.C06
