/-
  C14 / CBOR — impl-model of
    `/repo/jaq-fmts/src/write/cbor.rs` (`encode`)
    `/repo/jaq-fmts/src/read/cbor.rs`  (`parse`, `with_size`, `parse_str`, `parse_bytes`, `biguint`)
  over abstract item streams: a `Header` of ciborium-ll, or the raw payload that follows a
  definite-length `Text`/`Bytes` header.  The byte-level header codec (ciborium-ll `Encoder::push`,
  `Decoder::pull`, float width selection, UTF-8 validation of text payloads) is a third-party
  parameter; the correspondence decodes/encodes real bytes to/from these items.
-/
import JaqVerif.C14.Yaml

namespace Jaq.C14.Cbor

open Jaq.C14.Yaml (Bytes)

/-- `ciborium_ll::Header` -/
inductive Header where
  | positive (n : Nat)
  | negative (n : Nat)
  | tag (t : Nat)
  | float (bits : UInt64)
  | text (len : Option Nat)
  | bytes (len : Option Nat)
  | array (len : Option Nat)
  | map (len : Option Nat)
  | simple (n : Nat)
  | brk
  deriving Repr, DecidableEq

inductive Item where
  | h (hd : Header)
  | raw (b : Bytes)
  deriving Repr, DecidableEq

def simpleFalse : Nat := 20
def simpleTrue : Nat := 21
def simpleNull : Nat := 22
def tagBigPos : Nat := 2
def tagBigNeg : Nat := 3
def u64Max : Int := 18446744073709551615

/-- `BigUint::to_bytes_be` (zero is one zero byte) -/
def natBytesAux : Nat → Nat → Bytes → Bytes
  | 0, _, acc => acc
  | fuel + 1, n, acc => if n = 0 then acc else natBytesAux fuel (n / 256) (UInt8.ofNat (n % 256) :: acc)

def toBytesBE (n : Nat) : Bytes := if n = 0 then [0] else natBytesAux n n []

/-- `BigUint::from_bytes_be` -/
def fromBytesBE (b : Bytes) : Nat := b.foldl (fun acc x => acc * 256 + x.toNat) 0

/-- the `BigInt` arm of `encode` -/
def encodeBig (i : Int) : List Item :=
  if 0 ≤ i then
    let b := toBytesBE i.toNat
    [.h (.tag tagBigPos), .h (.bytes (some b.length)), .raw b]
  else
    let b := toBytesBE (-i - 1).toNat
    [.h (.tag tagBigNeg), .h (.bytes (some b.length)), .raw b]

/-- the `Int` arm of `encode`: `u64::try_from(i)`, else `neg_succ(i)` = `-(i+1)` as `u64`, else big -/
def encodeInt (i : Int) : List Item :=
  if 0 ≤ i ∧ i ≤ u64Max then [.h (.positive i.toNat)]
  else if fitsIsize (i + 1) ∧ fitsIsize (-(i + 1)) ∧ 0 ≤ -(i + 1) ∧ -(i + 1) ≤ u64Max then
    [.h (.negative (-(i + 1)).toNat)]
  else encodeBig i

mutual
  /-- `encode`; `lossy` = `String::from_utf8_lossy` (identity on valid UTF-8) -/
  def encode (lossy : Bytes → Bytes) : Val → List Item
    | .null => [.h (.simple simpleNull)]
    | .bool b => [.h (.simple (if b then simpleTrue else simpleFalse))]
    | .num (.int i) => encodeInt i
    | .num (.big i) => encodeBig i
    | .num (.float f) => [.h (.float f)]
    | .num (.dec s) => [.h (.float (F64.ofDec s))]     -- `Num::from_dec_str(d)` then the `Float` arm
    | .tstr s => [.h (.text (some (lossy s).length)), .raw (lossy s)]
    | .bstr b => [.h (.bytes (some b.length)), .raw b]
    | .arr a => .h (.array (some a.length)) :: encodeList lossy a
    | .obj o => .h (.map (some o.length)) :: encodeEntries lossy o
  def encodeList (lossy : Bytes → Bytes) : List Val → List Item
    | [] => []
    | v :: vs => encode lossy v ++ encodeList lossy vs
  def encodeEntries (lossy : Bytes → Bytes) : List (Val × Val) → List Item
    | [] => []
    | (k, v) :: es => encode lossy k ++ encode lossy v ++ encodeEntries lossy es
end

/-- `PError` -/
inductive PErr where
  | lex            -- ciborium error / syntax (incl. truncated input)
  | simple (n : Nat)
  | tag (t : Nat)
  | brk
  | fuel           -- model artefact: never returned when fuel ≥ stream length + 1
  deriving Repr, DecidableEq

/-- `parse_str` / `parse_bytes`: the payload of a definite-length string, or the concatenation of
the definite-length segments of an indefinite one up to the break.  ciborium's `Segments::pull`
keeps a nesting counter: an indefinite-length header of the same kind inside an indefinite string
opens another level that its own break closes (`nested`, 1 for the outermost level). -/
def segments (isText : Bool) : Nat → Nat → List Item → Bytes → Except PErr (Bytes × List Item)
  | 0, _, _, _ => .error .fuel
  | fuel + 1, nested, items, acc =>
    match items with
    | .h .brk :: rest => if nested ≤ 1 then .ok (acc, rest) else segments isText fuel (nested - 1) rest acc
    | .h (.text none) :: rest => if isText then segments isText fuel (nested + 1) rest acc else .error .lex
    | .h (.bytes none) :: rest => if !isText then segments isText fuel (nested + 1) rest acc else .error .lex
    | .h (.text (some n)) :: .raw b :: rest =>
      if isText && b.length == n then segments isText fuel nested rest (acc ++ b) else .error .lex
    | .h (.bytes (some n)) :: .raw b :: rest =>
      if !isText && b.length == n then segments isText fuel nested rest (acc ++ b) else .error .lex
    | _ => .error .lex

def payload (isText : Bool) (len : Option Nat) (fuel : Nat) (items : List Item) :
    Except PErr (Bytes × List Item) :=
  match len with
  | some n =>
    match items with
    | .raw b :: rest => if b.length == n then .ok (b, rest) else .error .lex
    | _ => .error .lex
  | none => segments isText fuel 1 items []

/-- `biguint` -/
def biguint (fuel : Nat) (items : List Item) : Except PErr (Nat × List Item) :=
  match items with
  | .h (.bytes len) :: rest =>
    match payload false len fuel rest with
    | .ok (b, rest') => .ok (fromBytesBE b, rest')
    | .error e => .error e
  | _ => .error .lex

mutual
  /-- `parse(header, decoder)` on the item stream (`decoder.pull()` = next item must be a header) -/
  def parse : Nat → List Item → Except PErr (Val × List Item)
    | 0, _ => .error .fuel
    | _ + 1, [] => .error .lex
    | _ + 1, .raw _ :: _ => .error .lex
    | fuel + 1, .h hd :: rest =>
      match hd with
      | .text len =>
        match payload true len fuel rest with
        | .ok (b, r) => .ok (.tstr b, r)
        | .error e => .error e
      | .bytes len =>
        match payload false len fuel rest with
        | .ok (b, r) => .ok (.bstr b, r)
        | .error e => .error e
      | .simple n =>
        if n == simpleNull then .ok (.null, rest)
        else if n == simpleFalse then .ok (.bool false, rest)
        else if n == simpleTrue then .ok (.bool true, rest)
        else .error (.simple n)
      | .tag t =>
        if t == tagBigNeg then
          match biguint fuel rest with
          | .ok (u, r) => .ok (.num (.big (-(u : Int) - 1)), r)
          | .error e => .error e
        else if t == tagBigPos then
          match biguint fuel rest with
          | .ok (u, r) => .ok (.num (.big (u : Int)), r)
          | .error e => .error e
        else .error (.tag t)
      | .positive n => .ok (.num (Num.ofInt (n : Int)), rest)
      | .negative n => .ok (.num (Num.ofInt (Int.not (n : Int))), rest)   -- `neg as i128 ^ !0`
      | .float f => .ok (.num (.float f), rest)
      | .array size =>
        match parseSeq fuel size rest with
        | .ok (vs, r) => .ok (.arr vs, r)
        | .error e => .error e
      | .map size =>
        match parsePairs fuel size rest with
        | .ok (kvs, r) => .ok (.obj kvs, r)
        | .error e => .error e
      | .brk => .error .brk
  /-- `with_size(size, decoder, parse)` -/
  def parseSeq : Nat → Option Nat → List Item → Except PErr (List Val × List Item)
    | 0, _, _ => .error .fuel
    | _ + 1, some 0, items => .ok ([], items)
    | fuel + 1, some (n + 1), items =>
      match parse fuel items with
      | .error e => .error e
      | .ok (v, r) =>
        match parseSeq fuel (some n) r with
        | .error e => .error e
        | .ok (vs, r') => .ok (v :: vs, r')
    | fuel + 1, none, items =>
      match items with
      | .h .brk :: rest => .ok ([], rest)
      | _ =>
        match parse fuel items with
        | .error e => .error e
        | .ok (v, r) =>
          match parseSeq fuel none r with
          | .error e => .error e
          | .ok (vs, r') => .ok (v :: vs, r')
  /-- `with_size(size, decoder, |h, d| Ok((parse(h, d)?, parse(d.pull()?, d)?)))` -/
  def parsePairs : Nat → Option Nat → List Item → Except PErr (List (Val × Val) × List Item)
    | 0, _, _ => .error .fuel
    | _ + 1, some 0, items => .ok ([], items)
    | fuel + 1, some (n + 1), items =>
      match parse fuel items with
      | .error e => .error e
      | .ok (k, r) =>
        match parse fuel r with
        | .error e => .error e
        | .ok (v, r') =>
          match parsePairs fuel (some n) r' with
          | .error e => .error e
          | .ok (kvs, r'') => .ok ((k, v) :: kvs, r'')
    | fuel + 1, none, items =>
      match items with
      | .h .brk :: rest => .ok ([], rest)
      | _ =>
        match parse fuel items with
        | .error e => .error e
        | .ok (k, r) =>
          match parse fuel r with
          | .error e => .error e
          | .ok (v, r') =>
            match parsePairs fuel none r' with
            | .error e => .error e
            | .ok (kvs, r'') => .ok ((k, v) :: kvs, r'')
end

/-- `decode_many` on a whole stream: values until the stream is empty (each item costs at most two
units of fuel: one for its header, one for the `with_size` step that reaches it) -/
def parseMany : Nat → List Item → Except PErr (List Val)
  | 0, _ => .error .fuel
  | _ + 1, [] => .ok []
  | fuel + 1, items =>
    match parse (2 * items.length + 4) items with
    | .error e => .error e
    | .ok (v, r) =>
      match parseMany fuel r with
      | .error e => .error e
      | .ok vs => .ok (v :: vs)

/-- what a value becomes after `tocbor | fromcbor` (the documented exceptions: decimal literals
become their double, text is made valid UTF-8) -/
def cnormNum : Num → Num
  | .dec s => .float (F64.ofDec s)
  | n => n

mutual
  def cnorm (lossy : Bytes → Bytes) : Val → Val
    | .num n => .num (cnormNum n)
    | .tstr s => .tstr (lossy s)
    | .arr a => .arr (cnormList lossy a)
    | .obj o => .obj (cnormEntries lossy o)
    | v => v
  def cnormList (lossy : Bytes → Bytes) : List Val → List Val
    | [] => []
    | v :: vs => cnorm lossy v :: cnormList lossy vs
  def cnormEntries (lossy : Bytes → Bytes) : List (Val × Val) → List (Val × Val)
    | [] => []
    | (k, v) :: es => (cnorm lossy k, cnorm lossy v) :: cnormEntries lossy es
end

mutual
  /-- invariant of `Num::Int`: the payload is an `isize` -/
  def wfInts : Val → Bool
    | .num n => n.wf
    | .arr a => wfIntsList a
    | .obj o => wfIntsEntries o
    | _ => true
  def wfIntsList : List Val → Bool
    | [] => true
    | v :: vs => wfInts v && wfIntsList vs
  def wfIntsEntries : List (Val × Val) → Bool
    | [] => true
    | (k, v) :: es => wfInts k && wfInts v && wfIntsEntries es
end

end Jaq.C14.Cbor
