/-
  C14 / XML — impl-model of the token <-> TAC-object mapping of
    `/repo/jaq-fmts/src/read/xml.rs`   (`parse_many parse tac parse_children doctype make_obj`, `Tag` display/equality)
    `/repo/jaq-fmts/src/write/xml.rs`  (`TryFrom<&Val> for Xml` with `from_kvs from_tac from_dt from_pi`, `write_val!`, `write_kvs!`)
  function by function.

  xmlparser (third party) is a PARAMETER: the reader is modelled over the abstract token stream the
  tokenizer delivers (`Tok`, one constructor per `xmlparser::Token` the reader distinguishes; a
  tokenizer error is the token `lexerr`, after which nothing is read).  The internal subset of a
  DOCTYPE is a slice of the source text between the `DtdStart` and the `DtdEnd` token; the model
  token `dtdStart` carries that slice.

  The writer is modelled twice: `write` = the bytes `write_val!` emits, and `render` = the token
  stream xmlparser delivers for these bytes under the recorded contract (`checks/c14.py`
  assumptions; exercised on every generated document):
    * an element / attribute name `p:l` or `l` is split at its first colon (`consume_qname`);
    * `SYSTEM "lit"` / `PUBLIC "lit" "lit"` is read back by `parse_external_id` (`parseExt`, byte level);
    * text, CDATA, comment and PI payloads that came out of the tokenizer are delivered unchanged
      when written between the same delimiters;
    * an attribute value is delivered unchanged when written between the quotes the writer
      chooses — which is only true when it does not contain that quote (`attrValueOk`).
  No Mathlib: linked into the driver.
-/
import JaqVerif.Val.Basic

namespace Jaq.C14.Xml

abbrev S := List UInt8

/-! ## tokens -/

/-- `xmlparser::ExternalId` (literals without their quotes) -/
inductive Ext where
  | system (s : S)
  | pub (p s : S)
  deriving Repr, DecidableEq

/-- `xmlparser::Token` as far as the reader looks at it (spans dropped) -/
inductive Tok where
  | decl (version : S) (encoding : Option S) (standalone : Option Bool)
  | pi (target : S) (content : Option S)
  | cdata (t : S)
  | comment (t : S)
  | text (t : S)
  | estart (pre loc : S)
  | attr (pre loc value : S)
  /-- `ElementEnd::Open` (`>`) -/
  | eopen
  /-- `ElementEnd::Empty` (`/>`) -/
  | eempty
  /-- `ElementEnd::Close(prefix, local)` (`</p:l>`) -/
  | eclose (pre loc : S)
  | dtdStart (name : S) (ext : Option Ext) (internal : S)
  | dtdEnd
  | emptyDtd (name : S) (ext : Option Ext)
  | entity
  /-- the tokenizer yields `Err(..)` -/
  | lexerr
  deriving Repr, DecidableEq

/-- `read::xml::Error` (+ the `panic!()` arms, running out of fuel, and a call on an empty stream) -/
inductive Err where
  | lex | unmatched | unclosed | panic | fuel | eof
  deriving Repr, DecidableEq

/-! ## key constants -/

def kT : S := [116]
def kA : S := [97]
def kC : S := [99]
def kXmldecl : S := [120, 109, 108, 100, 101, 99, 108]
def kDoctype : S := [100, 111, 99, 116, 121, 112, 101]
def kCdata : S := [99, 100, 97, 116, 97]
def kComment : S := [99, 111, 109, 109, 101, 110, 116]
def kPi : S := [112, 105]
def kTarget : S := [116, 97, 114, 103, 101, 116]
def kContent : S := [99, 111, 110, 116, 101, 110, 116]
def kName : S := [110, 97, 109, 101]
def kExternal : S := [101, 120, 116, 101, 114, 110, 97, 108]
def kInternal : S := [105, 110, 116, 101, 114, 110, 97, 108]
def kVersion : S := [118, 101, 114, 115, 105, 111, 110]
def kEncoding : S := [101, 110, 99, 111, 100, 105, 110, 103]
def kStandalone : S := [115, 116, 97, 110, 100, 97, 108, 111, 110, 101]
def sYes : S := [121, 101, 115]
def sNo : S := [110, 111]
def sSystem : S := [83, 89, 83, 84, 69, 77]
def sPublic : S := [80, 85, 66, 76, 73, 67]

/-! ## reader (`read/xml.rs`) -/

/-- `Display for Tag`: `prefix:local`, or `local` when the prefix is empty -/
def tagStr (p l : S) : S := if p.isEmpty then l else p ++ 58 :: l

/-- `make_obj`: the entries whose value is present, in order (the keys are distinct constants) -/
def mkObj (l : List (S × Option Val)) : Val :=
  .obj (l.filterMap fun e => e.2.map fun v => (Val.tstr e.1, v))

/-- `singleton` -/
def singleton (k : S) (v : Val) : Val := .obj [(.tstr k, v)]

/-- `IndexMap::insert` on string keys: replace the value in place, else append -/
def insertS (o : List (S × S)) (k v : S) : List (S × S) :=
  if o.any (fun e => e.1 == k) then o.map (fun e => if e.1 == k then (e.1, v) else e) else o ++ [(k, v)]

/-- `v.into_iter().collect()` into an `IndexMap` -/
def collectS (l : List (S × S)) : List (S × S) := l.foldl (fun o e => insertS o e.1 e.2) []

def attrEntry (e : S × S) : Val × Val := (.tstr e.1, .tstr e.2)

/-- `Val::obj(attrs.into_iter().collect())` -/
def attrObj (a : List (S × S)) : Val := .obj ((collectS a).map attrEntry)

/-- the closure `quote` of `doctype`: a literal is delivered without its quotes -/
def quote (s : S) : S := if s.contains 34 then 39 :: (s ++ [39]) else 34 :: (s ++ [34])

/-- `format!("SYSTEM {}", ..)` / `format!("PUBLIC {} {}", ..)` -/
def extStr : Ext → S
  | .system s => sSystem ++ 32 :: quote s
  | .pub p s => sPublic ++ 32 :: (quote p ++ 32 :: quote s)

/-- `doctype` wrapped by `singleton("doctype", ..)` -/
def doctypeVal (name : S) (ext : Option Ext) (intr : Option S) : Val :=
  singleton kDoctype (mkObj [(kName, some (.tstr name)), (kExternal, ext.map fun e => .tstr (extStr e)),
    (kInternal, intr.map .tstr)])

/-- the result of `tac` -/
def tacVal (t : S) (attrs : List (S × S)) (children : Option (List Val)) : Val :=
  mkObj [(kT, some (.tstr t)), (kA, if attrs.isEmpty then none else some (attrObj attrs)),
    (kC, children.map .arr)]

def declVal (version : S) (encoding : Option S) (standalone : Option Bool) : Val :=
  singleton kXmldecl (mkObj [(kVersion, some (.tstr version)), (kEncoding, encoding.map .tstr),
    (kStandalone, standalone.map fun b => .tstr (if b then sYes else sNo))])

def piVal (target : S) (content : Option S) : Val :=
  singleton kPi (mkObj [(kTarget, some (.tstr target)), (kContent, content.map .tstr)])

/-- the attribute loop of `tac`: attributes until `>` (`true`) or `/>` (`false`) -/
def attrLoop : List Tok → Except Err (List (S × S) × Bool × List Tok)
  | [] => .error .unclosed
  | .lexerr :: _ => .error .lex
  | .attr p l v :: ts =>
    match attrLoop ts with
    | .ok (a, o, r) => .ok ((tagStr p l, v) :: a, o, r)
    | .error e => .error e
  | .eopen :: ts => .ok ([], true, ts)
  | .eempty :: ts => .ok ([], false, ts)
  | _ :: _ => .error .panic

/-- the loop of the `DtdStart` arm: skip everything up to `DtdEnd` -/
def dtdLoop : List Tok → Except Err (List Tok)
  | [] => .error .unclosed
  | .lexerr :: _ => .error .lex
  | .dtdEnd :: ts => .ok ts
  | _ :: ts => dtdLoop ts

mutual
  /-- `parse(tk, tokens)` with `tk :: ts` the stream (`tac` unfolded into the `estart` arm) -/
  def parse : Nat → List Tok → Except Err (Val × List Tok)
    | 0, _ => .error .fuel
    | _ + 1, [] => .error .eof
    | n + 1, tk :: ts =>
      match tk with
      | .decl v e s => .ok (declVal v e s, ts)
      | .pi t c => .ok (piVal t c, ts)
      | .cdata t => .ok (singleton kCdata (.tstr t), ts)
      | .comment t => .ok (singleton kComment (.tstr t), ts)
      | .text t => .ok (.tstr t, ts)
      | .estart p l =>
        match attrLoop ts with
        | .error e => .error e
        | .ok (a, false, r) => .ok (tacVal (tagStr p l) a none, r)
        | .ok (a, true, r) =>
          match children n p l r with
          | .error e => .error e
          | .ok (cs, r') => .ok (tacVal (tagStr p l) a (some cs), r')
      | .dtdStart name ext intr =>
        match dtdLoop ts with
        | .error e => .error e
        | .ok r => .ok (doctypeVal name ext (some intr), r)
      | .emptyDtd name ext => .ok (doctypeVal name ext none, ts)
      | .lexerr => .error .lex
      | .attr _ _ _ => .error .panic
      | .eopen => .error .panic
      | .eempty => .error .panic
      | .eclose _ _ => .error .panic
      | .dtdEnd => .error .panic
      | .entity => .error .panic
  /-- `parse_children(tag, tokens)` -/
  def children : Nat → S → S → List Tok → Except Err (List Val × List Tok)
    | 0, _, _, _ => .error .fuel
    | _ + 1, _, _, [] => .error .unclosed
    | n + 1, p, l, tk :: ts =>
      match tk with
      | .lexerr => .error .lex
      | .eclose p' l' => if p = p' ∧ l = l' then .ok ([], ts) else .error .unmatched
      | _ =>
        match parse n (tk :: ts) with
        | .error e => .error e
        | .ok (v, r) =>
          match children n p l r with
          | .error e => .error e
          | .ok (vs, r') => .ok (v :: vs, r')
end

/-- `parse_many(..).collect::<Result<Vec<_>, _>>()` -/
def parseManyF : Nat → List Tok → Except Err (List Val)
  | 0, _ => .error .fuel
  | _ + 1, [] => .ok []
  | n + 1, tk :: ts =>
    match parse n (tk :: ts) with
    | .error e => .error e
    | .ok (v, r) =>
      match parseManyF n r with
      | .error e => .error e
      | .ok vs => .ok (v :: vs)

def parseMany (ts : List Tok) : Except Err (List Val) := parseManyF (ts.length + 1) ts

/-! ## writer (`write/xml.rs`) -/

/-- `enum Xml<S>` -/
inductive Xml where
  | xmldecl (a : List (S × S))
  | doctype (name : S) (ext intr : Option S)
  | pi (target : S) (content : Option S)
  | tac (t : S) (a : List (S × S)) (c : Option Xml)
  | seq (l : List Xml)
  | scalar (v : Val)
  | cdata (s : S)
  | comment (s : S)

/-- `write::xml::Error` by kind -/
inductive WErr where
  | entry | singleton
  deriving Repr, DecidableEq

/-- `as_utf8_bytes` -/
def keyBytes : Val → Option S
  | .tstr s => some s
  | _ => none

/-- `o.contains_key(&Val::from(k.to_string()))` (text and byte strings compare equal) -/
def hasKey (o : List (Val × Val)) (k : S) : Bool :=
  o.any fun e => match e.1 with
    | .tstr s => s == k
    | .bstr s => s == k
    | _ => false

/-- `from_kvs` -/
def fromKvs : List (Val × Val) → Except WErr (List (S × S))
  | [] => .ok []
  | (.tstr k, .tstr v) :: r =>
    match fromKvs r with
    | .ok a => .ok ((k, v) :: a)
    | .error e => .error e
  | _ :: _ => .error .entry

/-- the loop of `from_dt` -/
def fromDt : List (Val × Val) → S → Option S → Option S → Except WErr Xml
  | [], name, ext, intr => .ok (.doctype name ext intr)
  | (k, v) :: o, name, ext, intr =>
    match keyBytes k, v with
    | some kb, .tstr s =>
      if kb == kName then fromDt o s ext intr
      else if kb == kExternal then fromDt o name (some s) intr
      else if kb == kInternal then fromDt o name ext (some s)
      else .error .entry
    | _, _ => .error .entry

/-- the loop of `from_pi` -/
def fromPi : List (Val × Val) → S → Option S → Except WErr Xml
  | [], target, content => .ok (.pi target content)
  | (k, v) :: o, target, content =>
    match keyBytes k, v with
    | some kb, .tstr s =>
      if kb == kTarget then fromPi o s content
      else if kb == kContent then fromPi o target (some s)
      else .error .entry
    | _, _ => .error .entry

mutual
  /-- `TryFrom<&Val> for Xml` -/
  def ofVal : Val → Except WErr Xml
    | .arr a =>
      match ofVals a with
      | .ok l => .ok (.seq l)
      | .error e => .error e
    | .obj o =>
      if hasKey o kT then ofTac o [] [] none
      else
        match o with
        | [(k, v)] =>
          match keyBytes k with
          | none => .error .entry
          | some kb =>
            if kb == kXmldecl then
              match v with
              | .obj kvs =>
                match fromKvs kvs with
                | .ok a => .ok (.xmldecl a)
                | .error e => .error e
              | _ => .error .entry
            else if kb == kDoctype then
              match v with
              | .obj o' => if hasKey o' kName then fromDt o' [] none none else .error .entry
              | _ => .error .entry
            else if kb == kCdata then
              match v with
              | .tstr s => .ok (.cdata s)
              | _ => .error .entry
            else if kb == kComment then
              match v with
              | .tstr s => .ok (.comment s)
              | _ => .error .entry
            else if kb == kPi then
              match v with
              | .obj o' => if hasKey o' kTarget then fromPi o' [] none else .error .entry
              | _ => .error .entry
            else .error .entry
        | _ => .error .singleton
    | v => .ok (.scalar v)
  def ofVals : List Val → Except WErr (List Xml)
    | [] => .ok []
    | v :: vs =>
      match ofVal v with
      | .error e => .error e
      | .ok x =>
        match ofVals vs with
        | .error e => .error e
        | .ok xs => .ok (x :: xs)
  /-- the loop of `from_tac` -/
  def ofTac : List (Val × Val) → S → List (S × S) → Option Xml → Except WErr Xml
    | [], t, a, c => .ok (.tac t a c)
    | (k, v) :: o, t, a, c =>
      match keyBytes k with
      | none => .error .entry
      | some kb =>
        if kb == kT then
          match v with
          | .tstr s => ofTac o s a c
          | _ => .error .entry
        else if kb == kA then
          match v with
          | .obj attrs =>
            match fromKvs attrs with
            | .ok a' => ofTac o t a' c
            | .error e => .error e
          | _ => .error .entry
        else if kb == kC then
          match ofVal v with
          | .ok x => ofTac o t a (some x)
          | .error e => .error e
        else .error .entry
end

/-! ### the bytes of `write_val!` -/

/-- SWITCH (design/fixes/C14-xml-attr-quote.diff): the fixed `write_kvs!` writes a value that
contains `"` between single quotes.  `false` = current tree. -/
def attrQuoteFixedActive : Bool := true

def attrQuoteChar (fixed : Bool) (v : S) : UInt8 := if fixed && v.contains 34 then 39 else 34

/-- `write_kvs!` -/
def writeKvs (fixed : Bool) (a : List (S × S)) : S :=
  a.flatMap fun e => 32 :: (e.1 ++ 61 :: attrQuoteChar fixed e.2 :: (e.2 ++ [attrQuoteChar fixed e.2]))

mutual
  /-- `write_val!`; `none` for a scalar that is not a text string (its JSON text is not modelled) -/
  def write (fixed : Bool) : Xml → Option S
    | .scalar (.tstr s) => some s
    | .scalar _ => none
    | .seq l => writeL fixed l
    | .tac t a none => some (60 :: (t ++ writeKvs fixed a ++ [47, 62]))
    | .tac t a (some c) =>
      match write fixed c with
      | none => none
      | some b => some (60 :: (t ++ writeKvs fixed a ++ 62 :: (b ++ 60 :: 47 :: (t ++ [62]))))
    | .xmldecl a => some ([60, 63, 120, 109, 108] ++ writeKvs fixed a ++ [63, 62])
    | .doctype name ext intr =>
      some ([60, 33, 68, 79, 67, 84, 89, 80, 69, 32] ++ name ++
        (match ext with | some s => 32 :: s | none => []) ++
        (match intr with | some s => 32 :: 91 :: (s ++ [93]) | none => []) ++ [62])
    | .cdata s => some ([60, 33, 91, 67, 68, 65, 84, 65, 91] ++ s ++ [93, 93, 62])
    | .comment s => some ([60, 33, 45, 45] ++ s ++ [45, 45, 62])
    | .pi target content =>
      some ([60, 63] ++ target ++ (match content with | some s => 32 :: s | none => []) ++ [63, 62])
  def writeL (fixed : Bool) : List Xml → Option S
    | [] => some []
    | x :: xs =>
      match write fixed x, writeL fixed xs with
      | some a, some b => some (a ++ b)
      | _, _ => none
end

/-! ### the tokens of what is written (xmlparser contract) -/

/-- the longest prefix without the byte `q`, and the rest (`consume_bytes(|c| c != q)`) -/
def spanB (q : UInt8) : S → S × S
  | [] => ([], [])
  | c :: r => if c == q then ([], c :: r) else ((spanB q r).1.cons c, (spanB q r).2)

/-- `consume_qname`: a name is split at its first colon -/
def splitName (t : S) : S × S :=
  match spanB 58 t with
  | (a, []) => ([], a)
  | (a, _ :: b) => (a, b)

/-- a quoted literal at the head of the text: `consume_quote`, `consume_bytes(|c| c != quote)`, `consume_byte(quote)` -/
def takeLiteral : S → Option (S × S)
  | q :: r =>
    if q == 34 || q == 39 then
      match spanB q r with
      | (lit, _ :: rest) => some (lit, rest)
      | (_, []) => none
    else none
  | [] => none

/-- `consume_spaces`: at least one space -/
def takeSpaces : S → Option S
  | c :: r => if c == 32 || c == 9 || c == 10 || c == 13 then some ((c :: r).dropWhile fun c => c == 32 || c == 9 || c == 10 || c == 13) else none
  | [] => none

/-- `parse_external_id` on a text that is exactly one external id -/
def parseExt (s : S) : Option Ext :=
  if sSystem.isPrefixOf s then
    match takeSpaces (s.drop 6) with
    | none => none
    | some r =>
      match takeLiteral r with
      | some (lit, []) => some (.system lit)
      | _ => none
  else if sPublic.isPrefixOf s then
    match takeSpaces (s.drop 6) with
    | none => none
    | some r =>
      match takeLiteral r with
      | none => none
      | some (l1, r) =>
        match takeSpaces r with
        | none => none
        | some r =>
          match takeLiteral r with
          | some (l2, []) => some (.pub l1 l2)
          | _ => none
  else none

def saOf (s : S) : Option Bool := if s == sYes then some true else if s == sNo then some false else none

/-- `parse_declaration` on `<?xml version=".." (encoding="..")? (standalone="yes|no")??>` -/
def declTok : List (S × S) → Tok
  | [(k, v)] => if k == kVersion then .decl v none none else .lexerr
  | [(k, v), (k2, v2)] =>
    if k == kVersion && k2 == kEncoding then .decl v (some v2) none
    else if k == kVersion && k2 == kStandalone then
      match saOf v2 with
      | some b => .decl v none (some b)
      | none => .lexerr
    else .lexerr
  | [(k, v), (k2, v2), (k3, v3)] =>
    if k == kVersion && k2 == kEncoding && k3 == kStandalone then
      match saOf v3 with
      | some b => .decl v (some v2) (some b)
      | none => .lexerr
    else .lexerr
  | _ => .lexerr

def attrTok (e : S × S) : Tok := .attr (splitName e.1).1 (splitName e.1).2 e.2

/-- the external id of a written DOCTYPE: absent, read back, or a tokenizer error -/
def extTok (ext : Option S) : Option (Option Ext) :=
  match ext with
  | none => some none
  | some s => (parseExt s).map some

/-- the tokens of a written DOCTYPE -/
def doctypeToks (inner : S → List Tok) (name : S) (ext intr : Option S) : List Tok :=
  match extTok ext with
  | none => [.lexerr]
  | some e =>
    match intr with
    | none => [.emptyDtd name e]
    | some s => .dtdStart name e s :: (inner s ++ [.dtdEnd])

mutual
  /-- the tokens xmlparser delivers for `write x` (contract, see the header).  `inner s` are the
  tokens between `DtdStart` and `DtdEnd` for the internal subset `s`. -/
  def render (inner : S → List Tok) : Xml → List Tok
    | .scalar (.tstr s) => [.text s]
    | .scalar _ => [.lexerr]
    | .seq l => renderL inner l
    | .tac t a none => .estart (splitName t).1 (splitName t).2 :: (a.map attrTok ++ [.eempty])
    | .tac t a (some c) =>
      .estart (splitName t).1 (splitName t).2 ::
        (a.map attrTok ++ .eopen :: (render inner c ++ [.eclose (splitName t).1 (splitName t).2]))
    | .xmldecl a => [declTok a]
    | .doctype name ext intr => doctypeToks inner name ext intr
    | .cdata s => [.cdata s]
    | .comment s => [.comment s]
    | .pi target content => [.pi target content]
  def renderL (inner : S → List Tok) : List Xml → List Tok
    | [] => []
    | x :: xs => render inner x ++ renderL inner xs
end

/-- the `inner` tokens are what the tokenizer yields inside a DTD: entity declarations,
comments and processing instructions -/
def innerTok : Tok → Bool
  | .entity => true
  | .comment _ => true
  | .pi _ _ => true
  | _ => false

/-! ### contract preconditions on tokenizer output -/

/-- a qualified name as `consume_qname` delivers it: at most one colon, which separates prefix and local -/
def qnameOk (p l : S) : Bool := !p.contains 58 && !l.contains 58

/-- a literal as `parse_external_id` delivers it: it does not contain its own quote, hence not both kinds -/
def litOk (s : S) : Bool := !(s.contains 34 && s.contains 39)

def extOk : Option Ext → Bool
  | none => true
  | some (.system s) => litOk s
  | some (.pub p s) => litOk p && litOk s

/-- what the theorems assume of a token that came out of xmlparser -/
def tokOk : Tok → Bool
  | .estart p l => qnameOk p l
  | .eclose p l => qnameOk p l
  | .attr p l _ => qnameOk p l
  | .dtdStart _ e _ => extOk e
  | .emptyDtd _ e => extOk e
  | _ => true

/-- the writer's quoting of an attribute value is transparent -/
def attrValueOk (fixed : Bool) (v : S) : Bool := !v.contains (attrQuoteChar fixed v)

end Jaq.C14.Xml
