/-
  C14 / YAML — impl-model of jaq's OWN decision logic in
    `/repo/jaq-fmts/src/write/yaml.rs`  (`ns_plain_one_line`, `must_quote`, scalar arms of `format_yaml!`)
    `/repo/jaq-fmts/src/read/yaml.rs`   (`parse_sign`, `parse_radix`, `parse_int`, `strip`,
                                         `normalise_float`, `parse_float`, `parse_plain_scalar`,
                                         `parse_string_scalar`)
    `/repo/jaq-json/src/num.rs`         (`Num::from_str_radix`, `bigint_from_str_radix`)
  function by function, on byte lists.

  The reader works on `&str`/`char`; every character test it performs is against an ASCII
  character, so on valid UTF-8 the byte-wise model is the same function (a multi-byte character
  never equals an ASCII one, and none of its bytes does).

  Third-party parameters (contracts recorded in `checks/c14.py`, exercised by the correspondence):
    * saphyr's scanner: a plain scalar accepted by `ns_plain_one_line` is delivered with its
      trailing white space removed and otherwise unchanged (`saphyrPlain`);
      a double-quoted JSON string is delivered unescaped.
    * base64 STANDARD engine (`b64enc`/`b64dec` arguments).
    * ryu float formatting (`fmtFloat` argument).
  No Mathlib: linked into the driver.
-/
import JaqVerif.Val.Num

namespace Jaq.C14.Yaml

abbrev Bytes := List UInt8

/-! ## character classes of `ns_plain_one_line` (as written) -/

/-- `br#"-?:,[]{}#&*!|>'"%@`"#.contains(c)` -/
def cIndicator (c : UInt8) : Bool :=
  c == 45 || c == 63 || c == 58 || c == 44 || c == 91 || c == 93 || c == 123 || c == 125 ||
  c == 35 || c == 38 || c == 42 || c == 33 || c == 124 || c == 62 || c == 39 || c == 34 ||
  c == 37 || c == 64 || c == 96

/-- `b"\n\r".contains(c)` -/
def bChar (c : UInt8) : Bool := c == 10 || c == 13

/-- `u8::is_ascii_control`: 0x00..=0x1F | 0x7F -/
def isAsciiControl (c : UInt8) : Bool := c < 32 || c == 127

/-- `c.is_ascii_control() == b"\t\n\r".contains(c)` -/
def cPrintable (c : UInt8) : Bool := isAsciiControl c == (c == 9 || c == 10 || c == 13)

def nbChar (c : UInt8) : Bool := cPrintable c && !bChar c

/-- `b" \t".contains(c)` -/
def sWhite (c : UInt8) : Bool := c == 32 || c == 9

def nsChar (c : UInt8) : Bool := nbChar c && !sWhite c

/-- `b",[]{}".contains(c)` -/
def cFlowIndicator (c : UInt8) : Bool := c == 44 || c == 91 || c == 93 || c == 123 || c == 125

def nsPlainSafe (c : UInt8) : Bool := nsChar c && !cFlowIndicator c

def optAny (o : Option UInt8) (p : UInt8 → Bool) : Bool :=
  match o with
  | some c => p c
  | none => false

/-- `ns_plain_first(c, next)` -/
def nsPlainFirst (c : UInt8) (next : Option UInt8) : Bool :=
  (nsChar c && !cIndicator c) || ((c == 63 || c == 58 || c == 45) && optAny next nsPlainSafe)

/-- `ns_plain_char(prev, c, next)` -/
def nsPlainChar (prev c : UInt8) (next : Option UInt8) : Bool :=
  (nsPlainSafe c && !(c == 58 || c == 35)) || (nsChar prev && c == 35) ||
  (c == 58 && optAny next nsPlainSafe)

/-- the `while let Some(c) = next.take()` loop -/
def plainLoop (prev : UInt8) : Bytes → Bool
  | [] => true
  | c :: rest =>
    if !sWhite c && !nsPlainChar prev c rest.head? then false else plainLoop c rest

/-- `ns_plain_one_line` -/
def nsPlainOneLine : Bytes → Bool
  | [] => false
  | c :: rest => if !nsPlainFirst c rest.head? then false else plainLoop c rest

/-! ## `must_quote` -/

def isDigit (c : UInt8) : Bool := 48 ≤ c && c ≤ 57

def kwNull : List Bytes := [[110,117,108,108], [78,117,108,108], [78,85,76,76]]
def kwOn : List Bytes := [[111,110], [79,110], [79,78]]
def kwOff : List Bytes := [[111,102,102], [79,102,102], [79,70,70]]
def kwYes : List Bytes := [[121,101,115], [89,101,115], [89,69,83]]
def kwNo : List Bytes := [[110,111], [78,111], [78,79]]
def kwTrue : List Bytes := [[84,114,117,101], [84,82,85,69], [116,114,117,101]]
def kwFalse : List Bytes := [[70,97,108,115,101], [70,65,76,83,69], [102,97,108,115,101]]
def kwInf : List Bytes := [[46,105,110,102], [46,73,110,102], [46,73,78,70]]
def kwNan : List Bytes := [[46,110,97,110], [46,78,97,78], [46,78,65,78]]

/-- the table `kws` of `must_quote` -/
def keywords : List Bytes :=
  kwNull ++ kwOn ++ kwOff ++ kwYes ++ kwNo ++ kwTrue ++ kwFalse ++ kwInf ++ kwNan

def tilde : Bytes := [126]
def docStart : Bytes := [45,45,45]
def docEnd : Bytes := [46,46,46]

def isDocMarker (s : Bytes) : Bool := s == docStart || s == docEnd

/-- `s.first().is_some_and(u8::is_ascii_digit)` -/
def isPosNum : Bytes → Bool
  | c :: _ => isDigit c
  | [] => false

/-- `is_pos_num(s.strip_prefix(b"-").unwrap_or(s))` -/
def isNum : Bytes → Bool
  | c :: r => if c == 45 then isPosNum r else isDigit c
  | [] => false

/-- `must_quote` of the CURRENT tree -/
def mustQuote (s : Bytes) : Bool :=
  s == tilde || isDocMarker s || isNum s || keywords.contains s || !nsPlainOneLine s

/-! ### FIXED behaviour (design/fixes/C14-yaml-must-quote.diff) — the integrator switches
`mustQuoteActive` to `mustQuoteFixed` once the fix is applied. -/

/-- fixed number over-approximation: optional sign `+`/`-`, then a digit, or `.` followed by a digit,
or one of `.inf .Inf .INF` -/
def isNumBody : Bytes → Bool
  | c :: r => isDigit c || (c == 46 && isPosNum r)
  | [] => false

def stripSign : Bytes → Bytes
  | c :: r => if c == 43 || c == 45 then r else c :: r
  | [] => []

def isNumFixed (s : Bytes) : Bool := isNumBody (stripSign s) || kwInf.contains (stripSign s)

/-- `---` / `...` followed by a blank: at the start of a line saphyr takes this for a document
marker (YAML 1.2 §9.1.2), whatever follows.  jaq's `must_quote` only tests the exact markers. -/
def docMarkerLed : Bytes → Bool
  | a :: b :: c :: d :: _ => isDocMarker [a, b, c] && sWhite d
  | _ => false

def endsWhite (s : Bytes) : Bool := optAny s.getLast? sWhite

def mustQuoteFixed (s : Bytes) : Bool :=
  s == tilde || isDocMarker s || docMarkerLed s || isNumFixed s || keywords.contains s || !nsPlainOneLine s ||
  endsWhite s

/-! ### work-around for finding `yaml-flow:blank-dash-end` (design/fixes/C14-yaml-flow-blank-dash.diff):
saphyr-parser rejects a plain scalar that ends in a blank followed by `-` when it stands before
`,` `]` `}` in a flow collection (valid YAML); the repaired `must_quote` quotes such strings. -/

/-- `matches!(s, [.., b' ' | b'\t', b'-'])` -/
def endsBlankDash (s : Bytes) : Bool :=
  match s.reverse with
  | c :: b :: _ => c == 45 && sWhite b
  | _ => false

def mustQuoteFixed2 (s : Bytes) : Bool := mustQuoteFixed s || endsBlankDash s

/-- SWITCH: which `must_quote` the correspondence compares the real writer with
(`mustQuoteFixed` = current tree; `mustQuoteFixed2` once C14-yaml-flow-blank-dash.diff is applied). -/
def mustQuoteActive : Bytes → Bool := mustQuoteFixed2

/-! ## reader: `Num::from_str_radix` -/

/-- `(b as char).to_digit(radix)` / the digit table of `biguint_from_str_radix` -/
def digitVal (c : UInt8) : Option Nat :=
  if 48 ≤ c && c ≤ 57 then some (c.toNat - 48)
  else if 97 ≤ c && c ≤ 122 then some (c.toNat - 97 + 10)
  else if 65 ≤ c && c ≤ 90 then some (c.toNat - 65 + 10)
  else none

/-- value of a non-empty digit string in `radix` (accumulator form), `none` on a bad digit -/
def digitsVal (radix : Nat) : Nat → Bytes → Option Nat
  | acc, [] => some acc
  | acc, c :: r =>
    match digitVal c with
    | some d => if d < radix then digitsVal radix (acc * radix + d) r else none
    | none => none

/-- `isize::from_str_radix(i, radix)` or else `bigint_from_str_radix`: both accept one leading
`+`/`-` and at least one digit; the result is a machine integer when it fits. -/
def fromStrRadix (s : Bytes) (radix : Nat) : Option Num :=
  let (neg, ds) : Bool × Bytes :=
    match s with
    | c :: r => if c == 45 then (true, r) else if c == 43 then (false, r) else (false, c :: r)
    | [] => (false, [])
  if ds.isEmpty then none else
  match digitsVal radix 0 ds with
  | some n => some (Num.ofInt (if neg then -(n : Int) else (n : Int)))
  | none => none

/-! ## reader: scalar resolution -/

/-- `parse_sign` -/
def parseSign : Bytes → Option UInt8 × Bytes
  | c :: r => if c == 43 || c == 45 then (some c, r) else (none, c :: r)
  | [] => (none, [])

/-- `parse_radix` -/
def parseRadix : Bytes → Option (Nat × Bytes)
  | [] => none
  | c :: r =>
    if c == 48 then
      match r with
      | [] => some (2, [48])
      | d :: r' =>
        if d == 120 then some (16, r')
        else if d == 98 then some (2, r')
        else if d == 111 then some (8, r')
        else none
    else if 49 ≤ c && c ≤ 57 then some (10, c :: r)
    else none

/-- `parse_int` -/
def parseInt (s : Bytes) : Option Num :=
  let (sign, s) := parseSign s
  match parseRadix s with
  | none => none
  | some (radix, s) =>
    match fromStrRadix s radix with
    | none => none
    | some n => some (if sign == some 45 then Num.neg n else n)

/-- `strip(s, |c| c.is_ascii_digit())` -/
def digits : Bytes → Bytes × Bytes
  | [] => ([], [])
  | c :: r => if isDigit c then let (d, rest) := digits r; (c :: d, rest) else ([], c :: r)

def mkSign (sign : Option UInt8) : Bytes := if sign == some 45 then [45] else []

/-- `normalise_float` -/
def normaliseFloat (sign : Option UInt8) (s : Bytes) : Option Bytes :=
  let sgn := mkSign sign
  let (i, s) := digits s
  if !(i.head? != some 48 || i == [48]) then none else
  let (dot, f, s) : Bytes × Bytes × Bytes :=
    match s with
    | c :: r => if c == 46 then let (f, s') := digits r; ([46], f, s') else ([], [], c :: r)
    | [] => ([], [], [])
  if !(!i.isEmpty || !f.isEmpty) then none else
  let (exp, eSign, e, s) : Bytes × Bytes × Bytes × Bytes :=
    match s with
    | c :: r =>
      if c == 101 || c == 69 then
        let (es, s') := parseSign r
        let (e, s'') := digits s'
        ([101], mkSign es, e, s'')
      else ([], [], [], c :: r)
    | [] => ([], [], [], [])
  if !(exp.isEmpty || !e.isEmpty) then none else
  if !s.isEmpty then none else
  let i := if i.isEmpty then [48] else i
  let f := if f.isEmpty && dot == [46] then [48] else f
  some (sgn ++ i ++ dot ++ f ++ exp ++ eSign ++ e)

/-- `parse_float` -/
def parseFloat (s : Bytes) : Option Num :=
  let (sign, rest) := parseSign s
  if kwInf.contains rest then
    some (.float (F64.inf (sign == some 45)))
  else
    (normaliseFloat sign rest).map fun t => .dec (stringOfBytes t)

/-- tag of a scalar after `tag.and_then(|t| t.is_yaml_core_schema().then_some(suffix))` -/
inductive Tag where
  | null | bool | int | float | str | binary
  | other (suffix : Bytes)
  deriving Repr, DecidableEq

/-- reader errors: `Error::Scalar(Borrowed typ ..)` = incompatible, `Owned` = unknown tag -/
inductive RErr where
  | incompatible (typ : String)
  | unknownTag
  deriving Repr, DecidableEq

def isWhitespaceAscii (c : UInt8) : Bool := c == 32 || (9 ≤ c && c ≤ 13)

def isNullWord (s : Bytes) : Bool := kwNull.contains s || s == tilde
def isTrueWord (s : Bytes) : Bool := kwTrue.contains s
def isFalseWord (s : Bytes) : Bool := kwFalse.contains s

/-- `parse_plain_scalar`, arm by arm (first matching arm wins).  `b64dec` is the third-party
base64 decoder applied after removing white space. -/
def parsePlainScalar (b64dec : Bytes → Option Bytes) (s : Bytes) (tag : Option Tag) :
    Except RErr Val :=
  if isNullWord s && (tag == none || tag == some .null) then .ok .null
  else if isTrueWord s && (tag == none || tag == some .bool) then .ok (.bool true)
  else if isFalseWord s && (tag == none || tag == some .bool) then .ok (.bool false)
  else if tag == some .null then .error (.incompatible "null")
  else if tag == some .bool then .error (.incompatible "bool")
  else if kwNan.contains s && (tag == none || tag == some .float) then .ok (.num (.float F64.nan))
  else
    match tag with
    | some .int =>
      match parseInt s with
      | some n => .ok (.num n)
      | none => .error (.incompatible "int")
    | some .float =>
      match parseFloat s with
      | some n => .ok (.num n)
      | none => .error (.incompatible "float")
    | some .str => .ok (.tstr s)
    | some .binary =>
      match b64dec (s.filter fun c => !isWhitespaceAscii c) with
      | some b => .ok (.bstr b)
      | none => .error (.incompatible "binary")
    | none =>
      match parseInt s with
      | some n => .ok (.num n)
      | none =>
        match parseFloat s with
        | some n => .ok (.num n)
        | none => .ok (.tstr s)
    | some _ => .error .unknownTag

/-- `parse_string_scalar` (quoted / block scalars) -/
def parseStringScalar (b64dec : Bytes → Option Bytes) (s : Bytes) (tag : Option Tag) :
    Except RErr Val :=
  match tag with
  | none | some .str => .ok (.tstr s)
  | some .binary => parsePlainScalar b64dec s tag
  | some _ => .error .unknownTag

/-! ## saphyr contract for plain scalars and the composed "write plain, read back" function -/

def dropTrailingWhite (s : Bytes) : Bytes := (s.reverse.dropWhile sWhite).reverse

/-- precondition of the saphyr contract below: the text is a one-line plain scalar for jaq's
writer and is not taken for a document marker -/
def plainContract (s : Bytes) : Bool := nsPlainOneLine s && !isDocMarker s && !docMarkerLed s

/-- CONTRACT (saphyr): the scanner delivers a one-line plain scalar (`plainContract`) without its
trailing blanks and otherwise unchanged. -/
def saphyrPlain (s : Bytes) : Bytes := dropTrailingWhite s

/-- what `fromyaml` yields for the untagged plain scalar text `s` -/
def readPlain (s : Bytes) : Except RErr Val :=
  parsePlainScalar (fun _ => none) (saphyrPlain s) none

/-! ## scalar writer (`write_yaml!` / `format_yaml!` scalar arms) over abstract scalar events -/

inductive Style where
  | plain | dquoted
  deriving Repr, DecidableEq

/-- a scalar event as saphyr would deliver it from jaq's output -/
structure Scalar where
  text : Bytes
  style : Style
  tag : Option Tag
  deriving Repr, DecidableEq

/-- decimal digits of a natural number (`Display for usize/BigUint`) -/
def decDigits (n : Nat) : Bytes :=
  if h : n < 10 then [UInt8.ofNat (48 + n)] else decDigits (n / 10) ++ [UInt8.ofNat (48 + n % 10)]
termination_by n
decreasing_by omega

/-- `Display` of an integer -/
def showInt (i : Int) : Bytes :=
  if i < 0 then 45 :: decDigits i.natAbs else decDigits i.natAbs

/-- scalar arms of the writer.  `fmtFloat` is ryu's shortest representation of a finite double,
`b64enc` the base64 encoder; the text of a `Dec` is written as is.
Strings: plain iff `!must_quote`, else a double-quoted JSON string (event text = the string). -/
def writeScalar (mq : Bytes → Bool) (fmtFloat : UInt64 → Bytes) (b64enc : Bytes → Bytes) :
    Val → Option Scalar
  | .tstr s => some (if mq s then ⟨s, .dquoted, none⟩ else ⟨saphyrPlain s, .plain, none⟩)
  | .bstr b => some ⟨b64enc b, .plain, some .binary⟩
  | .null => some ⟨[110,117,108,108], .plain, none⟩
  | .bool true => some ⟨[116,114,117,101], .plain, none⟩
  | .bool false => some ⟨[102,97,108,115,101], .plain, none⟩
  | .num (.int i) => some ⟨showInt i, .plain, none⟩
  | .num (.big i) => some ⟨showInt i, .plain, none⟩
  | .num (.float f) =>
    if f == F64.posInf then some ⟨[46,105,110,102], .plain, none⟩
    else if f == F64.negInf then some ⟨[45,46,105,110,102], .plain, none⟩
    else if F64.isNaN f then some ⟨[46,110,97,110], .plain, none⟩
    else some ⟨fmtFloat f, .plain, none⟩
  | .num (.dec s) => some ⟨bytesOfString s, .plain, none⟩
  | _ => none

/-- reader on a scalar event (`parse_val`, scalar arms) -/
def readScalar (b64dec : Bytes → Option Bytes) (e : Scalar) : Except RErr Val :=
  match e.style with
  | .plain => parsePlainScalar b64dec e.text e.tag
  | .dquoted => parseStringScalar b64dec e.text e.tag

end Jaq.C14.Yaml
