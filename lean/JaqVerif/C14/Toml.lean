/-
  C14 / TOML — impl-model of the writer's own decisions in `/repo/jaq-fmts/src/write/toml.rs`:
    `val_key`, `val_value`, `TryFrom<&Val> for Root` (domain check, first error in traversal order),
    `Display for Key` (bare vs quoted).
  The table / inline / `[[array]]` layout and the quoted-string syntax are exercised by the real
  round trips only (reader = third-party `toml_span`).
  `fixed = true` selects the behaviour after design/fixes/C14-toml-*.diff.
-/
import JaqVerif.C14.Yaml

namespace Jaq.C14.Toml

open Jaq.C14.Yaml (Bytes)

inductive WErr where
  | key   -- `Error::Key`: non-string key
  | root  -- `Error::Root`: root is not a table
  | val   -- `Error::Val`: null or byte string (fixed: or an integer beyond 64 bits)
  deriving Repr, DecidableEq

def i64Min : Int := -9223372036854775808
def i64Max : Int := 9223372036854775807

/-- fixed writer only: TOML integers are 64-bit signed -/
def intOk (fixed : Bool) (i : Int) : Bool := !fixed || (i64Min ≤ i && i ≤ i64Max)

mutual
  /-- `val_value` (result tree dropped: only success / first error) -/
  def checkValue (fixed : Bool) : Val → Except WErr Unit
    | .null => .error .val
    | .bstr _ => .error .val
    | .bool _ => .ok ()
    | .tstr _ => .ok ()
    | .num (.int i) => if intOk fixed i then .ok () else .error .val
    | .num (.big i) => if intOk fixed i then .ok () else .error .val
    | .num _ => .ok ()
    | .arr a => checkList fixed a
    | .obj o => checkEntries fixed o
  def checkList (fixed : Bool) : List Val → Except WErr Unit
    | [] => .ok ()
    | v :: vs =>
      match checkValue fixed v with
      | .error e => .error e
      | .ok () => checkList fixed vs
  /-- `kvs`: `val_key(k)?` then `val_value(v)?` per entry -/
  def checkEntries (fixed : Bool) : List (Val × Val) → Except WErr Unit
    | [] => .ok ()
    | (k, v) :: es =>
      match k with
      | .tstr _ =>
        match checkValue fixed v with
        | .error e => .error e
        | .ok () => checkEntries fixed es
      | _ => .error .key
end

/-- `TryFrom<&Val> for Root` -/
def checkRoot (fixed : Bool) (v : Val) : Except WErr Unit :=
  match checkValue fixed v with
  | .error e => .error e
  | .ok () =>
    match v with
    | .obj _ => .ok ()
    | _ => .error .root

/-- `c.is_ascii_alphanumeric() || b"_-".contains(c)` -/
def isBareChar (c : UInt8) : Bool :=
  (48 ≤ c && c ≤ 57) || (65 ≤ c && c ≤ 90) || (97 ≤ c && c ≤ 122) || c == 95 || c == 45

/-- `Display for Key`: bare iff `self.0.iter().all(is_bare)` — CURRENT tree (vacuously true for the
empty key); FIXED: additionally non-empty. -/
def keyIsBare (fixed : Bool) (k : Bytes) : Bool := (!fixed || !k.isEmpty) && k.all isBareChar

/-- SWITCH for the correspondence: `false` = unfixed tree -/
def fixedActive : Bool := true

/-! ## spec: how a TOML reader lexes a bare key (toml.io v1.1 "Keys": `A-Za-z0-9_-`, non-empty) -/

def spanBare : Bytes → Bytes × Bytes
  | [] => ([], [])
  | c :: r => if isBareChar c then let (a, b) := spanBare r; (c :: a, b) else ([], c :: r)

/-- a bare key at the start of the input: the maximal run of bare characters, which must be non-empty -/
def lexBareKey (input : Bytes) : Option (Bytes × Bytes) :=
  let (k, rest) := spanBare input
  if k.isEmpty then none else some (k, rest)

/-! ## spec of the documented domain -/

mutual
  inductive InDomain : Val → Prop
    | bool (b) : InDomain (.bool b)
    | tstr (s) : InDomain (.tstr s)
    | int (i) : i64Min ≤ i → i ≤ i64Max → InDomain (.num (.int i))
    | big (i) : i64Min ≤ i → i ≤ i64Max → InDomain (.num (.big i))
    | float (f) : InDomain (.num (.float f))
    | dec (s) : InDomain (.num (.dec s))
    | arr (a) : InDomainList a → InDomain (.arr a)
    | obj (o) : InDomainEntries o → InDomain (.obj o)
  inductive InDomainList : List Val → Prop
    | nil : InDomainList []
    | cons (v vs) : InDomain v → InDomainList vs → InDomainList (v :: vs)
  inductive InDomainEntries : List (Val × Val) → Prop
    | nil : InDomainEntries []
    | cons (k v es) : InDomain v → InDomainEntries es → InDomainEntries ((.tstr k, v) :: es)
end

end Jaq.C14.Toml
