/-
  C14 / CSV + TSV — impl-model of
    `/repo/jaq-fmts/src/write/tabular.rs` (`TryFrom<&Val> for Row`, `write_field!`, `write_row!`,
                                            `write_csv_str`, `write_tsv_str`)
    `/repo/jaq-fmts/src/read/tabular.rs`  (`field`, `csv_field`, `tsv_field`, `From<Field> for Val`,
                                            `row`, `read_csv`, `read_tsv`)
    `/repo/jaq-json/src/read.rs`          (`parse_single_num`, `parse_num`) with
    hifijson's number lexer state machine (`Num::num_part`, started by `Num::signed_digits()`).

  The generic `field(iter, sep, quote, f)` loop with its call-back `f` is unfolded into two
  mutually recursive states per format: `…U` = the loop of `field` (outside quotes / escapes),
  `…Q` = inside the CSV quote call-back.  A pending character (`field.next = Some(c)`) is
  processed by `field` exactly like the next character of the iterator, so it is modelled by
  leaving `c` on the input.
-/
import JaqVerif.C14.Yaml

namespace Jaq.C14.Tab

open Jaq.C14.Yaml (Bytes isDigit fromStrRadix showInt)

/-! ## number typing of unquoted fields: `parse_single_num` -/

/-- hifijson `Num<u8>`: last byte read and the `Parts` flags -/
structure NumSt where
  read : UInt8
  zero : Bool
  dot : Bool
  exp : Bool
  deriving Repr, DecidableEq

/-- `Num::signed_digits()`: `read = b'e'`, no parts -/
def NumSt.signedDigits : NumSt := ⟨101, false, false, false⟩

def isE (c : UInt8) : Bool := c == 101 || c == 69

/-- `Num::num_part`: `none` = `return false` (the arms in source order) -/
def numPart (st : NumSt) (c : UInt8) : Option NumSt :=
  if st.read == 0 && c == 45 then some { st with read := c }
  else if (st.read == 0 || st.read == 45) && c == 48 && !st.dot && !st.exp then
    some { st with read := c, zero := true }
  else if isDigit c && (!st.zero || st.dot || st.exp) then some { st with read := c }
  else if isDigit st.read && c == 46 && !st.dot && !st.exp then some { st with read := c, dot := true }
  else if isDigit st.read && isE c && !st.exp then some { st with read := c, exp := true }
  else if isE st.read && (c == 43 || c == 45) then some { st with read := c }
  else none

/-- `write_until(&mut read, |c| !num.num_part(c))`: longest prefix accepted, final state, rest -/
def lexNum (st : NumSt) : Bytes → Bytes × NumSt × Bytes
  | [] => ([], st, [])
  | c :: r =>
    match numPart st c with
    | none => ([], st, c :: r)
    | some st' => let (w, st'', rest) := lexNum st' r; (c :: w, st'', rest)

def infinityWord : Bytes := [73,110,102,105,110,105,116,121]
def nanWord : Bytes := [78,97,78]
def trueWord : Bytes := [116,114,117,101]
def falseWord : Bytes := [102,97,108,115,101]

/-- `parse_single_num` (with `parse_num` inlined): the whole slice must be one XJON number -/
def parseSingleNum (s : Bytes) : Option Num :=
  if s == infinityWord then some (.float F64.posInf)
  else if s == nanWord then some (.float F64.nan)
  else
    let (num, st, rest) := lexNum NumSt.signedDigits s
    if num == [43] && rest == infinityWord then some (.float F64.posInf)
    else if num == [45] && rest == infinityWord then some (.float F64.negInf)
    else if Yaml.optAny num.getLast? isDigit then
      if !rest.isEmpty then none
      else if !st.dot && !st.exp then fromStrRadix num 10   -- `.unwrap()`: never fails here
      else some (.dec (stringOfBytes num))
    else none

/-! ## reader -/

/-- `struct Field` -/
structure Field where
  bytes : Bytes
  next : Option UInt8
  quote : Bool
  deriving Repr, DecidableEq

def Field.isEmpty (f : Field) : Bool := f.bytes.isEmpty && !f.quote

/-- `impl From<Field> for Val` -/
def Field.toVal (f : Field) : Val :=
  if f.quote then .tstr f.bytes
  else if f.bytes.isEmpty then .null
  else if f.bytes == trueWord then .bool true
  else if f.bytes == falseWord then .bool false
  else
    match parseSingleNum f.bytes with
    | some n => .num n
    | none => .tstr f.bytes

mutual
  /-- `csv_field`: the loop of `field` with `sep = ','`, `quote = '"'` -/
  def csvU (acc : Bytes) (q : Bool) : Bytes → Field × Bytes
    | [] => (⟨acc, none, q⟩, [])
    | c :: r =>
      if c == 44 || c == 10 then (⟨acc, some c, q⟩, r)
      else if c == 13 then
        match r with
        | [] => (⟨acc ++ [13], none, q⟩, [])
        | d :: r' => if d == 10 then (⟨acc, some 10, q⟩, r') else csvU (acc ++ [13]) q (d :: r')
      else if c == 34 then csvQ acc r
      else csvU (acc ++ [c]) q r
  /-- the call-back of `csv_field` (inside quotes) -/
  def csvQ (acc : Bytes) : Bytes → Field × Bytes
    | [] => (⟨acc, none, true⟩, [])
    | c :: r =>
      if c == 34 then
        match r with
        | [] => (⟨acc, none, true⟩, [])
        | d :: r' => if d == 34 then csvQ (acc ++ [34]) r' else csvU acc true (d :: r')
      else csvQ (acc ++ [c]) r
end

def csvField (input : Bytes) : Field × Bytes := csvU [] false input

/-- `tsv_field`: the loop of `field` with `sep = '\t'`, `quote = '\\'`; the call-back handles one
escape and returns to the loop -/
def tsvU (acc : Bytes) (q : Bool) : Bytes → Field × Bytes
  | [] => (⟨acc, none, q⟩, [])
  | c :: r =>
    if c == 9 || c == 10 then (⟨acc, some c, q⟩, r)
    else if c == 13 then
      match r with
      | [] => (⟨acc ++ [13], none, q⟩, [])
      | d :: r' => if d == 10 then (⟨acc, some 10, q⟩, r') else tsvU (acc ++ [13]) q (d :: r')
    else if c == 92 then
      match r with
      | [] => (⟨acc, none, true⟩, [])
      | d :: r' =>
        if d == 110 then tsvU (acc ++ [10]) true r'
        else if d == 116 then tsvU (acc ++ [9]) true r'
        else if d == 114 then tsvU (acc ++ [13]) true r'
        else if d == 48 then tsvU (acc ++ [0]) true r'
        else if d == 92 then tsvU (acc ++ [92]) true r'
        else tsvU (acc ++ [92]) true (d :: r')
    else tsvU (acc ++ [c]) q r

def tsvField (input : Bytes) : Field × Bytes := tsvU [] false input

/-- `row`: `none` = no further row.  The fuel bounds the number of fields (every field that is
followed by a separator consumes at least one byte). -/
def rowF (fld : Bytes → Field × Bytes) : Nat → Bytes → List Val → Option (Val × Bytes)
  | 0, _, _ => none
  | n + 1, input, fields =>
    let (f, rest) := fld input
    match f.next with
    | none =>
      if fields.isEmpty && f.isEmpty then none else some (.arr (fields ++ [f.toVal]), rest)
    | some c =>
      if c == 10 then some (.arr (fields ++ [f.toVal]), rest)
      else rowF fld n rest (fields ++ [f.toVal])

/-- `core::iter::from_fn(move || row(&mut iter, field))` collected -/
def rowsF (fld : Bytes → Field × Bytes) : Nat → Bytes → List Val
  | 0, _ => []
  | n + 1, input =>
    match rowF fld (input.length + 1) input [] with
    | none => []
    | some (v, rest) => v :: rowsF fld n rest

def readCsv (input : Bytes) : List Val := rowsF csvField (input.length + 1) input
def readTsv (input : Bytes) : List Val := rowsF tsvField (input.length + 1) input

/-! ## writer -/

inductive WErr where
  | row    -- `Error::Row`: not an array
  | field  -- `Error::Field`: array / object / byte string inside a row
  deriving Repr, DecidableEq

def isFieldVal : Val → Bool
  | .null | .bool _ | .num _ | .tstr _ => true
  | _ => false

/-- `TryFrom<&Val> for Row` -/
def toRow : Val → Except WErr (List Val)
  | .arr a => if a.all isFieldVal then .ok a else .error .field
  | _ => .error .row

/-- `write_csv_str` -/
def csvEsc (b : Bytes) : Bytes := b.flatMap fun c => if c == 34 then [34, 34] else [c]
def writeCsvStr (b : Bytes) : Bytes := 34 :: (csvEsc b ++ [34])

def tsvEscByte (c : UInt8) : Bytes :=
  if c == 10 then [92, 110] else if c == 13 then [92, 114] else if c == 9 then [92, 116]
  else if c == 92 then [92, 92] else if c == 0 then [92, 48] else [c]

/-- `write_tsv_str` (aho-corasick replacement of five single-byte patterns = per-byte map) -/
def writeTsvStr (b : Bytes) : Bytes := b.flatMap tsvEscByte

/-- `Display for Num` (`fmtFloat` = ryu on finite doubles) -/
def showNum (fmtFloat : UInt64 → Bytes) : Num → Bytes
  | .int i => showInt i
  | .big i => showInt i
  | .float f =>
    if F64.isNaN f then nanWord
    else if f == F64.posInf then infinityWord
    else if f == F64.negInf then 45 :: infinityWord
    else fmtFloat f
  | .dec s => bytesOfString s

/-- `write_field!` -/
def writeField (fmtFloat : UInt64 → Bytes) (fs : Bytes → Bytes) : Val → Bytes
  | .null => []
  | .tstr s => fs s
  | .bool true => trueWord
  | .bool false => falseWord
  | .num n => showNum fmtFloat n
  | _ => []   -- unreachable after `toRow`

/-- `write_row!` -/
def writeFields (fmtFloat : UInt64 → Bytes) (fs : Bytes → Bytes) (delim : UInt8) : List Val → Bytes
  | [] => []
  | [v] => writeField fmtFloat fs v
  | v :: vs => writeField fmtFloat fs v ++ delim :: writeFields fmtFloat fs delim vs

/-- `tocsv` / `--to csv` without the final newline -/
def writeCsv (fmtFloat : UInt64 → Bytes) (v : Val) : Except WErr Bytes :=
  (toRow v).map (writeFields fmtFloat writeCsvStr 44)

def writeTsv (fmtFloat : UInt64 → Bytes) (v : Val) : Except WErr Bytes :=
  (toRow v).map (writeFields fmtFloat writeTsvStr 9)

end Jaq.C14.Tab
