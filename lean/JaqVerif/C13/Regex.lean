/-
  C13 impl-model, part 3: `jaq-std/src/regex.rs` — `ByteChar::char_of_byte`, `Match::new`,
  `regex()` — over an ABSTRACT regex result: the engine (regex-bites, third party) is a parameter;
  what it returned is given as the list of `captures_iter` items, each the list of participating
  capture groups as byte ranges (group 0 first) with the group's name.
-/
import JaqVerif.C13.Text

namespace Jaq.C13

/-- a participating capture group: byte range `[start, stop)` in the subject and its name -/
structure Cap where
  start : Nat
  stop : Nat
  name : Option Bytes
  deriving Repr, DecidableEq

/-- `Match` of regex.rs -/
structure RMatch where
  offset : Nat
  length : Nat
  string : Bytes
  name : Option Bytes
  deriving Repr, DecidableEq

inductive Part where
  | matches (ms : List RMatch)
  | mismatch (s : Bytes)
  deriving Repr, DecidableEq

/-- `ByteChar`: the not yet consumed `(char index, byte index)` pairs of
`s.char_indices().chain(once(len)).enumerate()` -/
abbrev ByteChar := List (Nat × Nat)

def byteCharNew (s : Bytes) : ByteChar := (starts s ++ [s.length]).zipIdx.map fun (b, i) => (i, b)

/-- `char_of_byte` AS IMPLEMENTED: advance the shared iterator until its byte index equals the
requested one; entries before it are consumed for good (the method "needs to be called with
monotonically increasing values").  `none` = the `unwrap()` in `Match::new` panics. -/
def charOfByteStateful : ByteChar → Nat → Option Nat × ByteChar
  | [], _ => (none, [])
  | (ci, bi) :: rest, off =>
    if off = bi then (some ci, (ci, bi) :: rest) else charOfByteStateful rest off

/-- REPAIRED `char_of_byte` (design/fixes/C13-regex-capture-order.diff): a lookup that does not
depend on earlier calls -/
def charOfByte (s : Bytes) (off : Nat) : Option Nat :=
  (charOfByteStateful (byteCharNew s) off).1

/-- `Match::new` with the REPAIRED offset lookup (design/fixes/C13-regex-capture-order.diff) -/
def matchNewFixed (s : Bytes) (c : Cap) : Option RMatch :=
  let str := (s.drop c.start).take (c.stop - c.start)
  (charOfByte s c.start).map fun off => { offset := off, length := strLength str, string := str, name := c.name }

/-- `Match::new` -/
def matchNew (s : Bytes) (bc : ByteChar) (c : Cap) : Option RMatch × ByteChar :=
  let (o, bc') := charOfByteStateful bc c.start
  let str := (s.drop c.start).take (c.stop - c.start)
  (o.map fun off => { offset := off, length := strLength str, string := str, name := c.name }, bc')

/-- the `filter_map … collect()` over the groups of one `captures_iter` item -/
def matchesOf (s : Bytes) : ByteChar → List Cap → Option (List RMatch) × ByteChar
  | bc, [] => (some [], bc)
  | bc, c :: cs =>
    match matchNew s bc c with
    | (none, bc') => (none, bc')
    | (some m, bc') =>
      match matchesOf s bc' cs with
      | (none, bc'') => (none, bc'')
      | (some ms, bc'') => (some (m :: ms), bc'')

/-- the loop of `regex()`; `none` = panic.  `g` = global flag, `n` = ignore empty matches,
`mi`/`ma` = output mismatches / matches.  Note that the iterator `matches` is only consumed when
`ma` holds (it is lazy), so with `ma = false` the `ByteChar` is not advanced. -/
def regexLoop (s : Bytes) (g n mi ma : Bool) : ByteChar → Nat → List (List Cap) → Option (List Part)
  | _, last, [] => some (if mi then [.mismatch (s.drop last)] else [])
  | bc, last, [] :: rest => regexLoop s g n mi ma bc last rest   -- (no group 0: cannot happen)
  | bc, last, (whole :: groups) :: rest =>
    if n ∧ whole.start = whole.stop then regexLoop s g n mi ma bc last rest
    else
      let pre := if mi then [Part.mismatch ((s.drop last).take (whole.start - last))] else []
      let last' := if mi then whole.stop else last
      let tail : ByteChar → Option (List Part) := fun bc' =>
        if g then regexLoop s g n mi ma bc' last' rest
        else some (if mi then [.mismatch (s.drop last')] else [])
      if ma then
        match matchesOf s bc (whole :: groups) with
        | (none, _) => none
        | (some ms, bc') => (tail bc').map fun t => pre ++ [.matches ms] ++ t
      else (tail bc).map fun t => pre ++ t

def regexParts (s : Bytes) (g n mi ma : Bool) (caps : List (List Cap)) : Option (List Part) :=
  regexLoop s g n mi ma (byteCharNew s) 0 caps

/-! ## REPAIRED BEHAVIOUR (design/fixes/C13-regex-capture-order.diff) — integrator switch

`regexOffsetsRepaired = false`: the driver answers with the code as it is (`regexParts`: shared
forward-only iterator, `none` = panic when a group starts before the previously looked-up one).
Set it to `true` once the fix is applied to /repo: the driver then answers with
`regexPartsRepaired`, whose offset lookup does not depend on earlier lookups. -/

def regexOffsetsRepaired : Bool := true

def matchesOfRepaired (s : Bytes) : List Cap → Option (List RMatch)
  | [] => some []
  | c :: cs =>
    match matchNewFixed s c, matchesOfRepaired s cs with
    | some m, some ms => some (m :: ms)
    | _, _ => none

def regexLoopRepaired (s : Bytes) (g n mi ma : Bool) : Nat → List (List Cap) → Option (List Part)
  | last, [] => some (if mi then [.mismatch (s.drop last)] else [])
  | last, [] :: rest => regexLoopRepaired s g n mi ma last rest
  | last, (whole :: groups) :: rest =>
    if n ∧ whole.start = whole.stop then regexLoopRepaired s g n mi ma last rest
    else
      let pre := if mi then [Part.mismatch ((s.drop last).take (whole.start - last))] else []
      let last' := if mi then whole.stop else last
      let tail : Option (List Part) :=
        if g then regexLoopRepaired s g n mi ma last' rest
        else some (if mi then [.mismatch (s.drop last')] else [])
      if ma then
        match matchesOfRepaired s (whole :: groups) with
        | none => none
        | some ms => tail.map fun t => pre ++ [.matches ms] ++ t
      else tail.map fun t => pre ++ t

def regexPartsRepaired (s : Bytes) (g n mi ma : Bool) (caps : List (List Cap)) : Option (List Part) :=
  regexLoopRepaired s g n mi ma 0 caps


/-! ## ROUND 2: the repaired code AS WRITTEN (d488b4c): `char_of_byte` is still stateful — one
`ByteChar` per `regex()` call, shared by all groups of all matches — but starts over when the
requested offset lies before the iterator's position or the iterator is exhausted
(`if self.iter.peek().map_or(true, |(_, (byte_i, ..))| byte_offset < *byte_i) { *self = Self::new(self.s) }`).
`regexLoopRestart_eq` (Lemmas/C13Restart.lean) proves it equal to the stateless `regexLoopRepaired`. -/

def charOfByteRestart (s : Bytes) (bc : ByteChar) (off : Nat) : Option Nat × ByteChar :=
  let bc0 := match bc with
    | [] => byteCharNew s
    | (_, bi) :: _ => if off < bi then byteCharNew s else bc
  charOfByteStateful bc0 off

def matchNewRestart (s : Bytes) (bc : ByteChar) (c : Cap) : Option RMatch × ByteChar :=
  let (o, bc') := charOfByteRestart s bc c.start
  let str := (s.drop c.start).take (c.stop - c.start)
  (o.map fun off => { offset := off, length := strLength str, string := str, name := c.name }, bc')

def matchesOfRestart (s : Bytes) : ByteChar → List Cap → Option (List RMatch) × ByteChar
  | bc, [] => (some [], bc)
  | bc, c :: cs =>
    match matchNewRestart s bc c with
    | (none, bc') => (none, bc')
    | (some m, bc') =>
      match matchesOfRestart s bc' cs with
      | (none, bc'') => (none, bc'')
      | (some ms, bc'') => (some (m :: ms), bc'')

def regexLoopRestart (s : Bytes) (g n mi ma : Bool) : ByteChar → Nat → List (List Cap) → Option (List Part)
  | _, last, [] => some (if mi then [.mismatch (s.drop last)] else [])
  | bc, last, [] :: rest => regexLoopRestart s g n mi ma bc last rest
  | bc, last, (whole :: groups) :: rest =>
    if n ∧ whole.start = whole.stop then regexLoopRestart s g n mi ma bc last rest
    else
      let pre := if mi then [Part.mismatch ((s.drop last).take (whole.start - last))] else []
      let last' := if mi then whole.stop else last
      let tail : ByteChar → Option (List Part) := fun bc' =>
        if g then regexLoopRestart s g n mi ma bc' last' rest
        else some (if mi then [.mismatch (s.drop last')] else [])
      if ma then
        match matchesOfRestart s bc (whole :: groups) with
        | (none, _) => none
        | (some ms, bc') => (tail bc').map fun t => pre ++ [.matches ms] ++ t
      else (tail bc).map fun t => pre ++ t

def regexPartsRestart (s : Bytes) (g n mi ma : Bool) (caps : List (List Cap)) : Option (List Part) :=
  regexLoopRestart s g n mi ma (byteCharNew s) 0 caps

/-! ## executable form of the engine contract (see `EngineContract` in Lemmas/C13Regex.lean);
evaluated by the driver (`c13.rxc`) on every engine result of the correspondence run -/

/-- `x` is the byte offset of a character start of `s`, or its length -/
def isBoundaryB (s : Bytes) (x : Nat) : Bool := (starts s ++ [s.length]).contains x

def capsOrderedB (len : Nat) : Nat → List (List Cap) → Bool
  | _, [] => true
  | _, [] :: _ => false
  | last, (whole :: _) :: rest =>
    decide (last ≤ whole.start) && decide (whole.start ≤ whole.stop) && decide (whole.stop ≤ len) && capsOrderedB len whole.stop rest

def itemInsideB : List Cap → Bool
  | [] => true
  | whole :: gs => (whole :: gs).all fun c => decide (whole.start ≤ c.start) && decide (c.start ≤ c.stop) && decide (c.stop ≤ whole.stop)

def contractB (s : Bytes) (caps : List (List Cap)) : Bool :=
  capsOrderedB s.length 0 caps && caps.all itemInsideB &&
  caps.all fun item => item.all fun c => isBoundaryB s c.start && isBoundaryB s c.stop

end Jaq.C13
