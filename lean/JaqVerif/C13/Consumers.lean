/-
  C13 consumer models, written independently of jaq from the consumers' own specifications:
  * POSIX shell token recognition (XCU 2.2 Quoting, 2.3 Token Recognition) restricted to what can
    be judged lexically: blanks separate words, `'…'` preserves every byte literally, `\c` outside
    quotes preserves `c`; ANY other unquoted byte that the shell would interpret (operators,
    expansions, double quotes, globbing, comments, newline …) makes the lexer refuse (`none`).
  * RFC 4180 CSV reader (records, fields, `""` inside quoted fields, CRLF or LF line ends).
  * Linear TSV reader (`\t` separates, `\n` ends a record, escapes `\t \n \r \\`, plus jaq's `\0`).
  * HTML character-reference decoder for the five predefined entities and decimal / hexadecimal
    numeric references below 128.
  * RFC 3986 percent-decoder.
  * RFC 8259 string reader (escapes `\" \\ \/ \b \f \n \r \t \uXXXX`).
-/
import JaqVerif.C13.Codec

namespace Jaq.C13

/-! ## TSV -/

def tsvUnescStep : Bytes → Bytes × Nat
  | [] => ([], 1)
  | b :: r =>
    if b = 92 then
      match r with
      | c :: _ =>
        if c = 116 then ([9], 2) else if c = 110 then ([10], 2) else if c = 114 then ([13], 2)
        else if c = 92 then ([92], 2) else if c = 48 then ([0], 2) else ([92], 1)
      | [] => ([92], 1)
    else ([b], 1)

def tsvUnescape (s : Bytes) : Bytes := scan tsvUnescStep s

/-- split at every occurrence of the separator byte -/
def splitOnByte (sep : UInt8) : Bytes → List Bytes
  | [] => [[]]
  | b :: r =>
    match splitOnByte sep r with
    | [] => [[]]       -- (unreachable)
    | f :: fs => if b = sep then [] :: f :: fs else (b :: f) :: fs

/-- the fields of one TSV record -/
def tsvReadRow (s : Bytes) : List Bytes := (splitOnByte 9 s).map tsvUnescape

/-- the records of a TSV text (records end at LF) -/
def tsvRead (s : Bytes) : List (List Bytes) := (splitOnByte 10 s).map tsvReadRow

/-! ## HTML character references -/

def digitsVal (base : Nat) (dv : UInt8 → Option Nat) : Bytes → Option (Nat × Nat × Bytes)
  | [] => none
  | b :: r =>
    if b = 59 then some (0, 0, r)
    else match dv b, digitsVal base dv r with
      | some d, some (v, k, rest) => some (d * base ^ k + v, k + 1, rest)
      | _, _ => none

def decDigit (b : UInt8) : Option Nat := if 48 ≤ b.toNat ∧ b.toNat ≤ 57 then some (b.toNat - 48) else none

def htmlNamed : List (Bytes × UInt8) :=
  [([108, 116, 59], 60), ([103, 116, 59], 62), ([97, 109, 112, 59], 38), ([97, 112, 111, 115, 59], 39), ([113, 117, 111, 116, 59], 34)]

/-- numeric reference after `&#`: `(byte, bytes consumed after "&#")` for code points below 128 -/
def htmlNumeric (r : Bytes) : Option (UInt8 × Nat) :=
  match r with
  | [] => none
  | x :: r' =>
    if x = 120 ∨ x = 88 then
      match digitsVal 16 hexDigitVal r' with
      | some (v, k, _) => if 0 < k ∧ v < 128 then some (UInt8.ofNat v, k + 2) else none
      | none => none
    else
      match digitsVal 10 decDigit r with
      | some (v, k, _) => if 0 < k ∧ v < 128 then some (UInt8.ofNat v, k + 1) else none
      | none => none

def htmlDecodeStep : Bytes → Bytes × Nat
  | [] => ([], 1)
  | b :: r =>
    if b = 38 then
      match firstPat htmlNamed r with
      | some (p, c) => ([c], 1 + p.length)
      | none =>
        match r with
        | h :: r' =>
          if h = 35 then
            match htmlNumeric r' with
            | some (c, k) => ([c], 2 + k)
            | none => ([38], 1)
          else ([38], 1)
        | [] => ([38], 1)
    else ([b], 1)

def htmlDecode (s : Bytes) : Bytes := scan htmlDecodeStep s

/-! ## RFC 3986 -/

def percentStep : Bytes → Bytes × Nat
  | [] => ([], 1)
  | b :: r =>
    if b = 37 then
      match r with
      | h1 :: h2 :: _ =>
        match hexDigitVal h1, hexDigitVal h2 with
        | some a, some c => ([UInt8.ofNat (16 * a + c)], 3)
        | _, _ => ([37], 1)
      | _ => ([37], 1)
    else ([b], 1)

def percentDecode (s : Bytes) : Bytes := scan percentStep s

/-- RFC 3986 `unreserved` -/
def isUnreserved (b : UInt8) : Bool :=
  (48 ≤ b.toNat && b.toNat ≤ 57) || (65 ≤ b.toNat && b.toNat ≤ 90) || (97 ≤ b.toNat && b.toNat ≤ 122) ||
  b == 45 || b == 46 || b == 95 || b == 126

/-! ## RFC 8259 strings -/

def jsonUnescStep : Bytes → Bytes × Nat
  | [] => ([], 1)
  | b :: r =>
    if b = 92 then
      match r with
      | c :: r' =>
        if c = 34 then ([34], 2) else if c = 92 then ([92], 2) else if c = 47 then ([47], 2)
        else if c = 98 then ([8], 2) else if c = 102 then ([12], 2) else if c = 110 then ([10], 2)
        else if c = 114 then ([13], 2) else if c = 116 then ([9], 2)
        else if c = 117 then
          match r' with
          | h1 :: h2 :: h3 :: h4 :: _ =>
            match hexDigitVal h1, hexDigitVal h2, hexDigitVal h3, hexDigitVal h4 with
            | some a, some b', some c', some d => (Utf8.encode (a * 4096 + b' * 256 + c' * 16 + d), 6)
            | _, _, _, _ => ([92], 1)
          | _ => ([92], 1)
        else ([92], 1)
      | [] => ([92], 1)
    else ([b], 1)

/-- content of a JSON string literal `"…"`; `none` if it is not exactly one literal (an
unescaped quote or control character inside, or a missing quote) -/
def jsonStrRead (s : Bytes) : Option Bytes :=
  match s with
  | q :: r =>
    if q = 34 ∧ r.getLast? = some 34 then
      let body := r.dropLast
      -- every quote inside must be escaped, no raw control characters
      let rec ok : Bytes → Bool
        | [] => true
        | b :: t =>
          if b = 92 then (match t with | _ :: t' => ok t' | [] => false)
          else if b = 34 ∨ b.toNat < 32 then false else ok t
      if ok body then some (scan jsonUnescStep body) else none
    else none
  | [] => none

end Jaq.C13
