/-
  C13 consumer models (continued): readers with state — the POSIX shell word lexer and the
  RFC 4180 CSV reader (see Consumers.lean for the specifications they are written from).
-/
import JaqVerif.C13.Consumers

namespace Jaq.C13

/-! ## POSIX shell words -/

/-- bytes that are ordinary inside an unquoted word for every POSIX shell, at any position:
letters, digits and `% + , - . / : @ ^ _` (no operator, expansion, quote, glob, comment, `~`, `=`) -/
def isPlain (b : UInt8) : Bool :=
  (48 ≤ b.toNat && b.toNat ≤ 57) || (65 ≤ b.toNat && b.toNat ≤ 90) || (97 ≤ b.toNat && b.toNat ≤ 122) ||
  b == 37 || b == 43 || b == 44 || b == 45 || b == 46 || b == 47 || b == 58 || b == 64 || b == 94 || b == 95

/-- the word in progress, when the input or a blank ends it -/
def endWord : Option Bytes → List Bytes
  | some w => [w]
  | none => []

def pushWord (cur : Option Bytes) (ws : List Bytes) : List Bytes := endWord cur ++ ws

/-- the lexer: `q` = inside single quotes; `cur = some w` while a word is being built
(`some []` is an empty but present word, as produced by `''`) -/
def shLex : Bool → Option Bytes → Bytes → Option (List Bytes)
  | false, cur, [] => some (endWord cur)
  | true, _, [] => none                                          -- unterminated quote
  | true, cur, b :: r =>
    if b = 39 then shLex false cur r                               -- closing quote
    else shLex true (some (cur.getD [] ++ [b])) r                  -- every other byte is literal
  | false, cur, b :: r =>
    if b = 32 ∨ b = 9 then                                         -- blank: ends the current word
      (shLex false none r).map (pushWord cur)
    else if b = 39 then shLex true (some (cur.getD [])) r          -- opening quote
    else if b = 92 then                                            -- backslash: next byte literal
      match r with
      | c :: r' => if c = 10 then none else shLex false (some (cur.getD [] ++ [c])) r'
      | [] => none
    else if isPlain b then shLex false (some (cur.getD [] ++ [b])) r
    else none                                                      -- the shell would interpret `b`

/-- the words (`argv`) of a simple command line; `none` = contains something a shell interprets -/
def shWords (s : Bytes) : Option (List Bytes) := shLex false none s

/-! ## RFC 4180 -/

/-- a field as a CSV reader sees it: was it quoted, and its content -/
structure CsvField where
  quoted : Bool
  text : Bytes
  deriving Repr, DecidableEq

/-- reader states -/
inductive CsvSt where
  | start                 -- at the beginning of a field
  | plain (f : Bytes)     -- inside an unquoted field
  | quoted (f : Bytes)    -- inside a quoted field
  | closed (f : Bytes)    -- after the closing quote of a quoted field
  deriving Repr, DecidableEq

/-- the field that is complete when a separator / line end / the end of input is met -/
def CsvSt.field : CsvSt → Option CsvField
  | .start => some ⟨false, []⟩
  | .plain f => some ⟨false, f⟩
  | .quoted _ => none            -- unterminated quote
  | .closed f => some ⟨true, f⟩

/-- an ordinary byte in an unquoted position: begins or extends an unquoted field; after a
closing quote (or in a state that cannot take it) it is an error -/
def CsvSt.push : CsvSt → UInt8 → Option CsvSt
  | .start, b => some (.plain [b])
  | .plain f, b => some (.plain (f ++ [b]))
  | _, _ => none

/-- a quote in an unquoted position opens a quoted field only at the start of a field -/
def CsvSt.openQuote : CsvSt → Option CsvSt
  | .start => some (.quoted [])
  | _ => none

/-- end of a record: the record, then the records of the rest (none if nothing follows) -/
def endRecord (cur : List CsvField) (f : Option CsvField) (restEmpty : Bool)
    (more : Option (List (List CsvField))) : Option (List (List CsvField)) :=
  match f with
  | none => none
  | some f => if restEmpty then some [cur ++ [f]] else more.map fun recs => (cur ++ [f]) :: recs

/-- records of a CSV text; `cur` = the complete fields of the current record.  A line end directly
before the end of input does not start another record. -/
def csvLex : CsvSt → List CsvField → Bytes → Option (List (List CsvField))
  | st, cur, [] => st.field.map fun f => [cur ++ [f]]
  | st, cur, b :: r =>
    match st with
    | .quoted f =>
      if b = 34 then
        match r with
        | c :: r' => if c = 34 then csvLex (.quoted (f ++ [34])) cur r' else csvLex (.closed f) cur (c :: r')
        | [] => csvLex (.closed f) cur []
      else csvLex (.quoted (f ++ [b])) cur r
    | st =>
      if b = 44 then
        match st.field with
        | some f => csvLex .start (cur ++ [f]) r
        | none => none
      else if b = 10 then endRecord cur st.field r.isEmpty (csvLex .start [] r)
      else if b = 13 then
        match r with
        | c :: r' =>
          if c = 10 then endRecord cur st.field r'.isEmpty (csvLex .start [] r')
          else
            match st.push 13 with
            | some st' => csvLex st' cur (c :: r')
            | none => none
        | [] =>
          match st.push 13 with
          | some st' => csvLex st' cur []
          | none => none
      else if b = 34 then
        match st.openQuote with
        | some st' => csvLex st' cur r
        | none => none                   -- a quote inside an unquoted field / after a closing quote
      else
        match st.push b with
        | some st' => csvLex st' cur r
        | none => none                   -- garbage after a closing quote

/-- the records of a CSV text; the empty text has no record -/
def csvRead (s : Bytes) : Option (List (List CsvField)) :=
  if s.isEmpty then some [] else csvLex .start [] s

end Jaq.C13
