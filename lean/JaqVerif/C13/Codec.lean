/-
  C13 impl-model, part 1: the escaping formatters and the codecs of `jaq-std/src/lib.rs`
  (`format()`: escape_html / unescape_html / encode_uri / decode_uri / encode_base64 /
  decode_base64, `escape_sh`), `jaq-fmts/src/write/tabular.rs` (`write_csv_str`, `write_tsv_str`,
  `Row`), `jaq-json/src/write.rs` (`write_utf8` / `write_byte`: JSON string escapes) and the
  `ascii_downcase` / `ascii_upcase` filters.

  Every *encoder* is byte-wise: `s.flatMap tab` where `tab` is the table regenerated from the real
  code on every run (`Gen/C13Tables.lean`).  The decoders are small hand models of third-party
  code (urlencoding::decode_binary, aho-corasick replace_all, base64 STANDARD engine), exercised
  by the correspondence.
-/
import JaqVerif.Val.Arith
import JaqVerif.Gen.C13Tables

namespace Jaq.C13

abbrev Bytes := List UInt8

/-! ## table access -/

def tabGet (t : List Bytes) (b : UInt8) : Bytes := t.getD b.toNat []

/-- a table entry printed with surrounding quotes → the part between them -/
def inner (e : Bytes) : Bytes := (e.drop 1).dropLast

def htmlEsc (b : UInt8) : Bytes := tabGet Gen.html b
def uriEsc (b : UInt8) : Bytes := tabGet Gen.uri b
def shEsc (b : UInt8) : Bytes := inner (tabGet Gen.shQ b)
def csvEsc (b : UInt8) : Bytes := inner (tabGet Gen.csvQ b)
def tsvEsc (b : UInt8) : Bytes := tabGet Gen.tsvF b
def jsonEsc (b : UInt8) : Bytes := inner (tabGet Gen.jsonQ b)
def downEsc (b : UInt8) : Bytes := tabGet Gen.down b
def upEsc (b : UInt8) : Bytes := tabGet Gen.up b

/-! ## encoders (all byte-wise) -/

/-- `escape_html`: `replace(s, HTML_PATS, HTML_REPS)` with single-byte patterns -/
def html (s : Bytes) : Bytes := s.flatMap htmlEsc
/-- `encode_uri`: `urlencoding::encode_binary` -/
def uri (s : Bytes) : Bytes := s.flatMap uriEsc
/-- `escape_sh`: `s.replace("'", "'\\''")` -/
def shEscape (s : Bytes) : Bytes := s.flatMap shEsc
/-- `"'\(escape_sh)'"` -/
def shQuote (s : Bytes) : Bytes := 39 :: shEscape s ++ [39]
/-- `write_csv_str` -/
def csvQuote (s : Bytes) : Bytes := 34 :: s.flatMap csvEsc ++ [34]
/-- `write_tsv_str` -/
def tsvEscape (s : Bytes) : Bytes := s.flatMap tsvEsc
/-- `write_utf8!` with the raw-bytes writer (`tojson` of a text string) -/
def jsonQuote (s : Bytes) : Bytes := 34 :: s.flatMap jsonEsc ++ [34]
def asciiDown (s : Bytes) : Bytes := s.flatMap downEsc
def asciiUp (s : Bytes) : Bytes := s.flatMap upEsc

/-! ## generic left-to-right scanner (shape of every decoder / consumer below)

`step` looks at the non-empty rest of the input and returns the bytes to emit and the number of
input bytes consumed (at least 1 is enforced). -/

def scanF (step : Bytes → Bytes × Nat) : Nat → Bytes → Bytes
  | 0, _ => []
  | _, [] => []
  | n + 1, b :: r =>
    let (o, k) := step (b :: r)
    o ++ scanF step n ((b :: r).drop (max k 1))

def scan (step : Bytes → Bytes × Nat) (s : Bytes) : Bytes := scanF step s.length s

/-! ## decode_uri: `urlencoding::decode_binary` -/

/-- `from_hex_digit` -/
def hexDigitVal (d : UInt8) : Option Nat :=
  if 48 ≤ d.toNat ∧ d.toNat ≤ 57 then some (d.toNat - 48)
  else if 65 ≤ d.toNat ∧ d.toNat ≤ 70 then some (d.toNat - 55)
  else if 97 ≤ d.toNat ∧ d.toNat ≤ 102 then some (d.toNat - 87)
  else none

/-- one round of the loop of `decode_binary` at the head of the input -/
def uridStep : Bytes → Bytes × Nat
  | [] => ([], 1)
  | b :: rest =>
    if b = 37 then
      match rest with
      | h1 :: h2 :: _ =>
        match hexDigitVal h1 with
        | some a =>
          match hexDigitVal h2 with
          | some c => ([UInt8.ofNat (a * 16 + c)], 3)
          | none => ([37, h1], 2)        -- `%` and the first digit are emitted, decoding resumes at `h2`
        | none => ([37], 1)              -- `%` emitted, decoding resumes at `h1`
      | _ => ([37], 1)                   -- "too short": the rest is copied
    else ([b], 1)

def urid (s : Bytes) : Bytes := scan uridStep s

/-! ## unescape_html: aho-corasick `replace_all_bytes(s, HTML_REPS, HTML_PATS)`

The automaton is third party; modelled as "at every position, replace the first listed pattern
that starts here, else copy one byte".  No pattern of HTML_REPS occurs inside another one, so
leftmost-first, leftmost-longest and the crate's default (earliest end) coincide. -/

def htmlReps : List (Bytes × UInt8) :=
  [([38, 108, 116, 59], 60),            -- &lt;   <
   ([38, 103, 116, 59], 62),            -- &gt;   >
   ([38, 97, 109, 112, 59], 38),        -- &amp;  &
   ([38, 97, 112, 111, 115, 59], 39),   -- &apos; '
   ([38, 113, 117, 111, 116, 59], 34)]  -- &quot; "

def firstPat : List (Bytes × UInt8) → Bytes → Option (Bytes × UInt8)
  | [], _ => none
  | (p, c) :: ps, s => if p.isPrefixOf s then some (p, c) else firstPat ps s

def htmldStep (s : Bytes) : Bytes × Nat :=
  match firstPat htmlReps s with
  | some (p, c) => ([c], p.length)
  | none => (s.take 1, 1)

def htmld (s : Bytes) : Bytes := scan htmldStep s

/-! ## base64 (`STANDARD` engine: alphabet + canonical padding required, trailing bits must be 0) -/

def b64Sym (v : Nat) : UInt8 := ((Gen.b64.getD v []).headD 0)
def b64Pad : UInt8 := ((Gen.b64pad.getD 0 []).headD 0)

/-- value of a symbol: position in the generated alphabet -/
def b64Val (c : UInt8) : Option Nat :=
  let i := (List.range 64).find? fun v => b64Sym v == c
  i

/-- encode groups of three bytes to four symbols; 1 or 2 remaining bytes are padded -/
def b64Encode : Bytes → Bytes
  | [] => []
  | [a] => [b64Sym (a.toNat / 4), b64Sym (a.toNat % 4 * 16), b64Pad, b64Pad]
  | [a, b] => [b64Sym (a.toNat / 4), b64Sym (a.toNat % 4 * 16 + b.toNat / 16), b64Sym (b.toNat % 16 * 4), b64Pad]
  | a :: b :: c :: rest =>
    b64Sym (a.toNat / 4) :: b64Sym (a.toNat % 4 * 16 + b.toNat / 16)
      :: b64Sym (b.toNat % 16 * 4 + c.toNat / 64) :: b64Sym (c.toNat % 64) :: b64Encode rest

/-- a complete group of four symbols → three bytes -/
def b64Full (p q r s : UInt8) : Option Bytes :=
  match b64Val p, b64Val q, b64Val r, b64Val s with
  | some x, some y, some z, some w =>
    some [UInt8.ofNat (x * 4 + y / 16), UInt8.ofNat (y % 16 * 16 + z / 4), UInt8.ofNat (z % 4 * 64 + w)]
  | _, _, _, _ => none

/-- the last group of four symbols: complete, or `xy==` (one byte), or `xyz=` (two bytes); the
bits that do not belong to a byte must be zero -/
def b64Last (p q r s : UInt8) : Option Bytes :=
  if s == b64Pad then
    if r == b64Pad then
      match b64Val p, b64Val q with
      | some x, some y => if y % 16 = 0 then some [UInt8.ofNat (x * 4 + y / 16)] else none
      | _, _ => none
    else
      match b64Val p, b64Val q, b64Val r with
      | some x, some y, some z =>
        if z % 4 = 0 then some [UInt8.ofNat (x * 4 + y / 16), UInt8.ofNat (y % 16 * 16 + z / 4)] else none
      | _, _, _ => none
  else b64Full p q r s

/-- decode; `none` = the engine's error (any symbol outside the alphabet, missing / misplaced /
excess padding, non-zero trailing bits, length not a multiple of four) -/
def b64Decode : Bytes → Option Bytes
  | [] => some []
  | p :: q :: r :: s :: rest =>
    if rest.isEmpty then b64Last p q r s
    else
      match b64Full p q r s, b64Decode rest with
      | some hd, some tl => some (hd ++ tl)
      | _, _ => none
  | _ => none

/-! ## row formatters (`Row::try_from`, `write_csv`, `write_tsv`) -/

/-- a table field after `Row::try_from`; numbers carry their printed text -/
inductive Field where
  | null
  | bool (b : Bool)
  | num (text : Bytes)
  | str (s : Bytes)
  deriving Repr, DecidableEq

def trueB : Bytes := [116, 114, 117, 101]
def falseB : Bytes := [102, 97, 108, 115, 101]
def nullB : Bytes := [110, 117, 108, 108]

/-- what `write!(w, "{v}")` prints for the non-string fields (`Null` prints nothing) -/
def Field.rawText : Field → Bytes
  | .null => []
  | .bool true => trueB
  | .bool false => falseB
  | .num t => t
  | .str s => s

def csvField : Field → Bytes
  | .str s => csvQuote s
  | f => f.rawText

def tsvField : Field → Bytes
  | .str s => tsvEscape s
  | f => f.rawText

/-- `write_row!` -/
def joinWith (sep : Bytes) : List Bytes → Bytes
  | [] => []
  | [x] => x
  | x :: y :: rest => x ++ sep ++ joinWith sep (y :: rest)

def csvRow (r : List Field) : Bytes := joinWith [44] (r.map csvField)
def tsvRow (r : List Field) : Bytes := joinWith [9] (r.map tsvField)

/-! ## `@sh` (defs.jq): `[if isarray then .[] end | if . >= "" then "'\(escape_sh)'" else "\(.)" end] | join(" ")` -/

/-- an argument of `@sh`: a text string (quoted) or the printed text of null / a boolean / a number -/
inductive ShArg where
  | str (s : Bytes)
  | raw (text : Bytes)
  deriving Repr, DecidableEq

def shArg : ShArg → Bytes
  | .str s => shQuote s
  | .raw t => t

def sh (xs : List ShArg) : Bytes := joinWith [32] (xs.map shArg)

end Jaq.C13
