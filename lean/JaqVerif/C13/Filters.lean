/-
  C13 impl-model, part 4: the filters as they act on `Val` (glue around the byte-level models):
  `tostring` / string interpolation, `@html @htmld @uri @urid @base64 @base64d @sh @csv @tsv @json
  @text`, `explode implode tobytes tostring ascii_downcase ascii_upcase length utf8bytelength
  split join indices .[a:b] ltrimstr rtrimstr startswith endswith`, format strings
  (`jaq-core/src/compile.rs`, arm `Str(fmt, parts)`), and the three regex natives.
  Numbers are printed for integers and decimal literals only (floats: `unsupported`, the
  JSON number printer is C07's subject).
-/
import JaqVerif.C13.Regex
import JaqVerif.C07.Write

namespace Jaq.C13

/-- result of running a filter that yields one value: the value, an error, or "not modelled" -/
inductive Res where
  | ok (v : Val)
  | err
  | unsupported
  deriving Inhabited

/-- ROUND 2: integers and decimal literals are printed by C07's model of `impl Display for Num`
(`C07.intText`, `C07.decBytes`), so that `toJson` is literally a fragment of C07's proved writer -/
def decBytes (i : Int) : Bytes := C07.intText i

def numText : Num → Option Bytes
  | .int i => some (decBytes i)
  | .big i => some (decBytes i)
  | .dec s => some (C07.decBytes s)
  | .float _ => none

def joinOpt (sep : Bytes) : List (Option Bytes) → Option Bytes
  | [] => some []
  | [x] => x
  | x :: y :: rest =>
    match x, joinOpt sep (y :: rest) with
    | some a, some b => some (a ++ sep ++ b)
    | _, _ => none

/-- one object entry `key:value` -/
def pairJson (a b : Option Bytes) : Option Bytes :=
  match a, b with
  | some a, some b => some (a ++ [58] ++ b)
  | _, _ => none

mutual
  /-- `to_json` (compact) for the modelled fragment; `none` = not modelled -/
  def toJson : Val → Option Bytes
    | .null => some nullB
    | .bool true => some trueB
    | .bool false => some falseB
    | .num n => numText n
    | .tstr s => some (jsonQuote s)
    | .bstr _ => none
    | .arr a => (joinOpt [44] (toJsonList a)).map fun b => 91 :: b ++ [93]
    | .obj o => (joinOpt [44] (toJsonEntries o)).map fun b => 123 :: b ++ [125]
  def toJsonList : List Val → List (Option Bytes)
    | [] => []
    | v :: vs => toJson v :: toJsonList vs
  def toJsonEntries : List (Val × Val) → List (Option Bytes)
    | [] => []
    | (k, v) :: es =>
      pairJson (toJson k) (toJson v) :: toJsonEntries es
end

/-- `tostring` = `"\(.)"` = `into_string`: strings keep their bytes, everything else `to_json` -/
def textOf : Val → Option Bytes
  | .tstr b => some b
  | .bstr b => some b
  | v => toJson v

def onText (v : Val) (f : Bytes → Res) : Res :=
  match textOf v with
  | some b => f b
  | none => .unsupported

def okStr (b : Bytes) : Res := .ok (.tstr b)

/-- `Row::try_from` -/
def fieldOf : Val → Option (Option Field)   -- outer none = unsupported number, inner none = error
  | .null => some (some .null)
  | .bool b => some (some (.bool b))
  | .num n => (numText n).map fun t => some (.num t)
  | .tstr s => some (some (.str s))
  | _ => some none

def fieldsOf : List Val → Option (Option (List Field))
  | [] => some (some [])
  | v :: vs =>
    match fieldOf v, fieldsOf vs with
    | none, _ => none
    | _, none => none
    | some none, _ => some none
    | _, some none => some none
    | some (some f), some (some fs) => some (some (f :: fs))

def rowFmt (fmt : List Field → Bytes) : Val → Res
  | .arr a =>
    match fieldsOf a with
    | none => .unsupported
    | some none => .err
    | some (some fs) => okStr (fmt fs)
  | _ => .err

/-- one argument of `@sh`: `if . >= "" then "'\(escape_sh)'" else "\(.)" end` -/
def shArgOf : Val → Option (Option ShArg)
  | .tstr s => some (some (.str s))
  | .bstr _ => some none          -- `escape_sh` needs a text string
  | .arr _ => some none
  | .obj _ => some none
  | v => (toJson v).map fun t => some (.raw t)

def shArgsOf : List Val → Option (Option (List ShArg))
  | [] => some (some [])
  | v :: vs =>
    match shArgOf v, shArgsOf vs with
    | none, _ => none
    | _, none => none
    | some none, _ => some none
    | _, some none => some none
    | some (some f), some (some fs) => some (some (f :: fs))

/-- `if isarray then .[] end` -/
def shArgList : Val → List Val
  | .arr a => a
  | v => [v]

def shFmt (v : Val) : Res :=
  match shArgsOf (shArgList v) with
  | none => .unsupported
  | some none => .err
  | some (some xs) => okStr (sh xs)

/-- the formatters `@name` -/
def fmtRun (name : String) (v : Val) : Res :=
  match name with
  | "text" => onText v okStr
  | "json" => match toJson v with | some b => okStr b | none => .unsupported
  | "html" => onText v fun b => okStr (html b)
  | "htmld" => onText v fun b => okStr (htmld b)
  | "uri" => onText v fun b => okStr (uri b)
  | "urid" => onText v fun b => okStr (urid b)
  | "base64" => onText v fun b => okStr (b64Encode b)
  | "base64d" => onText v fun b => match b64Decode b with | some r => okStr r | none => .err
  | "sh" => shFmt v
  | "csv" => rowFmt csvRow v
  | "tsv" => rowFmt tsvRow v
  | _ => .unsupported

def isString : Val → Bool
  | .tstr _ | .bstr _ => true
  | _ => false

def anyBytes : Val → Option Bytes
  | .tstr b | .bstr b => some b
  | _ => none

def intOf : Val → Option (Option Int)   -- outer none: not null and not an integer
  | .null => some none
  | .num n => (Num.asIsize n).map some
  | _ => none

def natArr (l : List Nat) : Val := .arr (l.map fun (n : Nat) => .num (.int (Int.ofNat n)))

/-- `join($s)`: `.[] |= tostring | .[:-1][] += $s | reduce .[] as $x (""; . + $x)` on arrays -/
def joinRun (v sep : Val) : Res :=
  match v with
  | .arr a =>
    let texts := a.map textOf
    if texts.any Option.isNone then .unsupported
    else
      let ts := texts.filterMap id
      match ts with
      | [] => okStr []
      | [x] => okStr x
      | _ =>
        match sep with
        | .tstr s => okStr (joinBytes s ts)
        | .null => okStr (joinBytes [] ts)     -- `x + null = x`
        | _ => .err
  | _ => .err

/-- unary and binary filters -/
def filterRun (name : String) (v : Val) (args : List Val) : Res :=
  match name, args with
  | "explode", [] =>
    match v with
    | .tstr s => .ok (.arr ((explode s).map fun i => .num (.int i)))
    | _ => .err
  | "implode", [] =>
    match v with
    | .arr a =>
      let is := a.map fun x => match x with | .num n => Num.asIsize n | _ => none
      if is.any Option.isNone then .err
      else match implode (is.filterMap id) with
        | some b => okStr b
        | none => .err
    | _ => .err
  | "tobytes", [] => match toBytes v with | some b => .ok (.bstr b) | none => .err
  | "tostring", [] => onText v okStr
  | "down", [] => match v with | .tstr s => okStr (asciiDown s) | _ => .err
  | "up", [] => match v with | .tstr s => okStr (asciiUp s) | _ => .err
  | "length", [] =>
    match v with
    | .null => .ok (.num (.int 0))
    | .bool _ => .err
    | .num n => .ok (.num (Num.length n))
    | .tstr s => .ok (.num (.int (strLength s)))
    | .bstr s => .ok (.num (.int s.length))
    | .arr a => .ok (.num (.int a.length))
    | .obj o => .ok (.num (.int o.length))
  | "bytelen", [] => match v with | .tstr s => .ok (.num (.int s.length)) | _ => .err
  | "split", [sep] =>
    if isString v && isString sep then
      match Val.div v sep with | .ok r => .ok r | .error _ => .err
    else .err
  | "join", [sep] => joinRun v sep
  | "indices", [y] =>
    match v, y with
    | .tstr s, .tstr t => .ok (natArr (if indicesRepaired then indicesStrRepaired s t else indicesStr s t))
    | .bstr s, .bstr t => .ok (natArr (indicesBytes s t))
    | .arr _, _ => .unsupported
    | _, _ => .err
  | "slice", [a, b] =>
    match v with
    | .tstr s => (match intOf a, intOf b with
      | some i, some j => okStr (sliceChars s i j)
      | _, _ => .err)
    | .bstr s => (match intOf a, intOf b with
      | some i, some j => .ok (.bstr (sliceBytes s i j))
      | _, _ => .err)
    | .null => .unsupported
    | .arr _ => .unsupported
    | _ => .err
  | "ltrimstr", [p] =>
    match v, anyBytes v, anyBytes p with
    | .tstr _, some s, some q => okStr (ltrimstr s q)
    | .bstr _, some s, some q => .ok (.bstr (ltrimstr s q))
    | _, _, _ => .err
  | "rtrimstr", [p] =>
    match v, anyBytes v, anyBytes p with
    | .tstr _, some s, some q => okStr (rtrimstr s q)
    | .bstr _, some s, some q => .ok (.bstr (rtrimstr s q))
    | _, _, _ => .err
  | "startswith", [p] =>
    match anyBytes v, anyBytes p with
    | some s, some q => .ok (.bool (startswith s q))
    | _, _ => .err
  | "endswith", [p] =>
    match anyBytes v, anyBytes p with
    | some s, some q => .ok (.bool (endswith s q))
    | _, _ => .err
  | name, [] => fmtRun name v
  | _, _ => .unsupported

/-! ## format strings `@fmt "…\(f)…"` — `jaq-core/src/compile.rs`, `Compiler::term`, arm `Str(fmt, parts)`:
`StrPart::Str / Char` become `Term::Str` (NOT formatted), `StrPart::Term(f)` becomes `f | fmt`
(formatted); the parts are summed left to right (`sum_or`), i.e. concatenated. -/

/-- one part of a format string: literal text, or (the single output of) an interpolated term -/
inductive FmtPart where
  | lit (s : Bytes)
  | interp (v : Val)
  deriving Inhabited

/-- what one part contributes -/
def fmtPartRun (name : String) : FmtPart → Res
  | .lit s => okStr s
  | .interp v => fmtRun name v

/-- sum of the part results (all errors are of one class; `unsupported` = outside the model) -/
def fmtSum : List Res → Res
  | [] => okStr []
  | r :: rs =>
    match r, fmtSum rs with
    | .unsupported, _ => .unsupported
    | _, .unsupported => .unsupported
    | .ok (.tstr a), .ok (.tstr b) => okStr (a ++ b)
    | _, _ => .err

/-- `@name "p0 p1 … pn"` for ANY interleaving of literal and interpolated parts -/
def fmtStringN (name : String) (parts : List FmtPart) : Res := fmtSum (parts.map (fmtPartRun name))

/-- `@fmt "l0\(v0)l1\(v1)l2"` (round 1's two-interpolation shape) -/
def fmtString (name : String) (l0 : Bytes) (v0 : Val) (l1 : Bytes) (v1 : Val) (l2 : Bytes) : Res :=
  fmtStringN name [.lit l0, .interp v0, .lit l1, .interp v1, .lit l2]

/-! ## regex natives -/

def ascii (s : String) : Val := .tstr s.toUTF8.toList

/-- `Match::fields` -/
def matchObj (tag : Bytes → Val) (m : RMatch) : Val :=
  .obj ([(ascii "offset", .num (.int m.offset)), (ascii "length", .num (.int m.length)), (ascii "string", tag m.string)]
        ++ (match m.name with | some n => [(ascii "name", .tstr n)] | none => []))

def partVal : Part → Val
  | .matches ms => .arr (ms.map (matchObj .tstr))
  | .mismatch s => .tstr s

/-- `matches` = `re(false, true)`, `split_matches` = `re(true, true)`, `split_` = `re(true, false)` -/
def rxRun (kind : String) (g n : Bool) (s : Bytes) (caps : List (List Cap)) : Option (Option Val) :=
  let sm : Option (Bool × Bool) := match kind with
    | "matches" => some (false, true)
    | "split_matches" => some (true, true)
    | "split_" => some (true, false)
    | _ => none
  sm.map fun (mi, ma) =>
    ((if regexOffsetsRepaired then regexPartsRestart s g n mi ma caps else regexParts s g n mi ma caps)).map fun ps => .arr (ps.map partVal)

end Jaq.C13
