/-
  C13 impl-model, part 2: text strings as sequences of characters.
  `jaq-std/src/lib.rs`: `Explode::next`, `explode`, `implode`, `strip_fix`, `startswith`, `endswith`;
  `jaq-json/src/funs.rs`: `length` (TStr arm), `indices` (TStr / BStr arms), `to_bytes`;
  `jaq-json/src/lib.rs`: `skip_take_chars`, `skip_take_bytes`, `split`, `into_string`;
  `jaq-core/src/defs.jq`: `join`, `tostring`.
  Characters are the chunks of `Jaq.Utf8` (`bstr::decode_utf8`): a valid scalar value or a
  maximal invalid prefix (1–3 bytes) counting as ONE position.
-/
import JaqVerif.C13.Codec

namespace Jaq.C13

/-! ## explode / implode -/

/-- `explode`: one non-negative code point per valid character; every byte `b` of an invalid
sequence becomes `-b` -/
def explodeChunk : Option Nat × Bytes → List Int
  | (some c, _) => [Int.ofNat c]
  | (none, bs) => bs.map fun b => -(Int.ofNat b.toNat)

def explode (s : Bytes) : List Int := (Utf8.chunks s).flatMap explodeChunk

/-- one element of `implode`: `u8::try_from(-i)` first (so `0` and `-255..-1` are bytes), then
`u32::try_from(i).and_then(char::from_u32)`; `none` = "cannot use i as character".
(`-i` overflows for `isize::MIN`: the debug build panics, the release build wraps and fails.) -/
def implode1 (i : Int) : Option Bytes :=
  if 0 ≤ -i ∧ -i ≤ 255 then some [UInt8.ofNat (-i).toNat]
  else if 0 ≤ i ∧ Utf8.isScalar i.toNat then some (Utf8.encode i.toNat)
  else none

def implode : List Int → Option Bytes
  | [] => some []
  | i :: is =>
    match implode1 i, implode is with
    | some b, some r => some (b ++ r)
    | _, _ => none

/-! ## positions -/

/-- `length` of a text string: `s.chars().count()` -/
def strLength (s : Bytes) : Nat := Utf8.charCount s

/-- byte offsets at which the characters start: `char_indices().map(start)` -/
def startsFrom : Nat → List Bytes → List Nat
  | _, [] => []
  | off, c :: cs => off :: startsFrom (off + c.length) cs

def starts (s : Bytes) : List Nat := startsFrom 0 (Utf8.chars s)

/-- `byte_index` of `skip_take_chars`: `(pos, c)` is `PosUsize` -/
def byteIndex (s : Bytes) (pos : Bool) (c : Nat) : Nat :=
  if pos then (starts s).getD c s.length
  else ((starts s).reverse).getD (c - 1) 0

/-- a slice bound: `none` = null / absent, `some i` an integer -/
def boundIndex (s : Bytes) (dflt : Nat) : Option Int → Nat
  | none => dflt
  | some i => byteIndex s (0 ≤ i) i.natAbs

/-- `skip_take_chars` followed by `b.slice(skip..skip + take)` -/
def sliceChars (s : Bytes) (i j : Option Int) : Bytes :=
  let from_ := boundIndex s 0 i
  let upto := boundIndex s s.length j
  (s.drop from_).take (upto - from_)

/-- `abs_bound` of jaq-json for small integers -/
def absBound (len : Nat) (dflt : Nat) : Option Int → Nat
  | none => dflt
  | some i => if 0 ≤ i then min i.natAbs len else len - min i.natAbs len

/-- `skip_take_bytes` -/
def sliceBytes (s : Bytes) (i j : Option Int) : Bytes :=
  let from_ := absBound s.length 0 i
  let upto := absBound s.length s.length j
  (s.drop from_).take (upto - from_)

/-- `indices` on text strings: for every character start (numbered), until the needle no longer
fits (`map_while`), keep the numbers where the needle is a prefix of the rest -/
def indicesFrom (y : Bytes) : Nat → Bytes → List Bytes → List Nat
  | _, _, [] => []
  | k, rest, c :: cs =>
    if rest.length < y.length then []
    else (if y.isPrefixOf rest then [k] else []) ++ indicesFrom y (k + 1) (rest.drop c.length) cs

def indicesStr (s y : Bytes) : List Nat :=
  if y.isEmpty then [] else indicesFrom y 0 s (Utf8.chars s)

/-! REPAIRED BEHAVIOUR (design/fixes/C13-indices-char-boundary.diff) — integrator switch:
`indicesRepaired = false` follows the code as it is; `true` (after the fix) additionally requires a
match to END on a character boundary. -/

def indicesRepaired : Bool := true

def indicesStrRepaired (s y : Bytes) : List Nat :=
  (indicesStr s y).filter fun k =>
    (starts s ++ [s.length]).contains ((starts s).getD k s.length + y.length)

/-- `indices` on byte strings: `windows(len).enumerate()` -/
def indicesBytesFrom (y : Bytes) : Nat → Bytes → List Nat
  | _, [] => []
  | k, b :: rest =>
    if (b :: rest).length < y.length then []
    else (if y.isPrefixOf (b :: rest) then [k] else []) ++ indicesBytesFrom y (k + 1) rest

def indicesBytes (s y : Bytes) : List Nat :=
  if y.isEmpty then [] else indicesBytesFrom y 0 s

/-! ## split / join -/

/-- `join($s)` on an array of strings: `x1 + $s + x2 + … + xn` -/
def joinBytes (sep : Bytes) (xs : List Bytes) : Bytes := joinWith sep xs

/-- `strip_prefix` / `strip_suffix` (input returned unchanged when the fix is absent) -/
def ltrimstr (s pre : Bytes) : Bytes := if pre.isPrefixOf s then s.drop pre.length else s
def rtrimstr (s suf : Bytes) : Bytes :=
  if suf.reverse.isPrefixOf s.reverse then s.take (s.length - suf.length) else s
def startswith (s pre : Bytes) : Bool := pre.isPrefixOf s
def endswith (s suf : Bytes) : Bool := suf.reverse.isPrefixOf s.reverse

/-! ## tobytes / tostring -/

/-- `Val::to_bytes` (fuel = size) -/
def toBytesF : Nat → Val → Option Bytes
  | 0, _ => none
  | n + 1, v =>
    match v with
    | .num x =>
      match Num.asIsize x with
      | some i => if 0 ≤ i ∧ i ≤ 255 then some [UInt8.ofNat i.toNat] else none
      | none => none
    | .bstr b => some b
    | .tstr b => some b
    | .arr a =>
      a.foldl (fun acc x =>
        match acc, toBytesF n x with
        | some r, some b => some (r ++ b)
        | _, _ => none) (some [])
    | _ => none

def toBytes (v : Val) : Option Bytes := toBytesF v.size v

end Jaq.C13
