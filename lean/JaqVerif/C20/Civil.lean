/-
  C20 — the proleptic Gregorian calendar, written independently of jiff.

  This file is the *specification* against which jaq's date and time filters are judged.
  It is deliberately written in the plainest possible form (no Hinnant / Neri–Schneider
  shifted-era arithmetic, which is what jiff uses):

    * `daysBeforeYear y` = 365·(y−1) + ⌊(y−1)/4⌋ − ⌊(y−1)/100⌋ + ⌊(y−1)/400⌋
      (days from 0001-01-01 to y-01-01, all `Int`, floor division),
    * a 12-row table of days before each month,
    * `daysFromCivil`  = sum of the two, shifted so that 1970-01-01 is day 0,
    * `civilFromDays`  = estimate the year by `400·N / 146097`, correct by at most one, then
      search the month table.

  Core Lean only (linked into the model driver).
-/

namespace Jaq.Time

/-- Gregorian leap-year rule -/
def isLeap (y : Int) : Bool := y % 4 == 0 && (y % 100 != 0 || y % 400 == 0)

def leapDays (y : Int) : Int := if isLeap y then 1 else 0

/-- days from 0001-01-01 to `y`-01-01 (negative for `y ≤ 0`; year 0 = 1 BCE exists) -/
def daysBeforeYear (y : Int) : Int :=
  365 * (y - 1) + (y - 1) / 4 - (y - 1) / 100 + (y - 1) / 400

/-- days of the year before the first of month `m` (1..12); 365/366 for `m = 13` -/
def daysBeforeMonth (leap : Bool) (m : Int) : Int :=
  if m ≤ 1 then 0
  else if m = 2 then 31
  else (if leap then 1 else 0) +
    (if m = 3 then 59 else if m = 4 then 90 else if m = 5 then 120 else if m = 6 then 151
     else if m = 7 then 181 else if m = 8 then 212 else if m = 9 then 243 else if m = 10 then 273
     else if m = 11 then 304 else if m = 12 then 334 else 365)

def daysInMonth (y m : Int) : Int :=
  daysBeforeMonth (isLeap y) (m + 1) - daysBeforeMonth (isLeap y) m

def daysInYear (y : Int) : Int := 365 + leapDays y

/-- `daysBeforeYear 1970` -/
def epochShift : Int := 719162

/-- a calendar date that exists -/
def validDate (y m d : Int) : Prop := 1 ≤ m ∧ m ≤ 12 ∧ 1 ≤ d ∧ d ≤ daysInMonth y m

instance (y m d : Int) : Decidable (validDate y m d) := by unfold validDate; infer_instance

/-- days from 1970-01-01 to the civil date `y-m-d` -/
def daysFromCivil (y m d : Int) : Int :=
  daysBeforeYear y + daysBeforeMonth (isLeap y) m + (d - 1) - epochShift

/-- the year containing day `N` (counted from 0001-01-01): estimate, then correct by one -/
def yearOfDays (N : Int) : Int :=
  let y0 := (400 * N) / 146097 + 1
  if N < daysBeforeYear y0 then y0 - 1
  else if daysBeforeYear (y0 + 1) ≤ N then y0 + 1
  else y0

/-- the month (1..12) containing day-of-year `doy` (0-based): linear search from December -/
def monthOfYearday (leap : Bool) (doy : Int) : Int :=
  if daysBeforeMonth leap 12 ≤ doy then 12
  else if daysBeforeMonth leap 11 ≤ doy then 11
  else if daysBeforeMonth leap 10 ≤ doy then 10
  else if daysBeforeMonth leap 9 ≤ doy then 9
  else if daysBeforeMonth leap 8 ≤ doy then 8
  else if daysBeforeMonth leap 7 ≤ doy then 7
  else if daysBeforeMonth leap 6 ≤ doy then 6
  else if daysBeforeMonth leap 5 ≤ doy then 5
  else if daysBeforeMonth leap 4 ≤ doy then 4
  else if daysBeforeMonth leap 3 ≤ doy then 3
  else if daysBeforeMonth leap 2 ≤ doy then 2
  else 1

/-- civil date `(y, m, d)` of day `n` (days since 1970-01-01) -/
def civilFromDays (n : Int) : Int × Int × Int :=
  let N := n + epochShift
  let y := yearOfDays N
  let doy := N - daysBeforeYear y
  let m := monthOfYearday (isLeap y) doy
  (y, m, doy - daysBeforeMonth (isLeap y) m + 1)

/-- day of the week, Sunday = 0; 1970-01-01 (day 0) was a Thursday -/
def weekday (n : Int) : Int := (n + 4) % 7

/-- day of the year, 0-based, of day `n` -/
def yearday (n : Int) : Int :=
  let N := n + epochShift
  N - daysBeforeYear (yearOfDays N)

end Jaq.Time
