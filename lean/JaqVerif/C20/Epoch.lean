/-
  C20 — impl-model of `/repo/jaq-std/src/time.rs`, function by function:
  `epoch_to_timestamp`, `timestamp_to_epoch`, `array_to_datetime`, `datetime_to_array`,
  `from_iso8601`, `to_iso8601`, `gmtime`, `mktime`.

  Machine arithmetic is modelled as it is written in the Rust code:
    * `i as i64 * 1000000` and `i8 + 1` overflow: **panic** in a build with overflow checks
      (debug, the harness), two's-complement **wrap** otherwise — `Except Panic`, selected by
      `Build.overflowChecks`;
    * `f64 as i64 / i8 / i32` casts saturate and send NaN to 0 (`castSat`);
    * floats are the shared pure-integer IEEE model `Jaq.F64`.

  jiff (third party) is a *parameter*: the pieces of it that `time.rs` calls are specified
  here through the independent calendar `Civil.lean` (`Timestamp` = nanoseconds since the
  epoch with jiff's documented range, `DateTime::new` = field range checks, UTC conversion =
  `civilFromDays`/`daysFromCivil`, the RFC 3339 printer and a strict RFC 3339 parser).  The
  correspondence of `checks/c20.py` runs the real filters against this model.

  The repairs proposed in `design/fixes/C20-*.diff` are behind the flags of `Fixes`;
  `treeFixes` is the single place the integrator switches after applying them.
-/
import JaqVerif.C20.Civil
import JaqVerif.Val.Arith

namespace Jaq.Time

/-! ## configuration -/

/-- which of the proposed repairs are applied to `time.rs` -/
structure Fixes where
  /-- F-20a: `i.checked_mul(1000000)` → error instead of `i as i64 * 1000000` -/
  checkedMul : Bool
  /-- F-20b / F-20d: non-finite epochs and non-finite seconds are rejected -/
  rejectNonFinite : Bool
  /-- F-20c: `mktime` takes the fractional path when `subsec_nanosecond() != 0` (was `> 0`) -/
  negFrac : Bool
  /-- F-05b: `i8(month)?.checked_add(1)?` instead of `i8(month)? + 1` -/
  checkedAdd : Bool
  /-- F-20e: `from_iso8601` decides on `subsec_nanosecond() != 0` (was `s.contains('.')`) -/
  fracBySubsec : Bool
  /-- F-20f: `(f * 1e6).round() as i64` and `((sec.fract() * 1e9).round() as i32).min(999_999_999)`
  instead of truncating casts -/
  roundNanos : Bool
  deriving DecidableEq, Repr

def Fixes.none : Fixes := ⟨false, false, false, false, false, false⟩
def Fixes.all : Fixes := ⟨true, true, true, true, true, true⟩

/-- **THE SWITCH**: the state of `/repo/jaq-std/src/time.rs` that the check compares with.
`Fixes.none` = the tree as found; set the flags (or `Fixes.all`) after applying the diffs. -/
def treeFixes : Fixes := Fixes.all

structure Build where
  /-- `-C overflow-checks` (on in debug builds and in the verification harness) -/
  overflowChecks : Bool
  deriving DecidableEq, Repr

inductive Panic where
  | mulOverflow   -- "attempt to multiply with overflow" (time.rs:8)
  | addOverflow   -- "attempt to add with overflow" (time.rs:32)
  deriving DecidableEq, Repr

/-- outcome of a filter: a panic, or jaq's `Result<Val, Error>` -/
abbrev Out (α : Type) := Except Panic (Except Err α)

def Out.val {α} (a : α) : Out α := .ok (.ok a)
def Out.err {α} (e : Err) : Out α := .ok (.error e)
def Out.panic {α} (p : Panic) : Out α := .error p

def Out.isErr {α} : Out α → Bool
  | .ok (.error _) => true
  | _ => false

/-- `Error::str(jiff error)` -/
def errJiff : Err := .str "jiff"
/-- `Error::str("cannot convert {v} to time")` -/
def errFail : Err := .str "cannot convert"

/-! ## machine integers and casts -/

def fitsI64 (x : Int) : Bool := fitsIsize x
/-- two's-complement wrap to 64 bits -/
def wrapI64 (x : Int) : Int := (x + 9223372036854775808) % 18446744073709551616 - 9223372036854775808
/-- two's-complement wrap to 8 bits -/
def wrapI8 (x : Int) : Int := (x + 128) % 256 - 128

def fitsI8 (x : Int) : Bool := decide (-128 ≤ x) && decide (x ≤ 127)
def fitsI16 (x : Int) : Bool := decide (-32768 ≤ x) && decide (x ≤ 32767)

/-- Rust `f as iN` for a float: saturating, NaN → 0 -/
def castSat (lo hi : Int) (f : UInt64) : Int :=
  if F64.isNaN f then 0
  else if F64.isInf f then (if F64.signBit f then lo else hi)
  else
    let t := F64.trunc f
    if t < lo then lo else if t > hi then hi else t

/-- `f.round()` (half away from zero) of a finite float, as the exact integer -/
def roundInt (f : UInt64) : Int :=
  let m := Int.ofNat ((2 * F64.magUnits f + 2 ^ 1074) / 2 ^ 1075)
  if F64.signBit f then -m else m

/-- `f.round() as iN` -/
def castSatRound (lo hi : Int) (f : UInt64) : Int :=
  if F64.isNaN f then 0
  else if F64.isInf f then (if F64.signBit f then lo else hi)
  else
    let t := roundInt f
    if t < lo then lo else if t > hi then hi else t

/-- `f.floor()` of a finite float, as the exact integer -/
def floorInt (f : UInt64) : Int :=
  let t := F64.trunc f
  if F64.signBit f && F64.magUnits f % 2 ^ 1074 != 0 then t - 1 else t

/-- `f.floor() as i8` -/
def floorCastI8 (f : UInt64) : Int :=
  if F64.isNaN f then 0
  else if F64.isInf f then (if F64.signBit f then -128 else 127)
  else
    let t := floorInt f
    if t < -128 then -128 else if t > 127 then 127 else t

/-- `f.trunc()` as a float -/
def truncF (f : UInt64) : UInt64 :=
  if !F64.isFinite f then f
  else
    let t := F64.trunc f
    if t == 0 then F64.zero (F64.signBit f) else F64.ofInt t

/-- `f.fract()` = `f - f.trunc()` -/
def fractF (f : UInt64) : UInt64 := F64.sub f (truncF f)

def f1e6 : UInt64 := F64.ofInt 1000000
def f1e9 : UInt64 := F64.ofInt 1000000000

/-! ## jiff, as far as `time.rs` uses it (parameter; specified by `Civil.lean`) -/

/-- `b::UnixSeconds::{MIN,MAX}`: -9999-01-02T01:59:59Z ..= 9999-12-30T22:00:00Z -/
def unixSecMin : Int := -377705023201
def unixSecMax : Int := 253402207200

/-- `jiff::Timestamp`: an instant as nanoseconds since the Unix epoch -/
structure Timestamp where
  ns : Int
  deriving DecidableEq, Repr

/-- the range invariant of `Timestamp` (`Timestamp::new`) -/
def Timestamp.inRange (ns : Int) : Bool :=
  decide (unixSecMin * 1000000000 ≤ ns) && decide (ns ≤ unixSecMax * 1000000000 + 999999999)

/-- `Timestamp::from_microsecond` (`b::UnixMicroseconds::check`) -/
def Timestamp.fromMicrosecond (us : Int) : Option Timestamp :=
  if unixSecMin * 1000000 ≤ us ∧ us ≤ unixSecMax * 1000000 then some ⟨us * 1000⟩ else none

/-- `Timestamp::from_second` (`b::UnixSeconds::check`) -/
def Timestamp.fromSecond (s : Int) : Option Timestamp :=
  if unixSecMin ≤ s ∧ s ≤ unixSecMax then some ⟨s * 1000000000⟩ else none

/-- `Timestamp::as_second`: truncates toward zero -/
def Timestamp.asSecond (t : Timestamp) : Int := Int.tdiv t.ns 1000000000
/-- `Timestamp::subsec_nanosecond`: has the sign of the instant -/
def Timestamp.subsecNanosecond (t : Timestamp) : Int := Int.tmod t.ns 1000000000
/-- `Timestamp::as_microsecond`: truncates toward zero -/
def Timestamp.asMicrosecond (t : Timestamp) : Int := Int.tdiv t.ns 1000

/-- `jiff::civil::DateTime` -/
structure DateTime where
  year : Int
  month : Int
  day : Int
  hour : Int
  minute : Int
  second : Int
  nanos : Int
  deriving DecidableEq, Repr

/-- `DateTime::new`: `Date::new` + `Time::new` range checks (no leap second) -/
def DateTime.new (y m d h mi s ns : Int) : Option DateTime :=
  if -9999 ≤ y ∧ y ≤ 9999 ∧ validDate y m d ∧ 0 ≤ h ∧ h ≤ 23 ∧ 0 ≤ mi ∧ mi ≤ 59 ∧ 0 ≤ s ∧ s ≤ 59
      ∧ 0 ≤ ns ∧ ns ≤ 999999999
  then some ⟨y, m, d, h, mi, s, ns⟩ else none

/-- nanoseconds since the epoch of a civil date-time read as UTC -/
def DateTime.toNs (dt : DateTime) : Int :=
  ((daysFromCivil dt.year dt.month dt.day * 86400 + dt.hour * 3600 + dt.minute * 60 + dt.second)
    * 1000000000) + dt.nanos

/-- `dt.to_zoned(UTC)?.timestamp()`: fails outside the `Timestamp` range -/
def DateTime.toTimestampUTC (dt : DateTime) : Option Timestamp :=
  if Timestamp.inRange dt.toNs then some ⟨dt.toNs⟩ else none

/-- `ts.to_zoned(UTC).into()`: the UTC civil date-time of an instant (floor semantics) -/
def Timestamp.toDateTimeUTC (t : Timestamp) : DateTime :=
  let secs := t.ns / 1000000000
  let nanos := t.ns % 1000000000
  let days := secs / 86400
  let sod := secs % 86400
  let c := civilFromDays days
  ⟨c.1, c.2.1, c.2.2, sod / 3600, sod % 3600 / 60, sod % 60, nanos⟩

/-- `dt.weekday().to_sunday_zero_offset()` -/
def DateTime.weekday (dt : DateTime) : Int := Time.weekday (daysFromCivil dt.year dt.month dt.day)
/-- `dt.day_of_year() - 1` -/
def DateTime.yearday (dt : DateTime) : Int :=
  daysFromCivil dt.year dt.month dt.day - daysFromCivil dt.year 1 1

/-! ### the RFC 3339 printer (`Timestamp: Display`) and a strict parser (`str::parse`) -/

def digitChar (n : Int) : Char := Char.ofNat (48 + n.toNat % 10)
def pad2 (n : Int) : List Char := [digitChar (n / 10), digitChar n]
def pad4 (n : Int) : List Char := [digitChar (n / 1000), digitChar (n / 100), digitChar (n / 10), digitChar n]
def pad9 (n : Int) : List Char :=
  [digitChar (n / 100000000), digitChar (n / 10000000), digitChar (n / 1000000), digitChar (n / 100000),
   digitChar (n / 10000), digitChar (n / 1000), digitChar (n / 100), digitChar (n / 10), digitChar n]

/-- drop trailing `'0'`s -/
def trimZeros (cs : List Char) : List Char := (cs.reverse.dropWhile (· == '0')).reverse

/-- `DateTimePrinter::print_timestamp`: `[-00]YYYY-MM-DDTHH:MM:SS[.f{1,9}]Z` -/
def printDateTimeZ (dt : DateTime) : List Char :=
  (if dt.year < 0 then ['-', '0', '0'] else []) ++ pad4 (if dt.year < 0 then -dt.year else dt.year) ++ ['-'] ++ pad2 dt.month ++ ['-'] ++ pad2 dt.day ++
  ['T'] ++ pad2 dt.hour ++ [':'] ++ pad2 dt.minute ++ [':'] ++ pad2 dt.second ++
  (if dt.nanos != 0 then '.' :: trimZeros (pad9 dt.nanos) else []) ++ ['Z']

def Timestamp.print (t : Timestamp) : List Char := printDateTimeZ t.toDateTimeUTC

def digitVal (c : Char) : Option Int :=
  if '0' ≤ c ∧ c ≤ '9' then some (Int.ofNat (c.toNat - 48)) else none

def isDigitC (c : Char) : Bool := (digitVal c).isSome

/-- read exactly `k` decimal digits -/
def readDigits : Nat → Int → List Char → Option (Int × List Char)
  | 0, acc, cs => some (acc, cs)
  | k + 1, acc, c :: cs =>
    match digitVal c with
    | some d => readDigits k (10 * acc + d) cs
    | none => none
  | _ + 1, _, [] => none

def expect (c : Char) : List Char → Option (List Char)
  | d :: cs => if c == d then some cs else none
  | [] => none

/-- result of the strict parser: the text is outside the modelled syntax (jiff accepts many
more ISO 8601 forms; they are compared with Python instead), is rejected, or is an instant -/
inductive Parsed where
  | unmodelled
  | reject
  | ok (t : Timestamp)
  deriving DecidableEq, Repr

/-- the syntactic fields `(negYear, year, month, day, hour, minute, second, fractionDigits, offsetSeconds)` -/
def parseFields (cs : List Char) : Option (Int × Int × Int × Int × Int × Int × List Char × Option Int) := do
  let (neg, cs) := match cs with
    | '-' :: r => (true, r)
    | r => (false, r)
  let (y, cs) ← readDigits (if neg then 6 else 4) 0 cs
  if neg && y == 0 then none
  let cs ← expect '-' cs
  let (mo, cs) ← readDigits 2 0 cs
  let cs ← expect '-' cs
  let (d, cs) ← readDigits 2 0 cs
  let cs ← expect 'T' cs
  let (h, cs) ← readDigits 2 0 cs
  let cs ← expect ':' cs
  let (mi, cs) ← readDigits 2 0 cs
  let cs ← expect ':' cs
  let (s, cs) ← readDigits 2 0 cs
  let (fr, cs) ← match cs with
    | '.' :: r =>
      let ds := r.takeWhile isDigitC
      if ds.isEmpty || ds.length > 9 then none else some (ds, r.dropWhile isDigitC)
    | r => some ([], r)
  let off : Option Int ← match cs with
    | ['Z'] => some (some 0)
    | sg :: r =>
      if sg == '+' || sg == '-' then do
        let (oh, r) ← readDigits 2 0 r
        let r ← expect ':' r
        let (om, r) ← readDigits 2 0 r
        if !r.isEmpty then none
        if oh > 25 || om > 59 then some none
        else some (some ((if sg == '-' then -1 else 1) * (oh * 3600 + om * 60)))
      else none
    | [] => none
  pure ((if neg then -y else y), mo, d, h, mi, s, fr, off)

/-- value of 1..9 fraction digits in nanoseconds -/
def fracNanos (fr : List Char) : Int :=
  (fr.foldl (fun a c => 10 * a + (digitVal c).getD 0) 0) * (10 : Int) ^ (9 - fr.length)

/-- strict RFC 3339 `date-time` → instant (the `str::parse::<Timestamp>()` of `from_iso8601`
on the syntax that `todate` prints, plus numeric offsets) -/
def parseIso (cs : List Char) : Parsed :=
  match parseFields cs with
  | none => .unmodelled
  | some (y, mo, d, h, mi, s, fr, off) =>
    if s == 60 then .unmodelled        -- jiff clamps a leap second to :59; not modelled
    else
      match off, DateTime.new y mo d h mi s (fracNanos fr) with
      | some o, some dt =>
        let ns := dt.toNs - o * 1000000000
        if Timestamp.inRange ns then .ok ⟨ns⟩ else .reject
      | _, _ => .reject

/-! ## `time.rs` -/

/-- `Val::as_isize` -/
def valAsIsize : Val → Option Int
  | .num n => Num.asIsize n
  | _ => none

/-- `Val::as_f64` -/
def valAsF64 : Val → Option UInt64
  | .num n => some (Num.toF64 n)
  | _ => none

/-- `i as i64 * 1000000` -/
def mulMicros (fx : Fixes) (b : Build) (i : Int) : Out Int :=
  let p := i * 1000000
  if fitsI64 p then .val p
  else if fx.checkedMul then .err errJiff       -- FIXED behaviour: out of range error
  else if b.overflowChecks then .panic .mulOverflow
  else .val (wrapI64 p)

/-- `(f * 1e6) as i64` -/
def floatMicros (fx : Fixes) (f : UInt64) : Int :=
  if fx.roundNanos then castSatRound isizeMin isizeMax (F64.mul f f1e6)   -- FIXED behaviour: `(f * 1e6).round() as i64`
  else castSat isizeMin isizeMax (F64.mul f f1e6)

/-- `epoch_to_timestamp` -/
def epochToTimestamp (fx : Fixes) (b : Build) (v : Val) : Out Timestamp :=
  match valAsIsize v with
  | some i =>
    match mulMicros fx b i with
    | .ok (.ok us) =>
      match Timestamp.fromMicrosecond us with
      | some t => .val t
      | none => .err errJiff
    | .ok (.error e) => .err e
    | .error p => .panic p
  | none =>
    match valAsF64 v with
    | none => .err (.typ v "number")
    | some f =>
      if fx.rejectNonFinite && !F64.isFinite f then .err errJiff   -- FIXED behaviour
      else
        match Timestamp.fromMicrosecond (floatMicros fx f) with
        | some t => .val t
        | none => .err errJiff

/-- `timestamp_to_epoch` -/
def timestampToEpoch (t : Timestamp) (frac : Bool) : Val :=
  if frac then .num (.float (F64.div (F64.ofInt t.asMicrosecond) f1e6))
  else .num (.int t.asSecond)

/-- result of `array_to_datetime`: `None`, `Some(Err(_))`, `Some(Ok(dt))` -/
inductive A2D where
  | shape
  | range
  | ok (dt : DateTime)
  deriving DecidableEq, Repr

def valI8 (v : Val) : Option Int :=
  match valAsIsize v with
  | some i => if fitsI8 i then some i else none
  | none => none

/-- `i8(month)? + 1` -/
def monthPlus1 (fx : Fixes) (b : Build) (m : Int) : Except Panic (Option Int) :=
  if m + 1 ≤ 127 then .ok (some (m + 1))
  else if fx.checkedAdd then .ok none             -- FIXED behaviour: `checked_add(1)?`
  else if b.overflowChecks then .error .addOverflow
  else .ok (some (wrapI8 (m + 1)))

/-- `(sec.fract() * 1e9) as i32` -/
def subsecNanos (fx : Fixes) (secF : UInt64) : Int :=
  if fx.roundNanos then   -- FIXED behaviour: `((sec.fract() * 1e9).round() as i32).min(999_999_999)`
    let r := castSatRound (-2147483648) 2147483647 (F64.mul (fractF secF) f1e9)
    if r > 999999999 then 999999999 else r
  else castSat (-2147483648) 2147483647 (F64.mul (fractF secF) f1e9)

/-- `array_to_datetime` (evaluation order as in the Rust code: length, seconds, year,
month (+1), day, hour, minute; then jiff's range checks) -/
def arrayToDateTime (fx : Fixes) (b : Build) (v : List Val) : Except Panic A2D :=
  match v with
  | year :: month :: day :: hour :: min :: sec :: _ =>
    match valAsF64 sec with
    | none => .ok .shape
    | some secF =>
      if fx.rejectNonFinite && !F64.isFinite secF then .ok .shape   -- FIXED behaviour
      else
      match valAsIsize year with
      | none => .ok .shape
      | some y =>
        if !fitsI16 y then .ok .shape else
        match valI8 month with
        | none => .ok .shape
        | some m0 =>
          match monthPlus1 fx b m0 with
          | .error p => .error p
          | .ok none => .ok .shape
          | .ok (some m) =>
            match valI8 day, valI8 hour, valI8 min with
            | some d, some h, some mi =>
              match DateTime.new y m d h mi (floorCastI8 secF) (subsecNanos fx secF) with
              | some dt => .ok (.ok dt)
              | none => .ok .range
            | _, _, _ => .ok .shape
  | _ => .ok .shape

/-- the seconds entry of `datetime_to_array` -/
def secondsVal (dt : DateTime) : Val :=
  if dt.nanos > 0 then
    .num (.float (F64.add (F64.ofInt dt.second) (F64.div (F64.ofInt dt.nanos) f1e9)))
  else .num (.int dt.second)

/-- `datetime_to_array` -/
def dateTimeToArray (dt : DateTime) : Val :=
  .arr [.num (.int dt.year), .num (.int (dt.month - 1)), .num (.int dt.day), .num (.int dt.hour),
        .num (.int dt.minute), secondsVal dt, .num (.int dt.weekday), .num (.int dt.yearday)]

/-- `gmtime(v, UTC)` -/
def gmtime (fx : Fixes) (b : Build) (v : Val) : Out Val :=
  match epochToTimestamp fx b v with
  | .ok (.ok t) => .val (dateTimeToArray t.toDateTimeUTC)
  | .ok (.error e) => .err e
  | .error p => .panic p

/-- `mktime` -/
def mktime (fx : Fixes) (b : Build) (v : Val) : Out Val :=
  match v with
  | .arr a =>
    match arrayToDateTime fx b a with
    | .error p => .panic p
    | .ok .shape => .err errFail
    | .ok .range => .err errJiff
    | .ok (.ok dt) =>
      match dt.toTimestampUTC with
      | none => .err errJiff
      | some t =>
        let frac := if fx.negFrac then t.subsecNanosecond != 0   -- FIXED behaviour
                    else decide (t.subsecNanosecond > 0)
        .val (timestampToEpoch t frac)
  | _ => .err (.typ v "array")

/-- `to_iso8601` (the text as characters) -/
def toIso8601 (fx : Fixes) (v : Val) : Except Err (List Char) :=
  match valAsIsize v with
  | some i =>
    match Timestamp.fromSecond i with
    | some t => .ok t.print
    | none => .error errJiff
  | none =>
    match valAsF64 v with
    | none => .error (.typ v "number")
    | some f =>
      if fx.rejectNonFinite && !F64.isFinite f then .error errJiff   -- FIXED behaviour
      else
        match Timestamp.fromMicrosecond (floatMicros fx f) with
        | some t => .ok t.print
        | none => .error errJiff

/-- `from_iso8601` on a parsed instant: the `frac` flag is `s.contains('.')` -/
def fromIso8601 (fx : Fixes) (cs : List Char) : Option (Except Err Val) :=
  match parseIso cs with
  | .unmodelled => none
  | .reject => some (.error errJiff)
  | .ok t =>
    let frac := if fx.fracBySubsec then t.subsecNanosecond != 0   -- FIXED behaviour
                else cs.contains '.'
    some (.ok (timestampToEpoch t frac))

/-- `todate` as a filter: the text value -/
def todate (fx : Fixes) (v : Val) : Except Err Val :=
  match toIso8601 fx v with
  | .ok cs => .ok (.tstr (cs.map fun c => UInt8.ofNat c.toNat))
  | .error e => .error e

/-- `fromdate` as a filter (`try_as_str` first); `none` = text outside the modelled syntax -/
def fromdate (fx : Fixes) (v : Val) : Option (Except Err Val) :=
  match v with
  | .tstr bs =>
    if bs.all (fun b => b.toNat < 128) then fromIso8601 fx (bs.map fun b => Char.ofNat b.toNat)
    else none
  | _ => some (.error (.typ v "string"))

end Jaq.Time
