/-
  C20 — model of `strftime` / `strptime` of `/repo/jaq-std/src/time.rs` for a subset of the
  format directives, following jiff 0.2.23 `fmt/strtime/{printer,parse,mod}.rs` (a parameter of
  the model: specified here, exercised by the correspondence `c20 fmtcorr` and pinned by the
  regenerated table `Gen/C20Strtime.lean`).

  Modelled directives: `%Y %m %d %e %H %M %S %j %a %b %h %z %Z %s %% %F %T` without flags, widths
  or colons, and ASCII literal bytes.  `%F` and `%T` are expanded by `parseFormat` into
  `%Y-%m-%d` (with the `%F` way of printing the year) and `%H:%M:%S`, which is what jiff's
  nested parser / `fmt_iso_date` / `fmt_clock_secs` do.  Everything else is "outside the model"
  (`parseFormat = none`, answered `U` by the driver).

  Texts and formats are byte strings; a byte is represented by the `Char` with the same code.

  Core Lean only (linked into the model driver).
-/
import JaqVerif.C20.Epoch

set_option linter.constructorNameAsVariable false

namespace Jaq.Time

/-! ## format strings -/

/-- conversion specifiers (`Yiso` = the year as `%F` prints it) -/
inductive Dir where
  | Y | Yiso | m | d | e | H | M | S | j | a | b | z | Z | s | pct
  deriving DecidableEq, Repr

inductive Item where
  | lit (c : Char)
  | dir (d : Dir)
  deriving DecidableEq, Repr

/-- the items of the directive `%c` -/
def dirOfChar (c : Char) : Option (List Item) :=
  if c = 'Y' then some [.dir .Y]
  else if c = 'm' then some [.dir .m]
  else if c = 'd' then some [.dir .d]
  else if c = 'e' then some [.dir .e]
  else if c = 'H' then some [.dir .H]
  else if c = 'M' then some [.dir .M]
  else if c = 'S' then some [.dir .S]
  else if c = 'j' then some [.dir .j]
  else if c = 'a' then some [.dir .a]
  else if c = 'b' then some [.dir .b]
  else if c = 'h' then some [.dir .b]
  else if c = 'z' then some [.dir .z]
  else if c = 'Z' then some [.dir .Z]
  else if c = 's' then some [.dir .s]
  else if c = '%' then some [.dir .pct]
  else if c = 'F' then some [.dir .Yiso, .lit '-', .dir .m, .lit '-', .dir .d]
  else if c = 'T' then some [.dir .H, .lit ':', .dir .M, .lit ':', .dir .S]
  else none

/-- format string → items; `none` = outside the model (unknown directive, flag, width, colon,
`%` at the end, non-ASCII byte) -/
def parseFormat : List Char → Option (List Item)
  | [] => some []
  | c :: rest =>
    if c = '%' then
      match rest with
      | [] => none
      | d :: rest' =>
        match dirOfChar d, parseFormat rest' with
        | some is, some r => some (is ++ r)
        | _, _ => none
    else if c.toNat < 128 then
      match parseFormat rest with
      | some r => some (.lit c :: r)
      | none => none
    else none

/-! ## `strtime::format(fmt, &zoned)` for a UTC `Zoned` -/

def pad3 (n : Int) : List Char := [digitChar (n / 100), digitChar (n / 10), digitChar n]

/-- decimal digits of `n` without padding (fuel = maximal number of digits) -/
def natDigits : Nat → Int → List Char
  | 0, _ => []
  | f + 1, n => if n < 10 then [digitChar n] else natDigits f (n / 10) ++ [digitChar n]

def wdayName (w : Int) : List Char :=
  if w = 0 then ['S', 'u', 'n'] else if w = 1 then ['M', 'o', 'n'] else if w = 2 then ['T', 'u', 'e']
  else if w = 3 then ['W', 'e', 'd'] else if w = 4 then ['T', 'h', 'u'] else if w = 5 then ['F', 'r', 'i']
  else ['S', 'a', 't']

def monName (m : Int) : List Char :=
  if m = 1 then ['J', 'a', 'n'] else if m = 2 then ['F', 'e', 'b'] else if m = 3 then ['M', 'a', 'r']
  else if m = 4 then ['A', 'p', 'r'] else if m = 5 then ['M', 'a', 'y'] else if m = 6 then ['J', 'u', 'n']
  else if m = 7 then ['J', 'u', 'l'] else if m = 8 then ['A', 'u', 'g'] else if m = 9 then ['S', 'e', 'p']
  else if m = 10 then ['O', 'c', 't'] else if m = 11 then ['N', 'o', 'v'] else ['D', 'e', 'c']

/-- `%Y`: `ItemInteger('0', 4, year)`; a negative year goes through `write_negative_int`
(the sign counts for the width: `-` and at least 3 digits) -/
def fmtYear (y : Int) : List Char :=
  if y < 0 then '-' :: (if -y ≤ 999 then pad3 (-y) else pad4 (-y)) else pad4 y

/-- the year of `%F`: sign, then `write_int_pad4` -/
def fmtYearIso (y : Int) : List Char :=
  if y < 0 then '-' :: pad4 (-y) else pad4 y

/-- `%e`: `write_int_pad2_space` -/
def fmtDaySpace (d : Int) : List Char :=
  if d < 10 then [' ', digitChar d] else pad2 d

/-- `%s`: `ItemInteger(' ', 0, timestamp.as_second())` -/
def fmtEpoch (s : Int) : List Char :=
  if s < 0 then '-' :: natDigits 20 (-s) else natDigits 20 s

/-- one conversion specifier, for the instant `t` shown in UTC -/
def fmtDir (d : Dir) (t : Timestamp) : List Char :=
  match d with
  | .Y => fmtYear t.toDateTimeUTC.year
  | .Yiso => fmtYearIso t.toDateTimeUTC.year
  | .m => pad2 t.toDateTimeUTC.month
  | .d => pad2 t.toDateTimeUTC.day
  | .e => fmtDaySpace t.toDateTimeUTC.day
  | .H => pad2 t.toDateTimeUTC.hour
  | .M => pad2 t.toDateTimeUTC.minute
  | .S => pad2 t.toDateTimeUTC.second
  | .j => pad3 (t.toDateTimeUTC.yearday + 1)
  | .a => wdayName t.toDateTimeUTC.weekday
  | .b => monName t.toDateTimeUTC.month
  | .z => ['+', '0', '0', '0', '0']
  | .Z => ['U', 'T', 'C']
  | .s => fmtEpoch t.asSecond
  | .pct => ['%']

def fmtItem (it : Item) (t : Timestamp) : List Char :=
  match it with
  | .lit c => [c]
  | .dir d => fmtDir d t

/-- `strtime::format` on the items of a format string -/
def strftimeM : List Item → Timestamp → List Char
  | [], _ => []
  | it :: rest, t => fmtItem it t ++ strftimeM rest t

/-- `time.rs: strftime(v, fmt, UTC)` -/
def strftimeJaq (fx : Fixes) (b : Build) (items : List Item) (v : Val) : Out (List Char) :=
  match v with
  | .arr a =>
    match arrayToDateTime fx b a with
    | .error p => .panic p
    | .ok .shape => .err errFail
    | .ok .range => .err errJiff
    | .ok (.ok dt) =>
      match dt.toTimestampUTC with
      | none => .err errJiff
      | some t => .val (strftimeM items t)
  | _ =>
    match epochToTimestamp fx b v with
    | .ok (.ok t) => .val (strftimeM items t)
    | .ok (.error e) => .err e
    | .error p => .panic p

/-! ## `BrokenDownTime::parse(fmt, s)` -/

/-- the fields of `BrokenDownTime` that the modelled directives set -/
structure Bdt where
  year : Option Int
  month : Option Int
  day : Option Int
  hour : Option Int
  minute : Option Int
  second : Option Int
  doy : Option Int
  wday : Option Int
  offset : Option Int
  ts : Option Int
  deriving DecidableEq, Repr

def Bdt.empty : Bdt := ⟨none, none, none, none, none, none, none, none, none, none⟩

/-- `u8::is_ascii_whitespace` -/
def isWs (c : Char) : Bool :=
  c == ' ' || c == '\t' || c == '\n' || c == Char.ofNat 12 || c == '\r'

def dropWs : List Char → List Char
  | [] => []
  | c :: cs => if isWs c then dropWs cs else c :: cs

/-- read at most `k` decimal digits -/
def readUpTo : Nat → Int → List Char → Int × List Char
  | 0, acc, cs => (acc, cs)
  | _ + 1, acc, [] => (acc, [])
  | k + 1, acc, c :: cs =>
    match digitVal c with
    | some d => readUpTo k (10 * acc + d) cs
    | none => (acc, c :: cs)

/-- `Extension::parse_number(w, …)` without flag / width: blanks are skipped, then between one
and `w` digits are read -/
def parseNumber (w : Nat) (cs : List Char) : Option (Int × List Char) :=
  match dropWs cs with
  | [] => none
  | c :: r => if isDigitC c then some (readUpTo w 0 (c :: r)) else none

/-- `parse_optional_sign` -/
def optSign : List Char → Int × List Char
  | [] => (1, [])
  | c :: r => if c = '-' then (-1, r) else if c = '+' then (1, r) else (1, c :: r)

/-- a bounded number: `parse_number(w)` then `b::X::check` -/
def parseBounded (w : Nat) (lo hi : Int) (cs : List Char) : Option (Int × List Char) :=
  match parseNumber w cs with
  | none => none
  | some (n, r) => if lo ≤ n ∧ n ≤ hi then some (n, r) else none

/-- `u8::to_ascii_lowercase` -/
def lowerC (c : Char) : Char := if 65 ≤ c.toNat ∧ c.toNat ≤ 90 then Char.ofNat (c.toNat + 32) else c

def wdayIndex (a b c : Char) : Option Int :=
  if [a, b, c] = ['s', 'u', 'n'] then some 0 else if [a, b, c] = ['m', 'o', 'n'] then some 1
  else if [a, b, c] = ['t', 'u', 'e'] then some 2 else if [a, b, c] = ['w', 'e', 'd'] then some 3
  else if [a, b, c] = ['t', 'h', 'u'] then some 4 else if [a, b, c] = ['f', 'r', 'i'] then some 5
  else if [a, b, c] = ['s', 'a', 't'] then some 6 else none

def monIndex (a b c : Char) : Option Int :=
  if [a, b, c] = ['j', 'a', 'n'] then some 1 else if [a, b, c] = ['f', 'e', 'b'] then some 2
  else if [a, b, c] = ['m', 'a', 'r'] then some 3 else if [a, b, c] = ['a', 'p', 'r'] then some 4
  else if [a, b, c] = ['m', 'a', 'y'] then some 5 else if [a, b, c] = ['j', 'u', 'n'] then some 6
  else if [a, b, c] = ['j', 'u', 'l'] then some 7 else if [a, b, c] = ['a', 'u', 'g'] then some 8
  else if [a, b, c] = ['s', 'e', 'p'] then some 9 else if [a, b, c] = ['o', 'c', 't'] then some 10
  else if [a, b, c] = ['n', 'o', 'v'] then some 11 else if [a, b, c] = ['d', 'e', 'c'] then some 12
  else none

/-- `parse_weekday_abbrev` / `parse_month_name_abbrev`: three bytes, ASCII case-insensitive -/
def parseName3 (idx : Char → Char → Char → Option Int) : List Char → Option (Int × List Char)
  | a :: b :: c :: r =>
    match idx (lowerC a) (lowerC b) (lowerC c) with
    | some i => some (i, r)
    | none => none
  | _ => none

def twoDigits : List Char → Option (Int × List Char)
  | a :: b :: r =>
    match digitVal a, digitVal b with
    | some x, some y => some (10 * x + y, r)
    | _, _ => none
  | _ => none

def startsTwoDigits : List Char → Bool
  | a :: b :: _ => isDigitC a && isDigitC b
  | _ => false

def startsWithC (c : Char) : List Char → Bool
  | d :: _ => c == d
  | [] => false

/-- `%z`: `offset::Parser` with `zulu(false) require_minute(true) subminute(true)
subsecond(false) colon(Absent)`: sign, `HHMM`, optionally `SS`; seconds east of UTC -/
def parseOffset (cs : List Char) : Option (Int × List Char) :=
  match cs with
  | [] => none
  | sg :: r0 =>
    if sg = '+' ∨ sg = '-' then
      match twoDigits r0 with
      | none => none
      | some (h, r1) =>
        if h > 25 then none
        else if startsWithC ':' r1 then none
        else if !startsTwoDigits r1 then none
        else
          match twoDigits r1 with
          | none => none
          | some (mi, r2) =>
            if mi > 59 then none
            else if startsTwoDigits r2 then
              match twoDigits r2 with
              | none => none
              | some (s, r3) =>
                if s > 59 then none
                else if startsWithC '.' r3 || startsWithC ',' r3 then none
                else some ((if sg = '-' then -1 else 1) * (h * 3600 + mi * 60 + s), r3)
            else some ((if sg = '-' then -1 else 1) * (h * 3600 + mi * 60), r2)
    else none

def i64Max : Int := 9223372036854775807

/-- one conversion specifier of `Parser::parse` (the input is known to be non-empty) -/
def parseDirNE (d : Dir) (f : Bdt) (cs : List Char) : Option (Bdt × List Char) :=
  match d with
  | .Y | .Yiso =>
    match parseNumber 4 (optSign cs).2 with
    | none => none
    | some (n, r) =>
      if -9999 ≤ (optSign cs).1 * n ∧ (optSign cs).1 * n ≤ 9999 then some ({ f with year := some ((optSign cs).1 * n) }, r)
      else none
  | .m =>
    match parseBounded 2 1 12 cs with
    | some (n, r) => some ({ f with month := some n }, r)
    | none => none
  | .d | .e =>
    match parseBounded 2 1 31 cs with
    | some (n, r) => some ({ f with day := some n }, r)
    | none => none
  | .H =>
    match parseBounded 2 0 23 cs with
    | some (n, r) => some ({ f with hour := some n }, r)
    | none => none
  | .M =>
    match parseBounded 2 0 59 cs with
    | some (n, r) => some ({ f with minute := some n }, r)
    | none => none
  | .S =>
    -- 60 is clamped to 59 (no leap seconds)
    match parseBounded 2 0 60 cs with
    | some (n, r) => some ({ f with second := some (if n = 60 then 59 else n) }, r)
    | none => none
  | .j =>
    match parseBounded 3 1 366 cs with
    | some (n, r) => some ({ f with doy := some n }, r)
    | none => none
  | .a =>
    match parseName3 wdayIndex cs with
    | some (n, r) => some ({ f with wday := some n }, r)
    | none => none
  | .b =>
    match parseName3 monIndex cs with
    | some (n, r) => some ({ f with month := some n }, r)
    | none => none
  | .z =>
    match parseOffset cs with
    | some (n, r) => some ({ f with offset := some n }, r)
    | none => none
  | .Z => none     -- "parsing time zone abbreviation is not allowed"
  | .s =>
    -- sign, up to 19 digits (`TooBig` beyond `i64`), `Timestamp::from_second`
    match parseNumber 19 (optSign cs).2 with
    | none => none
    | some (n, r) =>
      if n > i64Max then none
      else if unixSecMin ≤ (optSign cs).1 * n ∧ (optSign cs).1 * n ≤ unixSecMax then
        some ({ f with ts := some ((optSign cs).1 * n) }, r)
      else none
  | .pct =>
    match cs with
    | c :: r => if c = '%' then some (f, r) else none
    | [] => none

/-- `parse_literal`: a blank in the format matches any number of blanks, another byte itself -/
def parseLit (c : Char) (cs : List Char) : Option (List Char) :=
  if isWs c then some (dropWs cs)
  else
    match cs with
    | [] => none
    | d :: r => if c = d then some r else none

def parseItem (it : Item) (f : Bdt) (cs : List Char) : Option (Bdt × List Char) :=
  match it with
  | .lit c =>
    match parseLit c cs with
    | some r => some (f, r)
    | none => none
  | .dir d =>
    match cs with
    | [] => none          -- "expected non-empty input for directive"
    | _ :: _ => parseDirNE d f cs

/-- `Parser::parse` -/
def parseItems : List Item → Bdt → List Char → Option (Bdt × List Char)
  | [], f, cs => some (f, cs)
  | it :: rest, f, cs =>
    match parseItem it f cs with
    | some (f', cs') => parseItems rest f' cs'
    | none => none

/-! ## `bdt.to_zoned()` after `time.rs: strptime` has set the default offset -/

/-- the day of the week of a civil date, Sunday = 0 -/
def civilWeekday (y m d : Int) : Int := weekday (daysFromCivil y m d)

/-- `BrokenDownTime::to_date` (no ISO week / week number fields in the model): the outer
`none` is an error -/
def Bdt.toDate (f : Bdt) : Option (Int × Int × Int) :=
  match f.year with
  | none => none
  | some y =>
    let date : Option (Int × Int × Int) :=
      match f.month, f.day with
      | some m, some d => if validDate y m d then some (y, m, d) else none
      | _, _ =>
        match f.doy with
        | some n => if n ≤ daysInYear y then some (civilFromDays (daysFromCivil y 1 1 + (n - 1))) else none
        | none => none
    match date with
    | none => none
    | some (y', m', d') =>
      match f.wday with
      | some w => if w = civilWeekday y' m' d' then some (y', m', d') else none
      | none => some (y', m', d')

/-- `BrokenDownTime::to_time`: a smaller unit without the bigger one is an error -/
def Bdt.toTime (f : Bdt) : Option (Int × Int × Int) :=
  match f.hour with
  | none => if f.minute.isSome || f.second.isSome then none else some (0, 0, 0)
  | some h =>
    match f.minute with
    | none => if f.second.isSome then none else some (h, 0, 0)
    | some mi =>
      match f.second with
      | none => some (h, mi, 0)
      | some s => some (h, mi, s)

/-- `to_zoned` with offset `o` (jaq: UTC when the text has none), then `.into(): DateTime`:
the civil time shown at that offset -/
def Bdt.toCivil (f : Bdt) : Option DateTime :=
  let o := f.offset.getD 0
  match f.ts with
  | some s => some (Timestamp.toDateTimeUTC ⟨(s + o) * 1000000000⟩)
  | none =>
    match f.toDate, f.toTime with
    | some (y, m, d), some (h, mi, s) =>
      -- `offset.to_timestamp(dt)?` (range check), then shown at the same offset again: `dt`
      if Timestamp.inRange ((⟨y, m, d, h, mi, s, 0⟩ : DateTime).toNs - o * 1000000000) then some ⟨y, m, d, h, mi, s, 0⟩
      else none
    | _, _ => none

/-- `BrokenDownTime::parse(fmt, s)` + default offset + `to_zoned()?.into()`; `none` = error -/
def strptimeM (items : List Item) (cs : List Char) : Option DateTime :=
  match parseItems items Bdt.empty cs with
  | some (f, []) => f.toCivil
  | _ => none

/-- `time.rs: strptime(s, fmt)` on a text -/
def strptimeJaq (items : List Item) (cs : List Char) : Except Err Val :=
  match strptimeM items cs with
  | some dt => .ok (dateTimeToArray dt)
  | none => .error errJiff

end Jaq.Time
