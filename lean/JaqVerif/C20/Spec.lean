/-
  C20 — specification-side definitions used in the statements of `Props/C20.lean`:
  the broken-down UTC time of an instant computed with the independent calendar only, what a
  well-formed broken-down array is, and a decidable observation of outcomes for witnesses.
-/
import JaqVerif.C20.Epoch

namespace Jaq.Time

def vint (i : Int) : Val := .num (.int i)

/-- the seconds entry of a broken-down time: an integer, or `s + ns/10⁹` as a double when the
instant has a sub-second part -/
def specSeconds (s ns : Int) : Val :=
  if ns > 0 then .num (.float (F64.add (F64.ofInt s) (F64.div (F64.ofInt ns) (F64.ofInt 1000000000))))
  else vint s

/-- **the specification of `gmtime`**: broken-down UTC time
`[year, month from 0, day, hours, minutes, seconds, weekday from Sunday, day of year from 0]`
of the instant `ns` nanoseconds after 1970-01-01T00:00:00Z, by `Civil.lean` alone -/
def specArray (ns : Int) : Val :=
  let secs := ns / 1000000000
  let days := secs / 86400
  let sod := secs % 86400
  let c := civilFromDays days
  .arr [vint c.1, vint (c.2.1 - 1), vint c.2.2, vint (sod / 3600), vint (sod % 3600 / 60),
        specSeconds (sod % 60) (ns % 1000000000), vint (weekday days), vint (yearday days)]

/-- UTC year of the instant `sec` seconds after the epoch -/
def utcYear (sec : Int) : Int := (civilFromDays (sec / 86400)).1

/-- **the specification of `mktime`** on integer fields: seconds since the epoch of a civil UTC time -/
def specEpoch (y mo d h mi s : Int) : Int :=
  daysFromCivil y (mo + 1) d * 86400 + h * 3600 + mi * 60 + s

/-- a well-formed broken-down array: at least six entries, the first five integers that form
a Gregorian date (month from 0) with year in -9999..9999 and a time of day, the sixth a finite
number with `0 ≤ ⌊seconds⌋ ≤ 59` -/
def WellFormedBDT (a : List Val) : Prop :=
  ∃ year month day hour min sec rest y mo d h mi secF,
    a = year :: month :: day :: hour :: min :: sec :: rest ∧
    valAsIsize year = some y ∧ valAsIsize month = some mo ∧ valAsIsize day = some d ∧
    valAsIsize hour = some h ∧ valAsIsize min = some mi ∧ valAsF64 sec = some secF ∧
    -9999 ≤ y ∧ y ≤ 9999 ∧ validDate y (mo + 1) d ∧ 0 ≤ h ∧ h ≤ 23 ∧ 0 ≤ mi ∧ mi ≤ 59 ∧
    F64.isFinite secF = true ∧ 0 ≤ floorInt secF ∧ floorInt secF ≤ 59

/-- the seconds entry of `a` is NaN -/
def secondsNaN (a : List Val) : Prop :=
  ∃ secF, (a[5]?).bind valAsF64 = some secF ∧ F64.isNaN secF = true

/-- the month entry of `a` is 127 (so that `i8(month)? + 1` overflows) -/
def month127 (a : List Val) : Prop := (a[1]?).bind valAsIsize = some 127

/-- decidable summary of an outcome (for witness theorems) -/
inductive Obs where
  | panic (p : Panic)
  | err
  | nums (l : List Num)   -- a number, or an array of numbers
  | other
  deriving DecidableEq, Repr

def numsOf : List Val → Option (List Num)
  | [] => some []
  | .num n :: r => (numsOf r).map (n :: ·)
  | _ :: _ => none

def observe : Out Val → Obs
  | .error p => .panic p
  | .ok (.error _) => .err
  | .ok (.ok (.num n)) => .nums [n]
  | .ok (.ok (.arr a)) => match numsOf a with | some l => .nums l | none => .other
  | .ok (.ok _) => .other

def observeR : Option (Except Err Val) → Obs
  | some (.ok v) => observe (.val v)
  | some (.error _) => .err
  | none => .other

end Jaq.Time
