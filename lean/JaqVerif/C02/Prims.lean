/-
  C02 — container primitives used by the three evaluators, written after
  `/repo/jaq-json/src/lib.rs`: `key_values`, `values`, `index` (`index_opt`), `range`
  (`range_int`, `skip_take*`, `abs_bound`, `abs_index`, `PosUsize::wrap`), `map_values`,
  `map_index`, `map_range`, `From<Range<Val>> for Val`, `as_bool`.
  (Simple faithful versions; the position model of these functions is C10's subject.)
-/
import JaqVerif.C02.PathAst

namespace Jaq.C02

abbrev PosUsize := Bool × Nat

/-- `PosUsize::wrap` -/
def wrap (p : PosUsize) (len : Nat) : Option Nat :=
  if p.1 then some p.2 else if p.2 ≤ len then some (len - p.2) else none

/-- `abs_index` -/
def absIndex (p : PosUsize) (len : Nat) : Option Nat :=
  match wrap p len with
  | some i => if i < len then some i else none
  | none => none

/-- `abs_bound` -/
def absBound (i : Option PosUsize) (len dflt : Nat) : Nat :=
  match i with
  | none => dflt
  | some p => min ((wrap p len).getD 0) len

/-- `skip_take` -/
def skipTake (r : Option PosUsize × Option PosUsize) (len : Nat) : Nat × Nat :=
  let frm := absBound r.1 len 0
  let upto := absBound r.2 len len
  (frm, upto - frm)

/-- `Val::as_pos_usize` -/
def asPosUsizeV (v : Val) : Except Err PosUsize :=
  match v with
  | .num n =>
    match n.asPosUsize with
    | some p => .ok p
    | none => .error (.typ v "integer")
  | _ => .error (.typ v "integer")

def rangeBound (i : Option Val) : Except Err (Option PosUsize) :=
  match i with
  | none => .ok none
  | some .null => .ok none
  | some v => (asPosUsizeV v).map some

/-- `Val::range_int` -/
def rangeInt (frm upto : Option Val) : Except Err (Option PosUsize × Option PosUsize) :=
  match rangeBound frm with
  | .error e => .error e
  | .ok f =>
    match rangeBound upto with
    | .error e => .error e
    | .ok u => .ok (f, u)

def tyIter : String := "iterable (array or object)"
def tyRange : String := "rangeable (array or string)"
def tyArr : String := "array"
def tyStr : String := "string"

/-- `ValT::as_bool` -/
def asBool : Val → Bool
  | .null => false
  | .bool false => false
  | _ => true

/-- `ValT::key_values` -/
def keyValues (v : Val) : Except Err (List (Val × Val)) :=
  match v with
  | .arr a => .ok (a.zipIdx.map fun (x, i) => (.num (.int (Int.ofNat i)), x))
  | .obj o => .ok o
  | v => .error (.typ v tyIter)

/-- `ValT::values` -/
def values (v : Val) : Except Err (List Val) :=
  match v with
  | .arr a => .ok a
  | .obj o => .ok (o.map (·.2))
  | v => .error (.typ v tyIter)

def outOfListR {α : Type} : Except Err (List α) → Out α
  | .ok l => Out.ofList l
  | .error e => Out.error e

/-- `ValT::range` -/
def rangeV (v : Val) (frm upto : Option Val) : ValR :=
  match v with
  | .bstr b =>
    (rangeInt frm upto).map fun r =>
      let st := skipTake r b.length
      .bstr ((b.drop st.1).take st.2)
  | .tstr b =>
    (rangeInt frm upto).map fun r =>
      let cs := Utf8.chars b
      let st := skipTake r cs.length
      .tstr ((cs.drop st.1).take st.2).flatten
  | .arr a =>
    (rangeInt frm upto).map fun r =>
      let st := skipTake r a.length
      .arr ((a.drop st.1).take st.2)
  | v => .error (.typ v tyRange)

def kStart : Val := .tstr [115, 116, 97, 114, 116]   -- "start"
def kEnd : Val := .tstr [101, 110, 100]              -- "end"

/-- `impl From<Range<Val>> for Val`: the path component of a slice -/
def rangeKey (frm upto : Option Val) : Val :=
  .obj ((match frm with | some f => [(kStart, f)] | none => []) ++
        (match upto with | some u => [(kEnd, u)] | none => []))

def isIntNum : Num → Bool
  | .int _ => true
  | .big _ => true
  | _ => false

/-- positions where `y` occurs in `x` (`windows(len).enumerate().filter(==)`) -/
def indicesOf (x y : List Val) : List Val :=
  (List.range (x.length + 1 - y.length)).filterMap fun i =>
    let w := (x.drop i).take y.length
    if w.length == y.length && (List.zipWith Val.eq w y).all id then some (.num (Num.ofInt (Int.ofNat i)))
    else none

/-- `Val::index_opt` followed by `unwrap_or(Null)` (`ValT::index`) -/
def indexV (v i : Val) : ValR :=
  match v, i with
  | .null, _ => .ok .null
  | .bstr a, .num n =>
    if isIntNum n then
      match (n.asPosUsize).bind (absIndex · a.length) with
      | some k => .ok (match a[k]? with | some b => .num (Num.ofInt (Int.ofNat b.toNat)) | none => .null)
      | none => .ok .null
    else .error (.index v i)
  | .arr a, .num n =>
    if isIntNum n then
      match (n.asPosUsize).bind (absIndex · a.length) with
      | some k => .ok (a[k]?.getD .null)
      | none => .ok .null
    else .error (.index v i)
  | .arr x, .arr y => if y.isEmpty then .ok (.arr []) else .ok (.arr (indicesOf x y))
  | .obj o, i => .ok ((Obj.get o i).getD .null)
  | .bstr _, .obj o | .tstr _, .obj o | .arr _, .obj o => rangeV v (Obj.get o kStart) (Obj.get o kEnd)
  | v, i => .error (.index v i)

/-- `Opt::fail` -/
def optFail (opt : Bool) (v : Val) (e : Err) : Except Exn Val :=
  if opt then .ok v else .error (.err e)

/-- `ValT::map_values` -/
def mapValues (v : Val) (opt : Bool) (f : Val → Out Val) : Except Exn Val :=
  match v with
  | .arr a => (Out.bindL f a).collect.map .arr
  | .obj o =>
    let rec go : List (Val × Val) → Except Exn (List (Val × Val))
      | [] => .ok []
      | (k, x) :: rest =>
        match (f x).next? with
        | .error e => .error e
        | .ok none => go rest
        | .ok (some y) => (go rest).map ((k, y) :: ·)
    (go o).map .obj
  | v => optFail opt v (.typ v tyIter)

def isSeq : Val → Bool
  | .bstr _ | .tstr _ | .arr _ => true
  | _ => false

/-- `ValT::map_range` -/
def mapRange (v : Val) (frm upto : Option Val) (opt : Bool) (f : Val → Out Val) : Except Exn Val :=
  match v with
  | .arr a =>
    match rangeInt frm upto with
    | .error e => optFail opt v e
    | .ok r =>
      let st := skipTake r a.length
      match (f (.arr ((a.drop st.1).take st.2))).next? with
      | .error e => .error e
      | .ok none => .ok (.arr (a.take st.1 ++ a.drop (st.1 + st.2)))
      | .ok (some (.arr y)) => .ok (.arr (a.take st.1 ++ y ++ a.drop (st.1 + st.2)))
      | .ok (some y) => .error (.err (.typ y tyArr))
  | .bstr b =>
    match rangeInt frm upto with
    | .error e => optFail opt v e
    | .ok r =>
      let st := skipTake r b.length
      match (f (.bstr ((b.drop st.1).take st.2))).next? with
      | .error e => .error e
      | .ok none => .ok (.bstr (b.take st.1 ++ b.drop (st.1 + st.2)))
      | .ok (some (.bstr y)) => .ok (.bstr (b.take st.1 ++ y ++ b.drop (st.1 + st.2)))
      | .ok (some y) => .error (.err (.typ y tyStr))
  | .tstr b =>
    match rangeInt frm upto with
    | .error e => optFail opt v e
    | .ok r =>
      let cs := Utf8.chars b
      let st := skipTake r cs.length
      match (f (.tstr ((cs.drop st.1).take st.2).flatten)).next? with
      | .error e => .error e
      | .ok none => .ok (.tstr ((cs.take st.1).flatten ++ (cs.drop (st.1 + st.2)).flatten))
      | .ok (some (.tstr y)) => .ok (.tstr ((cs.take st.1).flatten ++ y ++ (cs.drop (st.1 + st.2)).flatten))
      | .ok (some y) => .error (.err (.typ y tyStr))
  | v => optFail opt v (.typ v tyArr)

/-- `ValT::map_index` -/
def mapIndex (v idx : Val) (opt : Bool) (f : Val → Out Val) : Except Exn Val :=
  match isSeq v, idx with
  | true, .obj o => mapRange v (Obj.get o kStart) (Obj.get o kEnd) opt f
  | _, _ =>
    match v with
    | .obj o =>
      match Obj.get o idx with
      | some x =>
        match (f x).next? with
        | .error e => .error e
        | .ok (some y) => .ok (.obj (Obj.insert o idx y))
        | .ok none => .ok (.obj (Obj.swapRemove o idx))
      | none =>
        match (f .null).next? with
        | .error e => .error e
        | .ok (some y) => .ok (.obj (o ++ [(idx, y)]))
        | .ok none => .ok v
    | .arr a =>
      match asPosUsizeV idx with
      | .error e => optFail opt v e
      | .ok p =>
        match absIndex p a.length with
        | none => optFail opt v (.str "index out of bounds")
        | some i =>
          match (f (a[i]?.getD .null)).next? with
          | .error e => .error e
          | .ok (some y) => .ok (.arr (a.set i y))
          | .ok none => .ok (.arr (a.eraseIdx i))
    | v => optFail opt v (.typ v tyIter)

/-! ### evaluated path parts (`Part<V>`): `Part::run`, `Part::paths`, `Part::update` -/

def partRun (p : CPart) (v : Val) : Out Val :=
  match p with
  | .index i => Out.ofValR (indexV v i)
  | .range none none => outOfListR (values v)
  | .range frm upto => Out.ofValR (rangeV v frm upto)

def partPaths (p : CPart) (vp : Val × VPath) : Out (Val × VPath) :=
  match p with
  | .index i => Out.ofValR ((indexV vp.1 i).map fun y => (y, vp.2 ++ [i]))
  | .range none none => outOfListR ((keyValues vp.1).map fun kvs => kvs.map fun (k, y) => (y, vp.2 ++ [k]))
  | .range frm upto => Out.ofValR ((rangeV vp.1 frm upto).map fun y => (y, vp.2 ++ [rangeKey frm upto]))

def partUpdate (p : CPart) (opt : Bool) (v : Val) (f : Val → Out Val) : Except Exn Val :=
  match p with
  | .index i => mapIndex v i opt f
  | .range none none => mapValues v opt f
  | .range frm upto => mapRange v frm upto opt f

/-- `path::run` instantiated with `Part::run` (`Path::run`) -/
def cpathRun : CPath → Val → Out Val
  | [], v => Out.one v
  | (p, opt) :: rest, v => (Out.dropErr opt (partRun p v)).bind (cpathRun rest)

/-- `path::run` instantiated with `Part::paths` (`Path::paths`) -/
def cpathPaths : CPath → Val × VPath → Out (Val × VPath)
  | [], vp => Out.one vp
  | (p, opt) :: rest, vp => (Out.dropErr opt (partPaths p vp)).bind (cpathPaths rest)

/-- `path::update` / `Path::update`: inner parts deliver exactly one result to the outer part -/
def cpathUpdate : CPath → Val → (Val → Out Val) → Except Exn Val
  | [], v, _ => .ok v
  | [(p, opt)], v, f => partUpdate p opt v f
  | (p, opt) :: rest, v, f => partUpdate p opt v fun x => Out.ofExcept (cpathUpdate rest x f)

/-- `recurse_run(v, values)`: pre-order, errors of `values` dropped by `flatten` -/
def recRunF : Nat → Val → List Val
  | 0, v => [v]
  | n + 1, v => v :: ((values v).toOption.getD []).flatMap (recRunF n)

/-- the same over `key_values`, with paths -/
def recPathsF : Nat → Val × VPath → List (Val × VPath)
  | 0, vp => [vp]
  | n + 1, vp =>
    vp :: ((keyValues vp.1).toOption.getD []).flatMap fun (k, y) => recPathsF n (y, vp.2 ++ [k])

def recRun (v : Val) : List Val := recRunF v.size v
def recPaths (vp : Val × VPath) : List (Val × VPath) := recPathsF vp.1.size vp

/-- `recurse_update`: children first (through `map_values(Optional, …)`), then the value itself -/
def recUpdateF : Nat → Val → (Val → Out Val) → Out Val
  | 0, v, f => f v
  | n + 1, v, f =>
    match mapValues v true (fun x => recUpdateF n x f) with
    | .ok v' => f v'
    | .error e => Out.fail e

def recUpdate (v : Val) (f : Val → Out Val) : Out Val := recUpdateF v.size v f

end Jaq.C02
