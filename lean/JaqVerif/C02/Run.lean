/-
  C02 — `Id::run` (`/repo/jaq-core/src/filter.rs`) arm by arm on the fragment `PE`, as one
  step over the evaluators of the next lower fuel (`Evals`), plus the helpers shared by the
  three evaluators: `cartesian`, `Path::explode` / `combinations` / `transpose`, `fold`
  (`fold.rs`), the loops of `limit!` / `skip!` (`funs.rs`).
-/
import JaqVerif.C02.Prims

namespace Jaq.C02

/-- the three evaluators of `filter.rs` (at some fuel) -/
structure Evals where
  run : PE → Env → Val → Out Val
  paths : PE → Env → Val × VPath → Out (Val × VPath)
  update : PE → Env → Val → (Val → Out Val) → Out Val

def mathOp : MathOp → Val → Val → ValR
  | .add => Val.add | .sub => Val.sub | .mul => Val.mul | .div => Val.div | .rem => Val.rem

def cmpOp : CmpOp → Val → Val → Bool
  | .eq, a, b => Val.eq a b
  | .ne, a, b => !(Val.eq a b)
  | .lt, a, b => Val.cmp a b == .lt
  | .le, a, b => Val.cmp a b != .gt
  | .gt, a, b => Val.cmp a b == .gt
  | .ge, a, b => Val.cmp a b != .lt

def pairItems {α β γ : Type} (g : α → β → Except Exn γ) : Except Exn α → Except Exn β → Except Exn γ
  | .ok a, .ok b => g a b
  | .error e, _ => .error e
  | .ok _, .error e => .error e

/-- `cartesian(l, r, cv).map(|(x, y)| g(x?, y?))`: `r` is run once per *item* of `l` -/
def cartesian (l r : Out Val) (g : Val → Val → ValR) : Out Val :=
  Out.ofItems (l.items.flatMap fun li => r.items.map fun ri =>
    pairItems (fun a b => match g a b with | .ok y => .ok y | .error e => .error (.err e)) li ri)

def undefinedErr : Err := .str "undefined"

/-! ### `Path::explode` -/

/-- `Part::into_iter` on the items of the index filters (all run on the same input) -/
def partsItems (E : Evals) (env : Env) (v : Val) : Parts → List (List (Except Exn CPart) × Bool)
  | .nil => []
  | .index i opt rest =>
    ((E.run i env v).items.map (fun r => r.map CPart.index), opt) :: partsItems E env v rest
  | .iter opt rest => ([.ok (.range none none)], opt) :: partsItems E env v rest
  | .rangeFrom i opt rest =>
    ((E.run i env v).items.map (fun r => r.map fun x => CPart.range (some x) none), opt)
      :: partsItems E env v rest
  | .rangeTo j opt rest =>
    ((E.run j env v).items.map (fun r => r.map fun x => CPart.range none (some x)), opt)
      :: partsItems E env v rest
  | .rangeBoth i j opt rest =>
    ((E.run i env v).items.flatMap (fun a => (E.run j env v).items.map fun b =>
        pairItems (fun x y => .ok (CPart.range (some x) (some y))) a b), opt)
      :: partsItems E env v rest

/-- `Path::combinations` (first part outermost) followed by `Path::transpose` -/
def combos : List (List (Except Exn CPart) × Bool) → List (Except Exn CPath)
  | [] => [.ok []]
  | (its, opt) :: rest =>
    its.flatMap fun it => (combos rest).map fun r =>
      pairItems (fun p ps => .ok ((p, opt) :: ps)) it r

def explode (E : Evals) (env : Env) (v : Val) (ps : Parts) : List (Except Exn CPath) :=
  combos (partsItems E env v ps)

/-! ### `fold` of fold.rs (depth first; `inner` emitted before descending, `outer` at exhaustion) -/

def foldL {X U γ : Type} (f : X → U → Out U) (inner : X → U → Out γ) (outer : U → Out γ) :
    List X → Option Exn → U → Out γ
  | [], none, acc => outer acc
  | [], some e, _ => Out.fail e
  | x :: xs, st, acc => (f x acc).bind fun y => (inner x y).append (foldL f inner outer xs st y)

def foldOut {X U γ : Type} (f : X → U → Out U) (inner : X → U → Out γ) (outer : U → Out γ)
    (xs : Out X) (acc : U) : Out γ :=
  foldL f inner outer xs.vals xs.stop acc

/-- `reduce(xs, init, f)` of filter.rs (used by updates) -/
def reduceOut {X : Type} (xs : Out X) (init : Val) (f : X → Val → Out Val) : Out Val :=
  foldOut f (fun _ _ => Out.nil) Out.one xs init

/-- `fold_run` -/
def foldRun {T : Type} (k : FoldKind) (xs : Out Val) (init : Out T) (upd : Val → T → Out T)
    (proj : Val → T → Out T) : Out T :=
  init.bind fun i =>
    match k with
    | .reduce => foldOut upd (fun _ _ => Out.nil) Out.one xs i
    | .foreach => foldOut upd (fun _ y => Out.one y) (fun _ => Out.nil) xs i
    | .foreachProj => foldOut upd proj (fun _ => Out.nil) xs i

/-! ### `limit!`, `skip!` -/

def zeroV : Val := .num (.int 0)
def oneV : Val := .num (.int 1)

/-- `while_gtz!(n, return iter.next(), None)` -/
def takeGtz {α : Type} (n : Val) (l : List α) (st : Option Exn) : Out α :=
  match l with
  | [] =>
    if Val.cmp n zeroV == .gt then
      match Val.sub n oneV with
      | .error e => Out.error e
      | .ok _ => ⟨[], st⟩
    else Out.nil
  | x :: xs =>
    if Val.cmp n zeroV == .gt then
      match Val.sub n oneV with
      | .error e => Out.error e
      | .ok i => (Out.one x).append (takeGtz i xs st)
    else Out.nil

/-- `while_gtz!(n, if let Some(e) = iter.next()?.err() { return Some(Err(e)) }, iter.next())` -/
def dropGtz {α : Type} (n : Val) (l : List α) (st : Option Exn) : Out α :=
  match l with
  | [] =>
    if Val.cmp n zeroV == .gt then
      match Val.sub n oneV with
      | .error e => Out.error e
      | .ok _ => ⟨[], st⟩
    else ⟨[], st⟩
  | x :: xs =>
    if Val.cmp n zeroV == .gt then
      match Val.sub n oneV with
      | .error e => Out.error e
      | .ok i => dropGtz i xs st
    else ⟨x :: xs, st⟩

def limitOut {α : Type} (n : Val) (o : Out α) : Out α := takeGtz n o.vals o.stop
def skipOut {α : Type} (n : Val) (o : Out α) : Out α := dropGtz n o.vals o.stop

/-- the left side of `//` as `Id::run` keeps it: errors and truthy outputs -/
def altKeep (o : Out Val) : Out Val := ⟨o.vals.filter asBool, o.stop⟩

/-- `l.run(cv).any(|v| v.map_or(true, as_bool))` of the `Alt` arms of `paths` and `update`;
`none` = the fuel ran out before the question was decided -/
def anyTrue (o : Out Val) : Option Bool :=
  if o.vals.any asBool then some true
  else match o.stop with
    | none => some false
    | some (.err _) => some true
    | some .fuel => none

/-- `Id::run` -/
def stepRun (E : Evals) (p : PE) (env : Env) (v : Val) : Out Val :=
  match p with
  | .id => Out.one v
  | .recurse => Out.ofList (recRun v)
  | .lit x => Out.one x
  | .arr f =>
    match (E.run f env v).collect with
    | .ok l => Out.one (.arr l)
    | .error e => Out.fail e
  | .obj0 => Out.one (.obj [])
  | .obj1 k x => cartesian (E.run k env v) (E.run x env v) fun a b => .ok (.obj [(a, b)])
  | .tryE f => Out.dropErr true (E.run f env v)
  | .neg f => (E.run f env v).bind fun x => Out.ofValR (Val.neg x)
  | .pipe f g => (E.run f env v).bind fun y => E.run g env y
  | .bind f x g => (E.run f env v).bind fun y => E.run g (env.var x y) v
  | .comma f g => (E.run f env v).append (E.run g env v)
  | .alt l r =>
    let o := altKeep (E.run l env v)
    match o.vals, o.stop with
    | [], none => E.run r env v
    | _, _ => o
  | .ite c t e => (E.run c env v).bind fun b => E.run (if asBool b then t else e) env v
  | .path f ps =>
    (E.run f env v).bind fun y => (Out.ofItems (explode E env v ps)).bind fun cp => cpathRun cp y
  | .update p u => E.update p env v fun x => E.run u env x
  | .updateMath op p u =>
    (E.run u env v).bind fun y => E.update p env v fun x => Out.ofValR (mathOp op x y)
  | .updateAlt p u =>
    (E.run u env v).bind fun y => E.update p env v fun x => Out.one (if asBool x then x else y)
  | .assign p u => (E.run u env v).bind fun y => E.update p env v fun _ => Out.one y
  | .logic stopOn l r =>
    (E.run l env v).bind fun a =>
      if asBool a == stopOn then Out.one (.bool stopOn)
      else (E.run r env v).map fun b => .bool (asBool b)
  | .math op l r => cartesian (E.run l env v) (E.run r env v) (mathOp op)
  | .cmp op l r => cartesian (E.run l env v) (E.run r env v) fun a b => .ok (.bool (cmpOp op a b))
  | .fold k xs x init upd proj =>
    foldRun k (E.run xs env v) (E.run init env v)
      (fun xv acc => E.run upd (env.var x xv) acc) (fun xv acc => E.run proj (env.var x xv) acc)
  | .var x =>
    match env.getVar x with
    | some y => Out.one y
    | none => Out.error undefinedErr
  | .fix r body => E.run body (env.fix r body) v
  | .rcall r =>
    match env.getFix r with
    | some (body, fenv) => E.run body fenv v
    | none => Out.error undefinedErr
  | .first f => (E.run f env v).first
  | .last f => (E.run f env v).last
  | .limit n f => (E.run n env v).bind fun nv => limitOut nv (E.run f env v)
  | .skip n f => (E.run n env v).bind fun nv => skipOut nv (E.run f env v)
  | .errorEmpty => Out.error (.val v)
  | .pathOf f => (E.paths f env (v, [])).map fun vp => .arr vp.2
  | .pathValue f => (E.paths f env (v, [])).map fun vp => .arr [.arr vp.2, vp.1]
  | .keysUnsorted => Out.ofValR ((keyValues v).map fun kvs => .arr (kvs.map (·.1)))

end Jaq.C02
