/-
  C02 — path expressions: outcomes, syntax, environments.

  `Out α` is the prefix-preserving outcome of running a filter (DESIGN §2, layer L1): the
  outputs produced so far and how the stream ended (`none` = exhausted, `some (.err e)` = the
  first error item, `some .fuel` = the fuel of the evaluator ran out; outputs before that are
  kept).  Every consumer in jaq-core stops at the first error item of a stream
  (`collect`, `try_fold`, `next`, `any`, `try`, the main loop), except the places that look at
  *items* of index filters (`Path::combinations`, `cartesian`), which are modelled on item
  lists (`Out.items`).

  `PE` is the fragment of `jaq_core::compile::Term` that C02 speaks about, with definitions
  inlined (see design/notes/C02.md): non-recursive definitions and filter arguments are
  substituted by the harness, `def r: body; r` (a parameterless recursive definition, the
  shape of `recurse(f)`) is `fix r body`, its recursive call is `rcall r`.
-/
import JaqVerif.Val.Arith

namespace Jaq.C02

/-- how a stream ends abnormally -/
inductive Exn where
  | err (e : Err)
  | fuel
  deriving Inhabited

structure Out (α : Type) where
  vals : List α
  stop : Option Exn
  deriving Inhabited

namespace Out
variable {α β : Type}

def nil : Out α := ⟨[], none⟩
def one (x : α) : Out α := ⟨[x], none⟩
def fail (e : Exn) : Out α := ⟨[], some e⟩
def error (e : Err) : Out α := ⟨[], some (.err e)⟩
def noFuel : Out α := ⟨[], some .fuel⟩
def ofList (l : List α) : Out α := ⟨l, none⟩

/-- `a.chain(b)`: `b` is only reached when `a` is exhausted -/
def append (a b : Out α) : Out α :=
  match a.stop with
  | none => ⟨a.vals ++ b.vals, b.stop⟩
  | some _ => a

def bindL (f : α → Out β) : List α → Out β
  | [] => nil
  | x :: xs => (f x).append (bindL f xs)

/-- `flat_map_then`: run `f` on every output, pass the terminator through -/
def bind (o : Out α) (f : α → Out β) : Out β :=
  (bindL f o.vals).append ⟨[], o.stop⟩

def map (f : α → β) (o : Out α) : Out β := ⟨o.vals.map f, o.stop⟩

/-- `iter.next().into_iter()` -/
def first (o : Out α) : Out α :=
  match o.vals with
  | x :: _ => one x
  | [] => ⟨[], o.stop⟩

/-- `iter.try_fold(None, |_, x| x.map(Some))` then `once_or_empty` -/
def last (o : Out α) : Out α :=
  match o.stop with
  | some e => fail e
  | none =>
    match o.vals.getLast? with
    | some x => one x
    | none => nil

/-- `f(v).next().transpose()?` -/
def next? (o : Out α) : Except Exn (Option α) :=
  match o.vals with
  | x :: _ => .ok (some x)
  | [] =>
    match o.stop with
    | none => .ok none
    | some e => .error e

/-- `iter.collect::<Result<Vec<_>, _>>()` -/
def collect (o : Out α) : Except Exn (List α) :=
  match o.stop with
  | none => .ok o.vals
  | some e => .error e

def ofExcept : Except Exn α → Out α
  | .ok x => one x
  | .error e => fail e

def ofValR : Except Err α → Out α
  | .ok x => one x
  | .error e => error e

/-- the items of the Rust iterator as far as the prefix knows them -/
def items (o : Out α) : List (Except Exn α) :=
  o.vals.map .ok ++ (match o.stop with | none => [] | some e => [.error e])

/-- a consumer that stops at the first error item -/
def ofItems : List (Except Exn α) → Out α
  | [] => nil
  | .ok x :: r => (one x).append (ofItems r)
  | .error e :: _ => fail e

/-- drop a trailing *error* (not fuel): `filter(|v| essential || v.is_ok())` on the outputs
of one path part, which are all values or a single error -/
def dropErr (opt : Bool) (o : Out α) : Out α :=
  match opt, o.stop with
  | true, some (.err _) => ⟨o.vals, none⟩
  | _, _ => o

end Out

/-- arithmetic and comparison operators (`ops::Math`, `ops::Cmp`) -/
inductive MathOp where | add | sub | mul | div | rem
  deriving DecidableEq, Repr, Inhabited
inductive CmpOp where | eq | ne | lt | le | gt | ge
  deriving DecidableEq, Repr, Inhabited
inductive FoldKind where | reduce | foreach | foreachProj
  deriving DecidableEq, Repr, Inhabited

mutual
  inductive PE where
    -- path-preserving constructs
    | id                                                    -- `.`
    | recurse                                               -- `..`
    | path (f : PE) (ps : Parts)                            -- `f[…]?[…]…`
    | pipe (f g : PE)                                       -- `f | g`
    | comma (f g : PE)                                      -- `f, g`
    | bind (f : PE) (x : String) (g : PE)                   -- `f as $x | g`
    | ite (c t e : PE)                                      -- `if c then t else e end`
    | alt (f g : PE)                                        -- `f // g`
    | fold (k : FoldKind) (xs : PE) (x : String) (init upd proj : PE)
                                                            -- `reduce/foreach xs as $x (init; upd; proj)`
    | first (f : PE) | last (f : PE)                        -- natives with `paths`
    | limit (n f : PE) | skip (n f : PE)
    | tryE (f : PE)                                         -- `try f` (= `f?` outside paths)
    | fix (r : String) (body : PE)                          -- `def r: body; r`
    | rcall (r : String)                                    -- call of the enclosing `def r`
    -- value-constructing terms
    | var (x : String)                                      -- `$x`
    | lit (v : Val)                                         -- number / string literal
    | arr (f : PE)                                          -- `[f]`
    | obj0                                                  -- `{}`
    | obj1 (k v : PE)                                       -- `{(k): v}`
    | neg (f : PE)
    | logic (stopOn : Bool) (l r : PE)                      -- `or` (true) / `and` (false)
    | math (op : MathOp) (l r : PE)
    | cmp (op : CmpOp) (l r : PE)
    | update (p u : PE)                                     -- `p |= u`
    | assign (p u : PE)                                     -- `p = u`
    | updateMath (op : MathOp) (p u : PE)                   -- `p op= u`
    | updateAlt (p u : PE)                                  -- `p //= u`
    | errorEmpty                                            -- native `error_empty`
    | pathOf (f : PE)                                       -- native `path(f)`
    | pathValue (f : PE)                                    -- native `path_value(f)`
    | keysUnsorted                                          -- native `keys_unsorted`
    deriving Inhabited
  /-- path parts with their optionality flag (`true` = `?`) -/
  inductive Parts where
    | nil
    | index (i : PE) (opt : Bool) (rest : Parts)            -- `[i]`
    | iter (opt : Bool) (rest : Parts)                      -- `[]`
    | rangeFrom (i : PE) (opt : Bool) (rest : Parts)        -- `[i:]`
    | rangeTo (j : PE) (opt : Bool) (rest : Parts)          -- `[:j]`
    | rangeBoth (i j : PE) (opt : Bool) (rest : Parts)      -- `[i:j]`
    deriving Inhabited
end

/-- environments: variables and the enclosing recursive definitions; a `fix` entry closes over
the entries below it -/
inductive Env where
  | nil
  | var (x : String) (v : Val) (rest : Env)
  | fix (r : String) (body : PE) (rest : Env)
  deriving Inhabited

def Env.getVar : Env → String → Option Val
  | .nil, _ => none
  | .var y v rest, x => if x == y then some v else rest.getVar x
  | .fix _ _ rest, x => rest.getVar x

/-- body of `def r` and the environment its body runs in (the entry itself and what it closed over) -/
def Env.getFix : Env → String → Option (PE × Env)
  | .nil, _ => none
  | .var _ _ rest, r => rest.getFix r
  | .fix r' body rest, r => if r == r' then some (body, .fix r' body rest) else rest.getFix r

/-- evaluated path part (`Part<V>`) -/
inductive CPart where
  | index (i : Val)
  | range (frm upto : Option Val)
  deriving Inhabited

abbrev CPath := List (CPart × Bool)
/-- a path as the array that `path(f)` returns (root first) -/
abbrev VPath := List Val

end Jaq.C02
