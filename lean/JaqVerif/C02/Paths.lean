/-
  C02 — `Id::paths` (`/repo/jaq-core/src/filter.rs`) arm by arm: outputs together with their
  paths (a path is kept root first; the Rust code conses onto an `RcList` and reverses at the end).
-/
import JaqVerif.C02.Run

namespace Jaq.C02

/-- `Id::paths` -/
def stepPaths (E : Evals) (p : PE) (env : Env) (vp : Val × VPath) : Out (Val × VPath) :=
  let err : Out (Val × VPath) := Out.error (.pathExpr vp.1)
  match p with
  -- value-constructing terms have no path
  | .lit _ | .arr _ | .obj0 | .obj1 _ _ | .neg _ | .logic _ _ _ | .math _ _ _ | .cmp _ _ _ => err
  | .update _ _ | .assign _ _ | .updateMath _ _ _ | .updateAlt _ _ => err
  -- natives created by `Native::new` only
  | .errorEmpty | .pathOf _ | .pathValue _ | .keysUnsorted => err
  | .var x =>
    match env.getVar x with
    | some _ => err
    | none => Out.error undefinedErr
  | .id => Out.one vp
  | .recurse => Out.ofList (recPaths vp)
  | .pipe f g => (E.paths f env vp).bind fun y => E.paths g env y
  | .bind f x g => (E.run f env vp.1).bind fun y => E.paths g (env.var x y) vp
  | .comma f g => (E.paths f env vp).append (E.paths g env vp)
  | .alt l r =>
    match anyTrue (E.run l env vp.1) with
    | none => Out.noFuel
    | some b => E.paths (if b then l else r) env vp
  | .ite c t e => (E.run c env vp.1).bind fun b => E.paths (if asBool b then t else e) env vp
  | .tryE f => Out.dropErr true (E.paths f env vp)
  | .path f ps =>
    (E.paths f env vp).bind fun y =>
      (Out.ofItems (explode E env vp.1 ps)).bind fun cp => cpathPaths cp y
  | .fold k xs x init upd proj =>
    foldRun k (E.run xs env vp.1) (E.paths init env vp)
      (fun xv acc => E.paths upd (env.var x xv) acc) (fun xv acc => E.paths proj (env.var x xv) acc)
  | .fix r body => E.paths body (env.fix r body) vp
  | .rcall r =>
    match env.getFix r with
    | some (body, fenv) => E.paths body fenv vp
    | none => Out.error undefinedErr
  | .first f => (E.paths f env vp).first
  | .last f => (E.paths f env vp).last
  | .limit n f => (E.run n env vp.1).bind fun nv => limitOut nv (E.paths f env vp)
  | .skip n f => (E.run n env vp.1).bind fun nv => skipOut nv (E.paths f env vp)

end Jaq.C02
