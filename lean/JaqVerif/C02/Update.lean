/-
  C02 — `Id::update` (`/repo/jaq-core/src/filter.rs`) arm by arm, `fold_update`, and the
  fuel-indexed evaluators `ev n` (`ev (n+1) = step (ev n)`; at fuel 0 every evaluator stops
  with `fuel`).  `run`, `paths`, `update` are the entry points.
-/
import JaqVerif.C02.Paths

namespace Jaq.C02

/-- `paths.try_fold(v, |acc, path| path?.update(acc, &f))`: the exploded paths are applied one
after the other to the same (evolving) value -/
def foldPaths (f : Val → Out Val) : List (Except Exn CPath) → Val → Except Exn Val
  | [], acc => .ok acc
  | .error e :: _, _ => .error e
  | .ok cp :: rest, acc =>
    match cpathUpdate cp acc f with
    | .ok a => foldPaths f rest a
    | .error e => .error e

/-- `fold_update` -/
def foldUpdate (k : FoldKind) (updU projU : Val → Val → (Val → Out Val) → Out Val) :
    List Val → Option Exn → Val → (Val → Out Val) → Out Val
  | [], some e, _, _ => Out.fail e
  | [], none, v, f =>
    match k with
    | .reduce => f v
    | _ => Out.one v
  | xv :: xs, st, v, f =>
    updU xv v fun v' =>
      match k with
      | .reduce => foldUpdate k updU projU xs st v' f
      | .foreach => (f v').bind fun v'' => foldUpdate k updU projU xs st v'' f
      | .foreachProj => (projU xv v' f).bind fun v'' => foldUpdate k updU projU xs st v'' f

/-- `Id::update` -/
def stepUpdate (E : Evals) (p : PE) (env : Env) (v : Val) (f : Val → Out Val) : Out Val :=
  let err : Out Val := Out.error (.pathExpr v)
  match p with
  | .lit _ | .arr _ | .obj0 | .obj1 _ _ | .neg _ | .logic _ _ _ | .math _ _ _ | .cmp _ _ _ => err
  | .update _ _ | .assign _ _ | .updateMath _ _ _ | .updateAlt _ _ => err
  | .tryE _ => err
  -- natives: `reduce(cvs, init, |cv, v| (funs[id].update)((cv.0, v), f))` with the default
  -- update of `Native::new`; `cvs` has one element per output of the variable arguments
  | .errorEmpty | .pathOf _ | .pathValue _ | .keysUnsorted | .first _ | .last _ => err
  | .limit n _ | .skip n _ =>
    reduceOut (E.run n env v) v fun _ acc => Out.error (.pathExpr acc)
  | .var x =>
    match env.getVar x with
    | some _ => err
    | none => Out.error undefinedErr
  | .id => f v
  | .recurse => recUpdate v f
  | .path l ps =>
    E.update l env v fun x => Out.ofExcept (foldPaths f (explode E env v ps) x)
  | .pipe l r => E.update l env v fun x => E.update r env x f
  | .bind l x r => reduceOut (E.run l env v) v fun xv acc => E.update r (env.var x xv) acc f
  | .comma l r => (E.update l env v f).bind fun v' => E.update r env v' f
  | .ite c t e =>
    reduceOut (E.run c env v) v fun b acc => E.update (if asBool b then t else e) env acc f
  | .alt l r =>
    match anyTrue (E.run l env v) with
    | none => Out.noFuel
    | some b => E.update (if b then l else r) env v f
  | .fold k xs x init upd proj =>
    let xs' := E.run xs env v
    E.update init env v fun v' =>
      foldUpdate k (fun xv a g => E.update upd (env.var x xv) a g)
        (fun xv a g => E.update proj (env.var x xv) a g) xs'.vals xs'.stop v' f
  | .fix r body => E.update body (env.fix r body) v f
  | .rcall r =>
    match env.getFix r with
    | some (body, fenv) => E.update body fenv v f
    | none => Out.error undefinedErr

def step (E : Evals) : Evals := ⟨stepRun E, stepPaths E, stepUpdate E⟩

def ev : Nat → Evals
  | 0 => ⟨fun _ _ _ => Out.noFuel, fun _ _ _ => Out.noFuel, fun _ _ _ _ => Out.noFuel⟩
  | n + 1 => step (ev n)

def run (n : Nat) (p : PE) (env : Env) (v : Val) : Out Val := (ev n).run p env v
def paths (n : Nat) (p : PE) (env : Env) (vp : Val × VPath) : Out (Val × VPath) := (ev n).paths p env vp
def update (n : Nat) (p : PE) (env : Env) (v : Val) (f : Val → Out Val) : Out Val :=
  (ev n).update p env v f

end Jaq.C02
