/-
  C02 — specification side: what the manual (`docs/advanced.dj`, `docs/stdlib.dj`) says, as Lean
  functions and predicates that do not mention the three evaluators' code:

  * `getpathV` (`getpath`: `reduce $path[] as $p (.; .[$p])`), `WF` (objects have pairwise
    different keys, each equal to itself — what `IndexMap` guarantees except for NaN keys);
  * the class of path expressions (`PathClass`) and of value-constructing terms (`Constructing`);
  * `iterUpd`, `indexUpd`, `sliceUpd`: the manual's `iter_upd`, `index_upd`, `slice_upd` on lists;
  * the prelude definitions as terms (`emptyPE`, `selectPE`, …) — `Props/C02.lean` proves that the
    *generated* terms of `Gen/C02Defs.lean` (printed from the real `defs.jq`) are these.
-/
import JaqVerif.C02.Update

namespace Jaq.C02

/-! ### getpath -/

/-- `getpath($path)`: `reduce $path[] as $p (.; .[$p])` -/
def getpathV (v : Val) : VPath → ValR
  | [] => .ok v
  | k :: ks =>
    match indexV v k with
    | .ok y => getpathV y ks
    | .error e => .error e

/-- keys of an object: each equal to itself and different from all later ones -/
def KeysOK : List (Val × Val) → Prop
  | [] => True
  | (k, _) :: rest => Obj.sameKey k k = true ∧ (∀ p ∈ rest, Obj.sameKey p.1 k = false) ∧ KeysOK rest

/-- well-formed values: every object inside has `KeysOK` keys -/
inductive WF : Val → Prop
  | null : WF .null
  | bool (b : Bool) : WF (.bool b)
  | num (n : Num) : WF (.num n)
  | bstr (b : List UInt8) : WF (.bstr b)
  | tstr (b : List UInt8) : WF (.tstr b)
  | arr (a : List Val) : (∀ x ∈ a, WF x) → WF (.arr a)
  | obj (o : List (Val × Val)) : KeysOK o → (∀ p ∈ o, WF p.2) → WF (.obj o)

/-! ### the class of path expressions -/

mutual
  /-- path expressions: built from `.`, `..`, path parts (index filters arbitrary), `|`, `,`,
  `as $x |` (bound filter arbitrary), `if` (condition arbitrary), `reduce`/`foreach` (`xs`
  arbitrary), `first`/`last`/`limit`/`skip` (`$n` arbitrary), `try`, and `def r: …; r`.
  `//` is not in this class: `path(f // g)` follows the manual's `if first(f // false)` rule
  (`alt_paths_rule`). -/
  def PathClass : PE → Bool
    | .id | .recurse => true
    | .path f ps => PathClass f && PartsAny ps
    | .pipe f g => PathClass f && PathClass g
    | .comma f g => PathClass f && PathClass g
    | .bind _ _ g => PathClass g
    | .ite _ t e => PathClass t && PathClass e
    | .fold _ _ _ init upd proj => PathClass init && PathClass upd && PathClass proj
    | .first f | .last f | .tryE f => PathClass f
    | .limit _ f | .skip _ f => PathClass f
    | .fix _ body => PathClass body
    | .rcall _ => true
    | _ => false
  /-- (no condition on the index filters; the function exists to make the recursion structural) -/
  def PartsAny : Parts → Bool
    | .nil => true
    | .index _ _ rest | .iter _ rest | .rangeFrom _ _ rest | .rangeTo _ _ rest => PartsAny rest
    | .rangeBoth _ _ _ rest => PartsAny rest
end

/-- every enclosing recursive definition is a path expression -/
def EnvClass : Env → Prop
  | .nil => True
  | .var _ _ rest => EnvClass rest
  | .fix _ body rest => PathClass body = true ∧ EnvClass rest

/-- value-constructing terms (and natives without a `paths` function) -/
def Constructing : PE → Bool
  | .lit _ | .arr _ | .obj0 | .obj1 _ _ | .neg _ | .logic _ _ _ | .math _ _ _ | .cmp _ _ _ => true
  | .update _ _ | .assign _ _ | .updateMath _ _ _ | .updateAlt _ _ => true
  | .errorEmpty | .pathOf _ | .pathValue _ | .keysUnsorted => true
  | _ => false

/-! ### the manual's `iter_upd`, `index_upd`, `slice_upd` (docs/advanced.dj), on lists -/

/-- `first(x | u)` as an optional value; errors and fuel propagate -/
def firstOf (o : Out Val) : Except Exn (Option Val) := o.next?

/-- `iter_upd(u; fail)`: `[.[] | u]` on arrays; on objects every value is replaced by the first
output of `u`, entries without output disappear (`{key, value: first(.value | u)}` per entry —
the reading under which the manual's prose "the value at the position is deleted" holds; see
design/notes/C02.md for the manual's `with_entries(.value |= u)`), otherwise `fail`. -/
def iterUpd (v : Val) (u : Val → Out Val) (fail : Val → Except Exn Val) : Except Exn Val :=
  match v with
  | .arr a => (Out.bindL u a).collect.map .arr
  | .obj o =>
    (o.foldr (fun (kx : Val × Val) (acc : Except Exn (List (Val × Val))) =>
        match firstOf (u kx.2) with
        | .error e => .error e
        | .ok none => acc
        | .ok (some y) => acc.map ((kx.1, y) :: ·)) (.ok [])).map .obj
  | v => fail v

/-- `index_upd($i; u; fail)` for integer `$i` on arrays:
`.[:$i] + [.[$i] | first(u)] + .[$i+1:]` after wrapping a negative index -/
def indexUpdArr (a : List Val) (i : Int) (u : Val → Out Val) (fail : Except Exn Val) : Except Exn Val :=
  let len : Int := a.length
  let j := if 0 ≤ i then i else len + i
  if 0 ≤ j ∧ j < len then
    match firstOf (u (a[j.toNat]?.getD .null)) with
    | .error e => .error e
    | .ok y => .ok (.arr (a.take j.toNat ++ y.toList ++ a.drop (j.toNat + 1)))
  else fail

/-- `slice_upd($i; $j; u; fail)` on arrays: `[.[:$i], .[$i:$j], .[$j:]] | .[1] |= u | add`
with the positions already resolved to `skip`/`take` -/
def sliceUpdArr (a : List Val) (skip take : Nat) (u : Val → Out Val) : Except Exn Val :=
  match firstOf (u (.arr ((a.drop skip).take take))) with
  | .error e => .error e
  | .ok none => .ok (.arr (a.take skip ++ a.drop (skip + take)))
  | .ok (some (.arr y)) => .ok (.arr (a.take skip ++ y ++ a.drop (skip + take)))
  | .ok (some y) => .error (.err (.typ y tyArr))


/-! ### round 2: `index_upd` on objects, `slice_upd` / `index_upd` on text and byte strings -/

/-- `index_upd($i; u; fail)` on objects (docs/advanced.dj):
`if has($i) then with_entries(if .key == $i then {key, value: first(.value | u)} end)
 else . + {($i): first(null | u)} end` — an entry without output disappears, the other entries keep
their order. -/
def indexUpdObj (o : List (Val × Val)) (i : Val) (u : Val → Out Val) : Except Exn (List (Val × Val)) :=
  match Obj.get o i with
  | some x =>
    match firstOf (u x) with
    | .error e => .error e
    | .ok (some y) => .ok (o.map fun kx => if Obj.sameKey i kx.1 then (kx.1, y) else kx)
    | .ok none => .ok (o.eraseP fun kx => Obj.sameKey i kx.1)
  | none =>
    match firstOf (u .null) with
    | .error e => .error e
    | .ok (some y) => .ok (o ++ [(i, y)])
    | .ok none => .ok o

/-- the result of the code and the result of the manual's expression are the same object up to
the order of the entries (jaq's `==` on objects; `swap_remove` moves the last entry) -/
def SameEntries : Except Exn Val → Except Exn (List (Val × Val)) → Prop
  | .ok (.obj r), .ok r' => r.Perm r'
  | .error e, .error e' => e = e'
  | _, _ => False

/-- the three kinds of sequences that can be sliced, as lists of *items* (array elements, bytes,
characters as their UTF-8 encodings) -/
inductive Seq where
  | arr (a : List Val)
  | bytes (b : List UInt8)
  | chars (cs : List (List UInt8))

def seqOf : Val → Option Seq
  | .arr a => some (.arr a)
  | .bstr b => some (.bytes b)
  | .tstr b => some (.chars (Utf8.chars b))
  | _ => none

def Seq.length : Seq → Nat
  | .arr a => a.length | .bytes b => b.length | .chars cs => cs.length
def Seq.toVal : Seq → Val
  | .arr a => .arr a | .bytes b => .bstr b | .chars cs => .tstr cs.flatten
def Seq.sub (s : Seq) (skip take : Nat) : Seq :=
  match s with
  | .arr a => .arr ((a.drop skip).take take)
  | .bytes b => .bytes ((b.drop skip).take take)
  | .chars cs => .chars ((cs.drop skip).take take)
/-- `$l + y + $r` with `y` the replacement: an array for arrays, a string of the same kind for
strings (anything else is a type error); `none` = no output, the slice is removed -/
def Seq.splice (s : Seq) (skip take : Nat) (y : Option Val) : Except Exn Val :=
  match s, y with
  | .arr a, none => .ok (.arr (a.take skip ++ a.drop (skip + take)))
  | .arr a, some (.arr y) => .ok (.arr (a.take skip ++ y ++ a.drop (skip + take)))
  | .arr _, some y => .error (.err (.typ y tyArr))
  | .bytes b, none => .ok (.bstr (b.take skip ++ b.drop (skip + take)))
  | .bytes b, some (.bstr y) => .ok (.bstr (b.take skip ++ y ++ b.drop (skip + take)))
  | .bytes _, some y => .error (.err (.typ y tyStr))
  | .chars cs, none => .ok (.tstr ((cs.take skip).flatten ++ (cs.drop (skip + take)).flatten))
  | .chars cs, some (.tstr y) => .ok (.tstr ((cs.take skip).flatten ++ y ++ (cs.drop (skip + take)).flatten))
  | .chars _, some y => .error (.err (.typ y tyStr))

/-- `slice_upd($i; $j; u; fail)` on any sequence, positions resolved to `skip`/`take`:
`[.[:$i], .[$i:$j], .[$j:]] | .[1] |= u | add` — the middle part is what `.[$i:$j]` reads
(`slice_reads_what_it_updates`), it is replaced by the first output of `u` or removed. -/
def sliceUpdSeq (s : Seq) (skip take : Nat) (u : Val → Out Val) : Except Exn Val :=
  match firstOf (u (s.sub skip take).toVal) with
  | .error e => .error e
  | .ok y => s.splice skip take y

/-! ### round 2: positions — which places of a value an update may touch -/

/-- the place of an array that the index `k` denotes (`abs_index` of `as_pos_usize`):
`-1` and `len-1` denote the same place; out of bounds and non-integers denote none -/
def slotArr (a : List Val) (k : Val) : Option Nat :=
  match k with
  | .num n => (n.asPosUsize).bind (absIndex · a.length)
  | _ => none

/-- `.[i]` and `.[j]` are different places of the container `c`, `.[i]` being one that an update
can reach.  Arrays: `i` denotes a place and the integer `j` does not denote the same one.
Objects: the keys differ and no entry answers to both (on an `IndexMap`, whose keys are pairwise
different, the second part follows from the first). -/
def Sep (c i j : Val) : Prop :=
  match c with
  | .arr a => ∃ x n, slotArr a i = some x ∧ j = .num n ∧ isIntNum n = true ∧ slotArr a j ≠ some x
  | .obj o => Obj.sameKey j i = false ∧ ∀ e ∈ o, Obj.sameKey i e.1 = true → Obj.sameKey j e.1 = false
  | _ => False

/-- `.[i]` and `.[j]` are the same place of `c`: the same key, or two indices of the same array slot -/
def SameSlot (c i j : Val) : Prop :=
  match c with
  | .arr a => ∃ x, slotArr a i = some x ∧ slotArr a j = some x
  | .obj _ => i = j
  | _ => False

/-- `j` can name a child of `c` (on arrays only numbers do: arrays and `{start,end}` objects as
indices search / slice) -/
def ChildKey (c j : Val) : Prop :=
  match c with
  | .arr _ => ∃ n, j = .num n
  | .obj _ => True
  | _ => False

/-- The position `π` (a `getpath` argument) *avoids* the positions that the evaluated path `cp`
denotes in `c`: it is neither one of them, nor below one, nor above one.  Walking down both:
at an index part the two either separate (`Sep`) or name the same place and go on below it;
at `.[]` every child is a denoted position, so go on below the child `π` names;
`[]` = a denoted position is reached (`π` is it or below it); `π = []` = `π` is above.
Slices are not followed (an update of `.[i:j]` may move everything behind it). -/
def Avoids : Val → CPath → VPath → Prop
  | _, [], _ => False
  | _, _ :: _, [] => False
  | c, (.index i, _) :: rest, j :: js =>
      Sep c i j ∨ (SameSlot c i j ∧ ∃ x, indexV c j = .ok x ∧ Avoids x rest js)
  | c, (.range none none, _) :: rest, j :: js =>
      ChildKey c j ∧ ∃ x, indexV c j = .ok x ∧ Avoids x rest js
  | _, (.range _ _, _) :: _, _ :: _ => False

/-- the update function yields exactly one value (or fails) wherever it is applied.  Needed for
the frame property: `.[0] |= empty` shifts the rest of an array, `.[0][] |= (., .)` creates
positions beside the updated ones (see design/notes/C02.md for the failing instances). -/
def Single (u : Val → Out Val) : Prop :=
  ∀ x, (∃ y, (u x).vals = [y]) ∨ ((u x).vals = [] ∧ (u x).stop ≠ none)

/-! ### the manual's update table (docs/advanced.dj), rows that are not plain recursion -/

/-- `(f1 as $x | g) |= u | … | (fn as $x | g) |= u`: a pipe chain over the bindings `f1 … fn`
(an error of the binding filter comes last) -/
def seqUpd {X : Type} (step : X → Val → Out Val) : List X → Option Exn → Val → Out Val
  | [], none, v => Out.one v
  | [], some e, _ => Out.fail e
  | x :: xs, st, v => (step x v).bind fun v' => seqUpd step xs st v'

/-- the outcome of `first(f // false)` when `f` has the outcome `o` (see `run_first_alt_false`) -/
def altRule (o : Out Val) : Out Val :=
  (match (altKeep o).vals, (altKeep o).stop with
   | [], none => Out.one (Val.bool false)
   | _, _ => altKeep o).first

/-- `def rec_up: (.[]? | rec_up), .; rec_up |= u`, unfolded to the depth of the value:
`.[]? |= (rec_up |= u)` (an `iter_upd` whose failure is the identity), then `. |= u` -/
def recUpSpec : Nat → Val → (Val → Out Val) → Out Val
  | 0, v, u => u v
  | n + 1, v, u => (Out.ofExcept (iterUpd v (fun x => recUpSpec n x u) fun v => .ok v)).bind u

/-! ### prelude definitions as terms (arguments `$F`, `$P`, `$X` as in Gen/C02Defs.lean) -/

/-- `{}[]` -/
def emptyBody : PE := .path .obj0 (.iter false .nil)

def emptyPE (x : String) : PE := .bind emptyBody x .id
def errorPE (x : String) : PE := .bind .errorEmpty x .id
def selectPE (c : PE) (x : String) : PE := .ite c .id (emptyPE x)
def recursePE (f : PE) (r : String) : PE := .fix r (.comma .id (.pipe f (.rcall r)))
def getpathPE (t : PE) (a p : String) : PE :=
  .bind t a (.fold .reduce (.path (.var a) (.iter false .nil)) p .id (.path .id (.index (.var p) false .nil)) .id)
def delPE (f : PE) (x : String) : PE := .update f (emptyPE x)
def pathsPE : PE := .skip (.lit (.num (.int 1))) (.pathOf .recurse)
def mapValuesPE (f : PE) : PE := .update (.path .id (.iter false .nil)) f
def walkPE (f : PE) : PE := .update .recurse f

end Jaq.C02
