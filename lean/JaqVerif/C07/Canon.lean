/-
  C07 specification side: what a value looks like after it was printed and parsed again
  (`canon`), and the side conditions under which the round-trip theorems are stated.
-/
import JaqVerif.C07.Read

namespace Jaq.C07

/-- The number that is read back after printing `n`:
integers are exact and in canonical representation (`Int` iff it fits a machine word, else
`BigInt`); decimal literals are kept character for character; NaN and the infinities come back
as floats; a finite float comes back as the decimal literal that the shortest-digits printer
wrote for it (`Float f ↔ Dec (ryu f)`). -/
def canonNum (c : Cfg) : Num → Num
  | .int i => Num.ofInt i
  | .big i => Num.ofInt i
  | .float f =>
    if F64.isNaN f then .float F64.nan
    else if f == F64.posInf then .float F64.posInf
    else if f == F64.negInf then .float F64.negInf
    else .dec (stringOfBytes (c.ryu f))
  | .dec s => .dec s

def tagCmp (p q : Val × (Val × Val)) : Ordering := Val.cmp p.1 q.1

/-- `sort_keys`: entries (tagged with their original key) in key order -/
def sortTagged (pp : Pp) (es : List (Val × (Val × Val))) : List (Val × (Val × Val)) :=
  if pp.sortKeys then sortBy tagCmp es else es

mutual
  /-- the value that is read back after printing `v` with `pp`: `canonNum` on numbers, the same
  strings (text stays text, bytes stay bytes), arrays elementwise, objects entrywise in insertion
  order — or in key order when `pp.sortKeys` -/
  def canon (c : Cfg) (pp : Pp) : Val → Val
    | .num n => .num (canonNum c n)
    | .arr a => .arr (canonList c pp a)
    | .obj o => .obj ((sortTagged pp (canonEntries c pp o)).map (·.2))
    | v => v
  def canonList (c : Cfg) (pp : Pp) : List Val → List Val
    | [] => []
    | v :: vs => canon c pp v :: canonList c pp vs
  def canonEntries (c : Cfg) (pp : Pp) : List (Val × Val) → List (Val × (Val × Val))
    | [] => []
    | (k, v) :: es => (k, (canon c pp k, canon c pp v)) :: canonEntries c pp es
end

/-! ### side conditions -/

/-- the floats that the writer hands to the shortest-digits printer (`impl Display for Num`) -/
def viaRyu (f : UInt64) : Bool := !F64.isNaN f && !(f == F64.posInf) && !(f == F64.negInf)

/-- first half of the contract of the float printer parameter: for every float handed to it the
output is a complete non-integer number literal of the reader's grammar (it lexes entirely, ends
in a digit, and has a fraction or an exponent) -/
def RyuLit (c : Cfg) : Prop := ∀ f, viaRyu f = true →
    ∃ sf, numLex NumSt.init (c.ryu f) = (c.ryu f, [], sf) ∧ endsWithDigit (c.ryu f) = true ∧ (sf.dot || sf.exp) = true

/-- contract of the float printer parameter (`ryu`): a literal as above, and
`str::parse::<f64>` (`F64.parseDecChars`) of it gives back the same float. -/
structure RyuOk (c : Cfg) : Prop where
  literal : RyuLit c
  value : ∀ f, viaRyu f = true → F64.parseDecChars (stringOfBytes (c.ryu f)).toList = some f

/-- the indentation consists of white space (the command line only produces blanks or a tab) -/
def Pp.WsIndent (pp : Pp) : Prop := ∀ s, pp.indent = some s → ∀ b ∈ s, isWs b = true

/-- a decimal literal as the reader produces them: the text of a complete non-integer number -/
def GoodDec (s : String) : Prop :=
  ∃ t sf, s = stringOfBytes t ∧ numLex NumSt.init t = (t, [], sf) ∧ endsWithDigit t = true ∧ (sf.dot || sf.exp) = true

mutual
  /-- every decimal literal inside the value is one that the reader can produce -/
  def GoodVal : Val → Prop
    | .num (.dec s) => GoodDec s
    | .arr a => GoodList a
    | .obj o => GoodEntries o
    | _ => True
  def GoodList : List Val → Prop
    | [] => True
    | v :: vs => GoodVal v ∧ GoodList vs
  def GoodEntries : List (Val × Val) → Prop
    | [] => True
    | (k, v) :: es => GoodVal k ∧ GoodVal v ∧ GoodEntries es
end

/-- no entry's key is found (hash feed and `==`, as `IndexMap::insert` probes) among the entries
before it; `acc` are the entries already in the map -/
def FreshFrom (acc : List (Val × Val)) : List (Val × Val) → Prop
  | [] => True
  | (k, v) :: es => (∀ e ∈ acc, Obj.sameKey k e.1 = false) ∧ FreshFrom (acc ++ [(k, v)]) es

def DistinctKeysR (es : List (Val × Val)) : Prop := FreshFrom [] es

mutual
  /-- the `IndexMap` invariant: in every object of the value the keys are pairwise different -/
  def KeysOk : Val → Prop
    | .arr a => KeysOkList a
    | .obj o => DistinctKeysR o ∧ KeysOkEntries o
    | _ => True
  def KeysOkList : List Val → Prop
    | [] => True
    | v :: vs => KeysOk v ∧ KeysOkList vs
  def KeysOkEntries : List (Val × Val) → Prop
    | [] => True
    | (k, v) :: es => KeysOk k ∧ KeysOk v ∧ KeysOkEntries es
end

end Jaq.C07
