/-
  C07 specification side: RFC 8259 texts.  `Spelling j s` = "the byte string `s` is an RFC 8259
  text (grammar of §2-§7) of the abstract JSON value `j`": any white space where the grammar allows
  `ws`, strings spelled with any mix of unescaped bytes, two-character escapes, `\uXXXX` escapes in
  either hexadecimal case and surrogate pairs, objects with repeated member names.
  `embed j` is the jaq value that an RFC-conforming reader assigns to `j`.
-/
import JaqVerif.C07.Canon

namespace Jaq.C07

/-- the reader's view of one hexadecimal digit (either case) -/
def HexSp (d : Nat) (c : UInt8) : Prop := hexVal8 c = some d

/-- the two-character escapes of RFC 8259 §7: escape letter, denoted byte -/
def shortEscapes : List (UInt8 × UInt8) :=
  [(0x22, 0x22), (0x5c, 0x5c), (0x2f, 0x2f), (0x62, 0x08), (0x66, 0x0c), (0x6e, 0x0a), (0x72, 0x0d), (0x74, 0x09)]

/-- One piece of a JSON string body and the UTF-8 bytes it denotes. -/
inductive Piece : Bytes → Bytes → Prop where
  /-- an unescaped byte: anything from 0x20 on except quote and backslash (the bytes of multi-byte
  UTF-8 characters are pieces of this kind) -/
  | lit (c : UInt8) (h1 : 0x20 ≤ c.toNat) (h2 : c ≠ 0x22) (h3 : c ≠ 0x5c) : Piece [c] [c]
  /-- `\\"  \\\\  \\/  \\b  \\f  \\n  \\r  \\t` -/
  | short (e c : UInt8) (h : (e, c) ∈ shortEscapes) : Piece [c] [0x5c, e]
  /-- `\\uXXXX` for a code point outside the surrogate range, hexadecimal digits in either case -/
  | uni (d1 d2 d3 d4 : Nat) (c1 c2 c3 c4 : UInt8) (h1 : HexSp d1 c1) (h2 : HexSp d2 c2) (h3 : HexSp d3 c3) (h4 : HexSp d4 c4)
      (hns : ¬ (0xD800 ≤ 16 * (16 * (16 * (16 * 0 + d1) + d2) + d3) + d4 ∧ 16 * (16 * (16 * (16 * 0 + d1) + d2) + d3) + d4 ≤ 0xDFFF)) :
      Piece (Utf8.encode (16 * (16 * (16 * (16 * 0 + d1) + d2) + d3) + d4)) [0x5c, 0x75, c1, c2, c3, c4]
  /-- a surrogate pair `\\uD8xx\\uDCxx` for a code point from U+10000 on -/
  | pair (d1 d2 d3 d4 e1 e2 e3 e4 : Nat) (c1 c2 c3 c4 f1 f2 f3 f4 : UInt8)
      (h1 : HexSp d1 c1) (h2 : HexSp d2 c2) (h3 : HexSp d3 c3) (h4 : HexSp d4 c4)
      (g1 : HexSp e1 f1) (g2 : HexSp e2 f2) (g3 : HexSp e3 f3) (g4 : HexSp e4 f4)
      (hhi : 0xD800 ≤ 16 * (16 * (16 * (16 * 0 + d1) + d2) + d3) + d4 ∧ 16 * (16 * (16 * (16 * 0 + d1) + d2) + d3) + d4 ≤ 0xDBFF)
      (hlo : 0xDC00 ≤ 16 * (16 * (16 * (16 * 0 + e1) + e2) + e3) + e4 ∧ 16 * (16 * (16 * (16 * 0 + e1) + e2) + e3) + e4 ≤ 0xDFFF) :
      Piece (Utf8.encode ((16 * (16 * (16 * (16 * 0 + d1) + d2) + d3) + d4 - 0xD800) * 0x400 +
              (16 * (16 * (16 * (16 * 0 + e1) + e2) + e3) + e4 - 0xDC00) + 0x10000))
            [0x5c, 0x75, c1, c2, c3, c4, 0x5c, 0x75, f1, f2, f3, f4]

/-- a string body: pieces one after the other -/
inductive Body : Bytes → Bytes → Prop where
  | nil : Body [] []
  | cons {o p os ps : Bytes} (h : Piece o p) (t : Body os ps) : Body (o ++ os) (p ++ ps)


/-- abstract JSON values -/
inductive JVal where
  | null
  | bool (b : Bool)
  /-- a number written without fraction and exponent: its exact integer value -/
  | int (i : Int)
  /-- a number written with a fraction or an exponent: its literal text -/
  | lit (t : Bytes)
  /-- a string: the UTF-8 encoding of its characters -/
  | str (utf8 : Bytes)
  | arr (a : List JVal)
  /-- an object: its members as written (names may repeat) -/
  | obj (o : List (Bytes × JVal))

/-- RFC 8259 `ws` -/
def Ws (w : Bytes) : Prop := ∀ b ∈ w, isWs b = true

/-- a non-integer number literal.  (Characterised through the reader's lexer: the text is consumed
entirely by the number lexer, ends in a digit and has a fraction or an exponent.  Every literal of
the RFC grammar `[-] int frac? exp?` with a fraction or exponent is of this kind — see the
examples in Props/C07.lean and the exhaustive correspondence over the number alphabet.) -/
def NonIntLit (t : Bytes) : Prop :=
  ∃ sf, numLex NumSt.init t = (t, [], sf) ∧ endsWithDigit t = true ∧ (sf.dot || sf.exp) = true

mutual
  def Spelling : JVal → Bytes → Prop
    | .null, s => s = strNull
    | .bool b, s => s = (if b then strTrue else strFalse)
    | .int i, s => s = intText i ∨ (i = 0 ∧ s = [0x2d, 0x30])
    | .lit t, s => s = t ∧ NonIntLit t
    | .str u, s => ∃ p, Body u p ∧ s = 0x22 :: (p ++ [0x22])
    | .arr [], s => ∃ w, Ws w ∧ s = 0x5b :: (w ++ [0x5d])
    | .arr (v :: vs), s => ∃ w body, Ws w ∧ SpellingList (v :: vs) body ∧ s = 0x5b :: (w ++ body)
    | .obj [], s => ∃ w, Ws w ∧ s = 0x7b :: (w ++ [0x7d])
    | .obj (m :: ms), s => ∃ w body, Ws w ∧ SpellingMembers (m :: ms) body ∧ s = 0x7b :: (w ++ body)
  /-- `value ws ( , ws value ws )* ]` -/
  def SpellingList : List JVal → Bytes → Prop
    | [], _ => False
    | v :: vs, s => ∃ t w2, Spelling v t ∧ Ws w2 ∧
        ((vs = [] ∧ s = t ++ (w2 ++ [0x5d])) ∨
         (vs ≠ [] ∧ ∃ w1 body, Ws w1 ∧ SpellingList vs body ∧ s = t ++ (w2 ++ 0x2c :: (w1 ++ body))))
  /-- `string ws : ws value ws ( , ws member )* }` -/
  def SpellingMembers : List (Bytes × JVal) → Bytes → Prop
    | [], _ => False
    | (k, v) :: ms, s => ∃ p w1 w2 tv w3, Body k p ∧ Ws w1 ∧ Ws w2 ∧ Spelling v tv ∧ Ws w3 ∧
        ((ms = [] ∧ s = (0x22 :: (p ++ [0x22])) ++ (w1 ++ 0x3a :: (w2 ++ (tv ++ (w3 ++ [0x7d]))))) ∨
         (ms ≠ [] ∧ ∃ w4 body, Ws w4 ∧ SpellingMembers ms body ∧
            s = (0x22 :: (p ++ [0x22])) ++ (w1 ++ 0x3a :: (w2 ++ (tv ++ (w3 ++ 0x2c :: (w4 ++ body)))))))
end

mutual
  /-- the members of every object as written … -/
  def embedRaw : JVal → Val
    | .null => .null
    | .bool b => .bool b
    | .int i => .num (Num.ofInt i)
    | .lit t => .num (.dec (stringOfBytes t))
    | .str u => .tstr u
    | .arr a => .arr (embedList a)
    | .obj o => .obj (embedMembers o)
  def embedList : List JVal → List Val
    | [] => []
    | v :: vs => embedRaw v :: embedList vs
  def embedMembers : List (Bytes × JVal) → List (Val × Val)
    | [] => []
    | (k, v) :: ms => (.tstr k, embedRaw v) :: embedMembers ms
end

end Jaq.C07
