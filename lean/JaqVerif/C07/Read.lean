/-
  C07 impl-model of the JSON/XJON reader of jaq-json (`/repo/jaq-json/src/read.rs`): `ws_tk`
  (white space and `#` comments), `parse`, `parse_string` (text: `\u` with surrogate pairs; bytes:
  `\x`; literal bytes kept as they are, valid UTF-8 or not), `parse_num` (integral literal →
  `Int`/`BigInt`, otherwise the literal text is kept; `±Infinity`), arrays, objects with arbitrary
  keys through `IndexMap::insert`, `parse_single`, `parse_many`.

  The lexer crate hifijson (third party) is modelled by hand from its source
  (`token.rs` `seq`/`expect`/`exactly_one`/`eat_whitespace`, `str.rs` `str_fold`, `escape.rs`
  `escape`/`hex`/`low_surrogate`, `num.rs` `num_part`) and exercised by the correspondence; its
  single-character escape table is GENERATED from the real reader (`Gen.unescT`, `Gen.unescB`).
  A lexer state is the remaining input; errors are `none` (only success/failure is modelled).
  No Mathlib imports: this file is linked into `jaqmodel`.
-/
import JaqVerif.Val.Utf8
import JaqVerif.C07.Write

namespace Jaq.C07

/-! ### white space and comments (`ws_tk`) -/

/-- `eat_whitespace`: blank, tab, CR, LF -/
def isWs (c : UInt8) : Bool := c == 0x20 || c == 0x09 || c == 0x0d || c == 0x0a

/-- `ws_tk` as one pass: outside a comment skip white space and enter a comment at `#`; inside a
comment skip up to the line feed (which the next `eat_whitespace` consumes).  Returns the input
from the next significant byte on (`[]` = `None`). -/
def wsSkip : Bool → Bytes → Bytes
  | _, [] => []
  | false, c :: r => if isWs c then wsSkip false r else if c == 0x23 then wsSkip true r else c :: r
  | true, c :: r => if c == 0x0a then wsSkip false r else wsSkip true r

def wsTk (i : Bytes) : Bytes := wsSkip false i

/-- `SliceLexer::strip_prefix` -/
def stripPrefix (p : Bytes) (i : Bytes) : Option Bytes :=
  if p.isPrefixOf i then some (i.drop p.length) else none

/-! ### strings -/

/-- `decode_hex` -/
def hexVal8 (c : UInt8) : Option Nat :=
  let n := c.toNat
  if 48 ≤ n ∧ n ≤ 57 then some (n - 48)
  else if 97 ≤ n ∧ n ≤ 102 then some (n - 87)
  else if 65 ≤ n ∧ n ≤ 70 then some (n - 55)
  else none

/-- `hex::<T>()`: `k` hexadecimal digits, most significant first -/
def hexN : Nat → Nat → Bytes → Option (Nat × Bytes)
  | 0, acc, i => some (acc, i)
  | _ + 1, _, [] => none
  | k + 1, acc, c :: r =>
    match hexVal8 c with
    | some d => hexN k (16 * acc + d) r
    | none => none

/-- `escape(b'u')` after the `u`: four digits; a high surrogate must be followed by `\u` and a low
surrogate; a lone low surrogate is not a `char` -/
def readUnicode (i : Bytes) : Option (Nat × Bytes) :=
  match hexN 4 0 i with
  | none => none
  | some (u, r) =>
    if 0xD800 ≤ u ∧ u ≤ 0xDBFF then
      match stripPrefix [0x5c, 0x75] r with
      | some r2 =>
        match hexN 4 0 r2 with
        | some (lo, r3) =>
          if 0xDC00 ≤ lo ∧ lo ≤ 0xDFFF then some ((u - 0xD800) * 0x400 + (lo - 0xDC00) + 0x10000, r3)
          else none
        | none => none
      | none => none
    else if 0xDC00 ≤ u ∧ u ≤ 0xDFFF then none
    else some (u, r)

def tableGetO (t : List (Option (List UInt8))) (b : UInt8) : Option Bytes := (t.getD b.toNat none)

/-- one step of `str_fold` + `parse_string`'s escape handler -/
inductive Item where
  | fin (rest : Bytes)               -- closing quote
  | out (o : Bytes) (rest : Bytes)   -- bytes appended to the string
  deriving DecidableEq, Repr

def readItem (bytes : Bool) : Bytes → Option Item
  | [] => none
  | c :: r =>
    if c == 0x22 then some (.fin r)
    else if c == 0x5c then
      match r with
      | [] => none
      | e :: r' =>
        if bytes then
          if e == 0x78 then
            match hexN 2 0 r' with
            | some (b, r'') => some (.out [UInt8.ofNat b] r'')
            | none => none
          else
            match tableGetO Gen.unescB e with
            | some o => some (.out o r')
            | none => none
        else
          if e == 0x75 then
            match readUnicode r' with
            | some (u, r'') => some (.out (Utf8.encode u) r'')
            | none => none
          else
            match tableGetO Gen.unescT e with
            | some o => some (.out o r')
            | none => none
    else if c.toNat < 0x20 then none
    else some (.out [c] r)

/-- `parse_string(lexer, bytes)` after the opening quote; fuel bounds the number of items -/
def readStrF : Nat → Bool → Bytes → Option (Bytes × Bytes)
  | 0, _, _ => none
  | n + 1, b, i =>
    match readItem b i with
    | none => none
    | some (.fin rest) => some ([], rest)
    | some (.out o rest) =>
      match readStrF n b rest with
      | some (s, r) => some (o ++ s, r)
      | none => none

def readStr (b : Bool) (i : Bytes) : Option (Bytes × Bytes) := readStrF (i.length + 1) b i

/-! ### numbers (`hifijson::num::Num::signed_digits`, `parse_num`) -/

structure NumSt where
  read : UInt8
  zero : Bool
  dot : Bool
  exp : Bool
  deriving DecidableEq, Repr

/-- `Num::signed_digits()` -/
def NumSt.init : NumSt := { read := 0x65, zero := false, dot := false, exp := false }

def isDigit (c : UInt8) : Bool := 48 ≤ c.toNat && c.toNat ≤ 57
def isE (c : UInt8) : Bool := c == 0x65 || c == 0x45
def isSign (c : UInt8) : Bool := c == 0x2b || c == 0x2d

/-- `num_part`: `some` new state when `c` continues the number -/
def numPart (s : NumSt) (c : UInt8) : Option NumSt :=
  if s.read == 0 && c == 0x2d then some { s with read := c }
  else if (s.read == 0 || s.read == 0x2d) && c == 0x30 && !s.dot && !s.exp then some { s with read := c, zero := true }
  else if isDigit c && (!s.zero || s.dot || s.exp) then some { s with read := c }
  else if isDigit s.read && c == 0x2e && !s.dot && !s.exp then some { s with read := c, dot := true }
  else if isDigit s.read && isE c && !s.exp then some { s with read := c, exp := true }
  else if isE s.read && isSign c then some { s with read := c }
  else none

/-- `write_until(|c| !num.num_part(c))`: (number text, rest, final state) -/
def numLex : NumSt → Bytes → Bytes × Bytes × NumSt
  | s, [] => ([], [], s)
  | s, c :: r =>
    match numPart s c with
    | some s' =>
      let (t, rest, sf) := numLex s' r
      (c :: t, rest, sf)
    | none => ([], c :: r, s)

def digitsVal (ds : Bytes) : Nat := ds.foldl (fun a c => 10 * a + (c.toNat - 48)) 0

/-- `Num::from_str_radix(num, 10).unwrap()` on `[+-]?\d+`: machine integer if it fits, else big -/
def intOfText : Bytes → Int
  | [] => 0
  | c :: ds =>
    if c == 0x2d then -(Int.ofNat (digitsVal ds))
    else if c == 0x2b then Int.ofNat (digitsVal ds)
    else Int.ofNat (digitsVal (c :: ds))

def endsWithDigit (t : Bytes) : Bool :=
  match t.getLast? with
  | some c => isDigit c
  | none => false

/-- `parse_num` -/
def parseNum (i : Bytes) : Option (Num × Bytes) :=
  let (t, rest, st) := numLex NumSt.init i
  match (if t == [0x2b] || t == [0x2d] then stripPrefix strInfinity rest else none) with
  | some rest' => some (.float (if t == [0x2d] then F64.negInf else F64.posInf), rest')
  | none =>
    if endsWithDigit t then
      if !st.dot && !st.exp then some (Num.ofInt (intOfText t), rest)
      else some (.dec (stringOfBytes t), rest)
    else none

/-! ### values -/

mutual
  /-- `parse(next, lexer)`: the input starts at the peeked byte `next` -/
  def parseValF : Nat → Bytes → Option (Val × Bytes)
    | 0, _ => none
    | _, [] => none
    | n + 1, c :: r =>
      if c == 0x6e then (stripPrefix strNull (c :: r)).map fun r' => (Val.null, r')
      else if c == 0x74 then (stripPrefix strTrue (c :: r)).map fun r' => (Val.bool true, r')
      else if c == 0x66 then (stripPrefix strFalse (c :: r)).map fun r' => (Val.bool false, r')
      else if c == 0x62 then
        match r with
        | c' :: r' => if c' == 0x22 then (readStr true r').map fun (s, r'') => (Val.bstr s, r'') else none
        | [] => none
      else if c == 0x4e then (stripPrefix strNaN (c :: r)).map fun r' => (Val.num (.float F64.nan), r')
      else if c == 0x49 then (stripPrefix strInfinity (c :: r)).map fun r' => (Val.num (.float F64.posInf), r')
      else if isDigit c || isSign c then (parseNum (c :: r)).map fun (x, r') => (Val.num x, r')
      else if c == 0x22 then (readStr false r).map fun (s, r') => (Val.tstr s, r')
      else if c == 0x5b then
        -- `seq(b']', ws_tk, …)`
        match wsTk r with
        | [] => none
        | c' :: r' =>
          if c' == 0x5d then some (Val.arr [], r')
          else (arrLoopF n (c' :: r')).map fun (a, r'') => (Val.arr a, r'')
      else if c == 0x7b then
        match wsTk r with
        | [] => none
        | c' :: r' =>
          if c' == 0x7d then some (Val.obj [], r')
          else (objLoopF n (c' :: r')).map fun (es, r'') => (Val.obj (Obj.ofList es), r'')
      else none
  /-- the `loop` of `seq` for arrays; the input starts at the peeked first byte of an element -/
  def arrLoopF : Nat → Bytes → Option (List Val × Bytes)
    | 0, _ => none
    | n + 1, i =>
      match parseValF n i with
      | none => none
      | some (v, r) =>
        match wsTk r with
        | [] => none
        | c :: r' =>
          if c == 0x5d then some ([v], r')
          else if c == 0x2c then
            match wsTk r' with
            | [] => none
            | c2 :: r2 =>
              match arrLoopF n (c2 :: r2) with
              | some (vs, r'') => some (v :: vs, r'')
              | none => none
          else none
  /-- the `loop` of `seq` for objects: key, `expect(ws_tk, ':')`, `ws_tk`, value; the entries are
  `insert`ed in this order by the caller -/
  def objLoopF : Nat → Bytes → Option (List (Val × Val) × Bytes)
    | 0, _ => none
    | n + 1, i =>
      match parseValF n i with
      | none => none
      | some (k, r) =>
        match wsTk r with
        | [] => none
        | c1 :: r1 =>
          if c1 != 0x3a then none else
          match wsTk r1 with
          | [] => none
          | c2 :: r2 =>
            match parseValF n (c2 :: r2) with
            | none => none
            | some (v, r2) =>
              match wsTk r2 with
              | [] => none
              | c :: r' =>
                if c == 0x7d then some ([(k, v)], r')
                else if c == 0x2c then
                  match wsTk r' with
                  | [] => none
                  | c3 :: r3 =>
                    match objLoopF n (c3 :: r3) with
                    | some (es, r'') => some ((k, v) :: es, r'')
                    | none => none
                else none
end

/-- recursion fuel that suffices for every input of that length (every call consumes a byte
or descends from a sequence to its element) -/
def fuelFor (i : Bytes) : Nat := 2 * i.length + 2

/-- `parse_single`: exactly one value, surrounded by white space / comments -/
def parseSingle (i : Bytes) : Option Val :=
  match wsTk i with
  | [] => none
  | c :: r0 =>
    match parseValF (fuelFor (c :: r0)) (c :: r0) with
    | none => none
    | some (v, r) => if (wsTk r).isEmpty then some v else none

/-- `parse_many`: the values up to the end of input or the first error (`true` = ended by an error) -/
def parseManyF : Nat → Bytes → List Val × Bool
  | 0, _ => ([], true)
  | n + 1, i =>
    match wsTk i with
    | [] => ([], false)
    | c :: r0 =>
      match parseValF (fuelFor (c :: r0)) (c :: r0) with
      | none => ([], true)
      | some (v, r) =>
        let (vs, e) := parseManyF n r
        (v :: vs, e)

def parseMany (i : Bytes) : List Val × Bool := parseManyF (i.length + 1) i

end Jaq.C07
