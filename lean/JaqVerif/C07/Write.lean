/-
  C07 impl-model of the JSON/XJON writer of jaq-json (`/repo/jaq-json/src/write.rs`):
  `write_byte!`, `write_utf8!`, `write_bytes!` (through the GENERATED per-byte tables
  `Gen.escT` / `Gen.escB`, printed by the real writer on every run), `write_seq!`,
  `format_val!` / `write_val!` with `Pp` (`indent`, `sort_keys`, `sep_space`; styles are empty as
  for every non-coloured output), and `impl Display for Num` (`/repo/jaq-json/src/num.rs`).

  The shortest float printer (`ryu::Buffer::format_finite`) is a *parameter* (`Cfg.ryu`); an
  executable model of it (`ryuModel`, shortest round-trip digits by exact rational arithmetic +
  ryu's layout rules) is used by the driver and compared with the real `ryu` on every run.
  No Mathlib imports: this file is linked into `jaqmodel`.
-/
import JaqVerif.Val.Order
import JaqVerif.Gen.C07Tables

namespace Jaq.C07

abbrev Bytes := List UInt8

/-- row `b` of a generated 256-row table -/
def tableGet (t : List (List UInt8)) (b : UInt8) : Bytes := t.getD b.toNat []

def escT1 (b : UInt8) : Bytes := tableGet Gen.escT b
def escB1 (b : UInt8) : Bytes := tableGet Gen.escB b

/-- `write_utf8!` with the raw-bytes part writer of `write_val!` (invalid UTF-8 is written as is):
a quote, every byte through the table, a quote. -/
def writeTStr (s : Bytes) : Bytes := 0x22 :: (s.flatMap escT1 ++ [0x22])

/-- `write_bytes!`: `b"`, every byte through the table, a quote. -/
def writeBStr (s : Bytes) : Bytes := 0x62 :: 0x22 :: (s.flatMap escB1 ++ [0x22])

/-! ### numbers -/

def digitByte (d : Nat) : UInt8 := UInt8.ofNat (48 + d)

/-- decimal digits of a natural number, most significant first (`{i}` of Rust integers / `BigInt`) -/
def natDigits (n : Nat) : Bytes :=
  if _h : n < 10 then [digitByte n] else natDigits (n / 10) ++ [digitByte (n % 10)]
decreasing_by omega

/-- `Display` of `isize` / `BigInt` -/
def intText (i : Int) : Bytes :=
  if i < 0 then 0x2d :: natDigits i.natAbs else natDigits i.natAbs

/-- the bytes of a decimal literal (`Dec` holds the ASCII text as read) -/
def decBytes (s : String) : Bytes := s.toList.map fun c => UInt8.ofNat c.toNat

def strNaN : Bytes := [0x4e, 0x61, 0x4e]
def strInfinity : Bytes := [0x49, 0x6e, 0x66, 0x69, 0x6e, 0x69, 0x74, 0x79]
def strNull : Bytes := [0x6e, 0x75, 0x6c, 0x6c]
def strTrue : Bytes := [0x74, 0x72, 0x75, 0x65]
def strFalse : Bytes := [0x66, 0x61, 0x6c, 0x73, 0x65]

/-- parameters of the model: the third-party shortest float printer -/
structure Cfg where
  ryu : UInt64 → Bytes

/-- `impl Display for Num` -/
def writeNum (c : Cfg) : Num → Bytes
  | .int i => intText i
  | .big i => intText i
  | .float f =>
    if F64.isNaN f then strNaN
    else if f == F64.posInf then strInfinity
    else if f == F64.negInf then 0x2d :: strInfinity
    else c.ryu f
  | .dec s => decBytes s

/-! ### `Pp` and `write_seq!` -/

/-- `Pp` of write.rs without the styles -/
structure Pp where
  indent : Option Bytes
  sortKeys : Bool
  sepSpace : Bool
  deriving Repr, DecidableEq

/-- `Pp::default()` (what `tojson` uses) -/
def Pp.compact : Pp := { indent := none, sortKeys := false, sepSpace := false }

def repeatBytes (s : Bytes) : Nat → Bytes
  | 0 => []
  | n + 1 => s ++ repeatBytes s n

/-- `writeln!` when an indentation is set -/
def Pp.nl (pp : Pp) : Bytes := if pp.indent.isSome then [0x0a] else []

/-- `indent.repeat(level)` when an indentation is set -/
def Pp.ind (pp : Pp) (level : Nat) : Bytes :=
  match pp.indent with
  | some s => repeatBytes s level
  | none => []

/-- separator after a non-last item: `,` and, for one-line output with `sep_space`, a blank -/
def Pp.comma (pp : Pp) : Bytes := 0x2c :: (if pp.sepSpace && pp.indent.isNone then [0x20] else [])

/-- the body of the `while let Some(x) = iter.next()` loop of `write_seq!` over rendered items -/
def seqItems (pp : Pp) (level : Nat) : List Bytes → Bytes
  | [] => []
  | [x] => pp.ind (level + 1) ++ x ++ pp.nl
  | x :: y :: r => pp.ind (level + 1) ++ x ++ pp.comma ++ pp.nl ++ seqItems pp level (y :: r)

/-- `write_seq!` -/
def seqText (pp : Pp) (level : Nat) (items : List Bytes) : Bytes :=
  pp.nl ++ seqItems pp level items ++ pp.ind level

/-- `:` and a blank with `sep_space` -/
def Pp.colon (pp : Pp) : Bytes := 0x3a :: (if pp.sepSpace then [0x20] else [])

def keyCmp (p q : Val × Bytes) : Ordering := Val.cmp p.1 q.1

/-- `sort_by_key(|(k, _v)| *k)` on the entries (here: on the rendered entries, tagged with their key) -/
def sortItems (pp : Pp) (items : List (Val × Bytes)) : List (Val × Bytes) :=
  if pp.sortKeys then sortBy keyCmp items else items

mutual
  /-- `write_val!` / `format_val!` at nesting `level` -/
  def writeVal (c : Cfg) (pp : Pp) : Nat → Val → Bytes
    | _, .null => strNull
    | _, .bool true => strTrue
    | _, .bool false => strFalse
    | _, .num n => writeNum c n
    | _, .bstr b => writeBStr b
    | _, .tstr s => writeTStr s
    | level, .arr a =>
      0x5b :: ((if a.isEmpty then [] else seqText pp level (writeList c pp (level + 1) a)) ++ [0x5d])
    | level, .obj o =>
      0x7b :: ((if o.isEmpty then []
                else seqText pp level ((sortItems pp (writeEntries c pp (level + 1) o)).map (·.2))) ++ [0x7d])
  def writeList (c : Cfg) (pp : Pp) : Nat → List Val → List Bytes
    | _, [] => []
    | level, v :: vs => writeVal c pp level v :: writeList c pp level vs
  /-- the `kv!` macro: key, `:`, value; tagged with the key for `sort_keys` -/
  def writeEntries (c : Cfg) (pp : Pp) : Nat → List (Val × Val) → List (Val × Bytes)
    | _, [] => []
    | level, (k, v) :: es =>
      (k, writeVal c pp level k ++ pp.colon ++ writeVal c pp level v) :: writeEntries c pp level es
end

/-- `jaq_json::write::write(w, pp, 0, v)`; `Val::to_json` is `write Pp.compact` -/
def write (c : Cfg) (pp : Pp) (v : Val) : Bytes := writeVal c pp 0 v

/-! ### executable model of `ryu::Buffer::format_finite` (driver only; the theorems take the
printer as a parameter with a contract) -/

def numDigits (n : Nat) : Nat := (natDigits n).length

/-- smallest `j ≤ fuel` with `u * 10^j ≥ d` -/
def scaleUp (u d : Nat) : Nat → Nat → Nat
  | 0, j => j
  | fuel + 1, j => if u * 10 ^ j ≥ d then j else scaleUp u d fuel (j + 1)

def stripZeros : Nat → Nat → Int → Nat × Int
  | 0, m, k => (m, k)
  | fuel + 1, m, k => if m != 0 && m % 10 == 0 then stripZeros fuel (m / 10) (k + 1) else (m, k)

/-- candidate with `n` significant digits: the decimal `(m, k)` (value `m * 10^k`) nearest to the
exact value `u / 2^1074` among those that parse back to `bits` (ties to even), if any -/
def ryuAttempt (bits : UInt64) (u : Nat) (e10 : Int) (n : Nat) : Option (Nat × Int) :=
  let d := 2 ^ 1074
  let k : Int := e10 - (Int.ofNat n - 1)
  let (num, den) := if k ≥ 0 then (u, d * 10 ^ k.toNat) else (u * 10 ^ (-k).toNat, d)
  let lo := num / den
  let rem := num % den
  let back (c : Nat) : Bool :=
    (if k ≥ 0 then F64.roundRat false (c * 10 ^ k.toNat) 1 else F64.roundRat false c (10 ^ (-k).toNat)) == bits
  let okLo := back lo
  let okHi := back (lo + 1)
  if rem == 0 && okLo then some (lo, k)
  else if okLo && okHi then
    (if 2 * rem < den then some (lo, k)
     else if 2 * rem > den then some (lo + 1, k)
     else if lo % 2 == 0 then some (lo, k) else some (lo + 1, k))
  else if okLo then some (lo, k)
  else if okHi then some (lo + 1, k)
  else none

def ryuSearch (bits : UInt64) (u : Nat) (e10 : Int) : Nat → Nat → Nat × Int
  | 0, _ => (0, 0)
  | fuel + 1, n =>
    match ryuAttempt bits u e10 n with
    | some r => r
    | none => ryuSearch bits u e10 fuel (n + 1)

/-- shortest decimal `(m, k)` (value `m * 10^k`) that parses back to the positive finite float
`bits`, closest to its exact value among the shortest ones -/
def shortestDigits (bits : UInt64) : Nat × Int :=
  let u := F64.magUnits bits           -- value = u / 2^1074
  let d := 2 ^ 1074
  let e10 : Int :=
    if u ≥ d then Int.ofNat (numDigits (u / d)) - 1
    else -(Int.ofNat (scaleUp u d 400 0))
  let (m, k) := ryuSearch bits u e10 18 1
  stripZeros 20 m k

def zeros (n : Nat) : Bytes := List.replicate n 0x30

/-- the layout rules of `ryu::pretty::format64` -/
def ryuModel (bits : UInt64) : Bytes :=
  let sign : Bytes := if F64.signBit bits then [0x2d] else []
  let a := F64.abs bits
  if F64.isZero bits then sign ++ [0x30, 0x2e, 0x30] else
  let (m, k) := shortestDigits a
  let ds := natDigits m
  let len : Int := Int.ofNat ds.length
  let kk : Int := len + k
  let expo : Bytes := intText (kk - 1)
  sign ++
  (if 0 ≤ k && kk ≤ 16 then ds ++ zeros k.toNat ++ [0x2e, 0x30]
   else if 0 < kk && kk ≤ 16 then ds.take kk.toNat ++ [0x2e] ++ ds.drop kk.toNat
   else if -5 < kk && kk ≤ 0 then [0x30, 0x2e] ++ zeros (-kk).toNat ++ ds
   else if ds.length == 1 then ds ++ [0x65] ++ expo
   else ds.take 1 ++ [0x2e] ++ ds.drop 1 ++ [0x65] ++ expo)

def Cfg.model : Cfg := { ryu := ryuModel }

end Jaq.C07
