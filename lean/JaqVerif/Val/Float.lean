/-
  IEEE-754 binary64 on bit patterns, in pure integer arithmetic (kernel-evaluable; Lean's
  opaque `Float` is not used).  Covers what jaq's `Num` needs: conversion from integers
  (`i as f64`, `BigInt::to_f64`: round to nearest even), `+ - * / %` (correctly rounded /
  exact `fmod`), decimal literal parsing (`str::parse::<f64>`), order (`float_cmp`,
  `total_cmp`), classification.

  Mirrors the *semantics* of Rust's `f64` that `/repo/jaq-json/src/num.rs` relies on; the
  correspondence checks of C08/C09 run it against the hardware on boundary and random operands.
-/
import JaqVerif.Val.Basic

namespace Jaq
namespace F64

def signBit (b : UInt64) : Bool := b.toNat ≥ 2 ^ 63
def expField (b : UInt64) : Nat := (b.toNat / 2 ^ 52) % 2048
def fracField (b : UInt64) : Nat := b.toNat % 2 ^ 52

def isNaN (b : UInt64) : Bool := expField b == 2047 && fracField b != 0
def isInf (b : UInt64) : Bool := expField b == 2047 && fracField b == 0
def isFinite (b : UInt64) : Bool := expField b != 2047
def isZero (b : UInt64) : Bool := b.toNat % 2 ^ 63 == 0

def nan : UInt64 := 0x7ff8000000000000
def posInf : UInt64 := 0x7ff0000000000000
def negInf : UInt64 := 0xfff0000000000000
def posZero : UInt64 := 0
def negZero : UInt64 := 0x8000000000000000

def inf (neg : Bool) : UInt64 := if neg then negInf else posInf
def zero (neg : Bool) : UInt64 := if neg then negZero else posZero

/-- magnitude of a finite float as `mant * 2^(-1074) * 2^shift`: returns `(mant, e)` with
value `mant * 2^(e - 1074)`, `e ≥ 0`. -/
def mantExp (b : UInt64) : Nat × Nat :=
  let e := expField b
  if e == 0 then (fracField b, 0) else (fracField b + 2 ^ 52, e - 1)

/-- magnitude of a finite float as a natural multiple of 2^-1074 -/
def magUnits (b : UInt64) : Nat :=
  let (m, e) := mantExp b
  m * 2 ^ e

/-- value of a finite float as an integer multiple of 2^-1074 (`fkey` of DESIGN §5) -/
def units (b : UInt64) : Int :=
  if signBit b then -(Int.ofNat (magUnits b)) else Int.ofNat (magUnits b)

/-- Round the positive rational `num / den` (`den > 0`) to nearest-even binary64. -/
def roundRat (neg : Bool) (num den : Nat) : UInt64 :=
  if num == 0 || den == 0 then zero neg else
  let lb : Int := Int.ofNat num.log2 - Int.ofNat den.log2
  -- L = floor(log2(num/den))
  let ge : Bool := if lb ≥ 0 then num ≥ den * 2 ^ lb.toNat else num * 2 ^ (-lb).toNat ≥ den
  let L : Int := if ge then lb else lb - 1
  let E : Int := if L - 52 < -1074 then -1074 else L - 52
  let (n', d') : Nat × Nat := if E ≥ 0 then (num, den * 2 ^ E.toNat) else (num * 2 ^ (-E).toNat, den)
  let q := n' / d'
  let r := n' % d'
  let up : Bool := 2 * r > d' || (2 * r == d' && q % 2 == 1)
  let q := if up then q + 1 else q
  let bits := (E + 1074).toNat * 2 ^ 52 + q
  if bits ≥ 2047 * 2 ^ 52 then inf neg
  else UInt64.ofNat (bits + (if neg then 2 ^ 63 else 0))

/-- `i as f64` / `BigInt::to_f64` (round to nearest even; overflow gives infinity) -/
def ofInt (i : Int) : UInt64 :=
  if i < 0 then roundRat true i.natAbs 1 else roundRat false i.natAbs 1

/-- `units * 2^-1074` rounded (used by add/sub/rem where results are multiples of 2^-1074) -/
def ofUnits (negZeroIfZero : Bool) (u : Int) : UInt64 :=
  if u == 0 then zero negZeroIfZero
  else roundRat (u < 0) u.natAbs (2 ^ 1074)

def canonNaN (b : UInt64) : UInt64 := if isNaN b then nan else b

def add (a b : UInt64) : UInt64 :=
  if isNaN a || isNaN b then nan
  else if isInf a then (if isInf b && signBit a != signBit b then nan else a)
  else if isInf b then b
  else ofUnits (signBit a && signBit b) (units a + units b)

def neg (a : UInt64) : UInt64 := UInt64.ofNat ((a.toNat + 2 ^ 63) % 2 ^ 64)

def sub (a b : UInt64) : UInt64 := if isNaN b then nan else add a (neg b)

def mul (a b : UInt64) : UInt64 :=
  let s := signBit a != signBit b
  if isNaN a || isNaN b then nan
  else if isInf a || isInf b then (if isZero a || isZero b then nan else inf s)
  else
    let (ma, ea) := mantExp a
    let (mb, eb) := mantExp b
    -- value = ma*mb * 2^(ea+eb-2148)
    if ma == 0 || mb == 0 then zero s
    else roundRat s (ma * mb * 2 ^ (ea + eb)) (2 ^ 2148)

def div (a b : UInt64) : UInt64 :=
  let s := signBit a != signBit b
  if isNaN a || isNaN b then nan
  else if isInf a then (if isInf b then nan else inf s)
  else if isInf b then zero s
  else if isZero b then (if isZero a then nan else inf s)
  else if isZero a then zero s
  else roundRat s (magUnits a) (magUnits b)

/-- Rust's `%` on `f64` = C `fmod`: exact, sign of the dividend -/
def rem (a b : UInt64) : UInt64 :=
  if isNaN a || isNaN b || isInf a || isZero b then nan
  else if isInf b then a
  else
    let r := magUnits a % magUnits b
    if r == 0 then zero (signBit a)
    else roundRat (signBit a) r (2 ^ 1074)

def abs (a : UInt64) : UInt64 := UInt64.ofNat (a.toNat % 2 ^ 63)

/-- `f64::total_cmp` on non-NaN operands restricted to what `float_cmp` needs -/
def totalKey (b : UInt64) : Int :=
  if signBit b then -(Int.ofNat (b.toNat % 2 ^ 63)) - 1 else Int.ofNat b.toNat

/-- `float_cmp` of num.rs: zeros equal, NaN least (even against NaN), else `total_cmp`. -/
def cmp (l r : UInt64) : Ordering :=
  if isZero l && isZero r then .eq
  else if isNaN l then .lt
  else if isNaN r then .gt
  else compare (totalKey l) (totalKey r)

/-! ### decimal literals (`str::parse::<f64>`) -/

def pow10 (n : Nat) : Nat := 10 ^ n

/-- Parse `[+-]? digits [. digits]? ([eE] [+-]? digits)?` (at least one mantissa digit),
plus Rust's `inf`, `infinity`, `nan` (case-insensitive).  `none` = `parse` fails. -/
def parseDecChars (cs : List Char) : Option UInt64 :=
  let (neg, cs) := match cs with
    | '-' :: r => (true, r)
    | '+' :: r => (false, r)
    | r => (false, r)
  let lower := String.ofList (cs.map Char.toLower)
  if lower == "inf" || lower == "infinity" then some (inf neg)
  else if lower == "nan" then some nan
  else
    let isD (c : Char) : Bool := '0' ≤ c && c ≤ '9'
    let ip := cs.takeWhile isD
    let r1 := cs.dropWhile isD
    let (fp, r2) := match r1 with
      | '.' :: r => (r.takeWhile isD, r.dropWhile isD)
      | r => ([], r)
    if ip.isEmpty && fp.isEmpty then none else
    let expo : Option Int := match r2 with
      | [] => some 0
      | e :: r =>
        if e == 'e' || e == 'E' then
          let (eneg, ds) := match r with
            | '-' :: d => (true, d)
            | '+' :: d => (false, d)
            | d => (false, d)
          if ds.isEmpty || !ds.all isD then none
          else
            let n := ds.foldl (fun a c => 10 * a + (c.toNat - 48)) 0
            some (if eneg then -(Int.ofNat n) else Int.ofNat n)
        else none
    match expo with
    | none => none
    | some ex =>
      let mant := (ip ++ fp).foldl (fun a c => 10 * a + (c.toNat - 48)) 0
      let e10 : Int := ex - Int.ofNat fp.length
      if mant == 0 then some (zero neg)
      else
        let digits := (toString mant).length
        -- guards against astronomically large exponents (result is decided anyway)
        if e10 + Int.ofNat digits > 400 then some (inf neg)
        else if e10 + Int.ofNat digits < -400 then some (zero neg)
        else if e10 ≥ 0 then some (roundRat neg (mant * pow10 e10.toNat) 1)
        else some (roundRat neg mant (pow10 (-e10).toNat))

/-- `Num::from_dec_str`: parse, NaN on failure -/
def ofDec (s : String) : UInt64 := (parseDecChars s.toList).getD nan

/-- exact integer value of a finite float with zero fractional part, else none -/
def toIntExact? (b : UInt64) : Option Int :=
  if !isFinite b then none
  else
    let u := magUnits b
    if u % 2 ^ 1074 == 0 then
      let m := Int.ofNat (u / 2 ^ 1074)
      some (if signBit b then -m else m)
    else none

/-- truncation toward zero of a finite float (as an exact integer) -/
def trunc (b : UInt64) : Int :=
  let m := Int.ofNat (magUnits b / 2 ^ 1074)
  if signBit b then -m else m

/-- Rust `f as isize` (saturating, NaN → 0) -/
def toIsizeSat (b : UInt64) : Int :=
  if isNaN b then 0
  else if isInf b then (if signBit b then isizeMin else isizeMax)
  else
    let t := trunc b
    if t < isizeMin then isizeMin else if t > isizeMax then isizeMax else t

end F64
end Jaq
