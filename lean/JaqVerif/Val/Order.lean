/-
  impl-model of `impl Ord / PartialEq / Hash for Val` (`/repo/jaq-json/src/lib.rs`) and of the
  `IndexMap` operations jaq uses on objects (`get`, `insert`, `extend`, `swap_remove`,
  equality), with hashed lookup modelled as "first entry whose hash feed and `==` agree".
-/
import JaqVerif.Val.Num

namespace Jaq

/-- lexicographic comparison of lists (`Iterator::cmp`, `Vec::cmp`, `[u8]::cmp`) -/
def lexCmp {α : Type} (c : α → α → Ordering) : List α → List α → Ordering
  | [], [] => .eq
  | [], _ :: _ => .lt
  | _ :: _, [] => .gt
  | x :: xs, y :: ys =>
    match c x y with
    | .eq => lexCmp c xs ys
    | o => o

/-- stable insertion sort by a comparison (model of `sort_by_key` / `sort`) -/
def insertBy {α : Type} (c : α → α → Ordering) (x : α) : List α → List α
  | [] => [x]
  | y :: ys => if c x y == .lt then x :: y :: ys else y :: insertBy c x ys

def sortBy {α : Type} (c : α → α → Ordering) (l : List α) : List α :=
  l.foldr (fun x acc => insertBy c x acc) []

def cmpBytes (x y : List UInt8) : Ordering := lexCmp (fun a b => compare a.toNat b.toNat) x y

def Val.rank : Val → Nat
  | .null => 0
  | .bool _ => 1
  | .num _ => 2
  | .bstr _ | .tstr _ => 3
  | .arr _ => 4
  | .obj _ => 5

/-- `impl Ord for Val`, with recursion fuel -/
def Val.cmpF : Nat → Val → Val → Ordering
  | 0, _, _ => .eq
  | n + 1, a, b =>
    match a, b with
    | .null, .null => .eq
    | .bool x, .bool y => compare x.toNat y.toNat
    | .num x, .num y => Num.cmp x y
    | .bstr x, .bstr y | .bstr x, .tstr y | .tstr x, .bstr y | .tstr x, .tstr y => cmpBytes x y
    | .arr x, .arr y => lexCmp (Val.cmpF n) x y
    | .obj x, .obj y =>
      match x, y with
      | [], [] => .eq
      | [], _ :: _ => .lt
      | _ :: _, [] => .gt
      | _, _ =>
        let l := sortBy (fun p q => Val.cmpF n p.1 q.1) x
        let r := sortBy (fun p q => Val.cmpF n p.1 q.1) y
        match lexCmp (Val.cmpF n) (l.map (·.1)) (r.map (·.1)) with
        | .eq => lexCmp (Val.cmpF n) (l.map (·.2)) (r.map (·.2))
        | o => o
    | a, b => compare a.rank b.rank

def Val.cmp (a b : Val) : Ordering := Val.cmpF (a.size + b.size) a b

/-- sorted entries of an object (as `Val::cmp` and `Val::hash` compute them) -/
def sortedEntries (o : List (Val × Val)) : List (Val × Val) :=
  sortBy (fun p q => Val.cmp p.1 q.1) o

/-- hash feed of a value: the flat token sequence that `impl Hash for Val` writes.
Tokens: `(0, i)` a word, `(1, b)` a byte of a string, `(2, n)` a length prefix. -/
abbrev Feed := List (Nat × Int)

def Val.feedF : Nat → Val → Feed
  | 0, _ => []
  | n + 1, v =>
    match v with
    | .num x => (Num.hashFeed x).map fun i => (0, i)
    | .null => [(0, 2)]
    | .bool b => [(0, if b then 3 else 4)]
    | .bstr b | .tstr b => (0, 5) :: (2, Int.ofNat b.length) :: b.map fun x => (1, Int.ofNat x.toNat)
    | .arr a => (0, 6) :: (2, Int.ofNat a.length) :: a.flatMap (Val.feedF n)
    | .obj o =>
      (0, 7) :: (sortedEntries o).flatMap fun (k, v) => Val.feedF n k ++ Val.feedF n v

def Val.feed (v : Val) : Feed := Val.feedF v.size v

/-- `impl PartialEq for Val`, with recursion fuel.  Object equality is `IndexMap`'s: equal
length and every entry of the left found (hashed lookup) in the right with an equal value. -/
def Val.eqF : Nat → Val → Val → Bool
  | 0, _, _ => false
  | n + 1, a, b =>
    match a, b with
    | .null, .null => true
    | .bool x, .bool y => x == y
    | .num x, .num y => Num.eq x y
    | .bstr x, .bstr y | .bstr x, .tstr y | .tstr x, .bstr y | .tstr x, .tstr y => x == y
    | .arr x, .arr y =>
      x.length == y.length && (List.zipWith (Val.eqF n) x y).all id
    | .obj x, .obj y =>
      x.length == y.length &&
      x.all fun (k, v) =>
        match y.find? (fun (k', _) => Val.feed k == Val.feed k' && Val.eqF n k k') with
        | some (_, v') => Val.eqF n v v'
        | none => false
    | _, _ => false

def Val.eq (a b : Val) : Bool := Val.eqF (a.size + b.size) a b

/-! ### IndexMap operations on association lists -/
namespace Obj

abbrev Entries := List (Val × Val)

/-- the probe of a hashed lookup: same hash feed and `==` -/
def sameKey (k k' : Val) : Bool := Val.feed k == Val.feed k' && Val.eq k k'

/-- `IndexMap::get` -/
def get (o : Entries) (k : Val) : Option Val :=
  (o.find? fun (k', _) => sameKey k k').map (·.2)

def has (o : Entries) (k : Val) : Bool := (get o k).isSome

/-- `IndexMap::insert`: replace the value in place (keeping the old key), else append -/
def insert (o : Entries) (k v : Val) : Entries :=
  if has o k then o.map fun (k', v') => if sameKey k k' then (k', v) else (k', v')
  else o ++ [(k, v)]

/-- `IndexMap::extend` / `collect` -/
def extend (o : Entries) (kvs : Entries) : Entries := kvs.foldl (fun acc (k, v) => insert acc k v) o

def ofList (kvs : Entries) : Entries := extend [] kvs

/-- `swap_remove`: the last entry takes the place of the removed one -/
def swapRemove (o : Entries) (k : Val) : Entries :=
  match o.findIdx? (fun (k', _) => sameKey k k') with
  | none => o
  | some i =>
    match o.getLast? with
    | none => o
    | some last =>
      if i + 1 == o.length then o.dropLast
      else (o.set i last).dropLast

end Obj
end Jaq
