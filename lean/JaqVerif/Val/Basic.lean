/-
  Values of jaq-json (`Val`, `Num`) as plain Lean data, and the VX wire encoding used by the
  line protocol between the Rust harness and the compiled model driver.

  Mirrors `/repo/jaq-json/src/lib.rs` (`enum Val`) and `/repo/jaq-json/src/num.rs` (`enum Num`).
  No Mathlib imports: this file is linked into the `jaqmodel` executable.
-/

namespace Jaq

/-- `Num` of jaq-json.  `int` is the machine integer (invariant, kept by every model
operation and checked by `Num.wf`: the payload fits in an `isize` = i64); `big` is the
`BigInt` representation, which *may* hold a small value (as `BigInt(0)` after `x - x`);
`float` carries the IEEE-754 bits; `dec` the literal text as read. -/
inductive Num where
  | int (i : Int)
  | big (i : Int)
  | float (bits : UInt64)
  | dec (s : String)
  deriving Repr, DecidableEq, Inhabited

/-- `Val` of jaq-json.  Strings are byte lists (text strings need not be valid UTF-8);
objects are association lists in insertion order (`IndexMap`), keys pairwise `≠` under the
model's equality (invariant, not a subtype). -/
inductive Val where
  | null
  | bool (b : Bool)
  | num (n : Num)
  | bstr (b : List UInt8)
  | tstr (b : List UInt8)
  | arr (a : List Val)
  | obj (o : List (Val × Val))
  deriving Repr, Inhabited

def isizeMin : Int := -9223372036854775808
def isizeMax : Int := 9223372036854775807
def usizeMax : Int := 18446744073709551615

def fitsIsize (i : Int) : Bool := isizeMin ≤ i && i ≤ isizeMax

/-- `Num::from_integral` / `int_or_big`: machine integer when it fits, else big. -/
def Num.ofInt (i : Int) : Num := if fitsIsize i then .int i else .big i

def Num.wf : Num → Bool
  | .int i => fitsIsize i
  | _ => true

/-! ## sizes (for well-founded recursion and custom induction) -/

mutual
  def Val.size : Val → Nat
    | .arr a => 1 + Val.sizeList a
    | .obj o => 1 + Val.sizeEntries o
    | _ => 1
  def Val.sizeList : List Val → Nat
    | [] => 0
    | v :: vs => Val.size v + Val.sizeList vs
  def Val.sizeEntries : List (Val × Val) → Nat
    | [] => 0
    | (k, v) :: es => Val.size k + Val.size v + Val.sizeEntries es
end

theorem Val.size_pos (v : Val) : 0 < v.size := by
  cases v <;> simp [Val.size] <;> omega

theorem Val.size_lt_of_mem {a : List Val} {v : Val} (h : v ∈ a) : v.size ≤ Val.sizeList a := by
  induction a with
  | nil => cases h
  | cons x xs ih =>
    simp only [Val.sizeList]
    cases h with
    | head => omega
    | tail _ h => have := ih h; omega

theorem Val.size_entry_of_mem {o : List (Val × Val)} {k v : Val} (h : (k, v) ∈ o) :
    k.size + v.size ≤ Val.sizeEntries o := by
  induction o with
  | nil => cases h
  | cons x xs ih =>
    obtain ⟨k', v'⟩ := x
    simp only [Val.sizeEntries]
    cases h with
    | head => omega
    | tail _ h => have := ih h; omega

/-! ## hex and VX encoding -/

def hexDigit (n : Nat) : Char :=
  if n < 10 then Char.ofNat (48 + n) else Char.ofNat (87 + n)

def hexVal (c : Char) : Option Nat :=
  if '0' ≤ c ∧ c ≤ '9' then some (c.toNat - 48)
  else if 'a' ≤ c ∧ c ≤ 'f' then some (c.toNat - 87)
  else if 'A' ≤ c ∧ c ≤ 'F' then some (c.toNat - 55)
  else none

def hexOfBytes (b : List UInt8) : String :=
  String.ofList (b.flatMap fun x => [hexDigit (x.toNat / 16), hexDigit (x.toNat % 16)])

def bytesOfHexChars : List Char → Option (List UInt8)
  | [] => some []
  | [_] => none
  | a :: b :: rest =>
    match hexVal a, hexVal b, bytesOfHexChars rest with
    | some x, some y, some r => some (UInt8.ofNat (16 * x + y) :: r)
    | _, _, _ => none

def bytesOfHex (s : String) : Option (List UInt8) := bytesOfHexChars s.toList

def natOfHexChars (cs : List Char) : Option Nat :=
  cs.foldl (fun acc c => match acc, hexVal c with
    | some a, some d => some (16 * a + d)
    | _, _ => none) (some 0)

def hex16 (n : UInt64) : String :=
  String.ofList ((List.range 16).map fun i => hexDigit ((n.toNat >>> (4 * (15 - i))) % 16))

def natOfDecChars (cs : List Char) : Option Nat :=
  if cs.isEmpty then none else
  cs.foldl (fun acc c => match acc with
    | some a => if '0' ≤ c ∧ c ≤ '9' then some (10 * a + (c.toNat - 48)) else none
    | none => none) (some 0)

def intOfDecChars : List Char → Option Int
  | '-' :: cs => (natOfDecChars cs).map fun n => -(Int.ofNat n)
  | cs => (natOfDecChars cs).map Int.ofNat

def intOfDec (s : String) : Option Int := intOfDecChars s.toList

def stringOfBytes (b : List UInt8) : String :=
  -- only used for `dec` literals, which are ASCII
  String.ofList (b.map fun x => Char.ofNat x.toNat)

def bytesOfString (s : String) : List UInt8 := s.toUTF8.toList

def Num.toVX : Num → String
  | .int i => "I" ++ toString i
  | .big i => "G" ++ toString i
  | .float b => "D" ++ hex16 b
  | .dec s => "L" ++ hexOfBytes (bytesOfString s)

mutual
  def Val.toVXs : Val → List String
    | .null => ["N"]
    | .bool true => ["T"]
    | .bool false => ["F"]
    | .num n => [n.toVX]
    | .bstr b => ["B" ++ hexOfBytes b]
    | .tstr b => ["S" ++ hexOfBytes b]
    | .arr a => ("A" ++ toString a.length) :: Val.listToVXs a
    | .obj o => ("O" ++ toString o.length) :: Val.entriesToVXs o
  def Val.listToVXs : List Val → List String
    | [] => []
    | v :: vs => Val.toVXs v ++ Val.listToVXs vs
  def Val.entriesToVXs : List (Val × Val) → List String
    | [] => []
    | (k, v) :: es => Val.toVXs k ++ Val.toVXs v ++ Val.entriesToVXs es
end

def Val.toVX (v : Val) : String := " ".intercalate v.toVXs

/-- Parse one value from a token list; fuel bounds the recursion (tokens are consumed). -/
def Val.parseVX : Nat → List String → Option (Val × List String)
  | 0, _ => none
  | _, [] => none
  | fuel + 1, tok :: rest =>
    match tok.toList with
    | ['N'] => some (.null, rest)
    | ['T'] => some (.bool true, rest)
    | ['F'] => some (.bool false, rest)
    | 'I' :: cs => (intOfDecChars cs).map fun i => (.num (.int i), rest)
    | 'G' :: cs => (intOfDecChars cs).map fun i => (.num (.big i), rest)
    | 'D' :: cs => (natOfHexChars cs).map fun n => (.num (.float (UInt64.ofNat n)), rest)
    | 'L' :: cs => (bytesOfHexChars cs).map fun b => (.num (.dec (stringOfBytes b)), rest)
    | 'S' :: cs => (bytesOfHexChars cs).map fun b => (.tstr b, rest)
    | 'B' :: cs => (bytesOfHexChars cs).map fun b => (.bstr b, rest)
    | 'A' :: cs =>
      match natOfDecChars cs with
      | none => none
      | some n =>
        let rec goA (k : Nat) (acc : List Val) (toks : List String) : Option (Val × List String) :=
          match k with
          | 0 => some (.arr acc.reverse, toks)
          | k + 1 =>
            match Val.parseVX fuel toks with
            | none => none
            | some (v, toks') => goA k (v :: acc) toks'
        goA n [] rest
    | 'O' :: cs =>
      match natOfDecChars cs with
      | none => none
      | some n =>
        let rec goO (k : Nat) (acc : List (Val × Val)) (toks : List String) :
            Option (Val × List String) :=
          match k with
          | 0 => some (.obj acc.reverse, toks)
          | k + 1 =>
            match Val.parseVX fuel toks with
            | none => none
            | some (key, toks') =>
              match Val.parseVX fuel toks' with
              | none => none
              | some (v, toks'') => goO k ((key, v) :: acc) toks''
        goO n [] rest
    | _ => none

/-- Parse `n` values from the token list. -/
def Val.parseVXs (toks : List String) : Nat → Option (List Val × List String)
  | 0 => some ([], toks)
  | n + 1 =>
    match Val.parseVX (toks.length + 1) toks with
    | none => none
    | some (v, rest) =>
      match Val.parseVXs rest n with
      | none => none
      | some (vs, rest') => some (v :: vs, rest')

def splitTokens (line : String) : List String :=
  (line.trimAscii.toString.splitOn " ").filter (· ≠ "")

end Jaq
