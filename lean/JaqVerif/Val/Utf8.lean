/-
  `bstr`'s view of a byte string as a sequence of "characters": valid UTF-8 scalar values, or
  maximal invalid subparts (1–3 bytes) each counting as one position (U+FFFD when displayed).
  Mirrors `bstr::decode_utf8` / `ByteSlice::char_indices` as used by jaq-json and jaq-std.
-/
import JaqVerif.Val.Basic

namespace Jaq
namespace Utf8

/-- allowed range of the second byte after a given lead byte (Unicode Table 3-7) -/
def secondRange (lead : Nat) : Nat × Nat :=
  if lead == 0xE0 then (0xA0, 0xBF)
  else if lead == 0xED then (0x80, 0x9F)
  else if lead == 0xF0 then (0x90, 0xBF)
  else if lead == 0xF4 then (0x80, 0x8F)
  else (0x80, 0xBF)

/-- number of bytes of the sequence announced by a lead byte; 0 = not a lead byte -/
def seqLen (lead : Nat) : Nat :=
  if lead < 0x80 then 1
  else if 0xC2 ≤ lead && lead ≤ 0xDF then 2
  else if 0xE0 ≤ lead && lead ≤ 0xEF then 3
  else if 0xF0 ≤ lead && lead ≤ 0xF4 then 4
  else 0

def isCont (b : Nat) : Bool := 0x80 ≤ b && b ≤ 0xBF

/-- Decode one "character" at the front of a non-empty byte list:
`(some scalar | none (invalid), number of bytes consumed ≥ 1)`. -/
def decode1 : List UInt8 → Option Nat × Nat
  | [] => (none, 0)
  | b0 :: rest =>
    let l := b0.toNat
    match seqLen l with
    | 1 => (some l, 1)
    | 2 =>
      match rest with
      | b1 :: _ => if isCont b1.toNat then (some ((l % 32) * 64 + b1.toNat % 64), 2) else (none, 1)
      | [] => (none, 1)
    | 3 =>
      let (lo, hi) := secondRange l
      match rest with
      | b1 :: r1 =>
        if lo ≤ b1.toNat && b1.toNat ≤ hi then
          match r1 with
          | b2 :: _ =>
            if isCont b2.toNat then (some ((l % 16) * 4096 + (b1.toNat % 64) * 64 + b2.toNat % 64), 3)
            else (none, 2)
          | [] => (none, 2)
        else (none, 1)
      | [] => (none, 1)
    | 4 =>
      let (lo, hi) := secondRange l
      match rest with
      | b1 :: r1 =>
        if lo ≤ b1.toNat && b1.toNat ≤ hi then
          match r1 with
          | b2 :: r2 =>
            if isCont b2.toNat then
              match r2 with
              | b3 :: _ =>
                if isCont b3.toNat then
                  (some ((l % 8) * 262144 + (b1.toNat % 64) * 4096 + (b2.toNat % 64) * 64 + b3.toNat % 64), 4)
                else (none, 3)
              | [] => (none, 3)
            else (none, 2)
          | [] => (none, 2)
        else (none, 1)
      | [] => (none, 1)
    | _ => (none, 1)

/-- split into "characters" (each a non-empty byte chunk), with fuel = length -/
def chunksF : Nat → List UInt8 → List (Option Nat × List UInt8)
  | 0, _ => []
  | _, [] => []
  | n + 1, bs =>
    let (c, k) := decode1 bs
    let k := if k == 0 then 1 else k
    (c, bs.take k) :: chunksF n (bs.drop k)

def chunks (bs : List UInt8) : List (Option Nat × List UInt8) := chunksF bs.length bs

/-- the characters as byte chunks -/
def chars (bs : List UInt8) : List (List UInt8) := (chunks bs).map (·.2)

/-- number of characters (`chars().count()`) -/
def charCount (bs : List UInt8) : Nat := (chunks bs).length

/-- start offsets of the characters (`char_indices().map(start)`) -/
def starts (bs : List UInt8) : List Nat :=
  ((chars bs).foldl (fun (acc : List Nat × Nat) c => (acc.1 ++ [acc.2], acc.2 + c.length)) ([], 0)).1

/-- UTF-8 encoding of a scalar value (no surrogate check) -/
def encode (c : Nat) : List UInt8 :=
  if c < 0x80 then [UInt8.ofNat c]
  else if c < 0x800 then [UInt8.ofNat (0xC0 + c / 64), UInt8.ofNat (0x80 + c % 64)]
  else if c < 0x10000 then
    [UInt8.ofNat (0xE0 + c / 4096), UInt8.ofNat (0x80 + (c / 64) % 64), UInt8.ofNat (0x80 + c % 64)]
  else
    [UInt8.ofNat (0xF0 + c / 262144), UInt8.ofNat (0x80 + (c / 4096) % 64),
     UInt8.ofNat (0x80 + (c / 64) % 64), UInt8.ofNat (0x80 + c % 64)]

def isScalar (c : Nat) : Bool := c < 0xD800 || (0xE000 ≤ c && c < 0x110000)

end Utf8
end Jaq
