/-
  impl-model of `impl Add/Sub/Mul/Div/Rem/Neg for Val` (`/repo/jaq-json/src/lib.rs`), with
  `obj_merge`, `split`, `bigint_to_int_saturated`, and the error values jaq builds.
-/
import JaqVerif.Val.Order
import JaqVerif.Val.Utf8

namespace Jaq

/-- run-time errors (`jaq_core::Error`), structurally -/
inductive Err where
  | val (v : Val)                          -- `Error::new`
  | str (s : String)                       -- `Error::str`
  | typ (v : Val) (ty : String)            -- "cannot use v as ty"
  | math (l : Val) (op : String) (r : Val) -- "cannot calculate l op r"
  | index (l r : Val)                      -- "cannot index l with r"
  | pathExpr (v : Val)                     -- "invalid path expression with input v"
  deriving Inhabited

abbrev ValR := Except Err Val

/-- coarse class of an error, used by correspondences that do not compare message text -/
def Err.cls : Err → String
  | .val _ => "val"
  | .str _ => "str"
  | .typ _ ty => "typ:" ++ ty
  | .math _ _ _ => "math"
  | .index _ _ => "index"
  | .pathExpr _ => "pathexpr"

def bytesRepeat (b : List UInt8) (n : Nat) : List UInt8 :=
  if b.isEmpty then [] else (List.replicate n b).flatten

/-- `obj_merge` (fuel: nesting depth) -/
def objMergeF : Nat → Obj.Entries → Obj.Entries → Obj.Entries
  | 0, l, _ => l
  | n + 1, l, r =>
    r.foldl (fun acc (k, v) =>
      match Obj.get acc k, v with
      | some (.obj lo), .obj ro =>
        acc.map fun (k', v') => if Obj.sameKey k k' then (k', .obj (objMergeF n lo ro)) else (k', v')
      | some _, r => acc.map fun (k', v') => if Obj.sameKey k k' then (k', r) else (k', v')
      | none, r => acc ++ [(k, r)]) l

def objMerge (l r : Obj.Entries) : Obj.Entries :=
  objMergeF (Val.sizeEntries l + Val.sizeEntries r + 1) l r

/-- does `pat` occur at the front of `s` -/
def isPrefix (pat s : List UInt8) : Bool := pat.isPrefixOf s

/-- `split_str`: non-overlapping, leftmost occurrences (fuel = length + 1) -/
def splitStrF (sep : List UInt8) : Nat → List UInt8 → List UInt8 → List (List UInt8)
  | 0, cur, _ => [cur.reverse]
  | n + 1, cur, s =>
    match s with
    | [] => [cur.reverse]
    | b :: rest =>
      if isPrefix sep s then cur.reverse :: splitStrF sep n [] (s.drop sep.length)
      else splitStrF sep n (b :: cur) rest

/-- `split` of lib.rs -/
def splitBytes (s sep : List UInt8) : List (List UInt8) :=
  if s.isEmpty then []
  else if sep.isEmpty then Utf8.chars s
  else splitStrF sep (s.length + 1) [] s

def bigintToIntSaturated (i : Int) : Int :=
  if fitsIsize i then i else if i < 0 then isizeMin else isizeMax

namespace Val

def add (l r : Val) : ValR :=
  match l, r with
  | .null, x => .ok x
  | x, .null => .ok x
  | .num x, .num y => .ok (.num (Num.add x y))
  | .bstr x, .bstr y => .ok (.bstr (x ++ y))
  | .tstr x, .tstr y => .ok (.tstr (x ++ y))
  | .arr x, .arr y => .ok (.arr (x ++ y))
  | .obj x, .obj y => .ok (.obj (Obj.extend x y))
  | l, r => .error (.math l "+" r)

def sub (l r : Val) : ValR :=
  match l, r with
  | .num x, .num y => .ok (.num (Num.sub x y))
  | .arr x, .arr y => .ok (.arr (x.filter fun e => !(y.any fun e' => Val.cmp e' e == .eq)))
  | l, r => .error (.math l "-" r)

/-- string repetition count after `bigint_to_int_saturated`; `none` = not an integer -/
def repCount : Num → Option Int
  | .int i => some i
  | .big i => some (bigintToIntSaturated i)
  | _ => none

def mul (l r : Val) : ValR :=
  match l, r with
  | .num x, .num y => .ok (.num (Num.mul x y))
  | .obj x, .obj y => .ok (.obj (objMerge x y))
  | .bstr s, .num n | .num n, .bstr s =>
    match repCount n with
    | some i => if i > 0 then .ok (.bstr (bytesRepeat s i.toNat)) else .ok .null
    | none => .error (.math l "*" r)
  | .tstr s, .num n | .num n, .tstr s =>
    match repCount n with
    | some i => if i > 0 then .ok (.tstr (bytesRepeat s i.toNat)) else .ok .null
    | none => .error (.math l "*" r)
  | l, r => .error (.math l "*" r)

def div (l r : Val) : ValR :=
  match l, r with
  | .num x, .num y => .ok (.num (Num.div x y))
  | .tstr x, .tstr y => .ok (.arr ((splitBytes x y).map .tstr))
  | .bstr x, .bstr y => .ok (.arr ((splitBytes x y).map .bstr))
  | l, r => .error (.math l "/" r)

def rem (l r : Val) : ValR :=
  match l, r with
  | .num x, .num y =>
    if x.isInt && y.isInt && Num.eq y (.int 0) then .error (.math l "%" r)
    else .ok (.num (Num.rem x y))
  | l, r => .error (.math l "%" r)

def neg : Val → ValR
  | .num n => .ok (.num (Num.neg n))
  | x => .error (.typ x "number")

end Val
end Jaq
