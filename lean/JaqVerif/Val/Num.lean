/-
  impl-model of `/repo/jaq-json/src/num.rs`: arithmetic, comparison, equality, hash feed,
  conversions of `Num`, arm by arm.
-/
import JaqVerif.Val.Float

namespace Jaq
namespace Num

/-- exact integer value of an integer representation -/
def intVal? : Num → Option Int
  | .int i => some i
  | .big i => some i
  | _ => none

def isInt : Num → Bool
  | .int _ | .big _ => true
  | _ => false

/-- `Num::as_f64` (used after `from_dec_str` for `Dec`) -/
def toF64 : Num → UInt64
  | .int i => F64.ofInt i
  | .big i => F64.ofInt i
  | .float f => f
  | .dec s => F64.ofDec s

/-- `Num::from_dec_str` -/
def ofDecStr (s : String) : Num := .float (F64.ofDec s)

/-- `Dec` operands are first converted with `from_dec_str` (last two arms of every operator) -/
def undec : Num → Num
  | .dec s => ofDecStr s
  | n => n

/-- `impl Add for Num` -/
def add (a b : Num) : Num :=
  match undec a, undec b with
  | .int x, .int y => Num.ofInt (x + y)          -- `int_or_big(x.checked_add(y), ..)`
  | .int x, .big y => .big (x + y)
  | .big x, .int y => .big (x + y)
  | .big x, .big y => .big (x + y)
  | .float f, .int i => .float (F64.add f (F64.ofInt i))
  | .int i, .float f => .float (F64.add f (F64.ofInt i))
  | .float f, .big i => .float (F64.add f (F64.ofInt i))
  | .big i, .float f => .float (F64.add f (F64.ofInt i))
  | .float x, .float y => .float (F64.add x y)
  | x, _ => x  -- unreachable: `undec` removed every `dec`

/-- `impl Sub for Num` -/
def sub (a b : Num) : Num :=
  match undec a, undec b with
  | .int x, .int y => Num.ofInt (x - y)
  | .int x, .big y => .big (x - y)
  | .big x, .int y => .big (x - y)
  | .big x, .big y => .big (x - y)
  | .float f, .int i => .float (F64.sub f (F64.ofInt i))
  | .int i, .float f => .float (F64.sub (F64.ofInt i) f)
  | .float f, .big i => .float (F64.sub f (F64.ofInt i))
  | .big i, .float f => .float (F64.sub (F64.ofInt i) f)
  | .float x, .float y => .float (F64.sub x y)
  | x, _ => x

/-- `impl Mul for Num` -/
def mul (a b : Num) : Num :=
  match undec a, undec b with
  | .int x, .int y => Num.ofInt (x * y)
  | .int x, .big y => .big (x * y)
  | .big x, .int y => .big (x * y)
  | .big x, .big y => .big (x * y)
  | .float f, .int i => .float (F64.mul f (F64.ofInt i))
  | .int i, .float f => .float (F64.mul f (F64.ofInt i))
  | .float f, .big i => .float (F64.mul f (F64.ofInt i))
  | .big i, .float f => .float (F64.mul f (F64.ofInt i))
  | .float x, .float y => .float (F64.mul x y)
  | x, _ => x

/-- `impl Div for Num`: always the float quotient of the converted operands -/
def div (a b : Num) : Num := .float (F64.div (toF64 a) (toF64 b))

/-- Rust's `%` on integers: truncated remainder (sign of the dividend) -/
def tremInt (x y : Int) : Int := Int.tmod x y

/-- `impl Rem for Num` (the integer-zero divisor is guarded by `Val`) -/
def rem (a b : Num) : Num :=
  match undec a, undec b with
  | .int x, .int y => .int (if y == 0 then 0 else tremInt x y)   -- `checked_rem(..).unwrap_or(0)`
  | .big x, .big y => .big (tremInt x y)
  | .int x, .big y => .big (tremInt x y)
  | .big x, .int y => .big (tremInt x y)
  | .int i, .float f => .float (F64.rem (F64.ofInt i) f)
  | .float f, .int i => .float (F64.rem f (F64.ofInt i))
  | .big i, .float f => .float (F64.rem (F64.ofInt i) f)
  | .float f, .big i => .float (F64.rem f (F64.ofInt i))
  | .float x, .float y => .float (F64.rem x y)
  | x, _ => x

/-- `impl Neg for Num` (`Dec` negates textually) -/
def neg : Num → Num
  | .int x => Num.ofInt (-x)
  | .big x => .big (-x)
  | .float x => .float (F64.neg x)
  | .dec s =>
    match s.toList with
    | '-' :: r => .dec (String.ofList r)
    | cs => .dec (String.ofList ('-' :: cs))

/-- `impl Ord for Num`.

NOTE (shared layer vs. later repairs of /repo): this definition and `asPosUsize`
below model the tree as pinned.  Two `fix:` commits changed corner cases of exactly these
functions: 18a519c (a big integer whose float conversion overflows now compares strictly
between the infinities), e4bf705 (`as_pos_usize` saturates beyond `usize::MAX`); `hashFeed`
follows fix 7eb4a6b (`-0.0` is hashed like `0.0`).  The repaired behaviour is modelled where the property is
decided and tied to the code there: `C08/Model.lean` (switches regenerated from probes of the
real code on every run) and `C10/Index.lean` (`fixBigintBound`).  The corner cases (integers
≥ 2^1024 against ±Infinity, |i| > 2^64-1 as a position) lie outside the
generators of every other correspondence that uses this shared layer. -/
def cmp (a b : Num) : Ordering :=
  match undec a, undec b with
  | .int x, .int y => compare x y
  | .int x, .big y => compare x y
  | .big x, .int y => compare x y
  | .big x, .big y => compare x y
  | .int i, .float f => F64.cmp (F64.ofInt i) f
  | .big i, .float f => F64.cmp (F64.ofInt i) f
  | .float f, .int i => F64.cmp f (F64.ofInt i)
  | .float f, .big i => F64.cmp f (F64.ofInt i)
  | .float x, .float y => F64.cmp x y
  | _, _ => .eq

/-- `impl PartialEq for Num` (the `Rc::ptr_eq` shortcut for `Dec` is not modelled: it only
matters for `Dec` texts that parse to NaN, which the number grammar excludes) -/
def eq (a b : Num) : Bool :=
  match undec a, undec b with
  | .int x, .int y => x == y
  | .big x, .big y => x == y
  | .int x, .big y => x == y
  | .big x, .int y => x == y
  | .int i, .float f => F64.isFinite f && F64.cmp (F64.ofInt i) f == .eq
  | .float f, .int i => F64.isFinite f && F64.cmp (F64.ofInt i) f == .eq
  | .big i, .float f => F64.isFinite f && F64.cmp (F64.ofInt i) f == .eq
  | .float f, .big i => F64.isFinite f && F64.cmp (F64.ofInt i) f == .eq
  | .float x, .float y => F64.cmp x y == .eq
  | _, _ => false

/-- The byte feed of `impl Hash for Num`, as a list of tagged words:
`[0]` for non-finite floats, `[0, bits]` for finite ones, `[1, i]` for big integers whose
float conversion is infinite. -/
def hashFeed (n : Num) : List Int :=
  match undec n with
  | .int i => [0, Int.ofNat (F64.ofInt i).toNat]
  | .float f =>   -- zero is normalised before hashing since fix 7eb4a6b (0 == -0.0 must hash alike)
    if F64.isFinite f then [0, Int.ofNat (if F64.isZero f then F64.posZero else f).toNat] else [0]
  | .big i =>
    let f := F64.ofInt i
    if F64.isFinite f then [0, Int.ofNat f.toNat] else [1, i]
  | .dec _ => [0]

/-- `Num::as_isize` -/
def asIsize : Num → Option Int
  | .int i => some i
  | .big i => if fitsIsize i then some i else none
  | _ => none

/-- `Num::as_pos_usize`: `(nonnegative, magnitude)` when the magnitude fits a `usize` -/
def asPosUsize : Num → Option (Bool × Nat)
  | .int i => some (i ≥ 0, i.natAbs)
  | .big i => if Int.ofNat i.natAbs ≤ usizeMax then some (!(i < 0), i.natAbs) else none
  | _ => none

/-- `Num::length` (absolute value) -/
def length : Num → Num
  | .int i => Num.ofInt (Int.ofNat i.natAbs)   -- `int_or_big(i.checked_abs(), ..)`
  | .big i => .big (Int.ofNat i.natAbs)
  | .float f => .float (F64.abs f)
  | .dec s => .float (F64.abs (F64.ofDec s))

/-- `Num::from_str` on a literal: machine int, else big int, else decimal text -/
def ofLiteral (s : String) : Num :=
  match intOfDecChars (match s.toList with | '+' :: r => r | r => r) with
  | some i => Num.ofInt i
  | none => .dec s

end Num
end Jaq
