/-
  C17 — model of the process layer (L3) of the `jaq` command:
    `jaq-fmts/src/write/formats.rs: write`            → `Writer.frame`, `writeVal`
    `jaq-fmts/src/write/mod.rs: with_stdout`          → `Sink` (BufWriter in front of fd 1)
    `jaq/src/filter.rs: run`                          → `runEvents`
    `jaq-all/src/data.rs: run`                        → `mainLoop`, `dataRun`
    `jaq-std/src/input.rs` (shared cursor `RcIter`)   → the `pull` events and `rest.drop`
    `jaq/src/main.rs: binds, args, real_main, main,
       impl Termination for Error, Cli::{pp,writer}`  → `binds`, `realMain`, `procMain`, `Error.exitCode`
  The filter, the readers and the value formatters are *parameters* (`World`); values are an
  abstract type `V`.  Core Lean only (linked into the driver).
-/
import JaqVerif.C17.Args

namespace Jaq.C17

/-! ## Oracles -/

/-- what the reader yields for one position of an input stream -/
inductive Item (V : Type) where
  | val (v : V)
  | bad            -- `Err(_)`: the text at this position does not parse
deriving Repr

/-- how the output stream of the filter on one input ends -/
inductive Stop where
  | done
  | err                -- uncaught run-time error (`Exn` with `get_err`)
  | halt (code : Int)  -- `Exn::Halt(code)`, code is an `i32`
deriving DecidableEq, Repr

/-- one observable event of running the filter on one input: it yields an output, or it pulls
the shared input cursor (`input` / `inputs`; also when nothing is left) -/
inductive Ev (V : Type) where
  | out (v : V)
  | pull
deriving Repr

structure Trace (V : Type) where
  evs : List (Ev V)
  stop : Stop
deriving Repr

/-- The filter as an oracle: for the input value and the not-yet-consumed rest of the file's
stream, the events in the order the lazy evaluation performs them.  Any function is allowed
(all consumption patterns). -/
abbrev FilterFn (V : Type) := V → List (Item V) → Trace V

/-- `Filter::default()`: the identity -/
def idFilter {V : Type} : FilterFn V := fun x _ => { evs := [.out x], stop := .done }

/-! ## Errors and exit status (`enum Error`, `impl Termination for Error`) -/

inductive Error where
  | io | report | parse | jaq
  | halt (code : Int)
  | falseOrNull | noOutput
deriving DecidableEq, Repr

/-- `ExitCode::from(u8)` / `std::process::exit(i32)` as seen by the parent: low 8 bits -/
def Error.exitCode : Error → Nat
  | .falseOrNull => 1
  | .io => 2
  | .report => 3
  | .noOutput => 4
  | .parse => 5
  | .jaq => 5
  | .halt c => (c % 256).toNat

/-- does `main` print a message for it (`ErrorColor`'s `Display`)? -/
def Error.message : Error → Bool
  | .falseOrNull | .noOutput | .halt _ => false
  | _ => true

/-! ## The writer (`write`) and stdout (`with_stdout`) -/

structure ValOps (V : Type) where
  asBool : V → Bool              -- `ValT::as_bool`
  strBytes : V → Option Bytes    -- payload of `Val::TStr` / `Val::BStr`

/-- `Writer` + the formatter selected by `(format, pp)` as a parameter -/
structure Writer (V : Type) where
  format : Format
  join : Bool
  body : V → Except Unit Bytes   -- json / yaml / cbor / toml / xml / csv / tsv body of a value

def Writer.yamlDoc {V} (w : Writer V) : Bool := !w.join && w.format == .yaml

/-- the `w.write_all(match format { … })` table -/
def terminator (f : Format) (join : Bool) : Bytes :=
  match f with
  | .cbor | .toml => []
  | .raw0 => [0]
  | .yaml | .csv | .tsv => [10]
  | .json | .raw | .xml => if join then [] else [10]

def yamlStart : Bytes := [45, 45, 45, 10]   -- "---\n"
def yamlEnd : Bytes := [46, 46, 46, 10]     -- "...\n"

/-- the bytes `write` hands to the writer for one value: `.ok` = the complete frame,
`.error p` = it failed after `p` -/
def Writer.frame {V} (ops : ValOps V) (w : Writer V) (v : V) : Except Bytes Bytes :=
  let pre := if w.yamlDoc then yamlStart else []
  let post := terminator w.format w.join ++ (if w.yamlDoc then yamlEnd else [])
  match ops.strBytes v, w.format with
  | some b, .raw0 => if b.contains 0 then .error pre else .ok (pre ++ b ++ post)
  | some b, .raw => .ok (pre ++ b ++ post)
  | _, _ =>
    match w.body v with
    | .ok bs => .ok (pre ++ bs ++ post)
    | .error _ => .error pre

/-- fd 1 behind `io::BufWriter` (stdout is not a terminal) -/
structure Sink where
  flushed : Bytes := []   -- bytes that reached fd 1
  buf : Bytes := []       -- bytes still in the BufWriter
deriving Repr

def Sink.write (s : Sink) (b : Bytes) : Sink := { s with buf := s.buf ++ b }
def Sink.flush (s : Sink) : Sink := { flushed := s.flushed ++ s.buf, buf := [] }
/-- everything handed to the writer so far -/
def Sink.all (s : Sink) : Bytes := s.flushed ++ s.buf

/-- `write(out, writer, &v)`: all `write_all`s, then `w.flush()` on success -/
def writeVal {V} (ops : ValOps V) (w : Writer V) (s : Sink) (v : V) : Sink × Bool :=
  match w.frame ops v with
  | .ok bs => ((s.write bs).flush, true)
  | .error p => (s.write p, false)

/-! ## `filter::run` on the events of one input -/

structure RunSt (V : Type) where
  sink : Sink
  last : Option Bool := none
  pulls : Nat := 0             -- `inputs.next()` calls made by the filter
  written : List V := []       -- outputs completely written
  /-- what is on fd 1 at the moment each event is *computed* (observation log) -/
  seen : List Bytes := []

/-- the closure passed to `data::run` in `filter::run`, folded over the filter's events:
`last = Some(v.as_bool())` is assigned before `f(v)`; the first `Err` ends the run -/
def runEvents {V} (ops : ValOps V) (w : Writer V) :
    List (Ev V) → Stop → RunSt V → RunSt V × Option Error
  | [], stop, st =>
    let st := { st with seen := st.seen ++ [st.sink.flushed] }
    match stop with
    | .done => (st, none)
    | .err => (st, some .jaq)
    | .halt c => (st, some (.halt c))
  | .pull :: evs, stop, st =>
    runEvents ops w evs stop { st with pulls := st.pulls + 1, seen := st.seen ++ [st.sink.flushed] }
  | .out v :: evs, stop, st =>
    let st := { st with seen := st.seen ++ [st.sink.flushed], last := some (ops.asBool v) }
    match writeVal ops w st.sink v with
    | (s, true) => runEvents ops w evs stop { st with sink := s, written := st.written ++ [v] }
    | (s, false) => ({ st with sink := s }, some .io)

/-! ## `data::run`: the main loop over the shared cursor -/

/-- log entry: one turn of the main loop -/
structure Step (V : Type) where
  start : Nat             -- cursor position before the turn
  took : Bool             -- the main loop itself consumed `items[start]` (false under `--null-input`)
  input : Option V        -- the value fed to the filter; `none`: the item was a parse error
  tr : Trace V            -- the oracle's answer (empty for a parse error)
  pulls : Nat             -- items consumed by `input`/`inputs` in this turn (clamped to what was left)
  outs : List V           -- outputs completely written in this turn

def Step.next {V} (s : Step V) : Nat := s.start + (if s.took then 1 else 0) + s.pulls

structure LoopRes (V : Type) where
  sink : Sink
  last : Option Bool
  steps : List (Step V)
  seen : List Bytes
  err : Option Error

/-- `data.inputs.try_for_each(|x| match x { Ok(x) => outputs(x).try_for_each(&mut f), Err(e) => Err(fi(e)) })`
where the filter's `input`/`inputs` advance the same iterator -/
def mainLoop {V} (F : FilterFn V) (ops : ValOps V) (w : Writer V)
    (pos : Nat) (items : List (Item V)) (sink : Sink) (last : Option Bool) (seen : List Bytes) :
    LoopRes V :=
  match items with
  | [] => { sink, last, steps := [], seen, err := none }
  | .bad :: _ =>
    { sink, last, seen, err := some .parse,
      steps := [{ start := pos, took := true, input := none, tr := ⟨[], .done⟩, pulls := 0, outs := [] }] }
  | .val x :: rest =>
    let tr := F x rest
    let (st, e) := runEvents ops w tr.evs tr.stop { sink, last, seen }
    let k := min st.pulls rest.length
    let step : Step V := { start := pos, took := true, input := some x, tr, pulls := k, outs := st.written }
    match e with
    | some e => { sink := st.sink, last := st.last, steps := [step], seen := st.seen, err := some e }
    | none =>
      let r := mainLoop F ops w (pos + 1 + k) (rest.drop st.pulls) st.sink st.last st.seen
      { r with steps := step :: r.steps }
termination_by items.length
decreasing_by simp [List.length_drop]; omega

/-- `jaq_all::data::run` + `filter::run`: under `--null-input` the main loop runs once on
`null` and the whole stream is left to `input`/`inputs` -/
def dataRun {V} (F : FilterFn V) (ops : ValOps V) (w : Writer V) (null : V) (nullInput : Bool)
    (items : List (Item V)) (sink : Sink) : LoopRes V :=
  if nullInput then
    let tr := F null items
    let (st, e) := runEvents ops w tr.evs tr.stop { sink }
    let step : Step V := { start := 0, took := false, input := some null, tr,
                           pulls := min st.pulls items.length, outs := st.written }
    { sink := st.sink, last := st.last, steps := [step], seen := st.seen, err := e }
  else mainLoop F ops w 0 items sink none []

/-- `with_stdout(|out| run(…))`: the `BufWriter` is dropped (flushed) when the closure returns,
on success and on error alike -/
def withStdout {V} (r : LoopRes V) : LoopRes V := { r with sink := r.sink.flush }

/-! ## `Cli::{pp, writer}` -/

/-- `jaq_json::write::Pp` as far as the command line determines it -/
structure Pp where
  indent : Option (List Char)
  sortKeys : Bool
  color : Bool
  sepSpace : Bool
deriving DecidableEq, Repr

/-- what `color_if` reads from the environment -/
structure Tty where
  noColor : Bool := false     -- `NO_COLOR` set and non-empty
  stdoutTty : Bool := false
  stderrTty : Bool := false

/-- `Cli::color_output` -/
def Cli.colorStdout (c : Cli) (t : Tty) : Bool :=
  !c.monochromeOutput && (c.colorOutput || (!t.noColor && (t.stdoutTty && !c.inPlace)))

/-- `Cli::pp` -/
def Cli.pp (c : Cli) (t : Tty) : Pp :=
  { indent := if c.compactOutput then none else some c.indentStr
    sortKeys := c.sortKeys
    color := c.colorStdout t
    sepSpace := !c.compactOutput || c.to == some .yaml }

/-- `Format::determine` on the text of a path (`Path::extension` of the last component) -/
def splitLast (sep : Char) : List Char → List Char → List Char
  | [], acc => acc
  | c :: cs, acc => if c = sep then splitLast sep cs [] else splitLast sep cs (acc ++ [c])

/-- the part after the last `.` of a file name, if the name has one that is not its first character -/
def extensionOf (path : List Char) : Option (List Char) :=
  let name := splitLast '/' path []
  if name = ['.', '.'] then none
  else
    match name with
    | [] => none
    | c0 :: tl =>
      -- a dot at index 0 only (`.json`) is not an extension separator
      let _ := c0
      if tl.contains '.' then some (splitLast '.' tl []) else none

def Format.determine (path : Arg) : Option Format :=
  match path with
  | .raw _ => none   -- generated paths with invalid UTF-8 never carry a known extension
  | .str s =>
    match extensionOf s.toList with
    | none => none
    | some e =>
      let e := String.ofList e
      if e = "cbor" then some .cbor
      else if e = "toml" then some .toml
      else if e = "xml" || e = "xhtml" then some .xml
      else if e = "yml" || e = "yaml" then some .yaml
      else if e = "json" then some .json
      else if e = "csv" then some .csv
      else if e = "tsv" then some .tsv
      else none

/-! ## The world: everything outside `jaq/src` and the three loops above -/

structure Compiled (V : Type) where
  imported : List V                      -- values of `import "…" as $x` data files
  run : List V → FilterFn V              -- the compiled filter on a variable vector

structure World (V : Type) where
  ops : ValOps V
  null : V
  tty : Tty
  body : Format → Pp → V → Except Unit Bytes
  strVal : String → V                    -- `Val::utf8_str` / `Val::from(String)`
  pathVal : Arg → V                      -- `Val::utf8_str(path.to_string_lossy())`
  bytesVal : Bytes → V                   -- `Val::utf8_str(bytes)`
  parseJson : String → Option V          -- `read::json::parse_single`
  loadFile : Arg → Option Bytes          -- `read::load_file`; `none` = I/O error
  jsonArray : Bytes → Option V           -- `json::parse_many(..).collect()`; `none` = a value does not parse
  mkArgs : List V → List (String × V) → V   -- `fn args(positional, named)`
  envVal : V                             -- `$ENV`
  readFilter : Arg → Option String       -- `fs::read_to_string`
  compile : String → List String → List Arg → Option (Compiled V)   -- `filter::parse_compile`
  reader : Format → Bool → Bytes → Except Unit (List (Item V))  -- `bytes_str` + `read::parse` (error: not UTF-8 for yaml/xml/toml)
  stdin : Bytes
  versionOut : Bytes
  helpOut : Bytes

/-! ## `binds` -/

def bindAll {V α} (f : α → Except Error V) : List (String × α) → Except Error (List (String × V))
  | [] => .ok []
  | (k, a) :: rest =>
    match f a with
    | .error e => .error e
    | .ok v =>
      match bindAll f rest with
      | .error e => .error e
      | .ok vs => .ok ((k, v) :: vs)

/-- the named variables in the order `arg.chain(rawfile).chain(slurpfile).chain(argjson)`;
the first failing one (in that order) decides the error -/
def named {V} (W : World V) (c : Cli) : Except Error (List (String × V)) :=
  match bindAll (fun s => .ok (W.strVal s)) c.arg with
  | .error e => .error e
  | .ok a =>
  match bindAll (fun p => match W.loadFile p with
      | some b => .ok (W.bytesVal b) | none => .error .io) c.rawfile with
  | .error e => .error e
  | .ok r =>
  match bindAll (fun p => match W.loadFile p with
      | none => .error .io
      | some b => match W.jsonArray b with
        | some v => .ok v | none => .error .io) c.slurpfile with
  | .error e => .error e
  | .ok s =>
  match bindAll (fun t => match W.parseJson t with
      | some v => .ok v | none => .error .parse) c.argjson with
  | .error e => .error e
  | .ok j => .ok (a ++ r ++ s ++ j)

/-- `binds`: named variables, then `$ARGS`, then `$ENV` -/
def binds {V} (W : World V) (c : Cli) : Except Error (List (String × V)) :=
  match named W c with
  | .error e => .error e
  | .ok nv =>
    .ok (nv ++ [("ARGS", W.mkArgs (c.args.map W.strVal) nv), ("ENV", W.envVal)])

/-! ## `real_main` -/

structure FileLog (V : Type) where
  name : Arg
  format : Format
  items : List (Item V)
  steps : List (Step V)

structure MainRes (V : Type) where
  sink : Sink
  files : List (FileLog V)     -- the files that were opened, in order
  seen : List Bytes
  result : Except Error Unit
  unmodelled : Bool := false   -- `--in-place` with files (C18)

/-- FIX SWITCH for finding `exit-status-last-file` (see design/notes/C17.md): `real_main` assigns
`last = run(…)?` per file, so a last file without outputs erases the last output of the earlier
files.  `fix = true` keeps the last output over all files (what the manual and the property
say); `fix = false` is the code as it stands. -/
def mergeLast (fix : Bool) (old new : Option Bool) : Option Bool :=
  if fix then (match new with | some b => some b | none => old) else new

/-- the `for file in &cli.files` loop -/
def filesLoop {V} (W : World V) (c : Cli) (w : Writer V) (F : Arg → FilterFn V) (fix : Bool) :
    List Arg → Sink → Option Bool → List (FileLog V) → List Bytes → MainRes V × Option Bool
  | [], sink, last, logs, seen => ({ sink, files := logs, seen, result := .ok () }, last)
  | f :: fs, sink, last, logs, seen =>
    match W.loadFile f with
    | none => ({ sink, files := logs, seen, result := .error .io }, last)
    | some bytes =>
      let fmt := ((c.from_.orElse fun _ => Format.determine f).getD .json)
      match W.reader fmt c.slurp bytes with
      | .error _ => ({ sink, files := logs, seen, result := .error .io }, last)
      | .ok items =>
        let r := withStdout (dataRun (F f) W.ops w W.null c.nullInput items sink)
        let logs := logs ++ [{ name := f, format := fmt, items, steps := r.steps }]
        match r.err with
        | some e => ({ sink := r.sink, files := logs, seen := seen ++ r.seen, result := .error e }, r.last)
        | none => filesLoop W c w F fix fs r.sink (mergeLast fix last r.last) logs (seen ++ r.seen)

/-- `Cli::writer` with the formatter looked up in the world -/
def Cli.writer {V} (c : Cli) (W : World V) : Writer V :=
  let fmt := c.to.getD .json
  { format := fmt, join := c.joinOutput, body := W.body fmt (c.pp W.tty) }

/-- the variable vector and its names: `binds`, `!input_filename`, imported data -/
def varNames (nv : List (String × α)) : List String := nv.map (·.1) ++ ["!input_filename"]

/-- `if cli.exit_status { … }` -/
def exitStatusResult (exitStatus : Bool) (last : Option Bool) : Except Error Unit :=
  if exitStatus then
    match last with
    | none => .error .noOutput
    | some true => .ok ()
    | some false => .error .falseOrNull
  else .ok ()

def realMain {V} (W : World V) (c : Cli) (fix : Bool := true) : MainRes V :=
  let fail (e : Error) : MainRes V := { sink := {}, files := [], seen := [], result := .error e }
  match binds W c with
  | .error e => fail e
  | .ok nv =>
    let names := varNames nv
    let code : Except Error (Option String) :=
      match c.filter with
      | none => .ok none
      | some (.inline s) => .ok (some s)
      | some (.fromFile p) => match W.readFilter p with
        | some s => .ok (some s) | none => .error .io
    match code with
    | .error e => fail e
    | .ok code =>
      let comp : Option (Compiled V) :=
        match code with
        | none => some { imported := [], run := fun _ => idFilter }
        | some s => W.compile s names c.libraryPath
      match comp with
      | none => fail .report
      | some comp =>
        let vars (fname : V) : List V := nv.map (·.2) ++ [fname] ++ comp.imported
        let w := c.writer W
        if c.files.isEmpty then
          let fmt := c.from_.getD .json
          match W.reader fmt c.slurp W.stdin with
          | .error _ => fail .io
          | .ok items =>
            let name := Arg.str "<stdin>"
            let r := withStdout (dataRun (comp.run (vars (W.strVal "<stdin>"))) W.ops w W.null c.nullInput items {})
            let log : FileLog V := { name, format := fmt, items, steps := r.steps }
            match r.err with
            | some e => { sink := r.sink, files := [log], seen := r.seen, result := .error e }
            | none => { sink := r.sink, files := [log], seen := r.seen,
                        result := exitStatusResult c.exitStatus r.last }
        else if c.inPlace then
          { sink := {}, files := [], seen := [], result := .ok (), unmodelled := true }
        else
          let (r, last) := filesLoop W c w (fun f => comp.run (vars (W.pathVal f))) fix c.files {} none [] []
          match r.result with
          | .error _ => r
          | .ok () => { r with result := exitStatusResult c.exitStatus last }

/-! ## `main` -/

structure ProcResult where
  stdout : Bytes
  exit : Nat
  message : Bool        -- `main` wrote an error message to stderr
  unmodelled : Bool := false
deriving DecidableEq, Repr

def exitOf : Except Error Unit → Nat
  | .ok () => 0
  | .error e => e.exitCode

def messageOf : Except Error Unit → Bool
  | .ok () => false
  | .error e => e.message

def procMain {V} (W : World V) (argv : List Arg) (fix : Bool := true) : ProcResult :=
  match Cli.parse argv with
  | .error _ => { stdout := [], exit := 2, message := true }
  | .ok c =>
    if c.version then { stdout := W.versionOut, exit := 0, message := false }
    else if c.help then { stdout := W.helpOut, exit := 0, message := false }
    else if c.runTests.isSome then { stdout := [], exit := 0, message := false, unmodelled := true }
    else
      let r := realMain W c fix
      { stdout := r.sink.flushed, exit := exitOf r.result, message := messageOf r.result,
        unmodelled := r.unmodelled }

end Jaq.C17
