/-
  C17 — model of `jaq/src/cli.rs`: the argument-parsing state machine `Cli::parse`
  (`positional`, `long`, `short`, `parse_format`, `parse_key_val`, `Mode`).

  The argument iterator `ArgsOs` is a `List Arg`; every handler returns how many *further*
  arguments it took from the same iterator (`args.next()`), and the loop continues on
  `rest.drop k`.  An `Arg` is either valid UTF-8 (`str`) or not (`raw`, what `OsStr::to_str`
  rejects).  Core Lean only (this file is linked into the driver).
-/
namespace Jaq.C17

abbrev Bytes := List UInt8

/-- one element of `std::env::args_os()` (after `argv[0]`) -/
inductive Arg where
  | str (s : String)
  | raw (b : Bytes)
deriving DecidableEq, Repr, Inhabited

/-- `jaq_fmts::Format` -/
inductive Format where
  | raw | raw0 | json | cbor | toml | xml | yaml | csv | tsv
deriving DecidableEq, Repr, Inhabited

/-- `Format::parse` -/
def Format.parse (s : String) : Option Format :=
  if s = "cbor" then some .cbor
  else if s = "raw" then some .raw
  else if s = "raw0" then some .raw0
  else if s = "json" then some .json
  else if s = "toml" then some .toml
  else if s = "xml" then some .xml
  else if s = "yaml" then some .yaml
  else if s = "csv" then some .csv
  else if s = "tsv" then some .tsv
  else none

/-- `cli::Filter` -/
inductive FilterSrc where
  | inline (code : String)
  | fromFile (path : Arg)
deriving DecidableEq, Repr

/-- `cli::Error` (the `&'static str` payload is the option's name) -/
inductive CliError where
  | flag (s : String)
  | utf8 (b : Bytes)
  | keyValue (o : String)
  | int (o : String)
  | path (o : String)
  | format (o : String)
deriving DecidableEq, Repr

/-- `cli::Mode`: interpretation of positional arguments after the filter -/
inductive Mode where
  | args | files
deriving DecidableEq, Repr

/-- `cli::Cli` (field for field; `Default` is all-false/empty/none) -/
structure Cli where
  from_ : Option Format := none
  nullInput : Bool := false
  slurp : Bool := false
  to : Option Format := none
  compactOutput : Bool := false
  joinOutput : Bool := false
  inPlace : Bool := false
  sortKeys : Bool := false
  colorOutput : Bool := false
  monochromeOutput : Bool := false
  tab : Bool := false
  indent : Option Nat := none
  fromFile : Bool := false
  libraryPath : List Arg := []
  arg : List (String × String) := []
  argjson : List (String × String) := []
  slurpfile : List (String × Arg) := []
  rawfile : List (String × Arg) := []
  filter : Option FilterSrc := none
  files : List Arg := []
  args : List String := []
  runTests : Option (List Arg) := none
  exitStatus : Bool := false
  version : Bool := false
  help : Bool := false
deriving DecidableEq, Repr

/-- `OsString::into_string()?` with `From<OsString> for Error` -/
def Arg.intoString : Arg → Except CliError String
  | .str s => .ok s
  | .raw b => .error (.utf8 b)

/-- `OsString::into_string().ok()` -/
def Arg.str? : Arg → Option String
  | .str s => some s
  | .raw _ => none

/-- `Cli::positional` -/
def Cli.positional (c : Cli) (mode : Mode) (a : Arg) : Except CliError Cli :=
  match c.filter with
  | none =>
    if c.fromFile then .ok { c with filter := some (.fromFile a) }
    else match a.intoString with
      | .ok s => .ok { c with filter := some (.inline s) }
      | .error e => .error e
  | some _ =>
    match mode with
    | .files => .ok { c with files := c.files ++ [a] }
    | .args =>
      match a.intoString with
      | .ok s => .ok { c with args := c.args ++ [s] }
      | .error e => .error e

/-- `args.try_for_each(|arg| self.positional(mode, arg))` (everything after `--`) -/
def Cli.positionals (c : Cli) (mode : Mode) : List Arg → Except CliError Cli
  | [] => .ok c
  | a :: rest =>
    match c.positional mode a with
    | .ok c' => c'.positionals mode rest
    | .error e => .error e

/-- `Cli::short`: the new state and the number of further arguments consumed -/
def Cli.short (c : Cli) (ch : Char) (rest : List Arg) : Except CliError (Cli × Nat) :=
  if ch = 'R' then .ok ({ c with from_ := some .raw }, 0)
  else if ch = 'n' then .ok ({ c with nullInput := true }, 0)
  else if ch = 's' then .ok ({ c with slurp := true }, 0)
  else if ch = 'r' then .ok ({ c with to := some .raw }, 0)
  else if ch = 'c' then .ok ({ c with compactOutput := true }, 0)
  else if ch = 'j' then
    .ok ({ c with joinOutput := true, to := some (c.to.getD .raw) }, 0)
  else if ch = 'i' then .ok ({ c with inPlace := true }, 0)
  else if ch = 'S' then .ok ({ c with sortKeys := true }, 0)
  else if ch = 'C' then .ok ({ c with colorOutput := true }, 0)
  else if ch = 'M' then .ok ({ c with monochromeOutput := true }, 0)
  else if ch = 'f' then .ok ({ c with fromFile := true }, 0)
  else if ch = 'L' then
    match rest with
    | [] => .error (.path "-L")
    | a :: _ => .ok ({ c with libraryPath := c.libraryPath ++ [a] }, 1)
  else if ch = 'e' then .ok ({ c with exitStatus := true }, 0)
  else if ch = 'V' then .ok ({ c with version := true }, 0)
  else if ch = 'h' then .ok ({ c with help := true }, 0)
  else .error (.flag (String.ofList ['-', ch]))

/-- `rest.chars().try_for_each(|c| cli.short(c, &mut args))` (combined short flags) -/
def Cli.shorts (c : Cli) : List Char → List Arg → Except CliError (Cli × Nat)
  | [], _ => .ok (c, 0)
  | ch :: chs, rest =>
    match c.short ch rest with
    | .error e => .error e
    | .ok (c1, k) =>
      match c1.shorts chs (rest.drop k) with
      | .error e => .error e
      | .ok (c2, k2) => .ok (c2, k + k2)

/-- `usize::from_str`: optional `+`, at least one ASCII digit, no overflow of 64 bits -/
def digitsVal : List Char → Nat → Option Nat
  | [], acc => some acc
  | d :: ds, acc => if d.isDigit then digitsVal ds (acc * 10 + (d.toNat - 48)) else none

def parseUsize (s : String) : Option Nat :=
  let cs := match s.toList with
    | '+' :: r => r
    | r => r
  match cs with
  | [] => none
  | _ => match digitsVal cs 0 with
    | some n => if n < 18446744073709551616 then some n else none
    | none => none

/-- `parse_format` -/
def parseFormat (o : String) (rest : List Arg) : Except CliError Format :=
  match rest with
  | [] => .error (.format o)
  | a :: _ =>
    match a.str? with
    | none => .error (.format o)
    | some s => match Format.parse s with
      | some f => .ok f
      | none => .error (.format o)

/-- `parse_key_val` -/
def parseKeyVal (o : String) (rest : List Arg) : Except CliError (String × Arg) :=
  match rest with
  | [] => .error (.keyValue o)
  | k :: rest' =>
    match k.intoString with
    | .error e => .error e
    | .ok key =>
      match rest' with
      | [] => .error (.keyValue o)
      | v :: _ => .ok (key, v)

/-- lift a short-option handler into `long`'s result type -/
def Cli.viaShort (c : Cli) (mode : Mode) (ch : Char) (rest : List Arg) :
    Except CliError (Cli × Mode × Nat) :=
  match c.short ch rest with
  | .ok (c', k) => .ok (c', mode, k)
  | .error e => .error e

/-- `Cli::long` on the text after `--` -/
def Cli.long (c : Cli) (mode : Mode) (name : String) (rest : List Arg) :
    Except CliError (Cli × Mode × Nat) :=
  if name = "" then
    match c.positionals mode rest with
    | .ok c' => .ok (c', mode, rest.length)
    | .error e => .error e
  else if name = "from" then
    match parseFormat "--from" rest with
    | .ok f => .ok ({ c with from_ := some f }, mode, 1)
    | .error e => .error e
  else if name = "null-input" then c.viaShort mode 'n' rest
  else if name = "raw-input" then c.viaShort mode 'R' rest
  else if name = "raw-input0" then .ok ({ c with from_ := some .raw0 }, mode, 0)
  else if name = "slurp" then c.viaShort mode 's' rest
  else if name = "to" then
    match parseFormat "--to" rest with
    | .ok f => .ok ({ c with to := some f }, mode, 1)
    | .error e => .error e
  else if name = "compact-output" then c.viaShort mode 'c' rest
  else if name = "raw-output" then c.viaShort mode 'r' rest
  else if name = "raw-output0" then .ok ({ c with to := some .raw0 }, mode, 0)
  else if name = "join-output" then c.viaShort mode 'j' rest
  else if name = "in-place" then c.viaShort mode 'i' rest
  else if name = "sort-keys" then c.viaShort mode 'S' rest
  else if name = "color-output" then c.viaShort mode 'C' rest
  else if name = "monochrome-output" then c.viaShort mode 'M' rest
  else if name = "tab" then .ok ({ c with tab := true }, mode, 0)
  else if name = "indent" then
    match rest with
    | [] => .error (.int "--indent")
    | a :: _ =>
      match a.str?.bind parseUsize with
      | some n => .ok ({ c with indent := some n }, mode, 1)
      | none => .error (.int "--indent")
  else if name = "from-file" then c.viaShort mode 'f' rest
  else if name = "library-path" then c.viaShort mode 'L' rest
  else if name = "arg" then
    match parseKeyVal "--arg" rest with
    | .error e => .error e
    | .ok (k, v) => match v.intoString with
      | .ok s => .ok ({ c with arg := c.arg ++ [(k, s)] }, mode, 2)
      | .error e => .error e
  else if name = "argjson" then
    match parseKeyVal "--argjson" rest with
    | .error e => .error e
    | .ok (k, v) => match v.intoString with
      | .ok s => .ok ({ c with argjson := c.argjson ++ [(k, s)] }, mode, 2)
      | .error e => .error e
  else if name = "slurpfile" then
    match parseKeyVal "--slurpfile" rest with
    | .error e => .error e
    | .ok kv => .ok ({ c with slurpfile := c.slurpfile ++ [kv] }, mode, 2)
  else if name = "rawfile" then
    match parseKeyVal "--rawfile" rest with
    | .error e => .error e
    | .ok kv => .ok ({ c with rawfile := c.rawfile ++ [kv] }, mode, 2)
  else if name = "args" then .ok (c, .args, 0)
  else if name = "run-tests" then .ok ({ c with runTests := some rest }, mode, rest.length)
  else if name = "exit-status" then c.viaShort mode 'e' rest
  else if name = "version" then c.viaShort mode 'V' rest
  else if name = "help" then c.viaShort mode 'h' rest
  else .error (.flag ("--" ++ name))

/-- one iteration of the `while let Some(arg) = args.next()` loop: new state, new mode and the
number of further arguments consumed -/
def Cli.step (c : Cli) (mode : Mode) (a : Arg) (rest : List Arg) :
    Except CliError (Cli × Mode × Nat) :=
  match a with
  | .raw _ =>
    match c.positional mode a with
    | .ok c' => .ok (c', mode, 0)
    | .error e => .error e
  | .str s =>
    match s.toList with
    | '-' :: '-' :: name => c.long mode (String.ofList name) rest
    | '-' :: chs =>
      match c.shorts chs rest with
      | .ok (c', k) => .ok (c', mode, k)
      | .error e => .error e
    | _ =>
      match c.positional mode a with
      | .ok c' => .ok (c', mode, 0)
      | .error e => .error e

/-- the loop of `Cli::parse` -/
def Cli.parseLoop (c : Cli) (mode : Mode) (args : List Arg) : Except CliError Cli :=
  match args with
  | [] => .ok c
  | a :: rest =>
    match c.step mode a rest with
    | .error e => .error e
    | .ok (c', mode', k) => Cli.parseLoop c' mode' (rest.drop k)
termination_by args.length
decreasing_by simp [List.length_drop]; omega

/-- `Cli::parse` on the arguments after `argv[0]` -/
def Cli.parse (args : List Arg) : Except CliError Cli :=
  Cli.parseLoop {} .files args

/-- the task's `List String → Except CliError Cli` (all arguments valid UTF-8) -/
def Cli.parseStrs (args : List String) : Except CliError Cli :=
  Cli.parse (args.map .str)

/-- `Cli::indent` -/
def Cli.indentStr (c : Cli) : List Char :=
  if c.tab then ['\t'] else List.replicate (c.indent.getD 2) ' '

end Jaq.C17
