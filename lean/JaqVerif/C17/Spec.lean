/-
  C17 — specification-level vocabulary used by the theorems in `Props/C17.lean`:
  what *should* be on stdout (frames of outputs), who consumed which item, the documented
  effect of every option.  None of this is used by the impl-model `Run.lean`.
-/
import JaqVerif.C17.Run

namespace Jaq.C17
variable {V : Type}

/-! ### outputs and frames -/

/-- the outputs among the events of a trace, in order -/
def outsOf : List (Ev V) → List V
  | [] => []
  | .out v :: evs => v :: outsOf evs
  | .pull :: evs => outsOf evs

/-- the number of `input`/`inputs` pulls among the events -/
def pullsOf : List (Ev V) → Nat
  | [] => 0
  | .out _ :: evs => pullsOf evs
  | .pull :: evs => pullsOf evs + 1

/-- the bytes `write` produces for `v` (the whole frame, or what precedes the failure) -/
def frameBytes (ops : ValOps V) (w : Writer V) (v : V) : Bytes :=
  match w.frame ops v with
  | .ok b => b
  | .error p => p

def writable (ops : ValOps V) (w : Writer V) (v : V) : Bool :=
  match w.frame ops v with
  | .ok _ => true
  | .error _ => false

/-- the longest prefix of outputs that `write` accepts, and the first value it fails on -/
def splitWritable (ops : ValOps V) (w : Writer V) : List V → List V × Option V
  | [] => ([], none)
  | v :: vs =>
    if writable ops w v then ((v :: (splitWritable ops w vs).1), (splitWritable ops w vs).2)
    else ([], some v)

/-- concatenation of the frames of a list of outputs -/
def framesOf (ops : ValOps V) (w : Writer V) (vs : List V) : Bytes :=
  vs.flatMap (frameBytes ops w)

/-- the error a trace ends with by itself -/
def stopErr : Stop → Option Error
  | .done => none
  | .err => some .jaq
  | .halt c => some (.halt c)

/-- what `write` emitted of the first output it fails on (nothing if there is none) -/
def partialOf (ops : ValOps V) (w : Writer V) : Option V → Bytes
  | none => []
  | some v => frameBytes ops w v

/-- the error of a trace: a failing `write` (I/O error) comes before the trace's own end -/
def errOf (stop : Stop) : Option V → Option Error
  | none => stopErr stop
  | some _ => some .io

/-- `Some(v.as_bool())` of the last of `vs`, else `init` -/
def lastOf (ops : ValOps V) (init : Option Bool) (vs : List V) : Option Bool :=
  match vs.getLast? with
  | none => init
  | some v => some (ops.asBool v)

/-- what is on fd 1 at the moment each event of a trace (and its end) is computed, if every
output is completely written *and flushed* before the filter is resumed -/
def expectedSeen (ops : ValOps V) (w : Writer V) (base : Bytes) : List (Ev V) → List Bytes
  | [] => [base]
  | .pull :: evs => base :: expectedSeen ops w base evs
  | .out v :: evs =>
    base :: (match w.frame ops v with
      | .ok b => expectedSeen ops w (base ++ b) evs
      | .error _ => [])

/-- `r` is the complete frame `b` -/
def frameIs (r : Except Bytes Bytes) (b : Bytes) : Bool :=
  match r with
  | .ok x => x == b
  | .error _ => false

/-! ### the cursor -/

/-- consecutive turns of the main loop start where the previous one left the cursor -/
def Chain : Nat → List (Step V) → Prop
  | _, [] => True
  | p, s :: ss => s.start = p ∧ Chain s.next ss

/-- cursor position after the turns -/
def finalCursor : Nat → List (Step V) → Nat
  | p, [] => p
  | _, s :: ss => finalCursor s.next ss

/-- the indices of the file's items in the order they were consumed, by the main loop
(`s.start`, if `took`) or by `input`/`inputs` (the following `s.pulls` positions) -/
def consumed (steps : List (Step V)) : List Nat :=
  steps.flatMap fun s => List.range' s.start (s.next - s.start)

/-- all outputs written during the turns, in order -/
def stepsOuts (steps : List (Step V)) : List V := steps.flatMap (·.outs)

/-- all outputs written by the process, in order (files in command-line order) -/
def MainRes.outs (r : MainRes V) : List V := r.files.flatMap fun f => stepsOuts f.steps

/-- the bytes one turn of the main loop puts on stdout, read off the oracle's trace: the frames of
the outputs `write` accepts, then what `write` emitted of the first output it fails on -/
def stepBytes (ops : ValOps V) (w : Writer V) (s : Step V) : Bytes :=
  framesOf ops w (splitWritable ops w (outsOf s.tr.evs)).1 ++
    partialOf ops w (splitWritable ops w (outsOf s.tr.evs)).2

/-- the error (if any) a turn ends the run with: the item does not parse (5), an output cannot be
written (2), the filter ends with an error (5) or `halt c` (c) -/
def stepErr (ops : ValOps V) (w : Writer V) (s : Step V) : Option Error :=
  match s.input with
  | none => some .parse
  | some _ => errOf s.tr.stop (splitWritable ops w (outsOf s.tr.evs)).2

/-- a log entry tells the truth about the stream `all` of its file: the main loop fed `all[start]`
to the filter, the filter saw exactly the rest of the stream behind it, and the cursor stays
inside the stream -/
def StepFaithful (F : FilterFn V) (null : V) (all : List (Item V)) (s : Step V) : Prop :=
  s.next ≤ all.length ∧
  (if s.took then
    (match s.input with
     | some x => all[s.start]? = some (.val x) ∧ s.tr = F x (all.drop (s.start + 1))
     | none => all[s.start]? = some .bad ∧ s.pulls = 0)
   else s.input = some null ∧ s.tr = F null (all.drop s.start))

/-- bytes a file's turns put on stdout -/
def fileBytes (ops : ValOps V) (w : Writer V) (f : FileLog V) : Bytes := f.steps.flatMap (stepBytes ops w)

/-- a file's log is faithful: one cursor, consumed in order, every turn fed from the stream -/
def FileOk (F : Arg → FilterFn V) (null : V) (f : FileLog V) : Prop :=
  Chain 0 f.steps ∧ finalCursor 0 f.steps ≤ f.items.length ∧
  ∀ s ∈ f.steps, StepFaithful (F f.name) null f.items s

/-- errors that stop a run (as opposed to the two `--exit-status` outcomes) -/
def Error.stops : Error → Prop
  | .falseOrNull | .noOutput => False
  | _ => True

/-- the error of a run is the error of its last turn; all earlier turns completed -/
def lastErr (ops : ValOps V) (w : Writer V) (steps : List (Step V)) : Option Error :=
  match steps.getLast? with
  | none => none
  | some s => stepErr ops w s

/-! ### the documented options -/

def Format.name : Format → String
  | .raw => "raw" | .raw0 => "raw0" | .json => "json" | .cbor => "cbor" | .toml => "toml"
  | .xml => "xml" | .yaml => "yaml" | .csv => "csv" | .tsv => "tsv"

/-- The documented option set of `docs/cli.dj` (short and long spellings), without `--indent`
(see `indent_changes_only_indent`), `--args` and `--` (they change the mode, not a field). -/
inductive Opt where
  | from_ (f : Format) | nullInput (long : Bool) | rawInput (long : Bool) | rawInput0
  | slurp (long : Bool)
  | to (f : Format) | compact (long : Bool) | rawOutput (long : Bool) | rawOutput0
  | join (long : Bool) | inPlace (long : Bool) | sortKeys (long : Bool)
  | color (long : Bool) | mono (long : Bool) | tab
  | fromFile (long : Bool) | libraryPath (long : Bool) (dir : Arg)
  | arg (name value : String) | argjson (name value : String)
  | slurpfile (name : String) (file : Arg) | rawfile (name : String) (file : Arg)
  | exitStatus (long : Bool) | version (long : Bool) | help (long : Bool)

def sl (long : Bool) (s l : String) : List Arg := [.str (if long then l else s)]

/-- how the option is written on the command line -/
def Opt.tokens : Opt → List Arg
  | .from_ f => [.str "--from", .str f.name]
  | .nullInput l => sl l "-n" "--null-input"
  | .rawInput l => sl l "-R" "--raw-input"
  | .rawInput0 => [.str "--raw-input0"]
  | .slurp l => sl l "-s" "--slurp"
  | .to f => [.str "--to", .str f.name]
  | .compact l => sl l "-c" "--compact-output"
  | .rawOutput l => sl l "-r" "--raw-output"
  | .rawOutput0 => [.str "--raw-output0"]
  | .join l => sl l "-j" "--join-output"
  | .inPlace l => sl l "-i" "--in-place"
  | .sortKeys l => sl l "-S" "--sort-keys"
  | .color l => sl l "-C" "--color-output"
  | .mono l => sl l "-M" "--monochrome-output"
  | .tab => [.str "--tab"]
  | .fromFile l => sl l "-f" "--from-file"
  | .libraryPath l d => sl l "-L" "--library-path" ++ [d]
  | .arg k v => [.str "--arg", .str k, .str v]
  | .argjson k v => [.str "--argjson", .str k, .str v]
  | .slurpfile k f => [.str "--slurpfile", .str k, f]
  | .rawfile k f => [.str "--rawfile", .str k, f]
  | .exitStatus l => sl l "-e" "--exit-status"
  | .version l => sl l "-V" "--version"
  | .help l => sl l "-h" "--help"

/-- the one field the manual says the option sets (`φ(o)`) -/
def Opt.effect (o : Opt) (c : Cli) : Cli :=
  match o with
  | .from_ f => { c with from_ := some f }
  | .nullInput _ => { c with nullInput := true }
  | .rawInput _ => { c with from_ := some .raw }
  | .rawInput0 => { c with from_ := some .raw0 }
  | .slurp _ => { c with slurp := true }
  | .to f => { c with to := some f }
  | .compact _ => { c with compactOutput := true }
  | .rawOutput _ => { c with to := some .raw }
  | .rawOutput0 => { c with to := some .raw0 }
  -- "-j: do not print a newline after each value"; the code also enables raw output
  -- unless an output format was chosen before (`self.to.get_or_insert(Format::Raw)`)
  | .join _ => { c with joinOutput := true, to := some (c.to.getD .raw) }
  | .inPlace _ => { c with inPlace := true }
  | .sortKeys _ => { c with sortKeys := true }
  | .color _ => { c with colorOutput := true }
  | .mono _ => { c with monochromeOutput := true }
  | .tab => { c with tab := true }
  | .fromFile _ => { c with fromFile := true }
  | .libraryPath _ d => { c with libraryPath := c.libraryPath ++ [d] }
  | .arg k v => { c with arg := c.arg ++ [(k, v)] }
  | .argjson k v => { c with argjson := c.argjson ++ [(k, v)] }
  | .slurpfile k f => { c with slurpfile := c.slurpfile ++ [(k, f)] }
  | .rawfile k f => { c with rawfile := c.rawfile ++ [(k, f)] }
  | .exitStatus _ => { c with exitStatus := true }
  | .version _ => { c with version := true }
  | .help _ => { c with help := true }

/-- the short flags that take no argument, with their effect -/
def flagEffect (ch : Char) : Option (Cli → Cli) :=
  if ch = 'R' then some (Opt.rawInput false).effect
  else if ch = 'n' then some (Opt.nullInput false).effect
  else if ch = 's' then some (Opt.slurp false).effect
  else if ch = 'r' then some (Opt.rawOutput false).effect
  else if ch = 'c' then some (Opt.compact false).effect
  else if ch = 'j' then some (Opt.join false).effect
  else if ch = 'i' then some (Opt.inPlace false).effect
  else if ch = 'S' then some (Opt.sortKeys false).effect
  else if ch = 'C' then some (Opt.color false).effect
  else if ch = 'M' then some (Opt.mono false).effect
  else if ch = 'f' then some (Opt.fromFile false).effect
  else if ch = 'e' then some (Opt.exitStatus false).effect
  else if ch = 'V' then some (Opt.version false).effect
  else if ch = 'h' then some (Opt.help false).effect
  else none

end Jaq.C17
