/-
  C03 — streams are produced on demand.  Shared definitions of the laziness model (layer L2):
  items, contexts, the program fragment `T`, continuations `K` of `flat_map_then_with`,
  the unary stream adapters `Wr`, and the `World` (shared input cursor + effect log).

  Mirrors (see design/notes/C03.md for the function-by-function table):
    jaq-core/src/filter.rs  `Id::run` (which adapter every construct builds), `label_run`,
                            `try_catch_run`, `pipe`, `Ctx::cons_label/cons_var`
    jaq-core/src/funs.rs    `first! limit! skip! while_gtz! range`
    jaq-core/src/exn.rs     `Exn::{Err,Break,Halt}`
    jaq-std/src/input.rs    `input`, `inputs` over the shared `RcIter`
  No Mathlib: linked into the `jaqmodel` executable.
-/
import JaqVerif.Val.Basic

namespace Jaq.C03
open Jaq

/-- one element of a `ValXs` stream: `Ok(v)` or an exception (`Exn::Err`, `Exn::Break`,
`Exn::Halt`).  Every adapter passes exceptions through as items (`box_iter::then`). -/
inductive Item where
  | ok (v : Val)
  | err (e : Val)
  | brk (l : Nat)
  | halt (c : Int)
  deriving Repr, Inhabited

/-- a binding of the context (`Bind::Var`, `Bind::Label`); closures do not occur in the fragment -/
inductive Bind where
  | var (v : Val)
  | label (l : Nat)
  deriving Repr, Inhabited

/-- `Ctx`: bindings (most recent first, de Bruijn) and the counter of bound labels -/
structure Ctx where
  env : List Bind
  labels : Nat
  deriving Repr, Inhabited

/-- `Ctx::cons_label` -/
def Ctx.consLabel (c : Ctx) : Ctx := ⟨.label (c.labels + 1) :: c.env, c.labels + 1⟩
/-- `Ctx::cons_var` -/
def Ctx.consVar (c : Ctx) (v : Val) : Ctx := ⟨.var v :: c.env, c.labels⟩
/-- context of the body of a top-level definition without arguments: `skip_vars(skip)` drops
all bindings, the label counter is kept (`with_vars`) -/
def Ctx.forDef (c : Ctx) : Ctx := ⟨[], c.labels⟩

/-- the program fragment.  `var i` is `Ast::Var` (a variable `$x` or `break $l`, depending on
what is bound at index `i`); `call i` calls the `i`-th top-level definition `def dI: …;`
(no arguments; recursion allowed; `tcall i` is the same call in tail position of `dI`'s own
body, compiled to `CallType::Throw`); `ret`, `toBool`, `idxOf` are internal forms that only
continuations build. -/
inductive T where
  | id
  | lit (c : Val)
  | empty
  | error                         -- `error` (raises its input)
  | halt (c : Int)
  | comma (l r : T)
  | pipe (l r : T)
  | as_ (l r : T)                 -- `l as $x | r`
  | ite (c t e : T)
  | alt (l r : T)                 -- `l // r`
  | logic (stop : Bool) (l r : T) -- `l or r` (stop = true), `l and r` (stop = false)
  | input
  | inputs
  | first (f : T)
  | limit (n : Nat) (f : T)
  | skip (n : Nat) (f : T)
  | tryCatch (f c : T)
  | label (f : T)                 -- `label $l | f`
  | var (i : Nat)
  | call (i : Nat)
  | tcall (i : Nat)               -- tail-recursive call (`CallType::Throw`): the body is built lazily
  | range (frm to by_ : Int)      -- `range(frm; to; by_)` on integer literals
  | index (f i : T)               -- `f[i]`
  | toBool (f : T)
  | ret (x : Item)
  | idxOf (y : Val)               -- input `j` ↦ `y[j]`
  deriving Repr, Inhabited

/-- `ValT::as_bool` -/
def asBool : Val → Bool
  | .null => false
  | .bool b => b
  | _ => true

/-- the value of an `Ok` item -/
def Item.val? : Item → Option Val
  | .ok v => some v
  | _ => none

/-- the predicate of the `filter` in the `Alt` arm: `v.as_ref().map_or(true, ValT::as_bool)` -/
def Item.keep : Item → Bool
  | .ok v => asBool v
  | _ => true

/-- `Val::index`, restricted to what the generated programs use: `null` by anything, arrays by
machine integers (negative from the end, outside → `null`); anything else is an error. -/
def indexVal (y j : Val) : Item :=
  match y, j with
  | .null, _ => .ok .null
  | .arr a, .num (.int i) =>
    if 0 ≤ i then .ok (a.getD i.toNat .null)
    else if i.natAbs ≤ a.length then .ok (a.getD (a.length - i.natAbs) .null) else .ok .null
  | _, _ => .err (.tstr "cannot index".toUTF8.toList)

/-- index of `y` by the *item* the index filter produced (exceptions propagate: `Path::transpose`) -/
def indexItem (y : Val) : Item → Item
  | .ok j => indexVal y j
  | x => x

/-- what `Ast::Var` yields -/
def lookup (c : Ctx) (i : Nat) : Option Item :=
  match c.env[i]? with
  | some (.var v) => some (.ok v)
  | some (.label l) => some (.brk l)
  | none => none

/-- the continuations handed to `flat_map_then_with`.  `idxL`/`idxR` are the two results of
`collect_if_once` on an index filter: `Either::L(once(x))` or `Either::R(Delay(f))`. -/
inductive K where
  | pipe (r : T) (ctx : Ctx)                       -- `l | r`
  | as_ (r : T) (ctx : Ctx) (v : Val)              -- `l as $x | r`
  | ite (t e : T) (ctx : Ctx) (v : Val)            -- `if l then t else e end`
  | logic (stop : Bool) (r : T) (ctx : Ctx) (v : Val)
  | idxL (x : Item)                                -- `f[i]`, index already collected
  | idxR (i : T) (ctx : Ctx) (v : Val)             -- `f[i]`, index filter delayed
  deriving Repr, Inhabited

/-- the closure passed to `flat_map_then_with`: which filter runs, in which context, on which
input, for an output `y` of the left-hand side -/
def K.app : K → Val → T × Ctx × Val
  | .pipe r ctx, y => (r, ctx, y)
  | .as_ r ctx v, y => (r, ctx.consVar y, v)
  | .ite t e ctx v, y => (if asBool y then t else e, ctx, v)
  | .logic stop r ctx v, y => if asBool y == stop then (.lit (.bool stop), ctx, v) else (.toBool r, ctx, v)
  | .idxL x, y => (.ret (indexItem y x), ⟨[], 0⟩, y)
  | .idxR i ctx v, y => (.pipe i (.idxOf y), ctx, v)

/-- unary stream adapters with a small state: `limit!`/`skip!` (`while_gtz!` counters),
`label_run` (`map_while`), `try_catch_run`, the `filter` of `//`, the `map` of `and`/`or`,
and the transparent trampoline `Stack` around calls of definitions. -/
inductive Wr where
  | limit (n : Nat)
  | skip (n : Nat)
  | label (l : Nat)
  | try_ (c : T) (ctx : Ctx)
  | filt
  | toBool
  | stack
  deriving Repr, Inhabited

/-- what an adapter does with the item it pulled -/
inductive Act where
  | emit (x : Item) (s : Wr)      -- deliver `x`, continue in state `s`
  | drop (s : Wr)                 -- pull again
  | stop                          -- deliver `None` (the inner iterator is *not* pulled again)
  | handler (c : T) (ctx : Ctx) (e : Val)  -- `try`: run the handler, then end
  deriving Repr, Inhabited

/-- does the adapter pull its inner iterator at all?  `limit` with an exhausted counter does
not (`while_gtz!`: `n.take().filter(|i| *i > 0)` fails, `$lez` = `None`). -/
def Wr.ready : Wr → Bool
  | .limit 0 => false
  | _ => true

def Wr.step : Wr → Item → Act
  | .limit 0, _ => .stop
  | .limit (n + 1), x => .emit x (.limit n)
  | .skip 0, x => .emit x (.skip 0)
  | .skip (n + 1), .ok _ => .drop (.skip n)
  | .skip (n + 1), x => .emit x (.skip n)
  | .label l, .brk l' => if l' = l then .stop else .emit (.brk l') (.label l)
  | .label l, x => .emit x (.label l)
  | .try_ c ctx, .err e => .handler c ctx e
  | .try_ c ctx, x => .emit x (.try_ c ctx)
  | .filt, x => if x.keep then .emit x .filt else .drop .filt
  | .toBool, .ok v => .emit (.ok (.bool (asBool v))) .toBool
  | .toBool, x => .emit x .toBool
  | .stack, x => .emit x .stack

/-- adapters whose `size_hint` upper bound is that of the inner iterator (`MapWhile`, `Filter`,
`Map`); the others are `from_fn` / `Stack` with the default `(0, None)` -/
def Wr.transparent : Wr → Bool
  | .label _ => true
  | .filt => true
  | .toBool => true
  | _ => false

/-- an effect: the value read from the shared input stream -/
abbrev Eff := Val

/-- the world: the unread part of the shared input stream (`RcIter`) and the log of effects
(most recent first) -/
structure World where
  inputs : List Val
  log : List Eff
  deriving Repr, Inhabited

/-- `inputs.next()` on the shared `RcIter` -/
def World.read (w : World) : Option (Val × World) :=
  match w.inputs with
  | x :: xs => some (x, ⟨xs, x :: w.log⟩)
  | [] => none

/-- `range`'s loop condition (`from_fn` in `funs.rs`) on integers -/
def rangeGo (cur to by_ : Int) : Bool :=
  if by_ > 0 then cur < to else if by_ < 0 then cur > to else cur != to

def intVal (i : Int) : Val := .num (Num.ofInt i)

/-- index filters whose evaluation is one pure step: `.`, a literal, a variable -/
def T.simple : T → Bool
  | .id => true
  | .lit _ => true
  | .var _ => true
  | _ => false

/-- every path index filter of the program is simple (hypothesis `PureIndexFilters` of the main
theorem; see finding F-03 for what happens without it) -/
def T.pureIdx : T → Bool
  | .comma l r => l.pureIdx && r.pureIdx
  | .pipe l r => l.pureIdx && r.pureIdx
  | .as_ l r => l.pureIdx && r.pureIdx
  | .alt l r => l.pureIdx && r.pureIdx
  | .logic _ l r => l.pureIdx && r.pureIdx
  | .tryCatch l r => l.pureIdx && r.pureIdx
  | .ite c t e => c.pureIdx && t.pureIdx && e.pureIdx
  | .first f => f.pureIdx
  | .limit _ f => f.pureIdx
  | .skip _ f => f.pureIdx
  | .label f => f.pureIdx
  | .toBool f => f.pureIdx
  | .index f i => f.pureIdx && i.simple
  | _ => true

end Jaq.C03
