/-
  C03 — streams are produced on demand.  Shared definitions of the laziness model (layer L2):
  items, contexts, the program fragment `T`, continuations `K` of `flat_map_then_with`,
  the unary stream adapters `Wr`, and the `World` (shared input cursor + effect log).

  Mirrors (see design/notes/C03.md for the function-by-function table):
    jaq-core/src/filter.rs  `Id::run` (which adapter every construct builds), `label_run`,
                            `try_catch_run`, `pipe`, `cartesian`, `bind_vars`, `closure`,
                            `Ctx::cons_label/cons_var/cons_fun/skip_vars/with_vars`
    jaq-core/src/funs.rs    `first! limit! skip! while_gtz! range`
    jaq-core/src/exn.rs     `Exn::{Err,Break,Halt}`
    jaq-std/src/input.rs    `input`, `inputs` over the shared `RcIter`
  No Mathlib: linked into the `jaqmodel` executable.
-/
import JaqVerif.Val.Basic
import JaqVerif.Val.Arith

namespace Jaq.C03
open Jaq

/-- one element of a `ValXs` stream: `Ok(v)` or an exception (`Exn::Err`, `Exn::Break`,
`Exn::Halt`).  Every adapter passes exceptions through as items (`box_iter::then`). -/
inductive Item where
  | ok (v : Val)
  | err (e : Val)
  | brk (l : Nat)
  | halt (c : Int)
  deriving Repr, Inhabited

/-- `Ast::Math` operators of the fragment -/
inductive MathOp where
  | add | sub | mul
  deriving Repr, Inhabited, DecidableEq

/-- `CallType` of a `CallDef` that runs the body now: `Inline` (the body's iterator as it is)
or `CatchOne`/`CatchAll` (the body's iterator inside the trampoline `Stack`) -/
inductive CallTy where
  | inline | catch_
  deriving Repr, Inhabited, DecidableEq

/-- `Fold::Reduce`, `Fold::Foreach(None)`, `Fold::Foreach(Some(proj))` -/
inductive FoldKind where
  | reduce | foreach | foreachP
  deriving Repr, Inhabited, DecidableEq

/-- the program fragment.  `var i` is `Ast::Var` at a variable `$x` or a label (`break $l`),
`fvar i` is `Ast::Var` at a filter argument (the closure bound at index `i` is run);
`call i` calls the `i`-th definition without arguments from a context whose bindings are all
skipped (`tcall i`: the same call in tail position, `CallType::Throw`);
`callA ty i skip args` / `tcallA i skip args` are the general `CallDef(id, args, skip, ty)`: an
argument `(true, a)` is a filter argument (bound to the closure of `a` in the caller's context),
`(false, a)` a `$`-argument given by a simple term (`.`, literal, variable);
`fold kind xs init upd proj` is `reduce/foreach xs as $x (init; upd[; proj])`;
`ret`, `toBool`, `idxOf`, `mathR` are internal forms that only continuations build. -/
inductive T where
  | id
  | lit (c : Val)
  | empty
  | error                         -- `error` (raises its input)
  | halt (c : Int)
  | comma (l r : T)
  | pipe (l r : T)
  | as_ (l r : T)                 -- `l as $x | r`
  | ite (c t e : T)
  | alt (l r : T)                 -- `l // r`
  | logic (stop : Bool) (l r : T) -- `l or r` (stop = true), `l and r` (stop = false)
  | input
  | inputs
  | first (f : T)
  | limit (n : Nat) (f : T)
  | skip (n : Nat) (f : T)
  | tryCatch (f c : T)
  | label (f : T)                 -- `label $l | f`
  | var (i : Nat)
  | call (i : Nat)
  | tcall (i : Nat)               -- tail-recursive call (`CallType::Throw`): the body is built lazily
  | range (frm to by_ : Int)      -- `range(frm; to; by_)` on integer literals
  | index (f i : T)               -- `f[i]`
  | toBool (f : T)
  | ret (x : Item)
  | idxOf (y : Val)               -- input `j` ↦ `y[j]`
  -- round 2
  | arr (f : T)                   -- `[f]`
  | math (op : MathOp) (l r : T)  -- `l op r`
  | mathR (op : MathOp) (y : Val) (r : T)  -- `r | (y op .)`: the inner `map_with` of `cartesian`
  | fold (kind : FoldKind) (xs init upd proj : T)
  | fvar (i : Nat)
  | callA (ty : CallTy) (i skip : Nat) (args : List (Bool × T))
  | tcallA (i skip : Nat) (args : List (Bool × T))
  deriving Repr, Inhabited

/-- a binding of the context (`Bind::Var`, `Bind::Label`, `Bind::Fun((id, vars))`) -/
inductive Bind where
  | var (v : Val)
  | label (l : Nat)
  | fn (t : T) (env : List Bind)
  deriving Repr, Inhabited

/-- `Ctx`: bindings (most recent first, de Bruijn) and the counter of bound labels -/
structure Ctx where
  env : List Bind
  labels : Nat
  deriving Repr, Inhabited

/-- `Ctx::cons_label` -/
def Ctx.consLabel (c : Ctx) : Ctx := ⟨.label (c.labels + 1) :: c.env, c.labels + 1⟩
/-- `Ctx::cons_var` -/
def Ctx.consVar (c : Ctx) (v : Val) : Ctx := ⟨.var v :: c.env, c.labels⟩
/-- context of the body of a top-level definition without arguments: `skip_vars(skip)` drops
all bindings, the label counter is kept (`with_vars`) -/
def Ctx.forDef (c : Ctx) : Ctx := ⟨[], c.labels⟩

/-- `ValT::as_bool` -/
def asBool : Val → Bool
  | .null => false
  | .bool b => b
  | _ => true

/-- the value of an `Ok` item -/
def Item.val? : Item → Option Val
  | .ok v => some v
  | _ => none

/-- the predicate of the `filter` in the `Alt` arm: `v.as_ref().map_or(true, ValT::as_bool)` -/
def Item.keep : Item → Bool
  | .ok v => asBool v
  | _ => true

/-- `Val::index`, restricted to what the generated programs use: `null` by anything, arrays by
machine integers (negative from the end, outside → `null`); anything else is an error. -/
def indexVal (y j : Val) : Item :=
  match y, j with
  | .null, _ => .ok .null
  | .arr a, .num (.int i) =>
    if 0 ≤ i then .ok (a.getD i.toNat .null)
    else if i.natAbs ≤ a.length then .ok (a.getD (a.length - i.natAbs) .null) else .ok .null
  | _, _ => .err (.tstr "cannot index".toUTF8.toList)

/-- index of `y` by the *item* the index filter produced (exceptions propagate: `Path::transpose`) -/
def indexItem (y : Val) : Item → Item
  | .ok j => indexVal y j
  | x => x

/-- `op.run(l, r)` (`impl Add/Sub/Mul for Val`); errors by class, not by message text -/
def mathVal (op : MathOp) (l r : Val) : Item :=
  match (match op with
    | .add => Val.add l r
    | .sub => Val.sub l r
    | .mul => Val.mul l r) with
  | .ok v => .ok v
  | .error _ => .err (.tstr "cannot calculate".toUTF8.toList)

/-- `(l, r) ↦ op.run(l?, r?)` for a fixed left operand: exceptions of the right operand pass -/
def mathItem (op : MathOp) (l : Val) : Item → Item
  | .ok r => mathVal op l r
  | x => x

/-- what `Ast::Var` yields at a variable or a label (a filter argument is not a value) -/
def lookup (c : Ctx) (i : Nat) : Option Item :=
  match c.env[i]? with
  | some (.var v) => some (.ok v)
  | some (.label l) => some (.brk l)
  | _ => none

/-- the closure bound at index `i` (`Bind::Fun`) -/
def lookupFn (c : Ctx) (i : Nat) : Option (T × List Bind) :=
  match c.env[i]? with
  | some (.fn t env) => some (t, env)
  | _ => none

/-- index filters / `$`-arguments whose evaluation is one pure step: `.`, a literal, a variable -/
def T.simple : T → Bool
  | .id => true
  | .lit _ => true
  | .var _ => true
  | _ => false

/-- the value of a simple filter -/
def simpleVal (i : T) (c : Ctx) (v : Val) : Option Item :=
  match i with
  | .id => some (.ok v)
  | .lit x => some (.ok x)
  | .var n => lookup c n
  | _ => none

/-- `closure(arg, ctx)`: an argument that merely passes on a filter argument of the caller
reuses the closure bound to it -/
def mkClosure (arg : T) (caller : List Bind) : Bind :=
  match arg with
  | .fvar j =>
    match caller[j]? with
    | some (.fn t e) => .fn t e
    | _ => .fn arg caller
  | _ => .fn arg caller

/-- `bind_vars(args, ctx, cv)` for filter arguments and simple `$`-arguments (every step is
`box_once`): the arguments are pushed, first to last, onto the callee's bindings.  `none`: a
`$`-argument that is not a value (outside what the compiler produces for the lowered programs). -/
def bindArgs (caller : Ctx) (v : Val) : List (Bool × T) → List Bind → Option (List Bind)
  | [], env => some env
  | (true, a) :: rest, env => bindArgs caller v rest (mkClosure a caller.env :: env)
  | (false, a) :: rest, env =>
    match simpleVal a caller v with
    | some (.ok x) => bindArgs caller v rest (.var x :: env)
    | _ => none

/-- the context of the body of `CallDef(id, args, skip, _)`: `cv.0.skip_vars(skip)` extended by
the arguments; the label counter is the caller's -/
def callCtx (c : Ctx) (skip : Nat) (args : List (Bool × T)) (v : Val) : Option Ctx :=
  match bindArgs c v args (c.env.drop skip) with
  | some env => some ⟨env, c.labels⟩
  | none => none

/-- the pair `(ctx with $x, y)` that `fold` hands to the projection of `foreach`, as one value -/
def pairVal (x y : Val) : Val := .arr [x, y]

/-- the continuations handed to `flat_map_then_with`.  `idxL`/`idxR` are the two results of
`collect_if_once` on an index filter: `Either::L(once(x))` or `Either::R(Delay(f))`. -/
inductive K where
  | pipe (r : T) (ctx : Ctx)                       -- `l | r`
  | as_ (r : T) (ctx : Ctx) (v : Val)              -- `l as $x | r`
  | ite (t e : T) (ctx : Ctx) (v : Val)            -- `if l then t else e end`
  | logic (stop : Bool) (r : T) (ctx : Ctx) (v : Val)
  | idxL (x : Item)                                -- `f[i]`, index already collected
  | idxR (i : T) (ctx : Ctx) (v : Val)             -- `f[i]`, index filter delayed
  | math (op : MathOp) (r : T) (ctx : Ctx) (v : Val) -- `l op r`: for an output of `l`, all of `r`
  | proj (p : T) (ctx : Ctx)                       -- `foreach … (…; …; p)`: `(ctx with $x, y) ↦ y | p`
  deriving Repr, Inhabited

/-- the closure passed to `flat_map_then_with`: which filter runs, in which context, on which
input, for an output `y` of the left-hand side -/
def K.app : K → Val → T × Ctx × Val
  | .pipe r ctx, y => (r, ctx, y)
  | .as_ r ctx v, y => (r, ctx.consVar y, v)
  | .ite t e ctx v, y => (if asBool y then t else e, ctx, v)
  | .logic stop r ctx v, y => if asBool y == stop then (.lit (.bool stop), ctx, v) else (.toBool r, ctx, v)
  | .idxL x, y => (.ret (indexItem y x), ⟨[], 0⟩, y)
  | .idxR i ctx v, y => (.pipe i (.idxOf y), ctx, v)
  | .math op r ctx v, y => (.mathR op y r, ctx, v)
  | .proj p ctx, y =>
    match y with
    | .arr [x, y'] => (p, ctx.consVar x, y')
    | _ => (.empty, ctx, y)

/-- unary stream adapters with a small state: `limit!`/`skip!` (`while_gtz!` counters),
`label_run` (`map_while`), `try_catch_run`, the `filter` of `//`, the `map` of `and`/`or`,
the transparent trampoline `Stack` around calls of definitions, the loop of `collect()` in
`[f]`, the `map` of `cartesian`. -/
inductive Wr where
  | limit (n : Nat)
  | skip (n : Nat)
  | label (l : Nat)
  | try_ (c : T) (ctx : Ctx)
  | filt
  | toBool
  | stack
  | collect (acc : List Val)      -- `collect::<Result<V, _>>()`: gathered so far, most recent first
  | mathL (op : MathOp) (l : Val) -- `map_with(r.run(cv), l, …)` followed by `op.run`
  deriving Repr, Inhabited

/-- what an adapter does with the item it pulled -/
inductive Act where
  | emit (x : Item) (s : Wr)      -- deliver `x`, continue in state `s`
  | drop (s : Wr)                 -- pull again
  | stop                          -- deliver `None` (the inner iterator is *not* pulled again)
  | handler (c : T) (ctx : Ctx) (e : Val)  -- `try`: run the handler, then end
  deriving Repr, Inhabited

/-- does the adapter pull its inner iterator at all?  `limit` with an exhausted counter does
not (`while_gtz!`: `n.take().filter(|i| *i > 0)` fails, `$lez` = `None`). -/
def Wr.ready : Wr → Bool
  | .limit 0 => false
  | _ => true

def Wr.step : Wr → Item → Act
  | .limit 0, _ => .stop
  | .limit (n + 1), x => .emit x (.limit n)
  | .skip 0, x => .emit x (.skip 0)
  | .skip (n + 1), .ok _ => .drop (.skip n)
  | .skip (n + 1), x => .emit x (.skip n)
  | .label l, .brk l' => if l' = l then .stop else .emit (.brk l') (.label l)
  | .label l, x => .emit x (.label l)
  | .try_ c ctx, .err e => .handler c ctx e
  | .try_ c ctx, x => .emit x (.try_ c ctx)
  | .filt, x => if x.keep then .emit x .filt else .drop .filt
  | .toBool, .ok v => .emit (.ok (.bool (asBool v))) .toBool
  | .toBool, x => .emit x .toBool
  | .stack, x => .emit x .stack
  | .collect acc, .ok y => .drop (.collect (y :: acc))
  | .collect _, x => .emit x (.limit 0)           -- the first exception ends `collect`
  | .mathL op l, x => .emit (mathItem op l x) (.mathL op l)

/-- what the adapter delivers when its inner iterator is exhausted (`collect()`: the array;
afterwards nothing) -/
def Wr.atEnd : Wr → Option Item
  | .collect acc => some (.ok (.arr acc.reverse))
  | _ => none

/-- adapters whose `size_hint` upper bound is that of the inner iterator (`MapWhile`, `Filter`,
`Map`); the others are `from_fn` / `Stack` with the default `(0, None)` -/
def Wr.transparent : Wr → Bool
  | .label _ => true
  | .filt => true
  | .toBool => true
  | .mathL _ _ => true
  | _ => false

/-- an effect: the value read from the shared input stream -/
abbrev Eff := Val

/-- the world: the unread part of the shared input stream (`RcIter`) and the log of effects
(most recent first) -/
structure World where
  inputs : List Val
  log : List Eff
  deriving Repr, Inhabited

/-- `inputs.next()` on the shared `RcIter` -/
def World.read (w : World) : Option (Val × World) :=
  match w.inputs with
  | x :: xs => some (x, ⟨xs, x :: w.log⟩)
  | [] => none

/-- `range`'s loop condition (`from_fn` in `funs.rs`) on integers -/
def rangeGo (cur to by_ : Int) : Bool :=
  if by_ > 0 then cur < to else if by_ < 0 then cur > to else cur != to

def intVal (i : Int) : Val := .num (Num.ofInt i)

/-! ### the class of programs the main theorem speaks about -/

/-- filters whose iterator is built without touching the world and is `once`/`nil`/`inputs`/`range` -/
def T.lazySrc0 : T → Bool
  | .id => true
  | .lit _ => true
  | .empty => true
  | .error => true
  | .halt _ => true
  | .inputs => true
  | .range _ _ _ => true
  | _ => false

/-- filters whose iterator has no upper bound when built (`inputs`, `range`) -/
def T.noUpper : T → Bool
  | .inputs => true
  | .range _ _ _ => true
  | _ => false

def T.lazySrc1 : T → Bool
  | .comma l _ => l.lazySrc0
  | .pipe l _ => l.noUpper
  | t => t.lazySrc0

/-- sources `xs` of `reduce`/`foreach` whose *construction* touches nothing (their outputs may
do anything): `inputs`, `range(…)`, `.`, literals, `empty`, `error`, `(x, anything)`,
`(inputs | anything)`, `limit(n; such)`, `try such catch anything`.  The manual does not say
whether starting `xs` or `init` comes first; for these sources the question does not arise. -/
def T.lazySrc : T → Bool
  | .limit _ f => f.lazySrc1
  | .tryCatch f _ => f.lazySrc1
  | t => t.lazySrc1

mutual
/-- every path index filter of the program is simple, every `$`-argument is simple, every
source of a `reduce`/`foreach` is in `lazySrc` (hypothesis `PureIndexFilters` of the main
theorem; see finding F-03 for what happens without the first condition) -/
def T.pureIdx : T → Bool
  | .comma l r => l.pureIdx && r.pureIdx
  | .pipe l r => l.pureIdx && r.pureIdx
  | .as_ l r => l.pureIdx && r.pureIdx
  | .alt l r => l.pureIdx && r.pureIdx
  | .logic _ l r => l.pureIdx && r.pureIdx
  | .tryCatch l r => l.pureIdx && r.pureIdx
  | .ite c t e => c.pureIdx && t.pureIdx && e.pureIdx
  | .first f => f.pureIdx
  | .limit _ f => f.pureIdx
  | .skip _ f => f.pureIdx
  | .label f => f.pureIdx
  | .toBool f => f.pureIdx
  | .index f i => f.pureIdx && i.simple
  | .arr f => f.pureIdx
  | .math _ l r => l.pureIdx && r.pureIdx
  | .mathR _ _ r => r.pureIdx
  | .fold _ xs i u p => xs.lazySrc && xs.pureIdx && i.pureIdx && u.pureIdx && p.pureIdx
  | .callA _ _ _ args => T.pureArgs args
  | .tcallA _ _ args => T.pureArgs args
  | _ => true
def T.pureArgs : List (Bool × T) → Bool
  | [] => true
  | (true, a) :: rest => a.pureIdx && T.pureArgs rest
  | (false, a) :: rest => a.simple && T.pureArgs rest
end

mutual
/-- the closures of a context have pure index filters (…) -/
def Bind.pure : Bind → Bool
  | .fn t env => t.pureIdx && Bind.pureL env
  | _ => true
def Bind.pureL : List Bind → Bool
  | [] => true
  | b :: bs => b.pure && Bind.pureL bs
end

def Ctx.pure (c : Ctx) : Bool := Bind.pureL c.env

end Jaq.C03
