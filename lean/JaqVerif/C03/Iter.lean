/-
  C03 — the implementation model: Rust iterators, defunctionalised.
  `It` has one constructor per adapter the interpreter builds; `mk` is `Id::run` (what is built
  for each construct *and what is already evaluated while building*: `next_if_one` when
  `size_hint().1 == Some(1)`, `collect_if_once` for path index filters, the first `next()` of
  the `Alt` arm, `first!`, `input`); `next` is `Iterator::next`; `It.upper` is `size_hint().1`.

    nil      core::iter::empty / exhausted `Once` / `None.into_iter()`
    once x   box_once / `Some(x).into_iter()`
    cons x r `once(head).chain(l)`                                    (Alt arm)
    chain    `l.run(cv).chain(lazy(|| r.run(cv)))`                    (Comma)
    flat     `flat_map_then_with` in its general case (`FlatMap`)     (Pipe, as, if, and/or, Path)
    wrap s a `from_fn` of limit!/skip!, `map_while` of label_run, try_catch_run, `filter`, `map`, `Stack`
    inputs   `inputs(cv)` (`Map` over the shared `&RcIter`)
    range    `from_fn` of `range`
-/
import JaqVerif.C03.Defs

namespace Jaq.C03
open Jaq

inductive It where
  | nil
  | once (x : Item)
  | cons (x : Item) (r : It)
  | chain (a : It) (t : T) (ctx : Ctx) (v : Val)
  | flat (src : It) (k : K) (cur : It)
  | wrap (s : Wr) (a : It)
  | inputs
  | range (cur to by_ : Int)
  deriving Repr, Inhabited

/-- upper bound of `size_hint` (`Chain` with a lazy right side, `FlatMap` with a live source,
`from_fn` and `Stack` have none) -/
def It.upper : It → Option Nat
  | .nil => some 0
  | .once _ => some 1
  | .cons _ r => r.upper.map (· + 1)
  | .chain .. => none
  | .flat .. => none
  | .wrap s a => if s.transparent then a.upper else none
  | .inputs => none
  | .range .. => none

abbrev MkRes := Option (It × World)
abbrev NextRes := Option (Option Item × It × World)

/-- `flat_map_then_with(l, x, r)` given the freshly built `l = a`: when `a.size_hint().1 ==
Some(1)`, `next_if_one` pulls `a` **now** and the right-hand side is built **now**; otherwise a
`FlatMap` is returned and nothing is pulled.  (`mkF`, `nextF` are `mk`, `next` at the caller's
fuel.)  After `next_if_one` got `None` the code continues with `flat_map` over the exhausted
iterator; the model writes `nil` for it. -/
def mkFlatWith (mkF : T → Ctx → Val → World → MkRes) (nextF : It → World → NextRes)
    (a : It) (k : K) (w : World) : MkRes :=
  if a.upper = some 1 then
    match nextF a w with
    | none => none
    | some (some x, _, w2) =>
      match x.val? with
      | some y => mkF (k.app y).1 (k.app y).2.1 (k.app y).2.2 w2
      | none => some (.once x, w2)                        -- `then`: an exception is passed on
    | some (none, _, w2) => some (.nil, w2)
  else some (.flat a k .nil, w)

/-- `collect_if_once(|| i.run(cv))` given the freshly built iterator `ia` of the index filter:
pulled **now** if its upper bound is 1, else dropped (and the filter is re-run per output of
the head, `Delay`). -/
def collectIfOnce (nextF : It → World → NextRes) (ia : It) (i : T) (ctx : Ctx) (v : Val) (w : World) :
    Option (K × World) :=
  if ia.upper = some 1 then
    match nextF ia w with
    | none => none
    | some (some x, _, w2) => some (.idxL x, w2)
    | some (none, _, w2) => some (.idxR i ctx v, w2)
  else some (.idxR i ctx v, w)

/-- `Id::run`, one level: build the iterator of `v | t` in context `ctx`; `mkF`/`nextF` are
`mk`/`next` for the sub-terms (with less fuel) -/
def mkStep (D : List T) (mkF : T → Ctx → Val → World → MkRes) (nextF : It → World → NextRes)
    (t : T) (ctx : Ctx) (v : Val) (w : World) : MkRes :=
    match t with
    | .id => some (.once (.ok v), w)
    | .lit c => some (.once (.ok c), w)
    | .empty => some (.nil, w)
    | .error => some (.once (.err v), w)
    | .halt c => some (.once (.halt c), w)
    | .ret x => some (.once x, w)
    | .idxOf y => some (.once (indexVal y v), w)
    | .var i =>
      match lookup ctx i with
      | some x => some (.once x, w)
      | none => some (.nil, w)
    | .input =>                       -- `inputs(cv).next().into_iter()`: consumed while building
      match w.read with
      | some (x, w1) => some (.once (.ok x), w1)
      | none => some (.nil, w)
    | .inputs => some (.inputs, w)
    | .range a b c => some (.range a b c, w)
    | .comma l r =>
      match mkF l ctx v w with
      | none => none
      | some (a, w1) => some (.chain a r ctx v, w1)
    | .pipe l r =>
      match mkF l ctx v w with
      | none => none
      | some (a, w1) => mkFlatWith mkF nextF a (.pipe r ctx) w1
    | .as_ l r =>
      match mkF l ctx v w with
      | none => none
      | some (a, w1) => mkFlatWith mkF nextF a (.as_ r ctx v) w1
    | .ite c t e =>
      match mkF c ctx v w with
      | none => none
      | some (a, w1) => mkFlatWith mkF nextF a (.ite t e ctx v) w1
    | .logic stop l r =>
      match mkF l ctx v w with
      | none => none
      | some (a, w1) => mkFlatWith mkF nextF a (.logic stop r ctx v) w1
    | .alt l r =>                     -- the filtered left side is pulled once while building
      match mkF l ctx v w with
      | none => none
      | some (a, w1) =>
        match nextF (.wrap .filt a) w1 with
        | none => none
        | some (some x, rest, w2) => some (.cons x rest, w2)
        | some (none, _, w2) => mkF r ctx v w2
    | .first f =>                     -- `f.run(..).next().into_iter()`
      match mkF f ctx v w with
      | none => none
      | some (a, w1) =>
        match nextF a w1 with
        | none => none
        | some (some x, _, w2) => some (.once x, w2)
        | some (none, _, w2) => some (.nil, w2)
    | .limit 0 _ => some (.nil, w)    -- `n <= 0`: `f` is not even built
    | .limit (k + 1) f =>
      match mkF f ctx v w with
      | none => none
      | some (a, w1) => some (.wrap (.limit (k + 1)) a, w1)
    | .skip 0 f => mkF f ctx v w
    | .skip (k + 1) f =>
      match mkF f ctx v w with
      | none => none
      | some (a, w1) => some (.wrap (.skip (k + 1)) a, w1)
    | .tryCatch f c =>
      match mkF f ctx v w with
      | none => none
      | some (a, w1) => some (.wrap (.try_ c ctx) a, w1)
    | .label f =>
      match mkF f ctx.consLabel v w with
      | none => none
      | some (a, w1) => some (.wrap (.label (ctx.labels + 1)) a, w1)
    | .toBool f =>
      match mkF f ctx v w with
      | none => none
      | some (a, w1) => some (.wrap .toBool a, w1)
    | .call i =>
      match D[i]? with
      | some body =>
        match mkF body ctx.forDef v w with
        | none => none
        | some (a, w1) => some (.wrap .stack a, w1)
      | none => some (.nil, w)
    | .tcall i =>                     -- `Throw`: nothing is built until the trampoline pulls
      some (.chain .nil (.call i) ctx v, w)
    | .index f i =>                   -- index filter first (`collect_if_once`), then the head
      match mkF i ctx v w with
      | none => none
      | some (ia, w1) =>
        match collectIfOnce nextF ia i ctx v w1 with
        | none => none
        | some (k, w2) =>
          match mkF f ctx v w2 with
          | none => none
          | some (a, w3) => mkFlatWith mkF nextF a k w3

/-- `Iterator::next`, one level -/
def nextStep (mkF : T → Ctx → Val → World → MkRes) (nextF : It → World → NextRes)
    (it : It) (w : World) : NextRes :=
    match it with
    | .nil => some (none, .nil, w)
    | .once x => some (some x, .nil, w)
    | .cons x r => some (some x, r, w)
    | .inputs =>
      match w.read with
      | some (x, w1) => some (some (.ok x), .inputs, w1)
      | none => some (none, .inputs, w)
    | .range cur to by_ =>
      if rangeGo cur to by_ then some (some (.ok (intVal cur)), .range (cur + by_) to by_, w)
      else some (none, .range cur to by_, w)
    | .chain a t ctx v =>
      match nextF a w with
      | none => none
      | some (some y, a', w1) => some (some y, .chain a' t ctx v, w1)
      | some (none, _, w1) =>
        match mkF t ctx v w1 with
        | none => none
        | some (b, w2) => nextF b w2
    | .flat src k cur =>
      match nextF cur w with
      | none => none
      | some (some y, cur', w1) => some (some y, .flat src k cur', w1)
      | some (none, _, w1) =>
        match nextF src w1 with
        | none => none
        | some (none, _, w2) => some (none, .nil, w2)
        | some (some x, src', w2) =>
          match x.val? with
          | some y =>
            match mkF (k.app y).1 (k.app y).2.1 (k.app y).2.2 w2 with
            | none => none
            | some (c, w3) => nextF (.flat src' k c) w3
          | none => some (some x, .flat src' k .nil, w2)
    | .wrap s a =>
      if s.ready then
        match nextF a w with
        | none => none
        | some (none, a', w1) => some (none, .wrap s a', w1)
        | some (some x, a', w1) =>
          match s.step x with
          | .emit x' s' => some (some x', .wrap s' a', w1)
          | .drop s' => nextF (.wrap s' a') w1
          | .stop => some (none, .wrap s a', w1)
          | .handler c ctx e =>
            match mkF c ctx e w1 with
            | none => none
            | some (b, w2) => nextF b w2
      else some (none, .wrap s a, w)

mutual
/-- `Id::run` with fuel `n` (`none` = out of fuel) -/
def mk (D : List T) : Nat → T → Ctx → Val → World → MkRes
  | 0 => fun _ _ _ _ => none
  | n + 1 => mkStep D (mk D n) (next D n)
/-- `Iterator::next` with fuel `n` -/
def next (D : List T) : Nat → It → World → NextRes
  | 0 => fun _ _ => none
  | n + 1 => nextStep (mk D n) (next D n)
end

/-- a consumer of the library iterator that pulls `k` items -/
inductive TakeI (D : List T) : Nat → It → World → List Item → World → Prop where
  | zero {it w} : TakeI D 0 it w [] w
  | done {k n it w it' w'} : next D n it w = some (none, it', w') → TakeI D (k + 1) it w [] w'
  | yield {k n it w x it' w1 xs w2} : next D n it w = some (some x, it', w1) →
      TakeI D k it' w1 xs w2 → TakeI D (k + 1) it w (x :: xs) w2

/-- executable version -/
def takeI (D : List T) (fuel : Nat) : Nat → It → World → Option (List Item × World)
  | 0, _, w => some ([], w)
  | k + 1, it, w =>
    match next D fuel it w with
    | none => none
    | some (none, _, w1) => some ([], w1)
    | some (some x, it', w1) =>
      match takeI D fuel k it' w1 with
      | none => none
      | some (xs, w2) => some (x :: xs, w2)

end Jaq.C03
