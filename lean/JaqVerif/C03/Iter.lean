/-
  C03 — the implementation model: Rust iterators, defunctionalised.
  `It` has one constructor per adapter the interpreter builds; `mk` is `Id::run` (what is built
  for each construct *and what is already evaluated while building*: `next_if_one` when
  `size_hint().1 == Some(1)`, `collect_if_once` for path index filters, the first `next()` of
  the `Alt` arm, `first!`, `input`); `next` is `Iterator::next`; `It.upper` is `size_hint().1`.

    nil      core::iter::empty / exhausted `Once` / `None.into_iter()`
    once x   box_once / `Some(x).into_iter()`
    cons x r `once(head).chain(l)`                                    (Alt arm)
    chain    `l.run(cv).chain(lazy(|| r.run(cv)))`                    (Comma)
    flat     `flat_map_then_with` in its general case (`FlatMap`)     (Pipe, as, if, and/or, Path)
    wrap s a `from_fn` of limit!/skip!, `map_while` of label_run, try_catch_run, `filter`, `map`, `Stack`,
             the loop of `collect()`, the `map` of `cartesian`
    fold     `flat_map_then_with(init, xs, |i, xs| fold(xs, i, …))` over the shared `rc_lazy_list::List`
    inputs   `inputs(cv)` (`Map` over the shared `&RcIter`)
    range    `from_fn` of `range`
-/
import JaqVerif.C03.Defs

namespace Jaq.C03
open Jaq

inductive It where
  | nil
  | once (x : Item)
  | cons (x : Item) (r : It)
  | chain (a : It) (t : T) (ctx : Ctx) (v : Val)
  | flat (src : It) (k : K) (cur : It)
  | wrap (s : Wr) (a : It)
  | inputs
  | range (cur to by_ : Int)
  -- round 2: `fold` (jaq-core/src/fold.rs) under the `flat_map_then_with` over `init`, with the
  -- shared lazily memoised list of `xs` (jaq-core/src/rc_lazy_list.rs).  `cells` are the nodes
  -- forced so far, `src` is the iterator the next node is forced from (`ended`: it returned
  -- `None`, the last node is `Node(None)`), `ini` the iterator of `init`, `stack` the explicit
  -- stack of `fold` for the current output of `init` (`nil` / `fInp` / `fOut`, top first).
  | fold (kind : FoldKind) (upd : T) (ctx : Ctx) (cells : List Item) (src : It) (ended : Bool) (ini : It) (stack : It)
  | fInp (pos : Nat) (y : Val) (rest : It)            -- `(xs, Fold::Input(y))`, `xs` at node `pos`
  | fOut (pos : Nat) (x : Val) (ys : It) (rest : It)  -- `(xs, Fold::Output(x, ys))`
  deriving Repr, Inhabited

/-- upper bound of `size_hint` (`Chain` with a lazy right side, `FlatMap` with a live source,
`from_fn` and `Stack` have none) -/
def It.upper : It → Option Nat
  | .nil => some 0
  | .once _ => some 1
  | .cons _ r => r.upper.map (· + 1)
  | .chain .. => none
  | .flat .. => none
  | .wrap s a => if s.transparent then a.upper else none
  | .inputs => none
  | .range .. => none
  | .fold .. => none
  | .fInp .. => none
  | .fOut .. => none

abbrev MkRes := Option (It × World)
abbrev NextRes := Option (Option Item × It × World)

/-- `flat_map_then_with(l, x, r)` given the freshly built `l = a`: when `a.size_hint().1 ==
Some(1)`, `next_if_one` pulls `a` **now** and the right-hand side is built **now**; otherwise a
`FlatMap` is returned and nothing is pulled.  (`mkF`, `nextF` are `mk`, `next` at the caller's
fuel.)  After `next_if_one` got `None` the code continues with `flat_map` over the exhausted
iterator; the model writes `nil` for it. -/
def mkFlatWith (mkF : T → Ctx → Val → World → MkRes) (nextF : It → World → NextRes)
    (a : It) (k : K) (w : World) : MkRes :=
  if a.upper = some 1 then
    match nextF a w with
    | none => none
    | some (some x, _, w2) =>
      match x.val? with
      | some y => mkF (k.app y).1 (k.app y).2.1 (k.app y).2.2 w2
      | none => some (.once x, w2)                        -- `then`: an exception is passed on
    | some (none, _, w2) => some (.nil, w2)
  else some (.flat a k .nil, w)

/-- `collect_if_once(|| i.run(cv))` given the freshly built iterator `ia` of the index filter:
pulled **now** if its upper bound is 1, else dropped (and the filter is re-run per output of
the head, `Delay`). -/
def collectIfOnce (nextF : It → World → NextRes) (ia : It) (i : T) (ctx : Ctx) (v : Val) (w : World) :
    Option (K × World) :=
  if ia.upper = some 1 then
    match nextF ia w with
    | none => none
    | some (some x, _, w2) => some (.idxL x, w2)
    | some (none, _, w2) => some (.idxR i ctx v, w2)
  else some (.idxR i ctx v, w)

/-- `map_with(xs.run(cv), ctx, |y, ctx| ctx.cons_var(y))` of `run_and_bind`, given the freshly built
iterator `a` of `xs`: `next_if_one` pulls it **now** when its upper bound is 1 (the result is a
`box_once`), otherwise a `Map` (which the model identifies with `a`: the cells of the list hold
the values, the binding happens where `update` is run). -/
def mkMapSrc (nextF : It → World → NextRes) (a : It) (w : World) : MkRes :=
  if a.upper = some 1 then
    match nextF a w with
    | none => none
    | some (some x, _, w2) => some (.once x, w2)
    | some (none, _, w2) => some (.nil, w2)
  else some (a, w)

/-- `map_with(r.run(cv), l, |r, l| (l, r))` of `cartesian` followed by the `map` of `Ast::Math`,
given the freshly built iterator `b` of the right operand -/
def mkMathR (nextF : It → World → NextRes) (op : MathOp) (y : Val) (b : It) (w : World) : MkRes :=
  if b.upper = some 1 then
    match nextF b w with
    | none => none
    | some (some x, _, w2) => some (.once (mathItem op y x), w2)
    | some (none, _, w2) => some (.nil, w2)
  else some (.wrap (.mathL op y) b, w)

/-- `flat_map_then(fold(…), |(ctx, y)| run(proj, (ctx, y)))` around the fold of `foreach` with a
projection (`fold` is a `from_fn`: no upper bound, nothing is pulled) -/
def wrapProj (kind : FoldKind) (p : T) (ctx : Ctx) (it : It) : It :=
  match kind with
  | .foreachP => .flat it (.proj p ctx) .nil
  | _ => it

/-- `flat_map_then_with(init, xs, |i, xs| fold(xs, i, …))` given the freshly built iterator `ib` of
`init`: `next_if_one` pulls it **now** when its upper bound is 1 (the fold for that single output
is the result), otherwise a `FlatMap` over `init` -/
def mkFoldInit (nextF : It → World → NextRes) (kind : FoldKind) (upd p : T) (ctx : Ctx) (src ib : It) (w3 : World) : MkRes :=
  if ib.upper = some 1 then
    match nextF ib w3 with
    | none => none
    | some (some x, _, w4) =>
      match x.val? with
      | some i => some (wrapProj kind p ctx (.fold kind upd ctx [] src false .nil (.fInp 0 i .nil)), w4)
      | none => some (.once x, w4)
    | some (none, _, w4) => some (.nil, w4)
  else some (wrapProj kind p ctx (.fold kind upd ctx [] src false ib .nil), w3)

/-- `Id::run`, one level: build the iterator of `v | t` in context `ctx`; `mkF`/`nextF` are
`mk`/`next` for the sub-terms (with less fuel) -/
def mkStep (D : List T) (mkF : T → Ctx → Val → World → MkRes) (nextF : It → World → NextRes)
    (t : T) (ctx : Ctx) (v : Val) (w : World) : MkRes :=
    match t with
    | .id => some (.once (.ok v), w)
    | .lit c => some (.once (.ok c), w)
    | .empty => some (.nil, w)
    | .error => some (.once (.err v), w)
    | .halt c => some (.once (.halt c), w)
    | .ret x => some (.once x, w)
    | .idxOf y => some (.once (indexVal y v), w)
    | .var i =>
      match lookup ctx i with
      | some x => some (.once x, w)
      | none => some (.nil, w)
    | .fvar i =>                      -- `Bind::Fun((id, vars))`: `id.run((cv.0.with_vars(vars), cv.1))`
      match lookupFn ctx i with
      | some (t, env) => mkF t ⟨env, ctx.labels⟩ v w
      | none => some (.nil, w)
    | .input =>                       -- `inputs(cv).next().into_iter()`: consumed while building
      match w.read with
      | some (x, w1) => some (.once (.ok x), w1)
      | none => some (.nil, w)
    | .inputs => some (.inputs, w)
    | .range a b c => some (.range a b c, w)
    | .comma l r =>
      match mkF l ctx v w with
      | none => none
      | some (a, w1) => some (.chain a r ctx v, w1)
    | .pipe l r =>
      match mkF l ctx v w with
      | none => none
      | some (a, w1) => mkFlatWith mkF nextF a (.pipe r ctx) w1
    | .as_ l r =>
      match mkF l ctx v w with
      | none => none
      | some (a, w1) => mkFlatWith mkF nextF a (.as_ r ctx v) w1
    | .ite c t e =>
      match mkF c ctx v w with
      | none => none
      | some (a, w1) => mkFlatWith mkF nextF a (.ite t e ctx v) w1
    | .logic stop l r =>
      match mkF l ctx v w with
      | none => none
      | some (a, w1) => mkFlatWith mkF nextF a (.logic stop r ctx v) w1
    | .alt l r =>                     -- the filtered left side is pulled once while building
      match mkF l ctx v w with
      | none => none
      | some (a, w1) =>
        match nextF (.wrap .filt a) w1 with
        | none => none
        | some (some x, rest, w2) => some (.cons x rest, w2)
        | some (none, _, w2) => mkF r ctx v w2
    | .first f =>                     -- `f.run(..).next().into_iter()`
      match mkF f ctx v w with
      | none => none
      | some (a, w1) =>
        match nextF a w1 with
        | none => none
        | some (some x, _, w2) => some (.once x, w2)
        | some (none, _, w2) => some (.nil, w2)
    | .limit 0 _ => some (.nil, w)    -- `n <= 0`: `f` is not even built
    | .limit (k + 1) f =>
      match mkF f ctx v w with
      | none => none
      | some (a, w1) => some (.wrap (.limit (k + 1)) a, w1)
    | .skip 0 f => mkF f ctx v w
    | .skip (k + 1) f =>
      match mkF f ctx v w with
      | none => none
      | some (a, w1) => some (.wrap (.skip (k + 1)) a, w1)
    | .tryCatch f c =>
      match mkF f ctx v w with
      | none => none
      | some (a, w1) => some (.wrap (.try_ c ctx) a, w1)
    | .label f =>
      match mkF f ctx.consLabel v w with
      | none => none
      | some (a, w1) => some (.wrap (.label (ctx.labels + 1)) a, w1)
    | .toBool f =>
      match mkF f ctx v w with
      | none => none
      | some (a, w1) => some (.wrap .toBool a, w1)
    | .call i =>
      match D[i]? with
      | some body =>
        match mkF body ctx.forDef v w with
        | none => none
        | some (a, w1) => some (.wrap .stack a, w1)
      | none => some (.nil, w)
    | .tcall i =>                     -- `Throw`: nothing is built until the trampoline pulls
      some (.chain .nil (.call i) ctx v, w)
    | .callA ty i skip args =>        -- `bind_vars` is a `box_once`: `flat_map_then` builds the body **now**
      match callCtx ctx skip args v with
      | none => some (.nil, w)
      | some c' =>
        match D[i]? with
        | some body =>
          match mkF body c' v w with
          | none => none
          | some (a, w1) =>
            match ty with
            | .inline => some (a, w1)
            | .catch_ => some (.wrap .stack a, w1)
        | none => some (.nil, w)
    | .tcallA i skip args =>          -- `Throw`: the arguments are bound now, the body is built by the trampoline
      match callCtx ctx skip args v with
      | none => some (.nil, w)
      | some c' => some (.chain .nil (.callA .inline i 0 []) c' v, w)
    | .arr f =>                       -- `box_once(f.run(cv).collect())`: all of `f` is run **now**
      match mkF f ctx v w with
      | none => none
      | some (a, w1) =>
        match nextF (.wrap (.collect []) a) w1 with
        | none => none
        | some (some x, _, w2) => some (.once x, w2)
        | some (none, _, w2) => some (.nil, w2)
    | .math op l r =>                 -- `cartesian(l, r, cv)`: the left operand is the outer loop
      match mkF l ctx v w with
      | none => none
      | some (a, w1) => mkFlatWith mkF nextF a (.math op r ctx v) w1
    | .mathR op y r =>
      match mkF r ctx v w with
      | none => none
      | some (b, w1) => mkMathR nextF op y b w1
    | .fold kind xs init upd p =>     -- `xs` is built first, then `init`; the list is not forced
      match mkF xs ctx v w with
      | none => none
      | some (a, w1) =>
        match mkMapSrc nextF a w1 with
        | none => none
        | some (src, w2) =>
          match mkF init ctx v w2 with
          | none => none
          | some (ib, w3) =>
            mkFoldInit nextF kind upd p ctx src ib w3
    | .index f i =>                   -- index filter first (`collect_if_once`), then the head
      match mkF i ctx v w with
      | none => none
      | some (ia, w1) =>
        match collectIfOnce nextF ia i ctx v w1 with
        | none => none
        | some (k, w2) =>
          match mkF f ctx v w2 with
          | none => none
          | some (a, w3) => mkFlatWith mkF nextF a k w3

/-- `xs.next()` returned `None`: `outer(y)` (`reduce` delivers the state, `foreach` nothing) -/
def foldEnd (nextF : It → World → NextRes) (kind : FoldKind) (upd : T) (ctx : Ctx) (cells : List Item) (src : It)
    (ended : Bool) (ini : It) (y : Val) (rest : It) (w : World) : NextRes :=
  match kind with
  | .reduce => some (some (.ok y), .fold kind upd ctx cells src ended ini rest, w)
  | _ => nextF (.fold kind upd ctx cells src ended ini rest) w

/-- `xs.next()` returned the node `cell` (the list pointer moves on to `pos + 1`): an element
starts `update` (**built now**: `f(x, y)`), an exception is delivered and the branch ends -/
def foldCell (mkF : T → Ctx → Val → World → MkRes) (nextF : It → World → NextRes) (kind : FoldKind) (upd : T)
    (ctx : Ctx) (cells : List Item) (src : It) (ended : Bool) (ini : It) (pos : Nat) (y : Val) (rest : It)
    (cell : Item) (w : World) : NextRes :=
  match cell.val? with
  | some x =>
    match mkF upd (ctx.consVar x) y w with
    | none => none
    | some (ys, w2) => nextF (.fold kind upd ctx cells src ended ini (.fOut (pos + 1) x ys rest)) w2
  | none => some (some cell, .fold kind upd ctx cells src ended ini rest, w)

/-- an output `yi` of `update` for the element `x`: it becomes the next state (`Input(y)` is
pushed); `foreach` delivers it (`inner`), `reduce` goes on; an exception is delivered -/
def foldOut (nextF : It → World → NextRes) (kind : FoldKind) (upd : T) (ctx : Ctx) (cells : List Item) (src : It)
    (ended : Bool) (ini : It) (pos : Nat) (x : Val) (yi : Item) (rest' : It) (w : World) : NextRes :=
  match yi.val? with
  | some yv =>
    match kind with
    | .reduce => nextF (.fold kind upd ctx cells src ended ini (.fInp pos yv rest')) w
    | .foreach => some (some (.ok yv), .fold kind upd ctx cells src ended ini (.fInp pos yv rest'), w)
    | .foreachP => some (some (.ok (pairVal x yv)), .fold kind upd ctx cells src ended ini (.fInp pos yv rest'), w)
  | none => some (some yi, .fold kind upd ctx cells src ended ini rest', w)

/-- `Iterator::next`, one level -/
def nextStep (mkF : T → Ctx → Val → World → MkRes) (nextF : It → World → NextRes)
    (it : It) (w : World) : NextRes :=
    match it with
    | .nil => some (none, .nil, w)
    | .once x => some (some x, .nil, w)
    | .cons x r => some (some x, r, w)
    | .inputs =>
      match w.read with
      | some (x, w1) => some (some (.ok x), .inputs, w1)
      | none => some (none, .inputs, w)
    | .range cur to by_ =>
      if rangeGo cur to by_ then some (some (.ok (intVal cur)), .range (cur + by_) to by_, w)
      else some (none, .range cur to by_, w)
    | .chain a t ctx v =>
      match nextF a w with
      | none => none
      | some (some y, a', w1) => some (some y, .chain a' t ctx v, w1)
      | some (none, _, w1) =>
        match mkF t ctx v w1 with
        | none => none
        | some (b, w2) => nextF b w2
    | .flat src k cur =>
      match nextF cur w with
      | none => none
      | some (some y, cur', w1) => some (some y, .flat src k cur', w1)
      | some (none, _, w1) =>
        match nextF src w1 with
        | none => none
        | some (none, _, w2) => some (none, .nil, w2)
        | some (some x, src', w2) =>
          match x.val? with
          | some y =>
            match mkF (k.app y).1 (k.app y).2.1 (k.app y).2.2 w2 with
            | none => none
            | some (c, w3) => nextF (.flat src' k c) w3
          | none => some (some x, .flat src' k .nil, w2)
    | .wrap s a =>
      if s.ready then
        match nextF a w with
        | none => none
        | some (none, a', w1) =>
          match s.atEnd with
          | none => some (none, .wrap s a', w1)
          | some x => some (some x, .nil, w1)
        | some (some x, a', w1) =>
          match s.step x with
          | .emit x' s' => some (some x', .wrap s' a', w1)
          | .drop s' => nextF (.wrap s' a') w1
          | .stop => some (none, .wrap s a', w1)
          | .handler c ctx e =>
            match mkF c ctx e w1 with
            | none => none
            | some (b, w2) => nextF b w2
      else some (none, .wrap s a, w)
    | .fInp .. => none                -- frames are not iterators
    | .fOut .. => none
    | .fold kind upd ctx cells src ended ini stack =>
      match stack with
      | .fInp pos y rest =>           -- `Fold::Input(y)`: `xs.next()` on the lazy list
        match cells[pos]? with
        | some cell => foldCell mkF nextF kind upd ctx cells src ended ini pos y rest cell w
        | none =>
          if ended then foldEnd nextF kind upd ctx cells src ended ini y rest w
          else
            -- `Lazy::force`: the node is forced by exactly one `next()` of the underlying iterator
            match nextF src w with
            | none => none
            | some (none, _, w1) => foldEnd nextF kind upd ctx cells .nil true ini y rest w1
            | some (some x, src', w1) => foldCell mkF nextF kind upd ctx (cells ++ [x]) src' false ini pos y rest x w1
      | .fOut pos x ys rest =>        -- `Fold::Output(x, ys)`
        match nextF ys w with
        | none => none
        | some (none, _, w1) => nextF (.fold kind upd ctx cells src ended ini rest) w1
        | some (some yi, ys', w1) =>
          -- "do not grow the stack if the output is empty"
          foldOut nextF kind upd ctx cells src ended ini pos x yi (if ys'.upper = some 0 then rest else .fOut pos x ys' rest) w1
      | _ =>                          -- the fold of the current output of `init` is over: `FlatMap` pulls `init`
        match nextF ini w with
        | none => none
        | some (none, _, w1) => some (none, .nil, w1)
        | some (some x, ini', w1) =>
          match x.val? with
          | some i => nextF (.fold kind upd ctx cells src ended ini' (.fInp 0 i .nil)) w1
          | none => some (some x, .fold kind upd ctx cells src ended ini' .nil, w1)

mutual
/-- `Id::run` with fuel `n` (`none` = out of fuel) -/
def mk (D : List T) : Nat → T → Ctx → Val → World → MkRes
  | 0 => fun _ _ _ _ => none
  | n + 1 => mkStep D (mk D n) (next D n)
/-- `Iterator::next` with fuel `n` -/
def next (D : List T) : Nat → It → World → NextRes
  | 0 => fun _ _ => none
  | n + 1 => nextStep (mk D n) (next D n)
end

/-- a consumer of the library iterator that pulls `k` items -/
inductive TakeI (D : List T) : Nat → It → World → List Item → World → Prop where
  | zero {it w} : TakeI D 0 it w [] w
  | done {k n it w it' w'} : next D n it w = some (none, it', w') → TakeI D (k + 1) it w [] w'
  | yield {k n it w x it' w1 xs w2} : next D n it w = some (some x, it', w1) →
      TakeI D k it' w1 xs w2 → TakeI D (k + 1) it w (x :: xs) w2

/-- executable version -/
def takeI (D : List T) (fuel : Nat) : Nat → It → World → Option (List Item × World)
  | 0, _, w => some ([], w)
  | k + 1, it, w =>
    match next D fuel it w with
    | none => none
    | some (none, _, w1) => some ([], w1)
    | some (some x, it', w1) =>
      match takeI D fuel k it' w1 with
      | none => none
      | some (xs, w2) => some (x :: xs, w2)

end Jaq.C03
