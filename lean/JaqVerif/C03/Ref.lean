/-
  C03 — the reference: a residual-stream semantics in the manual's left-to-right order.
  A thunk `Th` is a stream that has not been looked at; `force` evaluates exactly as much as
  is needed to learn whether there is a next item.  *Nothing* happens when a thunk is built:
  no fast path, no look-ahead, the right operand of `,` and the outputs after the one a
  prefix consumer needs are never touched.
-/
import JaqVerif.C03.Defs

namespace Jaq.C03
open Jaq

/-- residual streams -/
inductive Th where
  | nil
  | ret (x : Item)
  | run (t : T) (ctx : Ctx) (v : Val)            -- `v | t` in context `ctx`, not started
  | app (a b : Th)                                -- first `a`, then `b`
  | bind (a : Th) (k : K)                         -- for every output `y` of `a`: the stream `k y`
  | wrapC (s : Wr) (a : Th)                       -- `limit`, `skip`, `label`, `try`, filter, map
  | orElse (a : Th) (r : T) (ctx : Ctx) (v : Val) -- `a` if it has an item, else `r`
  | one (a : Th)                                  -- `first`
  | inputs
  | range (cur to by_ : Int)
  -- round 2: `reduce`/`foreach` over the stream `src` of `xs`, which is evaluated once, on
  -- demand, one element at a time (`cells`: the elements seen so far; `ended`: `src` is over),
  -- for every output of `ini`; `stack` is the agenda of the depth-first traversal (top first):
  -- `fInp pos y rest`: go on with element number `pos` from the state `y`,
  -- `fOut pos x ys rest`: the remaining outputs `ys` of `update` for element number `pos - 1` (= `x`)
  | fold (kind : FoldKind) (upd : T) (ctx : Ctx) (cells : List Item) (src : Th) (ended : Bool) (ini : Th) (stack : Th)
  | fInp (pos : Nat) (y : Val) (rest : Th)
  | fOut (pos : Nat) (x : Val) (ys : Th) (rest : Th)
  deriving Repr, Inhabited

/-- the stream of the continuation `k` for an output `y` of the left-hand side -/
def K.th (k : K) (y : Val) : Th := .run (k.app y).1 (k.app y).2.1 (k.app y).2.2

inductive Step where
  | done
  | yield (x : Item) (rest : Th)
  deriving Repr, Inhabited

abbrev ForceRes := Option (Step × World)

/-- the source of `xs` is over: `reduce` delivers the state, `foreach` nothing -/
def foldEndS (rec : Th → World → ForceRes) (kind : FoldKind) (upd : T) (ctx : Ctx) (cells : List Item) (src : Th)
    (ended : Bool) (ini : Th) (y : Val) (rest : Th) (w : World) : ForceRes :=
  match kind with
  | .reduce => some (.yield (.ok y) (.fold kind upd ctx cells src ended ini rest), w)
  | _ => rec (.fold kind upd ctx cells src ended ini rest) w

/-- element number `pos` of `xs` is `cell`: `x as $x | update` on the state `y` (not started),
or the exception -/
def foldCellS (rec : Th → World → ForceRes) (kind : FoldKind) (upd : T) (ctx : Ctx) (cells : List Item) (src : Th)
    (ended : Bool) (ini : Th) (pos : Nat) (y : Val) (rest : Th) (cell : Item) (w : World) : ForceRes :=
  match cell.val? with
  | some x => rec (.fold kind upd ctx cells src ended ini (.fOut (pos + 1) x (.run upd (ctx.consVar x) y) rest)) w
  | none => some (.yield cell (.fold kind upd ctx cells src ended ini rest), w)

/-- an output `yi` of `update`: the next state; `foreach` delivers it before going on -/
def foldOutS (rec : Th → World → ForceRes) (kind : FoldKind) (upd : T) (ctx : Ctx) (cells : List Item) (src : Th)
    (ended : Bool) (ini : Th) (pos : Nat) (x : Val) (yi : Item) (rest' : Th) (w : World) : ForceRes :=
  match yi.val? with
  | some yv =>
    match kind with
    | .reduce => rec (.fold kind upd ctx cells src ended ini (.fInp pos yv rest')) w
    | .foreach => some (.yield (.ok yv) (.fold kind upd ctx cells src ended ini (.fInp pos yv rest')), w)
    | .foreachP => some (.yield (.ok (pairVal x yv)) (.fold kind upd ctx cells src ended ini (.fInp pos yv rest')), w)
  | none => some (.yield yi (.fold kind upd ctx cells src ended ini rest'), w)

/-- one unfolding of the reference semantics; `rec` evaluates sub-streams (with less fuel) -/
def forceStep (D : List T) (rec : Th → World → ForceRes) (th : Th) (w : World) : ForceRes :=
    match th with
    | .nil => some (.done, w)
    | .ret x => some (.yield x .nil, w)
    | .inputs =>
      match w.read with
      | some (x, w1) => some (.yield (.ok x) .inputs, w1)
      | none => some (.done, w)
    | .range cur to by_ =>
      if rangeGo cur to by_ then some (.yield (.ok (intVal cur)) (.range (cur + by_) to by_), w)
      else some (.done, w)
    | .run t ctx v =>
      match t with
      | .id => some (.yield (.ok v) .nil, w)
      | .lit c => some (.yield (.ok c) .nil, w)
      | .empty => some (.done, w)
      | .error => some (.yield (.err v) .nil, w)
      | .halt c => some (.yield (.halt c) .nil, w)
      | .ret x => some (.yield x .nil, w)
      | .idxOf y => some (.yield (indexVal y v) .nil, w)
      | .var i =>
        match lookup ctx i with
        | some x => some (.yield x .nil, w)
        | none => some (.done, w)
      | .fvar i =>                    -- a filter argument: its body in the context it was passed in
        match lookupFn ctx i with
        | some (t, env) => rec (.run t ⟨env, ctx.labels⟩ v) w
        | none => some (.done, w)
      | .input =>
        match w.read with
        | some (x, w1) => some (.yield (.ok x) .nil, w1)
        | none => some (.done, w)
      | .inputs => rec .inputs w
      | .range a b c => rec (.range a b c) w
      | .comma l r => rec (.app (.run l ctx v) (.run r ctx v)) w
      | .pipe l r => rec (.bind (.run l ctx v) (.pipe r ctx)) w
      | .as_ l r => rec (.bind (.run l ctx v) (.as_ r ctx v)) w
      | .ite c t e => rec (.bind (.run c ctx v) (.ite t e ctx v)) w
      | .logic stop l r => rec (.bind (.run l ctx v) (.logic stop r ctx v)) w
      | .alt l r => rec (.orElse (.wrapC .filt (.run l ctx v)) r ctx v) w
      | .first f => rec (.one (.run f ctx v)) w
      | .limit 0 _ => some (.done, w)
      | .limit (k + 1) f => rec (.wrapC (.limit (k + 1)) (.run f ctx v)) w
      | .skip 0 f => rec (.run f ctx v) w
      | .skip (k + 1) f => rec (.wrapC (.skip (k + 1)) (.run f ctx v)) w
      | .tryCatch f c => rec (.wrapC (.try_ c ctx) (.run f ctx v)) w
      | .label f => rec (.wrapC (.label (ctx.labels + 1)) (.run f ctx.consLabel v)) w
      | .toBool f => rec (.wrapC .toBool (.run f ctx v)) w
      | .call i =>
        match D[i]? with
        | some body => rec (.wrapC .stack (.run body ctx.forDef v)) w
        | none => some (.done, w)
      | .tcall i => rec (.app .nil (.run (.call i) ctx v)) w
      | .index f i => rec (.bind (.run f ctx v) (.idxR i ctx v)) w
      | .callA ty i skip args =>
        match callCtx ctx skip args v with
        | none => some (.done, w)
        | some c' =>
          match D[i]? with
          | some body =>
            match ty with
            | .inline => rec (.run body c' v) w
            | .catch_ => rec (.wrapC .stack (.run body c' v)) w
          | none => some (.done, w)
      | .tcallA i skip args =>
        match callCtx ctx skip args v with
        | none => some (.done, w)
        | some c' => rec (.app .nil (.run (.callA .inline i 0 []) c' v)) w
      | .arr f => rec (.one (.wrapC (.collect []) (.run f ctx v))) w
      | .math op l r => rec (.bind (.run l ctx v) (.math op r ctx v)) w    -- `l as $x | r as $y | $x op $y`
      | .mathR op y r => rec (.wrapC (.mathL op y) (.run r ctx v)) w
      | .fold kind xs init upd p =>
        match kind with
        | .foreachP => rec (.bind (.fold kind upd ctx [] (.run xs ctx v) false (.run init ctx v) .nil) (.proj p ctx)) w
        | _ => rec (.fold kind upd ctx [] (.run xs ctx v) false (.run init ctx v) .nil) w
    | .app a b =>
      match rec a w with
      | none => none
      | some (.done, w1) => rec b w1
      | some (.yield x a', w1) => some (.yield x (.app a' b), w1)
    | .bind a k =>
      match rec a w with
      | none => none
      | some (.done, w1) => some (.done, w1)
      | some (.yield x a', w1) =>
        match x.val? with
        | some y => rec (.app (k.th y) (.bind a' k)) w1
        | none => some (.yield x (.bind a' k), w1)       -- an exception is passed on (`then`)
    | .one a =>
      match rec a w with
      | none => none
      | some (.done, w1) => some (.done, w1)
      | some (.yield x _, w1) => some (.yield x .nil, w1)
    | .orElse a r ctx v =>
      match rec a w with
      | none => none
      | some (.done, w1) => rec (.run r ctx v) w1
      | some (.yield x a', w1) => some (.yield x a', w1)
    | .wrapC s a =>
      if s.ready then
        match rec a w with
        | none => none
        | some (.done, w1) =>
          match s.atEnd with
          | none => some (.done, w1)
          | some x => some (.yield x .nil, w1)
        | some (.yield x a', w1) =>
          match s.step x with
          | .emit x' s' => some (.yield x' (.wrapC s' a'), w1)
          | .drop s' => rec (.wrapC s' a') w1
          | .stop => some (.done, w1)
          | .handler c ctx e => rec (.run c ctx e) w1
      else some (.done, w)
    | .fInp .. => none                -- agenda entries are not streams
    | .fOut .. => none
    | .fold kind upd ctx cells src ended ini stack =>
      match stack with
      | .fInp pos y rest =>
        match cells[pos]? with
        | some cell => foldCellS rec kind upd ctx cells src ended ini pos y rest cell w
        | none =>
          if ended then foldEndS rec kind upd ctx cells src ended ini y rest w
          else
            match rec src w with
            | none => none
            | some (.done, w1) => foldEndS rec kind upd ctx cells .nil true ini y rest w1
            | some (.yield x src', w1) => foldCellS rec kind upd ctx (cells ++ [x]) src' false ini pos y rest x w1
      | .fOut pos x ys rest =>
        match rec ys w with
        | none => none
        | some (.done, w1) => rec (.fold kind upd ctx cells src ended ini rest) w1
        | some (.yield yi ys', w1) => foldOutS rec kind upd ctx cells src ended ini pos x yi (.fOut pos x ys' rest) w1
      | _ =>                          -- next output of `init`
        match rec ini w with
        | none => none
        | some (.done, w1) => some (.done, w1)
        | some (.yield x ini', w1) =>
          match x.val? with
          | some i => rec (.fold kind upd ctx cells src ended ini' (.fInp 0 i .nil)) w1
          | none => some (.yield x (.fold kind upd ctx cells src ended ini' .nil), w1)


/-- `force D n th w`: with fuel `n`, the next item of `th` in world `w` (and the world after);
`none` = out of fuel. -/
def force (D : List T) : Nat → Th → World → ForceRes
  | 0 => fun _ _ => none
  | n + 1 => forceStep D (force D n)

/-- the reference consumer of `k` items: which items it gets, in which world it stops -/
inductive TakeS (D : List T) : Nat → Th → World → List Item → World → Prop where
  | zero {th w} : TakeS D 0 th w [] w
  | done {k n th w w'} : force D n th w = some (.done, w') → TakeS D (k + 1) th w [] w'
  | yield {k n th w x th' w1 xs w2} : force D n th w = some (.yield x th', w1) →
      TakeS D k th' w1 xs w2 → TakeS D (k + 1) th w (x :: xs) w2

/-- executable version (for the driver and smoke tests): `none` = fuel exhausted -/
def takeS (D : List T) (fuel : Nat) : Nat → Th → World → Option (List Item × World)
  | 0, _, w => some ([], w)
  | k + 1, th, w =>
    match force D fuel th w with
    | none => none
    | some (.done, w1) => some ([], w1)
    | some (.yield x th', w1) =>
      match takeS D fuel k th' w1 with
      | none => none
      | some (xs, w2) => some (x :: xs, w2)

end Jaq.C03
