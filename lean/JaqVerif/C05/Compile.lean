/-
  C05 (round 2) — jaq-core/src/compile.rs: the real binder structure of `Compiler::term`:
  `Locals { funs: MapVec<(S, Arity), (Fun<S>, usize)>, vars: MapVecLen<Bind<S>> }` with
  `push_sibling/pop_sibling`, `push_parent/pop_parent`, `push_arg/pop_arg`, `with_vars`,
  `with_label`, the `usize` subtractions of `var`, `break_`, `Locals::call` and the assertion of
  `binds`.  Every `assert!`, `assert_eq!`, `panic!()` and `usize` subtraction is `.error .panic`.
-/
import JaqVerif.C05.Kernels

namespace Jaq.C05

/-- key of `locals.vars`: `Bind::Var(x)`, `Bind::Label(x)`, `Bind::Fun(x)` -/
inductive VKey (K : Type) where
  | var (x : K)
  | label (x : K)
  | fn (x : K)
  deriving DecidableEq

/-- argument of a definition: `bind_from(a, a)`; `true` = `Arg::Var` (name starts with `$`) -/
abbrev DArg (K : Type) := Bool × K

/-- `Fun<S>` (without term ids and `Tr`, which no assertion looks at) -/
inductive FunE (K : Type) where
  | arg
  | parent (args : List (DArg K))
  | sibling (args : List (DArg K))

/-- `Locals<S>` -/
structure Locals (K : Type) where
  vars : Scopes (VKey K)
  funs : K × Nat → List (FunE K × Nat)

variable {K : Type} [DecidableEq K]

def Locals.empty : Locals K := ⟨Scopes.empty, fun _ => []⟩

/-- `MapVec::push` on `funs` -/
def fpush (f : K × Nat → List (FunE K × Nat)) (k : K × Nat) (e : FunE K × Nat) : K × Nat → List (FunE K × Nat) :=
  fun x => if x = k then e :: f x else f x

/-- `funs` after `MapVec::pop` of key `k` left `rest` -/
def fset (f : K × Nat → List (FunE K × Nat)) (k : K × Nat) (rest : List (FunE K × Nat)) : K × Nat → List (FunE K × Nat) :=
  fun x => if x = k then rest else f x

/-- `self.vars.push(key)` -/
def Locals.pushVar (s : Locals K) (k : VKey K) : Locals K := ⟨s.vars.push k, s.funs⟩

/-- `self.vars.pop(&key)` -/
def Locals.popVar (s : Locals K) (k : VKey K) : P (Locals K) :=
  match s.vars.pop k with
  | .ok v => .ok ⟨v, s.funs⟩
  | .error e => .error e

/-- `push_arg`: `self.vars.push(Bind::Fun(name)); self.funs.push((name, 0), (Fun::Arg, self.vars.total))` -/
def Locals.pushArg (s : Locals K) (f : K) : Locals K :=
  let v := s.vars.push (.fn f)
  ⟨v, fpush s.funs (f, 0) (.arg, v.total)⟩

/-- `pop_arg`: `match self.funs.pop(&(name, 0)) { Some((Fun::Arg, vars)) => vars, _ => panic!() };
assert_eq!(self.vars.total, vars); self.vars.pop(&Bind::Fun(name))` -/
def Locals.popArg (s : Locals K) (f : K) : P (Locals K) :=
  match s.funs (f, 0) with
  | (.arg, vars) :: rest =>
    if s.vars.total = vars then (⟨s.vars, fset s.funs (f, 0) rest⟩ : Locals K).popVar (.fn f)
    else .error .panic
  | _ => .error .panic

/-- one argument in `push_parent`: `Arg::Var(v) => self.vars.push(Bind::Var(*v)), Arg::Fun(f) => self.push_arg(*f)` -/
def Locals.pushDArg (s : Locals K) (a : DArg K) : Locals K :=
  if a.1 then s.pushVar (.var a.2) else s.pushArg a.2

/-- one argument in `pop_parent` -/
def Locals.popDArg (s : Locals K) (a : DArg K) : P (Locals K) :=
  if a.1 then s.popVar (.var a.2) else s.popArg a.2

/-- `for arg in args.iter()` -/
def Locals.pushDArgs (s : Locals K) : List (DArg K) → Locals K
  | [] => s
  | a :: as => (s.pushDArg a).pushDArgs as

/-- `for arg in args.iter().rev()` -/
def Locals.popDArgsRev (s : Locals K) : List (DArg K) → P (Locals K)
  | [] => .ok s
  | a :: as =>
    match s.popDArgsRev as with
    | .error e => .error e
    | .ok s' => s'.popDArg a

/-- `push_parent(name, args, id)` -/
def Locals.pushParent (s : Locals K) (name : K) (args : List (DArg K)) : Locals K :=
  let vars := s.vars.total
  let s1 := s.pushDArgs args
  ⟨s1.vars, fpush s1.funs (name, args.length) (.parent args, vars)⟩

/-- `pop_parent(name, arity)` -/
def Locals.popParent (s : Locals K) (name : K) (arity : Nat) : P (Locals K) :=
  match s.funs (name, arity) with
  | (.parent args, vars) :: rest =>
    match (⟨s.vars, fset s.funs (name, arity) rest⟩ : Locals K).popDArgsRev args with
    | .error e => .error e
    | .ok s2 => if s2.vars.total = vars then .ok s2 else .error .panic
  | _ => .error .panic

/-- `push_sibling(name, args, id, tr)` -/
def Locals.pushSibling (s : Locals K) (name : K) (args : List (DArg K)) : Locals K :=
  ⟨s.vars, fpush s.funs (name, args.length) (.sibling args, s.vars.total)⟩

/-- `pop_sibling(name, arity)` -/
def Locals.popSibling (s : Locals K) (name : K) (arity : Nat) : P (Locals K) :=
  match s.funs (name, arity) with
  | (.sibling _, vars) :: rest =>
    if s.vars.total = vars then .ok ⟨s.vars, fset s.funs (name, arity) rest⟩ else .error .panic
  | _ => .error .panic

/-- `with_vars`: push all -/
def Locals.pushVars (s : Locals K) : List K → Locals K
  | [] => s
  | x :: xs => (s.pushVar (.var x)).pushVars xs

/-- `with_vars`: pop in reverse -/
def Locals.popVarsRev (s : Locals K) : List K → P (Locals K)
  | [] => .ok s
  | x :: xs =>
    match s.popVarsRev xs with
    | .error e => .error e
    | .ok s' => s'.popVar (.var x)

/-- `var(x)` / `break_(x)`: `Term::Var(i - v)` for the innermost binding `v` of the key, else the
look-up continues in the imported and global variables (additions only) or fails with an error -/
def Locals.lookupVar (s : Locals K) (k : VKey K) : P (Option Nat) :=
  match s.vars.bound k with
  | v :: _ =>
    match usub s.vars.total v with
    | .ok d => .ok (some d)
    | .error e => .error e
  | [] => .ok none

/-- `binds(binds, args)`: `assert!(binds.len() == args.len())` -/
def bindsAssert (stored given : Nat) : P Unit := if stored = given then .ok () else .error .panic

/-- `Locals::call(name, args, tr)`: `self.funs.get_last(&(name, args.len()))`, then
`self.vars.total - *vars` and, for definitions, `binds(args_, args)` -/
def Locals.call (s : Locals K) (name : K) (arity : Nat) : P (Option Nat) :=
  match s.funs (name, arity) with
  | [] => .ok none
  | (.arg, vars) :: _ =>
    match usub s.vars.total vars with
    | .ok d => .ok (some d)
    | .error e => .error e
  | (.parent args, vars) :: _ | (.sibling args, vars) :: _ =>
    match usub s.vars.total vars with
    | .error e => .error e
    | .ok d =>
      match bindsAssert args.length arity with
      | .error e => .error e
      | .ok _ => .ok (some d)

/-- terms as `Compiler::term` walks them -/
inductive CTm (K : Type) where
  /-- `.`, `..`, numbers, strings without interpolation -/
  | leaf
  /-- `$x` -/
  | var (x : K)
  /-- `break $x` -/
  | brk (x : K)
  /-- `name(args…)` with `arity` arguments: the arguments (`args`, a `node` chain) are compiled
  first (`iterm`), then the name is resolved -/
  | call (name : K) (arity : Nat) (args : CTm K)
  /-- any node with sub-terms compiled one after the other in the same scope -/
  | node (l r : CTm K)
  /-- `label $x | t` -/
  | label (x : K) (t : CTm K)
  /-- `l as $pattern | r` (and, through `CTm.fold`, `reduce`/`foreach`): `l`, then
  `with_vars(pattern.vars(), r)`, then `self.pattern(pat)` compiles the object keys `keys` of the
  pattern OUTSIDE the scope of its variables -/
  | bind (l : CTm K) (vars : List K) (r : CTm K) (keys : CTm K)
  /-- `def name(args): body; rest` — `open_def` (`def`: `push_parent`, body, `pop_parent`; then
  `push_sibling`), the rest (further definitions or the body of `Def(defs, t)` / nothing for a
  module), `close_def` (`pop_sibling`) -/
  | defn (name : K) (args : List (DArg K)) (body rest : CTm K)

/-- `reduce/foreach xs as $pattern (init; update; proj)`: `xs`, pattern keys, `init`,
`with_vars(vars, update)`, `with_vars(vars, proj)` -/
def CTm.fold (xs keys init : CTm K) (vars : List K) (update proj : CTm K) : CTm K :=
  .node xs (.node keys (.node init (.node (.bind .leaf vars update .leaf) (.bind .leaf vars proj .leaf))))

/-- the effect of `Compiler::term` on `self.locals` -/
def cwalk : CTm K → Locals K → P (Locals K)
  | .leaf, s => .ok s
  | .var x, s =>
    match s.lookupVar (.var x) with
    | .ok _ => .ok s
    | .error e => .error e
  | .brk x, s =>
    match s.lookupVar (.label x) with
    | .ok _ => .ok s
    | .error e => .error e
  | .call name arity args, s =>
    match cwalk args s with
    | .error e => .error e
    | .ok s1 =>
      match s1.call name arity with
      | .ok _ => .ok s1
      | .error e => .error e
  | .node l r, s =>
    match cwalk l s with
    | .error e => .error e
    | .ok s1 => cwalk r s1
  | .label x t, s =>
    match cwalk t (s.pushVar (.label x)) with
    | .error e => .error e
    | .ok s1 => s1.popVar (.label x)
  | .bind l vars r keys, s =>
    match cwalk l s with
    | .error e => .error e
    | .ok s1 =>
      match cwalk r (s1.pushVars vars) with
      | .error e => .error e
      | .ok s2 =>
        match s2.popVarsRev vars with
        | .error e => .error e
        | .ok s3 => cwalk keys s3
  | .defn name args body rest, s =>
    match cwalk body (s.pushParent name args) with
    | .error e => .error e
    | .ok s1 =>
      match s1.popParent name args.length with
      | .error e => .error e
      | .ok s2 =>
        match cwalk rest (s2.pushSibling name args) with
        | .error e => .error e
        | .ok s3 => s3.popSibling name args.length

/-- the invariant of `Locals` that the subtractions and `binds` rely on: every recorded `total` is
at most the current one, and a definition is filed under its own arity -/
structure Locals.Inv (s : Locals K) : Prop where
  bound_le : ∀ k v, v ∈ s.vars.bound k → v ≤ s.vars.total
  funs_le : ∀ key e v, (e, v) ∈ s.funs key → v ≤ s.vars.total
  arity_parent : ∀ key args v, (FunE.parent args, v) ∈ s.funs key → args.length = key.2
  arity_sibling : ∀ key args v, (FunE.sibling args, v) ∈ s.funs key → args.length = key.2

/-- `close_module`: `assert!(self.locals.is_empty())` -/
def Locals.isEmpty (s : Locals K) : Prop := (∀ k, s.vars.bound k = []) ∧ s.vars.total = 0 ∧ ∀ k, s.funs k = []

end Jaq.C05
