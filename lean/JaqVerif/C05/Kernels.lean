/-
  C05 — impl-models of jaq's own arithmetic / cast / slice / unwrap kernels with Rust's CHECKED
  semantics: every operation that panics in a build with overflow checks and debug assertions
  (integer overflow, `a - b` with `b > a` on `usize`, slice bounds, `unwrap` on `None`,
  `assert!`) returns `.error .panic`.  Each function follows one Rust function; the comment
  names it.  Files: jaq-json/src/{lib,num}.rs, jaq-std/src/lib.rs, jaq-fmts/src/read/cbor.rs,
  jaq-core/src/load/lex.rs, jaq-core/src/compile.rs.
-/
import JaqVerif.Val.Num

namespace Jaq.C05

inductive Panic where
  | panic
  deriving DecidableEq, Repr

/-- result of a computation that may panic -/
abbrev P := Except Panic

def U64MAX : Nat := 18446744073709551615
def IMAX : Int := 9223372036854775807
def IMIN : Int := -9223372036854775808

/-- `a - b` on `usize` (panics on underflow) -/
def usub (a b : Nat) : P Nat := if b ≤ a then .ok (a - b) else .error .panic
/-- `a + b` on `usize` (panics on overflow) -/
def uadd (a b : Nat) : P Nat := if a + b ≤ U64MAX then .ok (a + b) else .error .panic
/-- `-i` on `isize` (panics for `isize::MIN`) -/
def ineg (i : Int) : P Int := if i = IMIN then .error .panic else .ok (-i)
/-- slice / range bounds check `&b[lo..hi]` on a buffer of length `len` -/
def slice (len lo hi : Nat) : P Unit := if lo ≤ hi ∧ hi ≤ len then .ok () else .error .panic

/-! ## jaq-json/src/num.rs, lib.rs: positions -/

/-- `PosUsize(nonneg, magnitude)` -/
abbrev PosUsize := Bool × Nat

/-- `Num::as_pos_usize` (jaq-json/src/num.rs; since "clip slice bounds beyond usize::MAX": the
magnitude of a big integer saturates at `usize::MAX` instead of being rejected) -/
def asPosUsize : Num → Option PosUsize
  | .int i => some (decide (i ≥ 0), i.natAbs)
  | .big i => some (!(decide (i < 0)), min i.natAbs U64MAX)
  | _ => none

/-- `PosUsize::wrap`: `self.0.then_some(self.1).or_else(|| len.checked_sub(self.1))` -/
def wrap (p : PosUsize) (len : Nat) : Option Nat :=
  if p.1 then some p.2 else (if p.2 ≤ len then some (len - p.2) else none)

/-- `abs_index`: `i.wrap(len).filter(|i| *i < len)` -/
def absIndex (p : PosUsize) (len : Nat) : Option Nat :=
  match wrap p len with
  | some i => if i < len then some i else none
  | none => none

/-- `abs_bound`: `i.map_or(default, |i| min(i.wrap(len).unwrap_or(0), len))` -/
def absBound (p : Option PosUsize) (len dflt : Nat) : Nat :=
  match p with
  | none => dflt
  | some p => min ((wrap p len).getD 0) len

/-- `skip_take`: `(from, upto.saturating_sub(from))` -/
def skipTake (lo hi : Option PosUsize) (len : Nat) : Nat × Nat :=
  let f := absBound lo len 0
  let u := absBound hi len len
  (f, u - f)

/-- `a[i]` after `abs_index` (Index for Val::Arr): `Vec` indexing panics out of bounds -/
def indexAfterAbs (p : PosUsize) (len : Nat) : P (Option Nat) :=
  match absIndex p len with
  | none => .ok none
  | some i => if i < len then .ok (some i) else .error .panic

/-- `b.slice(skip..skip + take)` / `a.splice(skip..skip + take, ..)` in `Val::map_range` -/
def rangeOfSkipTake (len : Nat) (st : Nat × Nat) : P (Nat × Nat) := do
  let hi ← uadd st.1 st.2
  slice len st.1 hi
  pure (st.1, hi)

/-- `skip_take_chars`'s closure `byte_index`; `starts` are the byte offsets of the characters of `b`
(`b.char_indices().map(|(start, ..)| start)`), `len = b.len()` -/
def byteIndex (starts : List Nat) (len : Nat) (p : PosUsize) : P Nat :=
  if p.1 then .ok ((starts[p.2]?).getD len)            -- `chars.nth(c).unwrap_or(b.len())`
  else
    match usub p.2 1 with                                 -- `c - 1`
    | .error e => .error e
    | .ok c1 => .ok ((starts.reverse[c1]?).getD 0)        -- `chars.nth_back(c - 1).unwrap_or(0)`

/-- `range.start.map_or(0, byte_index)` / `range.end.map_or(b.len(), byte_index)` -/
def boundIndex (starts : List Nat) (len dflt : Nat) : Option PosUsize → P Nat
  | none => .ok dflt
  | some p => byteIndex starts len p

/-- `skip_take_chars` -/
def skipTakeChars (starts : List Nat) (len : Nat) (lo hi : Option PosUsize) : P (Nat × Nat) :=
  match boundIndex starts len 0 lo with
  | .error e => .error e
  | .ok f =>
    match boundIndex starts len len hi with
    | .error e => .error e
    | .ok u => .ok (f, u - f)

/-- `bytes_splice(b, skip, take, replace)` on lengths: returns the final length.
`len = b.len()`, `rlen = replace.len()`. -/
def bytesSplice (len skip take rlen : Nat) : P Nat := do
  let t ← usub len take                                   -- `b.len() - take`
  let finalLen ← uadd t rlen                              -- `… + replace.len()`
  let postLo ← uadd skip take                             -- `skip + take..b.len()`
  let cur := if rlen > take then finalLen else len        -- `b.resize(final_len, 0)`
  let dest ← uadd skip rlen                               -- `skip + replace.len()`
  -- `b.copy_within(post_take, dest)`: range in bounds and `dest <= len - count`
  slice cur postLo len
  let count := len - postLo
  if dest + count > cur then throw .panic
  slice cur skip dest                                     -- `b[skip..skip + replace.len()]`
  pure finalLen                                           -- `truncate` never panics

/-- what `bytes_splice` computes, on the bytes -/
def spliceSpec (b : List UInt8) (skip take : Nat) (r : List UInt8) : List UInt8 :=
  b.take skip ++ r ++ b.drop (skip + take)

/-- `bigint_to_int_saturated` -/
def bigintToIntSaturated (i : Int) : Int :=
  if IMIN ≤ i ∧ i ≤ IMAX then i else if i < 0 then IMIN else IMAX

/-! ## jaq-std/src/lib.rs: explode / implode -/

inductive Piece where
  /-- a raw byte (UTF-8 error) -/
  | byte (b : Nat)
  /-- a Unicode scalar value -/
  | char (c : Nat)
  /-- `Err("cannot use … as character")` -/
  | err
  deriving DecidableEq, Repr

/-- `char::from_u32` succeeds -/
def isScalar (c : Int) : Bool := (0 ≤ c && c ≤ 0xD7FF) || (0xE000 ≤ c && c ≤ 0x10FFFF)

/-- body of the loop of `implode` for one element `i : isize` in the tree AS FOUND (before 496d12c):
`if let Ok(b) = u8::try_from(-i) { push b } else { u32::try_from(i).ok().and_then(char::from_u32) … }` -/
def implodeStepAsFound (i : Int) : P Piece := do
  let n ← ineg i
  if 0 ≤ n ∧ n ≤ 255 then pure (.byte n.toNat)
  else if isScalar i then pure (.char i.toNat) else pure .err

/-- body of the loop of `implode` in the CURRENT tree (repaired by 496d12c,
design/fixes/C05-implode-negate-overflow.diff):
`if let Some(b) = i.checked_neg().and_then(|n| u8::try_from(n).ok()) { push b } else { … }` -/
def implodeStep (i : Int) : P Piece :=
  if i ≠ IMIN ∧ 0 ≤ -i ∧ -i ≤ 255 then pure (.byte (-i).toNat)
  else if isScalar i then pure (.char i.toNat) else pure .err

/-- one item of `explode`: `Err(b) => -(b as isize)`, `Ok(c) => isize::try_from(c as u32)` -/
def explodeItem : Piece → P Int
  | .byte b => ineg ((b : Int))
  | .char c => if (c : Int) ≤ IMAX then .ok ((c : Int)) else .error .panic
  | .err => .ok 0

/-! ## jaq-fmts/src/read/cbor.rs -/

/-- `Header::Negative(neg) => neg as i128 ^ !0` (two's complement: `x ^ !0 = -x - 1`) as a checked
`i128` result -/
def cborNegative (neg : Nat) : P Int :=
  let r : Int := -((neg : Int)) - 1
  if -(2 ^ 127 : Int) ≤ r ∧ r ≤ 2 ^ 127 - 1 then .ok r else .error .panic

/-- `with_size`: `Vec::with_capacity(size.min(MAX_CAP))` -/
def withSizeCapacity (size : Nat) : Nat := min size 1024

/-! ## jaq-core/src/load/lex.rs: `space`, `with_consumed` -/

/-- `char::is_whitespace` (Unicode White_Space) -/
def rustWs (c : Char) : Bool :=
  let n := c.toNat
  (9 ≤ n && n ≤ 13) || n == 32 || n == 0x85 || n == 0xA0 || n == 0x1680 || (0x2000 ≤ n && n ≤ 0x200A)
    || n == 0x2028 || n == 0x2029 || n == 0x202F || n == 0x205F || n == 0x3000

/-- The lexer's remaining input `self.i`: a suffix of the filter text, or the string literal `""`
that `space` assigns when a comment reaches the end of input (not a part of the filter text). -/
inductive Rem where
  | suffix (s : List Char)
  | detached
  deriving DecidableEq, Repr

def Rem.chars : Rem → List Char
  | .suffix s => s
  | .detached => []

/-- `s.split_once('\n')` -/
def splitLine : List Char → Option (List Char × List Char)
  | [] => none
  | c :: cs => if c = '\n' then some ([], cs) else
    match splitLine cs with
    | some (b, a) => some (c :: b, a)
    | none => none

/-- number of trailing backslashes is odd (after `strip_suffix('\r')`) -/
def oddBackslashes (before : List Char) : Bool :=
  let b := match before.reverse with
    | '\r' :: r => r
    | r => r
  (b.takeWhile (· = '\\')).length % 2 = 1

/-- inner loop of `space`: skip comment lines; `fixed = true` is the CURRENT tree (repaired by
5b5826b, design/fixes/C05-lexer-comment-at-eof-span.diff: `&self.i[self.i.len()..]`), `fixed = false`
the tree as found (`unwrap_or((self.i, ""))`: the rest becomes the literal `""`) -/
def commentLines (fixed : Bool) : Nat → List Char → Rem
  | 0, s => .suffix s
  | fuel + 1, s =>
    match splitLine s with
    | some (before, after) => if oddBackslashes before then commentLines fixed fuel after else .suffix after
    | none =>
      -- `unwrap_or((self.i, ""))`: the rest is consumed; a second round on the empty rest ends the loop
      if fixed then .suffix [] else .detached

/-- `Lexer::space` -/
def space (fixed : Bool) : Nat → List Char → Rem
  | 0, s => .suffix s
  | fuel + 1, s =>
    match s.dropWhile rustWs with
    | '#' :: rest =>
      match commentLines fixed (rest.length + 1) rest with
      | .suffix r => space fixed fuel r
      | .detached => .detached
    | t => .suffix t

/-- the fuel `space` needs -/
def spaceAll (fixed : Bool) (s : List Char) : Rem := space fixed (s.length + 1) s

/-- `with_consumed`: `&start[..start.len() - self.i.len()]` -/
def consumedLen (start : List Char) (rem : Rem) : P Nat := do
  let n ← usub start.length rem.chars.length
  slice start.length 0 n
  pure n

/-- `load::span(whole, part)`: `part.as_ptr() - whole.as_ptr()`; for a suffix the offset, for a
string that is not part of `whole` an arbitrary difference — modelled as a panic (debug build:
underflow; any build: `Block::new(..).unwrap()` on a range outside the text) -/
def spanOf (whole : List Char) (part : Rem) : P (Nat × Nat) :=
  match part with
  | .suffix t => do
    let off ← usub whole.length t.length
    pure (off, off + t.length)
  | .detached => .error .panic

/-! ## jaq-core/src/compile.rs: the scope stack `MapVecLen` and its assertions -/

/-- `MapVecLen<S>`: for every name the stack of `total` values at which it was bound -/
structure Scopes (K : Type) where
  bound : K → List Nat
  total : Nat

variable {K : Type} [DecidableEq K]

def Scopes.empty : Scopes K := ⟨fun _ => [], 0⟩

/-- `MapVecLen::push` -/
def Scopes.push (s : Scopes K) (k : K) : Scopes K :=
  ⟨fun x => if x = k then (s.total + 1) :: s.bound x else s.bound x, s.total + 1⟩

/-- `MapVecLen::pop`: `assert_eq!(self.bound.pop(name), Some(self.total)); self.total -= 1` -/
def Scopes.pop (s : Scopes K) (k : K) : P (Scopes K) :=
  match s.bound k with
  | v :: rest =>
    if v = s.total ∧ 1 ≤ s.total then
      .ok ⟨fun x => if x = k then rest else s.bound x, s.total - 1⟩
    else .error .panic
  | [] => .error .panic

/-- push all names (`with_vars`, `push_parent` over the arguments) -/
def Scopes.pushAll (s : Scopes K) : List K → Scopes K
  | [] => s
  | k :: ks => (s.push k).pushAll ks

/-- pop the names in reverse order -/
def Scopes.popAllRev (s : Scopes K) : List K → P (Scopes K)
  | [] => .ok s
  | k :: ks => do
    let s' ← s.popAllRev ks
    s'.pop k

/-- skeleton of the terms the compiler walks, with exactly the binders it opens -/
inductive Tm (K : Type) where
  | leaf
  /-- `l | r`, `l as $pattern | r`, `reduce/foreach … as $pattern (…)`: `with_vars(vars, r)` -/
  | bind (l : Tm K) (vars : List K) (r : Tm K)
  /-- `label $x | t`: `with_label` -/
  | label (x : K) (t : Tm K)
  /-- `def f(args): body; rest`: `push_parent` (arguments) around the body, then the sibling scope -/
  | defn (args : List K) (body : Tm K) (rest : Tm K)
  /-- any other node with two sub-terms -/
  | node (l r : Tm K)

/-- the effect of `Compiler::term` on `locals.vars` (all pushes, pops and their assertions) -/
def walk : Tm K → Scopes K → P (Scopes K)
  | .leaf, s => .ok s
  | .bind l vars r, s => do
    let s1 ← walk l s
    let s2 ← walk r (s1.pushAll vars)
    s2.popAllRev vars
  | .label x t, s => do
    let s1 ← walk t (s.push x)
    s1.pop x
  | .defn args body rest, s => do
    let s1 ← walk body (s.pushAll args)
    let s2 ← s1.popAllRev args
    walk rest s2
  | .node l r, s => do
    let s1 ← walk l s
    walk r s1

end Jaq.C05
