/-
  C05 (round 2) — further impl-models with Rust's CHECKED semantics (`Except Panic α`):
  jaq-std/src/regex.rs (`ByteChar::char_of_byte`, `Match::new`, the mismatch slices of `regex`),
  jaq-std/src/lib.rs (`strip_fix` + `as_sub_str`, `try_as_i32`), jaq-json/src/funs.rs (`to_bytes`,
  `bsearch`, `indices`), jaq-json/src/num.rs (`as_isize`, `from_integral`),
  jaq-core/src/filter.rs (`bind_vars`, `Ctx::pop_var`, `Ctx::pop_fun`).
-/
import JaqVerif.C05.Kernels

namespace Jaq.C05

/-! ## jaq-std/src/regex.rs -/

/-- The state of `ByteChar`: `bounds` are the byte offsets produced by
`s.char_indices().chain(once((s.len(), 0, '\0')))` (the start of every character, then `s.len()`),
`pos` is the number of items the peekable enumerating iterator has consumed. -/
structure ByteChar where
  bounds : List Nat
  pos : Nat
  deriving Repr, DecidableEq

/-- the `loop` of `char_of_byte`: `let (char_i, (byte_i, ..)) = self.iter.peek()?;
if byte_offset == *byte_i { return Some(*char_i) } else { self.iter.next(); }` -/
def charOfByteLoop (bounds : List Nat) (off : Nat) : Nat → Nat → Option Nat × Nat
  | 0, pos => (none, pos)
  | fuel + 1, pos =>
    match bounds[pos]? with
    | none => (none, pos)
    | some b => if off = b then (some pos, pos) else charOfByteLoop bounds off fuel (pos + 1)

/-- `ByteChar::char_of_byte` (tree after d488b4c):
`if self.iter.peek().map_or(true, |(_, (byte_i, ..))| byte_offset < *byte_i) { *self = Self::new(self.s) }`
then the loop.  `restart = false` is the code before that repair (no start-over). -/
def charOfByte (restart : Bool) (bc : ByteChar) (off : Nat) : Option Nat × ByteChar :=
  let again := match bc.bounds[bc.pos]? with
    | none => true
    | some b => decide (off < b)
  let pos := if restart && again then 0 else bc.pos
  let r := charOfByteLoop bc.bounds off (bc.bounds.length + 1) pos
  (r.1, ⟨bc.bounds, r.2⟩)

/-- `Match::new`: `offset: bc.char_of_byte(m.start()).unwrap()` -/
def matchOffset (restart : Bool) (bc : ByteChar) (start : Nat) : P (Nat × ByteChar) :=
  match charOfByte restart bc start with
  | (some c, bc') => .ok (c, bc')
  | (none, _) => .error .panic

/-- all captures of one or several matches, in the order `Match::new` sees them -/
def matchOffsets (restart : Bool) : ByteChar → List Nat → P (List Nat)
  | _, [] => .ok []
  | bc, s :: rest =>
    match matchOffset restart bc s with
    | .error e => .error e
    | .ok (c, bc') =>
      match matchOffsets restart bc' rest with
      | .error e => .error e
      | .ok cs => .ok (c :: cs)

/-- `regex(..)` with `mi`: `&s[last_byte..whole.start()]` per match, `last_byte = whole.end()`,
finally `&s[last_byte..]`; returns the ranges of the mismatches -/
def mismatches (len : Nat) : Nat → List (Nat × Nat) → P (List (Nat × Nat))
  | last, [] => do
    slice len last len
    pure [(last, len)]
  | last, (s, e) :: ms => do
    slice len last s
    let r ← mismatches len e ms
    pure ((last, s) :: r)

/-- the contract of `Regex::captures_iter` the slices rely on: matches are ordered, do not overlap
and lie inside the haystack -/
def MatchesOrdered (len : Nat) : Nat → List (Nat × Nat) → Prop
  | last, [] => last ≤ len
  | last, (s, e) :: ms => last ≤ s ∧ s ≤ e ∧ MatchesOrdered len e ms

/-! ## `strip_fix` / `as_sub_str` (`Bytes::slice_ref`) -/

/-- `Bytes::slice_ref(sub)` where `sub` is given by its offset inside a buffer of `len` bytes:
an empty `sub` returns `Bytes::new()`; otherwise `assert!(sub_p >= bytes_p)` (always true for an
offset) and `assert!(sub_p + sub_len <= bytes_p + bytes_len)` -/
def sliceRef (len off sublen : Nat) : P Unit :=
  if sublen = 0 then .ok () else if off + sublen ≤ len then .ok () else .error .panic

/-- `<[u8]>::strip_prefix`: the sub-slice as (offset, length) -/
def stripPrefix (s pre : List UInt8) : Option (Nat × Nat) :=
  if pre.isPrefixOf s then some (pre.length, s.length - pre.length) else none

/-- `<[u8]>::strip_suffix` -/
def stripSuffix (s suf : List UInt8) : Option (Nat × Nat) :=
  if suf.isSuffixOf s then some (0, s.length - suf.length) else none

/-- `ValTx::strip_fix`: `Some(sub) => self.as_sub_str(sub), None => self`; returns the range kept -/
def stripFix (f : List UInt8 → List UInt8 → Option (Nat × Nat)) (s fix : List UInt8) : P (Nat × Nat) :=
  match f s fix with
  | none => .ok (0, s.length)
  | some (off, n) => do
    sliceRef s.length off n
    pure (off, n)

/-! ## conversions -/

def I32MIN : Int := -2147483648
def I32MAX : Int := 2147483647

/-- `Num::as_isize` (`BigInt::to_isize` is `Some` iff the value fits) -/
def asIsize : Num → Option Int
  | .int i => some i
  | .big i => if IMIN ≤ i ∧ i ≤ IMAX then some i else none
  | _ => none

/-- `ValTx::try_as_i32`: `self.try_as_isize()?.try_into().map_err(Error::str)` -/
def tryAsI32 (n : Num) : Option Int :=
  match asIsize n with
  | none => none
  | some i => if I32MIN ≤ i ∧ i ≤ I32MAX then some i else none

/-- one number of `Val::to_bytes`: `n.as_isize().and_then(|i| u8::try_from(i).ok())` -/
def toByte (n : Num) : Option Nat :=
  match asIsize n with
  | none => none
  | some i => if 0 ≤ i ∧ i ≤ 255 then some i.toNat else none

/-- `Num::from_integral::<T>`: `x.try_into().map_or_else(|_| Num::big_int(x.into()), Num::Int)` -/
def fromIntegral (x : Int) : Num :=
  if IMIN ≤ x ∧ x ≤ IMAX then .int x else .big x

/-- `i as isize` for `i : usize` (a wrapping cast, never panics) -/
def usizeAsIsize (i : Nat) : Int := if (i : Int) ≤ IMAX then i else (i : Int) - 18446744073709551616

/-- `a - b` on `isize` (panics on overflow) -/
def isub (a b : Int) : P Int := if IMIN ≤ a - b ∧ a - b ≤ IMAX then .ok (a - b) else .error .panic

/-- `bsearch`: `r.map_or_else(|i| -1 - i as isize, |i| i as isize)` on the result of
`a.binary_search(&x)` -/
def bsearchIdx : Except Nat Nat → P Int
  | .ok i => .ok (usizeAsIsize i)
  | .error i => isub (-1) (usizeAsIsize i)

/-- shapes of the two arguments of `Val::indices` (only what decides the arm): lengths -/
inductive IShape where
  | bstr (len : Nat)
  | tstr (len : Nat)
  | arr (len : Nat)
  | other
  deriving DecidableEq, Repr

/-- `slice::windows(size)`: panics for `size == 0`; number of windows -/
def windows (len size : Nat) : P Nat :=
  if size = 0 then .error .panic else .ok (len + 1 - size)

/-- `i + y.len()` for every character start `i` of `x` -/
def addAll (ylen : Nat) : List Nat → P Unit
  | [] => .ok ()
  | i :: rest =>
    match uadd i ylen with
    | .error e => .error e
    | .ok _ => addAll ylen rest

/-- `Val::indices`: which arm runs and whether its slice arithmetic is safe.  Result: `none` =
`Err(index)`, `some k` = number of candidate positions examined.
Arms, in the order of the `match`: both strings of the same kind with empty needle → empty;
text/text: per start `i` of a character `x.get(i..i + y.len())` (`i + y.len()` checked);
bytes/bytes: `x.windows(y.len())`; array/empty array → empty; array/array: `x.windows(y.len())`;
array/any: one comparison per element; else error. -/
def indicesKernel (x y : IShape) (starts : List Nat) : P (Option Nat) :=
  match x, y with
  | .bstr _, .bstr 0 => .ok (some 0)
  | .tstr _, .tstr 0 => .ok (some 0)
  | .tstr _, .tstr ylen => do
    addAll ylen starts
    pure (some starts.length)
  | .bstr xlen, .bstr ylen => do
    let k ← windows xlen ylen
    pure (some k)
  | .arr _, .arr 0 => .ok (some 0)
  | .arr xlen, .arr ylen => do
    let k ← windows xlen ylen
    pure (some k)
  | .arr xlen, _ => .ok (some xlen)
  | _, _ => .ok none

/-! ## jaq-core/src/filter.rs: the environment of a native filter -/

/-- kind of a binding: `Bind::Var` / `Bind::Fun` -/
inductive BK where
  | var
  | fn
  deriving DecidableEq, Repr

/-- `bind_vars(args, ctx, cv, proj)`: walks the arguments left to right; `ctx.cons_var(y)` for a
variable argument, `ctx.cons_fun(closure(arg, ..))` for a filter argument (the newest binding is
the head) -/
def bindVars : List BK → List BK → List BK
  | [], env => env
  | b :: rest, env => bindVars rest (b :: env)

/-- `Ctx::pop_var` / `Ctx::pop_fun`: `match vars.pop() { Some((Bind::Var(h), t)) => …, _ => panic!() }` -/
def popKind (k : BK) : List BK → P (List BK)
  | [] => .error .panic
  | b :: rest => if b = k then .ok rest else .error .panic

/-- a native's sequence of `pop_var` / `pop_fun` calls -/
def popAll : List BK → List BK → P (List BK)
  | [], env => .ok env
  | k :: ks, env =>
    match popKind k env with
    | .error e => .error e
    | .ok env' => popAll ks env'

/-! ## jaq-core/src/load/lex.rs + parse.rs + jaq-all/src/load.rs: token spans and parse-error spans -/

/-- The token loop of the lexer (`Lexer::tokens`: `loop { self.space(); match self.token() … }`),
parametric in the consumers: `step s` is the input left after one token has been taken from `s`
by `with_consumed` (`None`: no further token).  Every token is the slice
`&start[..start.len() - self.i.len()]`; its span in the text is computed by `load::span` as a
pointer difference, modelled by lengths of suffixes (`spanOf`).  Returns the spans. -/
def lexSpans (step : List Char → Option (List Char)) (whole : List Char) : Nat → List Char → P (List (Nat × Nat))
  | 0, _ => .ok []
  | fuel + 1, s =>
    match step s with
    | none => .ok []
    | some t =>
      match consumedLen s (.suffix t) with                    -- `with_consumed`
      | .error e => .error e
      | .ok n =>
        match spanOf whole (.suffix s) with                    -- `load::span(code, token.as_str())`
        | .error e => .error e
        | .ok (a, _) =>
          match lexSpans step whole fuel t with
          | .error e => .error e
          | .ok r => .ok ((a, a + n) :: r)

/-- the string a parse error reports (`Token::opt_as_str(found, code)`): the `i`-th token, or
`&code[code.len()..]` at the end of input; then `load::span(code, found)` in `report_parse` -/
def parseErrSpan (wholeLen : Nat) (toks : List (Nat × Nat)) : Option Nat → P (Nat × Nat)
  | none => do
    slice wholeLen wholeLen wholeLen
    pure (wholeLen, wholeLen)
  | some i =>
    match toks[i]? with
    | some sp => .ok sp
    | none => .error .panic

end Jaq.C05
