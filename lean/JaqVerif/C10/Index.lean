/-
  C10 — impl-model of indexing, slicing and element updates of jaq-json values.

  Mirrors, function by function,
    /repo/jaq-json/src/num.rs : `PosUsize::wrap`, `Num::as_pos_usize` (= the shared `Num.asPosUsize`, with a fix switch)
    /repo/jaq-json/src/lib.rs : `skip_take`, `skip_take_bytes`, `skip_take_chars`, `bytes_splice`,
        `abs_bound`, `abs_index`, `Val::as_pos_usize`, `range_int`, `index_opt`, `ValT::index`,
        `ValT::range`, `ValT::values`, `ValT::key_values`, `ValT::map_values`, `ValT::map_index`,
        `ValT::map_range`, `into_arr`, `into_byte_str`, `into_utf8_str`
    /repo/jaq-json/src/funs.rs: `Val::length`, `has`
    /repo/jaq-core/src/path.rs: `Opt::fail`, `Part::run`, `Part::update`
    /repo/jaq-core/src/funs.rs: `keys_unsorted`
  Arrays are `List Val`, byte strings are byte lists, text strings are byte lists viewed as the
  "characters" of `bstr::char_indices` (`Jaq.Utf8.chunks`; an invalid sequence is one position).
  The update function is a parameter `f : Val → List (Except Err Val)`: the finite list of
  results of the lazy iterator `f(v)` (the Rust code only ever looks at a prefix of it).
  No Mathlib: linked into `jaqmodel`.
-/
import JaqVerif.Val.Arith

namespace Jaq
namespace C10

/-! ## `PosUsize`, absolute positions (num.rs, lib.rs) -/

/-- `PosUsize(bool, usize)`: `(is non-negative, magnitude)` -/
abbrev PosUsize := Bool × Nat

/-- `PosUsize::wrap`: `self.0.then_some(self.1).or_else(|| len.checked_sub(self.1))` -/
def wrap (p : PosUsize) (len : Nat) : Option Nat :=
  if p.1 then some p.2 else if p.2 ≤ len then some (len - p.2) else none

/-- SWITCH for finding `c10-bigint-bound`.  `false` = the unfixed `/repo` (`Num::as_pos_usize` fails on a
big integer whose magnitude exceeds `usize::MAX`, so such a slice bound is refused as "not an
integer").  `true` = the proposed repair `design/fixes/C10-bigint-slice-bound.diff` (the magnitude
saturates at `usize::MAX`, so the bound is clipped).  The theorems are proved for both settings
(no proof unfolds this constant); flip it when the fix is applied to `/repo`. -/
def fixBigintBound : Bool := true

def usizeMaxNat : Nat := 18446744073709551615

/-- `Num::as_pos_usize` -/
def numAsPosUsize (n : Num) : Option PosUsize :=
  match n with
  | .big i =>
    if fixBigintBound then some (!(i < 0), min i.natAbs usizeMaxNat)   -- fixed: saturating
    else Num.asPosUsize n
  | n => Num.asPosUsize n

/-- `abs_bound`: `i.map_or(default, |i| min(i.wrap(len).unwrap_or(0), len))` -/
def absBound (i : Option PosUsize) (len dflt : Nat) : Nat :=
  match i with
  | none => dflt
  | some i => min ((wrap i len).getD 0) len

/-- `abs_index`: `i.wrap(len).filter(|i| *i < len)` -/
def absIndex (i : PosUsize) (len : Nat) : Option Nat :=
  (wrap i len).filter (fun j => decide (j < len))

/-- `val::Range<T>` = `Range<Option<T>>` -/
abbrev Range (α : Type) := Option α × Option α

/-- `skip_take`: `(from, upto.saturating_sub(from))` -/
def skipTake (r : Range PosUsize) (len : Nat) : Nat × Nat :=
  let frm := absBound r.1 len 0
  let upto := absBound r.2 len len
  (frm, upto - frm)

/-- `skip_take_bytes` -/
def skipTakeBytes (r : Range PosUsize) (b : List UInt8) : Nat × Nat := skipTake r b.length

/-- start offsets of the chunks of a chunk list, beginning at `acc` -/
def offsets : Nat → List (List UInt8) → List Nat
  | _, [] => []
  | acc, c :: cs => acc :: offsets (acc + c.length) cs

/-- `b.char_indices().map(|(start, ..)| start)` -/
def charStarts (b : List UInt8) : List Nat := offsets 0 (Utf8.chars b)

/-- the closure `byte_index` of `skip_take_chars`:
`if pos { chars.nth(c).unwrap_or(b.len()) } else { chars.nth_back(c - 1).unwrap_or(0) }`.
`c - 1` underflows for `PosUsize(false, 0)` (panic with overflow checks, `usize::MAX` → `0`
without); `numAsPosUsize` never produces that value (`asPosUsize_not_negzero`), the model takes
the release value. -/
def byteIndex (b : List UInt8) (p : PosUsize) : Nat :=
  let starts := charStarts b
  if p.1 then (starts[p.2]?).getD b.length
  else if p.2 = 0 then 0
  else (starts.reverse[p.2 - 1]?).getD 0

/-- `skip_take_chars` -/
def skipTakeChars (r : Range PosUsize) (b : List UInt8) : Nat × Nat :=
  let fromByte := match r.1 with | none => 0 | some p => byteIndex b p
  let uptoByte := match r.2 with | none => b.length | some p => byteIndex b p
  (fromByte, uptoByte - fromByte)

/-! ### `bytes_splice`, with the `BytesMut` primitives it uses -/

/-- `BytesMut::resize(n, 0)` -/
def bResize (b : List UInt8) (n : Nat) : List UInt8 :=
  if n ≤ b.length then b.take n else b ++ List.replicate (n - b.length) 0

/-- `copy_within(s..e, d)` (memmove; the caller guarantees `s ≤ e ≤ len`, `d + (e-s) ≤ len`) -/
def bCopyWithin (b : List UInt8) (s e d : Nat) : List UInt8 :=
  b.take d ++ (b.drop s).take (e - s) ++ b.drop (d + (e - s))

/-- `b[d..d+src.len()].copy_from_slice(src)` -/
def bCopyFrom (b : List UInt8) (d : Nat) (src : List UInt8) : List UInt8 :=
  b.take d ++ src ++ b.drop (d + src.length)

/-- `bytes_splice` as written: resize if growing, move the tail, copy the replacement,
truncate if shrinking -/
def bytesSplice (b : List UInt8) (skip take : Nat) (replace : List UInt8) : List UInt8 :=
  let finalLen := b.length - take + replace.length
  let postS := skip + take
  let postE := b.length
  let b1 := if replace.length > take then bResize b finalLen else b
  let b2 := bCopyWithin b1 postS postE (skip + replace.length)
  let b3 := bCopyFrom b2 skip replace
  if replace.length < take then b3.take finalLen else b3

/-! ## Errors and `path::Opt` -/

def tyInt := "integer"
def tyStr := "string"
def tyArr := "array"
def tyIter := "iterable (array or object)"
def tyRange := "rangeable (array or string)"

/-- `path::Opt` -/
inductive Opt where
  | optional
  | essential
  deriving DecidableEq, Repr

/-- `Opt::fail(x, f)`: an optional access returns the input unchanged, an essential one fails -/
def Opt.fail (o : Opt) (x : Val) (e : Err) : ValR :=
  match o with
  | .optional => .ok x
  | .essential => .error e

/-- `Val::as_pos_usize` -/
def asPosUsize (v : Val) : Except Err PosUsize :=
  match v with
  | .num n =>
    match numAsPosUsize n with
    | some p => .ok p
    | none => .error (.typ v tyInt)
  | _ => .error (.typ v tyInt)

/-- the closure `f` of `range_int`: absent or `null` bound = open -/
def rangeBound (i : Option Val) : Except Err (Option PosUsize) :=
  match i with
  | none => .ok none
  | some .null => .ok none
  | some v => (asPosUsize v).map some

/-- `Val::range_int` -/
def rangeInt (r : Range Val) : Except Err (Range PosUsize) :=
  match rangeBound r.1 with
  | .error e => .error e
  | .ok s =>
    match rangeBound r.2 with
    | .error e => .error e
    | .ok e => .ok (s, e)

/-! ## Read access -/

/-- `ValT::range` -/
def range (v : Val) (r : Range Val) : ValR :=
  match v with
  | .bstr b =>
    (rangeInt r).map fun r =>
      let (skip, take) := skipTakeBytes r b
      .bstr ((b.drop skip).take take)          -- `b.slice(skip..skip + take)`
  | .tstr b =>
    (rangeInt r).map fun r =>
      let (skip, take) := skipTakeChars r b
      .tstr ((b.drop skip).take take)
  | .arr a =>
    (rangeInt r).map fun r =>
      let (skip, take) := skipTake r a.length
      .arr ((a.drop skip).take take)           -- `a.iter().skip(skip).take(take)`
  | v => .error (.typ v tyRange)

/-- `slice == slice` on `Val`s (`PartialEq for [Val]`) -/
def listEq (x y : List Val) : Bool :=
  x.length == y.length && (List.zipWith Val.eq x y).all id

/-- `x.windows(n)` for `n > 0` -/
def windows (n : Nat) (x : List Val) : List (List Val) :=
  (List.range (x.length + 1 - n)).map fun i => (x.drop i).take n

/-- indices of the windows of `x` equal to `y` (adapted from `indices`) -/
def windowIndices (x y : List Val) : List Nat :=
  ((windows y.length x).zipIdx.filter fun (w, _) => listEq w y).map (·.2)

def strStart : Val := .tstr "start".toUTF8.toList
def strEnd : Val := .tstr "end".toUTF8.toList

/-- `Val::index_opt` -/
def indexOpt (v idx : Val) : Except Err (Option Val) :=
  match v, idx with
  | .null, _ => .ok none
  | .bstr a, .num n =>
    if n.isInt then                                  -- `Num::Int(_) | Num::BigInt(_)`
      .ok (((numAsPosUsize n).bind fun p => absIndex p a.length).bind fun j =>
        a[j]?.map fun byte => .num (Num.ofInt (Int.ofNat byte.toNat)))
    else .error (.index v idx)
  | .arr a, .num n =>
    if n.isInt then
      .ok (((numAsPosUsize n).bind fun p => absIndex p a.length).bind fun j => a[j]?)
    else .error (.index v idx)
  | .arr x, .arr y =>
    if y.isEmpty then .ok (some (.arr []))
    else .ok (some (.arr ((windowIndices x y).map fun i => .num (Num.ofInt (Int.ofNat i)))))
  | .obj o, i => .ok (Obj.get o i)
  | .bstr _, .obj o | .tstr _, .obj o | .arr _, .obj o =>
    (range v (Obj.get o strStart, Obj.get o strEnd)).map some
  | s, i => .error (.index s i)

/-- `ValT::index` -/
def index (v idx : Val) : ValR := (indexOpt v idx).map fun o => o.getD .null

/-- `has` (funs.rs): `v.index_opt(&k).map(|o| o.is_some().into())` -/
def has (v k : Val) : ValR := (indexOpt v k).map fun o => .bool o.isSome

/-- `ValT::values` -/
def values (v : Val) : Except Err (List Val) :=
  match v with
  | .arr a => .ok a
  | .obj o => .ok (o.map (·.2))
  | v => .error (.typ v tyIter)

/-- `ValT::key_values` -/
def keyValues (v : Val) : Except Err (List (Val × Val)) :=
  match v with
  | .arr a => .ok (a.zipIdx.map fun (x, i) => (.num (.int (Int.ofNat i)), x))
  | .obj o => .ok o
  | v => .error (.typ v tyIter)

/-- `keys_unsorted` (jaq-core funs.rs) -/
def keysUnsorted (v : Val) : ValR := (keyValues v).map fun kvs => .arr (kvs.map (·.1))

/-- `Val::length` (funs.rs) -/
def length (v : Val) : ValR :=
  match v with
  | .null => .ok (.num (Num.ofInt 0))
  | .num n => .ok (.num (Num.length n))
  | .tstr s => .ok (.num (Num.ofInt (Int.ofNat (Utf8.charCount s))))
  | .bstr b => .ok (.num (Num.ofInt (Int.ofNat b.length)))
  | .arr a => .ok (.num (Num.ofInt (Int.ofNat a.length)))
  | .obj o => .ok (.num (Num.ofInt (Int.ofNat o.length)))
  | .bool _ => .error (.str "has no length")

/-- `path::Part` after evaluation of its index filters -/
inductive Part where
  | index (i : Val)
  | range (frm upto : Option Val)

/-- `Part::run` (results of the iterator, an error ends it) -/
def Part.run (p : Part) (v : Val) : List ValR :=
  match p with
  | .index i => [C10.index v i]
  | .range none none =>
    match values v with
    | .ok vs => vs.map .ok
    | .error e => [.error e]
  | .range f u => [C10.range v (f, u)]

/-- `path::run` for a single part: an optional part drops its errors -/
def runPart (p : Part) (opt : Opt) (v : Val) : List ValR :=
  (p.run v).filter fun r => opt == .essential || r.isOk

/-- destructuring (`bind_pat` of filter.rs): every sub-pattern is bound to `v0.index(&i)` -/
def bindPat (v : Val) (keys : List Val) : Except Err (List Val) :=
  collect' (keys.map fun k => index v k)
where
  collect' : List ValR → Except Err (List Val)
    | [] => .ok []
    | .error e :: _ => .error e
    | .ok v :: rest =>
      match collect' rest with
      | .ok vs => .ok (v :: vs)
      | .error e => .error e

/-! ## Write access -/

abbrev Upd := Val → List (Except Err Val)

/-- `iter.collect::<Result<_, _>>()`: stops at the first error -/
def collect : List (Except Err Val) → Except Err (List Val)
  | [] => .ok []
  | .error e :: _ => .error e
  | .ok v :: rest =>
    match collect rest with
    | .ok vs => .ok (v :: vs)
    | .error e => .error e

/-- the object arm of `map_values`: `filter_map(|(k, v)| f(v).next().map(|v| Ok((k, v?))))`
collected into a `Result` -/
def mapObjEntries (f : Upd) : Obj.Entries → Except Err Obj.Entries
  | [] => .ok []
  | (k, v) :: rest =>
    match (f v).head? with
    | none => mapObjEntries f rest
    | some (.error e) => .error e
    | some (.ok y) =>
      match mapObjEntries f rest with
      | .ok r => .ok ((k, y) :: r)
      | .error e => .error e

/-- `ValT::map_values` -/
def mapValues (v : Val) (opt : Opt) (f : Upd) : ValR :=
  match v with
  | .arr a => (collect (a.flatMap f)).map .arr
  | .obj o => (mapObjEntries f o).map fun es => .obj (Obj.ofList es)   -- collected into a new map
  | v => opt.fail v (.typ v tyIter)

/-- `into_arr` -/
def intoArr (v : Val) : Except Err (List Val) :=
  match v with
  | .arr a => .ok a
  | v => .error (.typ v tyArr)

/-- `into_byte_str` -/
def intoByteStr (v : Val) : Except Err (List UInt8) :=
  match v with
  | .bstr b => .ok b
  | v => .error (.typ v tyStr)

/-- `into_utf8_str` -/
def intoUtf8Str (v : Val) : Except Err (List UInt8) :=
  match v with
  | .tstr b => .ok b
  | v => .error (.typ v tyStr)

/-- `f(x).map(|y| conv(y?)).next().transpose()?.unwrap_or_default()`: the first output,
converted; nothing = the empty container -/
def firstConv {α : Type} (conv : Val → Except Err (List α)) (outs : List (Except Err Val)) :
    Except Err (List α) :=
  match outs.head? with
  | none => .ok []
  | some (.error e) => .error e
  | some (.ok y) => conv y

/-- `Vec::splice(skip..skip + take, y)` -/
def vecSplice (a : List Val) (skip take : Nat) (y : List Val) : List Val :=
  a.take skip ++ y ++ a.drop (skip + take)

/-- the closure `fs` of `map_range` -/
def mapRangeStr (b : List UInt8) (r : Range Val) (opt : Opt) (f : Upd)
    (skipTakeFn : Range PosUsize → List UInt8 → Nat × Nat)
    (frm : Val → Except Err (List UInt8)) (into : List UInt8 → Val) : ValR :=
  match rangeInt r with
  | .error e => opt.fail (into b) e
  | .ok r =>
    let (skip, take) := skipTakeFn r b
    let str := into ((b.drop skip).take take)
    match firstConv frm (f str) with
    | .error e => .error e
    | .ok y => .ok (into (bytesSplice b skip take y))

/-- `ValT::map_range` -/
def mapRange (v : Val) (r : Range Val) (opt : Opt) (f : Upd) : ValR :=
  match v with
  | .arr a =>
    match rangeInt r with
    | .error e => opt.fail v e
    | .ok r =>
      let (skip, take) := skipTake r a.length
      let sub := Val.arr ((a.drop skip).take take)
      match firstConv intoArr (f sub) with
      | .error e => .error e
      | .ok y => .ok (.arr (vecSplice a skip take y))
  | .bstr b => mapRangeStr b r opt f skipTakeBytes intoByteStr .bstr
  | .tstr b => mapRangeStr b r opt f skipTakeChars intoUtf8Str .tstr
  | v => opt.fail v (.typ v tyArr)

/-- position of the entry a hashed lookup of `k` finds (`IndexMap::entry`) -/
def objFindIdx (o : Obj.Entries) (k : Val) : Option Nat :=
  o.findIdx? fun e => Obj.sameKey k e.1

/-- `swap_remove` at a known position: the last entry takes the place of the removed one -/
def swapRemoveAt (o : Obj.Entries) (i : Nat) : Obj.Entries :=
  match o.getLast? with
  | none => o
  | some last => if i + 1 == o.length then o.dropLast else (o.set i last).dropLast

/-- `Error::str("index {index} out of bounds")` -/
def oob : Err := .str "index out of bounds"

/-- `ValT::map_index` -/
def mapIndex (v idx : Val) (opt : Opt) (f : Upd) : ValR :=
  match v, idx with
  | .bstr _, .obj o | .tstr _, .obj o | .arr _, .obj o =>
    mapRange v (Obj.get o strStart, Obj.get o strEnd) opt f
  | .obj o, _ =>
    match objFindIdx o idx with
    | some i =>                                     -- `Occupied`
      match o[i]? with
      | none => .ok v                               -- unreachable
      | some (k, old) =>
        match (f old).head? with
        | some (.error e) => .error e
        | some (.ok y) => .ok (.obj (o.set i (k, y)))
        | none => .ok (.obj (swapRemoveAt o i))
    | none =>                                       -- `Vacant`
      match (f .null).head? with
      | some (.error e) => .error e
      | some (.ok y) => .ok (.obj (o ++ [(idx, y)]))
      | none => .ok v
  | .arr a, _ =>
    match asPosUsize idx with
    | .error e => opt.fail v e
    | .ok p =>
      match absIndex p a.length with
      | none => opt.fail v oob
      | some i =>
        match a[i]? with
        | none => .ok v                             -- unreachable (`i < len`)
        | some x =>
          match (f x).head? with
          | some (.error e) => .error e
          | some (.ok y) => .ok (.arr (a.set i y))
          | none => .ok (.arr (a.eraseIdx i))        -- `a.remove(i)`
  | v, _ => opt.fail v (.typ v tyIter)

/-- `Part::update` -/
def Part.update (p : Part) (v : Val) (opt : Opt) (f : Upd) : ValR :=
  match p with
  | .index i => mapIndex v i opt f
  | .range none none => mapValues v opt f
  | .range frm upto => mapRange v (frm, upto) opt f

end C10
end Jaq
