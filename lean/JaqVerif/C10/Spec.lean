/-
  C10 — the independent specification: Python's position model on `List α`
  (`l[i]`, `l[i:j]`, `l[i] = x`, `del l[i]`, `l[i:j] = ys`), over unbounded integers.
  Nothing here mentions jaq's code.
-/
namespace Jaq
namespace C10
namespace Spec

/-- a slice bound made absolute and clipped: negative counts from the end -/
def norm (i : Int) (len : Nat) : Nat :=
  if i < 0 then ((len : Int) + i).toNat else min i.toNat len

/-- lower bound of a slice (`none` = open = `0`) -/
def lo (i : Option Int) (len : Nat) : Nat :=
  match i with
  | none => 0
  | some i => norm i len

/-- upper bound of a slice (`none` = open = `len`) -/
def hi (j : Option Int) (len : Nat) : Nat :=
  match j with
  | none => len
  | some j => norm j len

/-- `l[i:j]` -/
def sliceSpec {α : Type} (l : List α) (i j : Option Int) : List α :=
  (l.drop (lo i l.length)).take (hi j l.length - lo i l.length)

/-- the position `i` points into a container of length `len` -/
def inside (len : Nat) (i : Int) : Prop := -(len : Int) ≤ i ∧ i < (len : Int)

instance (len : Nat) (i : Int) : Decidable (inside len i) := by unfold inside; infer_instance

/-- absolute position of an index that points inside -/
def pos (len : Nat) (i : Int) : Nat :=
  if 0 ≤ i then i.toNat else len - (-i).toNat

/-- `l[i]` (`none` outside) -/
def getSpec {α : Type} (l : List α) (i : Int) : Option α :=
  if inside l.length i then l[pos l.length i]? else none

/-- `l[i] = x` for `i` inside -/
def setSpec {α : Type} (l : List α) (i : Int) (x : α) : List α := l.set (pos l.length i) x

/-- `del l[i]` for `i` inside -/
def delSpec {α : Type} (l : List α) (i : Int) : List α := l.eraseIdx (pos l.length i)

/-- `l[i:j] = ys` (when the bounds cross, `ys` is inserted at the lower bound) -/
def spliceSpec {α : Type} (l : List α) (i j : Option Int) (ys : List α) : List α :=
  l.take (lo i l.length) ++ ys ++ l.drop (max (lo i l.length) (hi j l.length))

/-! ### the manual's defining jq code (docs/advanced.dj), read on lists -/

/-- `slice_upd($i; $j; u; fail)`: `[.[:$i], .[$i:$j], .[$j:]] | .[1] |= u | add`, where `ys` is the
first output of `u` on the middle part (`[]` when there is none) -/
def manualSliceUpd {α : Type} (l : List α) (i j : Int) (ys : List α) : List α :=
  sliceSpec l none (some i) ++ ys ++ sliceSpec l (some j) none

/-- the array arm of `index_upd($i; u; fail)`: `.[:$i] + [.[$i] | first(u)] + .[$i+1:]` for
`0 ≤ $i < length`, the same at `length + $i` for `-length ≤ $i < 0`, else `fail` (`none`);
`y` is the first output of `u` (if any) -/
def manualIndexUpd {α : Type} (l : List α) (i : Int) (y : Option α) : Option (List α) :=
  if 0 ≤ i ∧ i < (l.length : Int) then
    some (sliceSpec l none (some i) ++ y.toList ++ sliceSpec l (some (i + 1)) none)
  else if -(l.length : Int) ≤ i ∧ i < 0 then
    some (sliceSpec l none (some ((l.length : Int) + i)) ++ y.toList
            ++ sliceSpec l (some ((l.length : Int) + i + 1)) none)
  else none

end Spec
end C10
end Jaq
