/-
  C15 — model of `jaq-core/src/load/prec_climb.rs` (`climb`, `climb1`), generic in the operator
  type `O` (trait `Op`: `precedence`, `associativity`) and the expression type `T` (trait `Expr`:
  `from_op`, here the argument `mk`).

  `climb1(x, iter, min_prec)` with the `Peekable` iterator made explicit: the functions return
  the expression and the unread rest of the iterator.  `outer` is the outer `while let … next_if`
  loop, `inner` the inner `while let Some(next) = iter.peek()` loop; the recursive call
  `climb1(rhs, iter, next_prec)` is the call of `outer` from `inner`.  Fuel: one unit per call
  and per loop iteration; `2 * tail.length + 2` always suffices (proved in `Lemmas/C15Climb`).
-/
namespace Jaq.C15

/-- `prec_climb::Op` -/
class PrecOp (O : Type) where
  prec : O → Nat
  /-- `matches!(op.associativity(), Associativity::Right)` -/
  ra : O → Bool

open PrecOp

variable {O T : Type} [PrecOp O]

mutual
def outer (mk : T → O → T → T) : Nat → T → List (O × T) → Nat → T × List (O × T)
  | 0, x, rest, _ => (x, rest)
  | _+1, x, [], _ => (x, [])
  | f+1, x, (op, rhs) :: rest, minp =>
      if prec op ≥ minp then
        let (rhs', rest') := inner mk f rhs rest op
        outer mk f (mk x op rhs') rest' minp
      else (x, (op, rhs) :: rest)
def inner (mk : T → O → T → T) : Nat → T → List (O × T) → O → T × List (O × T)
  | 0, rhs, rest, _ => (rhs, rest)
  | _+1, rhs, [], _ => (rhs, [])
  | f+1, rhs, (nop, nrhs) :: rest, op =>
      if prec nop > prec op ∨ (ra op = true ∧ prec nop = prec op) then
        let (rhs', rest') := outer mk f rhs ((nop, nrhs) :: rest) (prec nop)
        inner mk f rhs' rest' op
      else (rhs, (nop, nrhs) :: rest)
end

/-- `prec_climb::climb` -/
def climb (mk : T → O → T → T) (head : T) (tail : List (O × T)) : T :=
  (outer mk (2 * tail.length + 2) head tail 0).1

end Jaq.C15
