/-
  C15 — model of `jaq-core/src/load/parse.rs`: the AST (`Term`, `Pattern`, `BinaryOp`,
  `path::Part`, `Def`) and the recursive-descent parser (`atom`, `term_with_comma`, `op`,
  `pattern`, `pat_obj_entry`, `obj_entry`, `str_parts`, `str_key`, `path`, `path_part`,
  `path_part_opt`, `opt`, `args`, `many1`, `obj_items`, `defs`, `def_tail`, `Term::climb`,
  `impl Op for BinaryOp`, `Parser::parse/finish/verify_last/with`).

  The parser state `self.i` (a slice iterator) is the remaining token list, threaded explicitly.
  `self.e` is `Option`: `Parser::parse` returns `Err` iff any error was pushed; after an error
  inside a block (`with` pushes the error and returns `T::default()`) parsing continues, but the
  verdict is `Err` in any case, so aborting is equivalent for accept/reject and for the AST on accept.
  Fuel: one unit per call / loop iteration; `parseFuel` suffices (out of fuel = reject; the
  correspondence would show it as a disagreement).
-/
import JaqVerif.C15.Lex
import JaqVerif.C15.PrecClimb

namespace Jaq.C15

inductive Math where | add | sub | mul | div | rem
  deriving DecidableEq, Repr
inductive Cmp where | lt | le | gt | ge | eq | ne
  deriving DecidableEq, Repr

mutual
/-- `parse::Term<&str>` -/
inductive Term where
  | id
  | recurse
  | num (s : Str)
  | str (fmt : Option Str) (parts : List StrPart)
  | arr (t : Option Term)
  | obj (es : List (Term × Option Term))
  | neg (t : Term)
  | binop (l : Term) (op : BinOp) (r : Term)
  | label (x : Str) (t : Term)
  | brk (x : Str)
  | fold (kind : Str) (xs : Term) (pat : Pattern) (args : List Term)
  | tryCatch (t : Term) (c : Option Term)
  | ite (its : List (Term × Term)) (els : Option Term)
  | defs (ds : List Def) (t : Term)
  | call (name : Str) (args : List Term)
  | var (x : Str)
  | path (t : Term) (parts : List (Part × Bool))
/-- `lex::StrPart<&str, Term>` -/
inductive StrPart where
  | lit (s : Str)
  | term (t : Term)
  | chr (c : Char)
/-- `parse::Pattern` -/
inductive Pattern where
  | var (x : Str)
  | arr (ps : List Pattern)
  | obj (es : List (Term × Pattern))
/-- `parse::BinaryOp` -/
inductive BinOp where
  | pipe (p : Option Pattern)
  | comma | alt | or | and
  | math (m : Math)
  | cmp (c : Cmp)
  | assign | update
  | updateMath (m : Math)
  | updateAlt
/-- `path::Part<Term>`; the `Bool` beside it is `path::Opt` (`true` = `Optional`) -/
inductive Part where
  | index (t : Term)
  | range (a b : Option Term)
/-- `parse::Def` -/
inductive Def where
  | mk (name : Str) (args : List Str) (body : Term)
end

instance : Inhabited Term := ⟨.id⟩

/-- `impl prec_climb::Op for BinaryOp`: `precedence` -/
def BinOp.prec : BinOp → Nat
  | .pipe none => 0
  | .comma => 1
  | .pipe (some _) => 2
  | .assign | .update | .updateMath _ | .updateAlt => 3
  | .alt => 4
  | .or => 5
  | .and => 6
  | .cmp .eq | .cmp .ne => 7
  | .cmp _ => 8
  | .math .add | .math .sub => 9
  | .math .mul | .math .div => 10
  | .math .rem => 11

/-- `impl prec_climb::Op for BinaryOp`: `associativity` is `Right` -/
def BinOp.ra : BinOp → Bool
  | .pipe _ | .assign | .update | .updateMath _ | .updateAlt => true
  | _ => false

instance : PrecOp BinOp := ⟨BinOp.prec, BinOp.ra⟩

def BinOp.isAs : BinOp → Bool
  | .pipe (some _) => true
  | _ => false

/-- `Term::climb`: the tail iterator is wrapped such that at the first `as`-binding the *whole*
remaining tail is climbed (recursively) into the right operand of the binding. -/
def wrapAs : List (BinOp × Term) → List (BinOp × Term)
  | [] => []
  | (op, tm) :: rest =>
    if op.isAs then [(op, climb Term.binop tm (wrapAs rest))]
    else (op, tm) :: wrapAs rest

def Term.climb (head : Term) (tail : List (BinOp × Term)) : Term :=
  Jaq.C15.climb Term.binop head (wrapAs tail)

/-- `Term::from_str` -/
def Term.fromStr (s : Str) : Term := .str none [.lit s]

/-! ### token helpers -/

/-- the slice of a token as far as the parser compares it with keywords and symbols
(`Str`/`Block` slices start with a quote / bracket and have length ≥ 2: never equal to any) -/
def Token.simple? : Token → Option Str
  | .word s | .var s | .fmt s | .num s | .sym s => some s
  | _ => none

def Token.is (t : Token) (s : Str) : Bool := t.simple? == some s

def containsColons : Str → Bool
  | ':' :: ':' :: _ => true
  | _ :: r => containsColons r
  | [] => false

abbrev P (α : Type) := List Token → Option (α × List Token)

/-- `Parser::just` -/
def just (c : Str) : P Unit
  | t :: r => if t.is c then some ((), r) else none
  | [] => none

/-- `Parser::var` -/
def pVar : P Str
  | .var x :: r => some (x, r)
  | _ => none

/-- `Parser::char0` as a test-and-advance -/
def char0 (c : Char) : List Token → Option (List Token)
  | t :: r => if t.is [c] then some r else none
  | [] => none

/-- `Parser::opt`: any number of `?` -/
def opt : List Token → Bool × List Token
  | t :: r => if t.is ['?'] then (true, (opt r).2) else (false, t :: r)
  | [] => (false, [])

/-- `Parser::dot`: next token starts with `.` but is not `..`; returns what follows the dot -/
def dot : List Token → Option (Str × List Token)
  | t :: r =>
    match t.simple? with
    | some ('.' :: key) => if key = ['.'] then none else some (key, r)
    | _ => none
  | [] => none

/-- `finish`/`verify_last` after running a parser on the tokens of a block -/
def verifyLast (last : Str) : Option (α × List Token) → Option α
  | some (x, []) => if last.isEmpty then some x else none
  | some (x, [t]) => if !last.isEmpty && t.is last then some x else none
  | _ => none

/-- loop of `Parser::many1` -/
def many1Loop (p : P α) (sep : Str) (trailing : Bool) (last : Str) :
    Nat → List Token → List α → Option (List α × List Token)
  | 0, _, _ => none
  | _+1, [], _ => none
  | f+1, t :: r, acc =>
    if t.is last then some (acc, r)
    else if t.is sep then
      match trailing, r with
      | true, t2 :: r2 =>
        if t2.is last then some (acc, r2)
        else match p r with
          | some (x, r') => many1Loop p sep trailing last f r' (acc ++ [x])
          | none => none
      | _, _ =>
        match p r with
        | some (x, r') => many1Loop p sep trailing last f r' (acc ++ [x])
        | none => none
    else none

/-- `Parser::many1` -/
def many1 (p : P α) (sep : Str) (trailing : Bool) (last : Str) (f : Nat) : P (List α) := fun toks =>
  match p toks with
  | some (x, r) => many1Loop p sep trailing last f r [x]
  | none => none

/-- `Parser::obj_items` inside the tokens of a `{` block -/
def objItems (p : P α) (f : Nat) (toks : List Token) : Option (List α) :=
  verifyLast [] (many1 p [','] true ['}'] f toks)

/-- `Parser::args`: `("(" arg (";" arg)* ")")?` -/
def args (p : P α) (f : Nat) : P (List α)
  | .block '(' ts :: r =>
    match verifyLast [] (many1 p [';'] false [')'] f ts) with
    | some xs => some (xs, r)
    | none => none
  | toks => some ([], toks)

def kw (s : String) : Str := s.toList

/-- table of `Parser::op` (all but `|`, `as`, `,`) -/
def opTable : List (Str × BinOp) := [
  (['+'], .math .add), (['-'], .math .sub), (['*'], .math .mul), (['/'], .math .div), (['%'], .math .rem),
  (['='], .assign), (['|', '='], .update),
  (['+', '='], .updateMath .add), (['-', '='], .updateMath .sub), (['*', '='], .updateMath .mul),
  (['/', '='], .updateMath .div), (['%', '='], .updateMath .rem),
  (['<'], .cmp .lt), (['>'], .cmp .gt), (['<', '='], .cmp .le), (['>', '='], .cmp .ge),
  (['=', '='], .cmp .eq), (['!', '='], .cmp .ne),
  (['/', '/'], .alt), (['/', '/', '='], .updateAlt),
  (['o', 'r'], .or), (['a', 'n', 'd'], .and)]

def defArg : P Str
  | .word w :: r => if containsColons w then none else some (w, r)
  | .var w :: r => if containsColons w then none else some (w, r)
  | _ => none

mutual
/-- `Parser::pattern` -/
def pattern : Nat → P Pattern
  | 0, _ => none
  | f+1, toks =>
    match toks with
    | .var x :: r => some (.var x, r)
    | .block o ts :: r =>
      if o = '[' then
        match verifyLast [] (many1 (pattern f) [','] false [']'] f ts) with
        | some ps => some (.arr ps, r)
        | none => none
      else if o = '{' then
        match objItems (patObjEntry f) f ts with
        | some es => some (.obj es, r)
        | none => none
      else none
    | _ => none

/-- `Parser::pat_obj_entry` -/
def patObjEntry : Nat → P (Term × Pattern)
  | 0, _ => none
  | f+1, toks =>
    match toks with
    | .var x :: r => some ((Term.fromStr x.tail, .var x), r)
    | _ =>
      let key : Option (Term × List Token) :=
        match toks with
        | .block '(' ts :: r => (verifyLast [')'] (term f ts)).map fun k => (k, r)
        | .word id :: r => if containsColons id then strKey f toks else some (Term.fromStr id, r)
        | _ => strKey f toks
      match key with
      | none => none
      | some (k, r) =>
        match just [':'] r with
        | none => none
        | some (_, r1) =>
          match pattern f r1 with
          | none => none
          | some (p, r2) => some ((k, p), r2)

/-- `Parser::op` : `none` = error, `some (none, _)` = no operator here -/
def op : Nat → Bool → List Token → Option (Option BinOp × List Token)
  | 0, _, _ => none
  | f+1, withComma, toks =>
    match toks with
    | [] => some (none, [])
    | t :: r =>
      match t.simple? with
      | none => some (none, toks)
      | some s =>
        if s = ['|'] then some (some (.pipe none), r)
        else if s = ['a', 's'] then
          match pattern f r with
          | none => none
          | some (x, r1) =>
            match just ['|'] r1 with
            | none => none
            | some (_, r2) => some (some (.pipe (some x)), r2)
        else if s = [','] then
          if withComma then some (some .comma, r) else some (none, toks)
        else
          match opTable.lookup s with
          | some o => some (some o, r)
          | none => some (none, toks)

/-- loop of `Parser::term_with_comma` collecting `(op, atom)` pairs -/
def opAtoms : Nat → Bool → List Token → List (BinOp × Term) → Option (List (BinOp × Term) × List Token)
  | 0, _, _, _ => none
  | f+1, wc, toks, acc =>
    match op f wc toks with
    | none => none
    | some (none, r) => some (acc, r)
    | some (some o, r) =>
      match atom f r with
      | none => none
      | some (a, r1) => opAtoms f wc r1 (acc ++ [(o, a)])

/-- `Parser::term_with_comma` -/
def termWithComma : Nat → Bool → P Term
  | 0, _, _ => none
  | f+1, wc, toks =>
    match atom f toks with
    | none => none
    | some (head, r) =>
      match opAtoms f wc r [] with
      | none => none
      | some (tail, r1) => some (head.climb tail, r1)

/-- `Parser::term` -/
def term : Nat → P Term
  | 0, _ => none
  | f+1, toks => termWithComma f true toks

/-- `if_then` closure of `atom`: `term "then" term` -/
def ifThen : Nat → P (Term × Term)
  | 0, _ => none
  | f+1, toks =>
    match term f toks with
    | none => none
    | some (c, r) =>
      match just (kw "then") r with
      | none => none
      | some (_, r1) =>
        match term f r1 with
        | none => none
        | some (t, r2) => some ((c, t), r2)

/-- the `loop` of the `if` arm of `atom` -/
def elifs : Nat → List Token → List (Term × Term) → Option ((List (Term × Term) × Option Term) × List Token)
  | 0, _, _ => none
  | f+1, toks, acc =>
    match toks with
    | [] => none
    | t :: r =>
      if t.is (kw "elif") then
        match ifThen f r with
        | none => none
        | some (it, r1) => elifs f r1 (acc ++ [it])
      else if t.is (kw "else") then
        match term f r with
        | none => none
        | some (e, r1) =>
          match just (kw "end") r1 with
          | none => none
          | some (_, r2) => some ((acc, some e), r2)
      else if t.is (kw "end") then some ((acc, none), r)
      else none

/-- `Parser::defs`: `("def" def_tail)*` -/
def defs : Nat → List Token → List Def → Option (List Def × List Token)
  | 0, _, _ => none
  | f+1, toks, acc =>
    match toks with
    | t :: r =>
      if t.is (kw "def") then
        match defTail f r with
        | none => none
        | some (d, r1) => defs f r1 (acc ++ [d])
      else some (acc, toks)
    | [] => some (acc, [])

/-- `Parser::def_tail`: `name args ":" term ";"` -/
def defTail : Nat → P Def
  | 0, _ => none
  | f+1, toks =>
    let name : Option (Str × List Token) :=
      match toks with
      | .word w :: r => if containsColons w then none else some (w, r)
      | .fmt w :: r => if containsColons w then none else some (w, r)
      | _ => none
    match name with
    | none => none
    | some (n, r) =>
      match args defArg f r with
      | none => none
      | some (as, r1) =>
        match just [':'] r1 with
        | none => none
        | some (_, r2) =>
          match term f r2 with
          | none => none
          | some (body, r3) =>
            match just [';'] r3 with
            | none => none
            | some (_, r4) => some (.mk n as body, r4)

/-- `Parser::str_parts` -/
def strParts : Nat → List SPart → Option (List StrPart)
  | 0, _ => none
  | _+1, [] => some []
  | f+1, p :: ps =>
    let hd : Option StrPart :=
      match p with
      | .lit s => some (.lit s)
      | .chr c => some (.chr c)
      | .interp (.block '(' ts) => (verifyLast [')'] (term f ts)).map StrPart.term
      | .interp _ => none  -- `unreachable!()`: the lexer only builds `(` blocks here
    match hd with
    | none => none
    | some h => (strParts f ps).map (h :: ·)

/-- `Parser::str_key` -/
def strKey : Nat → P Term
  | 0, _ => none
  | f+1, toks =>
    match toks with
    | .fmt id :: .str parts :: r => (strParts f parts).map fun ps => (.str (some id) ps, r)
    | .str parts :: r => (strParts f parts).map fun ps => (.str none ps, r)
    | _ => none

/-- `Parser::path_part` on the tokens of a `[` block (which end with the `]` token) -/
def pathPart : Nat → P Part
  | 0, _ => none
  | f+1, toks =>
    let done (ts : List Token) : Bool := match ts with | [t] => t.is [']'] | _ => false
    if done toks then some (.range none none, toks)
    else match char0 ':' toks with
      | some r => (term f r).map fun (t, r1) => (.range none (some t), r1)
      | none =>
        match term f toks with
        | none => none
        | some (tm, r) =>
          match char0 ':' r with
          | some r1 =>
            if done r1 then some (.range (some tm) none, r1)
            else (term f r1).map fun (t2, r2) => (.range (some tm) (some t2), r2)
          | none => some (.index tm, r)

/-- `Parser::path_part_opt`: `none` = error inside the brackets, `some (none, _)` = no bracket here -/
def pathPartOpt : Nat → List Token → Option (Option (Part × Bool) × List Token)
  | 0, _ => none
  | f+1, toks =>
    match toks with
    | .block '[' ts :: r =>
      match verifyLast [']'] (pathPart f ts) with
      | none => none
      | some p => some (some (p, (opt r).1), (opt r).2)
    | _ => some (none, toks)

/-- `core::iter::from_fn(|| self.path_part_opt()).collect()` -/
def pathParts : Nat → List Token → List (Part × Bool) → Option (List (Part × Bool) × List Token)
  | 0, _, _ => none
  | f+1, toks, acc =>
    match pathPartOpt f toks with
    | none => none
    | some (none, r) => some (acc, r)
    | some (some p, r) => pathParts f r (acc ++ [p])

/-- the `while let Some(key) = self.dot()` loop of `Parser::path` -/
def pathLoop : Nat → List Token → List (Part × Bool) → Option (List (Part × Bool) × List Token)
  | 0, _, _ => none
  | f+1, toks, acc =>
    match dot toks with
    | none => some (acc, toks)
    | some (key, r) =>
      let part : Option ((Part × Bool) × List Token) :=
        if key.isEmpty then
          match pathPartOpt f r with
          | none => none
          | some (some p, r1) => some (p, r1)
          | some (none, _) =>
            match strKey f r with
            | none => none
            | some (k, r1) => some ((.index k, (opt r1).1), (opt r1).2)
        else some ((.index (Term.fromStr key), (opt r).1), (opt r).2)
      match part with
      | none => none
      | some (p, r1) =>
        match pathParts f r1 (acc ++ [p]) with
        | none => none
        | some (acc', r2) => pathLoop f r2 acc'

/-- `Parser::path` -/
def path : Nat → P (List (Part × Bool))
  | 0, _ => none
  | f+1, toks =>
    match pathParts f toks [] with
    | none => none
    | some (ps, r) => pathLoop f r ps

/-- `Parser::obj_entry` -/
def objEntry : Nat → P (Term × Option Term)
  | 0, _ => none
  | f+1, toks =>
    match toks with
    | .block '(' ts :: r =>
      match verifyLast [')'] (term f ts) with
      | none => none
      | some k =>
        match just [':'] r with
        | none => none
        | some (_, r1) => (termWithComma f false r1).map fun (v, r2) => ((k, some v), r2)
    | _ =>
      let key : Option (Term × List Token) :=
        match toks with
        | .var id :: r => some (.var id, r)
        | .word id :: r => if containsColons id then strKey f toks else some (Term.fromStr id, r)
        | _ => strKey f toks
      match key with
      | none => none
      | some (k, r) =>
        match char0 ':' r with
        | none => some ((k, none), r)
        | some r1 => (termWithComma f false r1).map fun (v, r2) => ((k, some v), r2)

/-- the big `match self.i.next()` of `Parser::atom` (before postfix `?` and path) -/
def atomHead : Nat → Token → P Term
  | 0, _, _ => none
  | f+1, t, rest =>
    if t.is ['-'] then (atom f rest).map fun (a, r) => (.neg a, r)
    else if t.is (kw "def") then
      match defTail f rest with
      | none => none
      | some (d, r) =>
        match defs f r [] with
        | none => none
        | some (ds, r1) => (term f r1).map fun (tm, r2) => (.defs (d :: ds) tm, r2)
    else if t.is (kw "if") then
      match ifThen f rest with
      | none => none
      | some (it, r) => (elifs f r [it]).map fun ((its, e), r1) => (.ite its e, r1)
    else if t.is (kw "try") then
      match atom f rest with
      | none => none
      | some (a, r) =>
        match r with
        | c :: r1 =>
          if c.is (kw "catch") then (atom f r1).map fun (h, r2) => (.tryCatch a (some h), r2)
          else some (.tryCatch a none, r)
        | [] => some (.tryCatch a none, r)
    else if t.is (kw "label") then
      match pVar rest with
      | none => none
      | some (x, r) =>
        match just ['|'] r with
        | none => none
        | some (_, r1) => (term f r1).map fun (tm, r2) => (.label x tm, r2)
    else if t.is (kw "break") then (pVar rest).map fun (x, r) => (.brk x, r)
    else if t.is (kw "reduce") || t.is (kw "foreach") then
      match atom f rest with
      | none => none
      | some (xs, r) =>
        match just ['a', 's'] r with
        | none => none
        | some (_, r1) =>
          match pattern f r1 with
          | none => none
          | some (x, r2) =>
            (args (term f) f r2).map fun (as, r3) => (.fold (t.simple?.getD []) xs x as, r3)
    else
      match t with
      | .var id => some (.var id, rest)
      | .fmt id =>
        match rest with
        | .str parts :: r => (strParts f parts).map fun ps => (.str (some id) ps, r)
        | _ => (args (term f) f rest).map fun (as, r) => (.call id as, r)
      | .word id => (args (term f) f rest).map fun (as, r) => (.call id as, r)
      | .sym c =>
        if c = ['.', '.'] then some (.recurse, rest)
        else match c with
          | '.' :: k =>
            let key : Option (Term × List Token) :=
              if k.isEmpty then strKey f rest  -- `self.maybe(|p| p.str_key().ok())`
              else some (Term.fromStr k, rest)
            (match key with
            | some (key, r) =>
              match path f (opt r).2 with
              | none => none
              | some (ps, r1) => some (.path .id ((.index key, (opt r).1) :: ps), r1)
            | none => some (.id, rest))
          | _ => none
      | .num n => some (.num n, rest)
      | .block o ts =>
        if o = '[' then
          match ts with
          | [c] => if c.is [']'] then some (.arr none, rest)
                   else (verifyLast [']'] (term f ts)).map fun tm => (.arr (some tm), rest)
          | _ => (verifyLast [']'] (term f ts)).map fun tm => (.arr (some tm), rest)
        else if o = '{' then
          match ts with
          | [c] => if c.is ['}'] then some (.obj [], rest)
                   else (objItems (objEntry f) f ts).map fun es => (.obj es, rest)
          | _ => (objItems (objEntry f) f ts).map fun es => (.obj es, rest)
        else (verifyLast [')'] (term f ts)).map fun tm => (tm, rest)
      | .str parts => (strParts f parts).map fun ps => (.str none ps, rest)

/-- `Parser::atom` -/
def atom : Nat → P Term
  | 0, _ => none
  | f+1, toks =>
    match toks with
    | [] => none
    | t :: rest =>
      match atomHead f t rest with
      | none => none
      | some (tm, r) =>
        let tm := if (opt r).1 then Term.tryCatch tm none else tm
        match path f (opt r).2 with
        | none => none
        | some (ps, r1) => some (if ps.isEmpty then tm else .path tm ps, r1)
end

mutual
def Token.size : Token → Nat
  | .str ps => 1 + SPart.sizes ps
  | .block _ ts => 1 + Token.sizes ts
  | _ => 1
def Token.sizes : List Token → Nat
  | [] => 0
  | t :: ts => t.size + Token.sizes ts
def SPart.sizes : List SPart → Nat
  | [] => 0
  | .interp t :: ps => 1 + t.size + SPart.sizes ps
  | _ :: ps => 1 + SPart.sizes ps
end

def parseFuel (toks : List Token) : Nat := 12 * Token.sizes toks + 16

/-- `Parser::parse(|p| p.term())` on the tokens -/
def parseToks (toks : List Token) : Option Term :=
  verifyLast [] (term (parseFuel toks) toks)

/-- `jaq_core::load::parse(text, |p| p.term())` -/
def parse (s : Str) : Option Term :=
  match lex s with
  | none => none
  | some toks => parseToks toks

end Jaq.C15
