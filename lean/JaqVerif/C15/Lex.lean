/-
  C15 — model of `jaq-core/src/load/lex.rs` (whole file) on `List Char`.

  Rust `&str` slices are `List Char`; the lexer state `self.i` is the remaining input, threaded
  explicitly.  `self.e` (list of errors) is modelled by `Option`: `Lexer::lex` returns `Err` iff any
  error was pushed, and no function of the lexer loops or panics after an error, so aborting on
  the first error gives the same accept/reject verdict and the same tokens on accept.

  `Token(s, tok)`: for `Word/Var/Fmt/Num/Sym` the slice `s` is kept.  For `Str` and `Block` the
  parser never reads more of `s` than its first character (`full.starts_with('(')`, `&full[..1]`;
  all other uses are comparisons with keywords/symbols, which a slice starting with `"`, `(`,
  `[`, `{` and of length ≥ 2 never equals), so `Block` keeps the opening character only and `Str` nothing.
  Consequently tokens do not contain the trivia that occurred inside blocks.
-/
namespace Jaq.C15

abbrev Str := List Char

mutual
/-- `lex::Token` / `lex::Tok` -/
inductive Token where
  | word (s : Str)
  | var (s : Str)
  | fmt (s : Str)
  | num (s : Str)
  | sym (s : Str)
  | str (parts : List SPart)
  | block (opn : Char) (toks : List Token)
/-- `lex::StrPart<&str, Token>` -/
inductive SPart where
  | lit (s : Str)
  | interp (t : Token)
  | chr (c : Char)
end

instance : Inhabited Token := ⟨.sym []⟩

/-- Rust `char::is_whitespace` (Unicode `White_Space`), used by `str::trim_start` -/
def isWs (c : Char) : Bool :=
  let n := c.toNat
  (9 ≤ n && n ≤ 13) || n = 0x20 || n = 0x85 || n = 0xA0 || n = 0x1680 ||
  (0x2000 ≤ n && n ≤ 0x200A) || n = 0x2028 || n = 0x2029 || n = 0x202F || n = 0x205F || n = 0x3000

def trimStart (s : Str) : Str := s.dropWhile isWs

/-- `split_once('\n').unwrap_or((s, ""))` -/
def splitLine : Str → Str × Str
  | [] => ([], [])
  | c :: cs => if c = '\n' then ([], cs) else ((splitLine cs).1.cons c, (splitLine cs).2)

/-- `before.strip_suffix('\r').unwrap_or(before)` -/
def stripCR (l : Str) : Str := if l.getLast? = some '\r' then l.dropLast else l

/-- `before.chars().rev().take_while(|c| *c == '\\').count()` -/
def trailingBackslashes (l : Str) : Nat := (l.reverse.takeWhile (· = '\\')).length

/-- inner loop of `space`: ignore all lines that end with an odd number of backslashes -/
def comment : Nat → Str → Str
  | 0, s => s
  | f+1, s =>
    if trailingBackslashes (stripCR (splitLine s).1) % 2 = 0 then (splitLine s).2
    else comment f (splitLine s).2

/-- `Lexer::space` (fuel: one unit per comment) -/
def spaceF : Nat → Str → Str
  | 0, s => s
  | f+1, s =>
    match trimStart s with
    | '#' :: c => spaceF f (comment (c.length + 1) c)
    | s' => s'

def space (s : Str) : Str := spaceF (s.length + 1) s

def isIdStart (c : Char) : Bool := c.isAlpha || c = '_'
def isIdChar (c : Char) : Bool := c.isAlphanum || c = '_'
def isHdOp (c : Char) : Bool :=
  c = '|' || c = '=' || c = '!' || c = '<' || c = '>' || c = '+' || c = '-' || c = '*' || c = '/' || c = '%'
def isTlOp (c : Char) : Bool := isHdOp c && c != '-'

def ident0 (s : Str) : Str := s.dropWhile isIdChar

def ident1 : Str → Option Str
  | c :: r => if isIdStart c then some (ident0 r) else none
  | [] => none

def modThenIdent (s : Str) : Option Str :=
  match ident0 s with
  | ':' :: ':' :: rest =>
    ident1 (match rest with
      | '@' :: r => r
      | '$' :: r => r
      | r => r)
  | s' => some s'

def digits1 : Str → Option Str
  | c :: r => if c.isDigit then some (r.dropWhile Char.isDigit) else none
  | [] => none

/-- `Lexer::num` (after the first digit) -/
def numRest (s : Str) : Option Str := do
  let s := s.dropWhile Char.isDigit
  let s ← (match s with
    | '.' :: r => digits1 r
    | _ => some s)
  match s with
  | c :: r =>
    if c = 'e' || c = 'E' then
      digits1 (match r with
        | '+' :: r' => r'
        | '-' :: r' => r'
        | _ => r)
    else some s
  | [] => some s

/-- the prefix of `start` consumed when `rest` remains (`with_consumed`) -/
def consumed (start rest : Str) : Str := start.take (start.length - rest.length)

def hexVal (c : Char) : Option Nat :=
  if c.isDigit then some (c.toNat - 48)
  else if 'a' ≤ c ∧ c ≤ 'f' then some (c.toNat - 87)
  else if 'A' ≤ c ∧ c ≤ 'F' then some (c.toNat - 55)
  else none

/-- `\uXXXX`: four hex digits that are a Unicode scalar value -/
def unicode4 : Str → Option (Char × Str)
  | a :: b :: c :: d :: r => do
    let n := (((← hexVal a) * 16 + (← hexVal b)) * 16 + (← hexVal c)) * 16 + (← hexVal d)
    if n < 0xD800 ∨ 0xE000 ≤ n then some (Char.ofNat n, r) else none
  | _ => none

def closeOf (o : Char) : Char := if o = '(' then ')' else if o = '[' then ']' else '}'

def isStrBody (c : Char) : Bool := c != '\\' && c != '"'

mutual
/-- `Lexer::token`: `none` = error (or fuel), `some (none, s)` = no token at `s` -/
def token : Nat → Str → Option (Option Token × Str)
  | 0, _ => none
  | f+1, s0 =>
    match space s0 with
    | [] => some (none, [])
    | c :: cs =>
      if isIdStart c then (modThenIdent cs).map fun r => (some (.word (consumed (c :: cs) r)), r)
      else if c = '$' then (ident1 cs).map fun r => (some (.var (consumed (c :: cs) r)), r)
      else if c = '@' then (ident1 cs).map fun r => (some (.fmt (consumed (c :: cs) r)), r)
      else if c.isDigit then (numRest cs).map fun r => (some (.num (consumed (c :: cs) r)), r)
      else if isHdOp c then
        some (some (.sym (c :: cs.takeWhile isTlOp)), cs.dropWhile isTlOp)
      else if c = '.' then
        match cs with
        | d :: r =>
          if d = '.' then some (some (.sym ['.', '.']), r)
          else if isIdStart d then some (some (.sym ('.' :: d :: r.takeWhile isIdChar)), ident0 r)
          else some (some (.sym ['.']), cs)
        | [] => some (some (.sym ['.']), cs)
      else if c = ':' || c = ';' || c = ',' || c = '?' then some (some (.sym [c]), cs)
      else if c = '"' then (strLoop f cs []).map fun (ps, r) => (some (.str ps), r)
      else if c = '(' || c = '[' || c = '{' then (block f c cs).map fun (t, r) => (some t, r)
      else some (none, c :: cs)
/-- `Lexer::tokens` -/
def tokens : Nat → Str → Option (List Token × Str)
  | 0, _ => none
  | f+1, s =>
    match token f s with
    | none => none
    | some (none, s') => some ([], s')
    | some (some t, s') => (tokens f s').map fun (ts, r) => (t :: ts, r)
/-- `Lexer::block` after the opening delimiter `o` -/
def block : Nat → Char → Str → Option (Token × Str)
  | 0, _, _ => none
  | f+1, o, s =>
    match tokens f s with
    | none => none
    | some (ts, s1) =>
      match space s1 with
      | c :: r => if c = closeOf o then some (.block o (ts ++ [.sym [c]]), r) else none
      | [] => none
/-- loop of `Lexer::str` after the opening quote -/
def strLoop : Nat → Str → List SPart → Option (List SPart × Str)
  | 0, _, _ => none
  | f+1, s, acc =>
    let lit := s.takeWhile isStrBody
    let acc := if lit.isEmpty then acc else acc ++ [.lit lit]
    match s.dropWhile isStrBody with
    | c :: r =>
      if c = '"' then some (acc, r)
      else -- `c = '\\'`
        match escape f r with
        | none => none
        | some (p, r') => strLoop f r' (acc ++ [p])
    | [] => none
/-- `Lexer::escape` after the backslash -/
def escape : Nat → Str → Option (SPart × Str)
  | 0, _ => none
  | f+1, s =>
    match s with
    | [] => none
    | c :: r =>
      if c = '\\' || c = '/' || c = '"' then some (.chr c, r)
      else if c = 'b' then some (.chr (Char.ofNat 8), r)
      else if c = 'f' then some (.chr (Char.ofNat 12), r)
      else if c = 'n' then some (.chr '\n', r)
      else if c = 'r' then some (.chr '\r', r)
      else if c = 't' then some (.chr '\t', r)
      else if c = 'u' then (unicode4 r).map fun (ch, r') => (.chr ch, r')
      else if c = '(' then (block f '(' r).map fun (t, r') => (.interp t, r')
      else none
end

def lexFuel (s : Str) : Nat := 4 * s.length + 8

/-- `Lexer::lex` -/
def lex (s : Str) : Option (List Token) :=
  match tokens (lexFuel s) s with
  | none => none
  | some (ts, r) => if (space r).isEmpty then some ts else none

end Jaq.C15
