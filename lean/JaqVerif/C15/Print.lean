/-
  C15 — an independent printer for jq programs, written from the manual's grammar
  (docs/corelang.dj), NOT from the parser:

  * `PT` / `PT.toks`: operator trees with explicit parenthesis nodes, printed to tokens — the
    printer of theorem `parse_print` (Props/C15.lean): any number of operators, any placement
    of parentheses that includes the ones the precedence table requires (`PT.Ok`).
  * `pr` / `render`: the whole surface syntax (all shorthand forms, chosen by a stream of
    choices), with minimal (`mode = 0`), full (`1`) or random redundant (`2`) parentheses, and
    `render` with arbitrary trivia (spaces, newlines, comments with continuation lines) between
    tokens.  Used by the correspondence: `real_parse (render (pr t)) = t`.
-/
import JaqVerif.C15.Parse

namespace Jaq.C15
open PrecOp

/-! ## operator trees with parentheses (printer of `parse_print`) -/

/-- the tokens of a binary operator -/
def BinOp.toks : BinOp → List Token
  | .pipe none => [.sym ['|']]
  | .pipe (some (.var x)) => [.word ['a', 's'], .var x, .sym ['|']]
  | .pipe (some _) => []   -- only variable patterns are printed by `PT.toks`
  | .comma => [.sym [',']]
  | .alt => [.sym ['/', '/']]
  | .or => [.word ['o', 'r']]
  | .and => [.word ['a', 'n', 'd']]
  | .math .add => [.sym ['+']]
  | .math .sub => [.sym ['-']]
  | .math .mul => [.sym ['*']]
  | .math .div => [.sym ['/']]
  | .math .rem => [.sym ['%']]
  | .cmp .lt => [.sym ['<']]
  | .cmp .le => [.sym ['<', '=']]
  | .cmp .gt => [.sym ['>']]
  | .cmp .ge => [.sym ['>', '=']]
  | .cmp .eq => [.sym ['=', '=']]
  | .cmp .ne => [.sym ['!', '=']]
  | .assign => [.sym ['=']]
  | .update => [.sym ['|', '=']]
  | .updateMath .add => [.sym ['+', '=']]
  | .updateMath .sub => [.sym ['-', '=']]
  | .updateMath .mul => [.sym ['*', '=']]
  | .updateMath .div => [.sym ['/', '=']]
  | .updateMath .rem => [.sym ['%', '=']]
  | .updateAlt => [.sym ['/', '/', '=']]

/-- simple operands: a number, a variable, a call without arguments -/
inductive Leaf where
  | num (s : Str)
  | var (s : Str)
  | call (s : Str)

def Leaf.tok : Leaf → Token
  | .num s => .num s
  | .var s => .var s
  | .call s => .word s

def Leaf.term : Leaf → Term
  | .num s => .num s
  | .var s => .var s
  | .call s => .call s []

/-- operator trees with explicit (required or redundant) parentheses -/
inductive PT where
  | leaf (a : Leaf)
  | bin (l : PT) (o : BinOp) (r : PT)
  | paren (t : PT)

/-- the program without its parentheses -/
def PT.erase : PT → Term
  | .leaf a => a.term
  | .bin l o r => .binop l.erase o r.erase
  | .paren t => t.erase

/-- the printer: in-order tokens; a parenthesised subtree is one `Block` token -/
def PT.toks : PT → List Token
  | .leaf a => [a.tok]
  | .bin l o r => l.toks ++ o.toks ++ r.toks
  | .paren t => [.block '(' (t.toks ++ [.sym [')']])]

/-! ## the whole surface syntax -/

inductive Piece where
  /-- a lexeme before which trivia may be inserted -/
  | tok (s : Str)
  /-- text that must follow the previous piece immediately (inside string literals) -/
  | glue (s : Str)

/-- printing context of a sub-term -/
inductive Ctx where
  /-- a whole term up to a closing delimiter: anything goes -/
  | term
  /-- object value: no unparenthesised comma -/
  | noComma
  /-- operand of a binary operator; `left`: left operand; `rm`: nothing follows the operand in
      the enclosing unparenthesised term -/
  | operand (o : BinOp) (left : Bool) (rm : Bool)
  /-- where the grammar wants an atomic term (after `-`, `try`, `catch`, `reduce`, `foreach`) -/
  | atom
  /-- body of `try … catch`: must not end in an open `try` (dangling `catch`) -/
  | tryBody
  /-- before a postfix `?` -/
  | baseOpt
  /-- before a path suffix -/
  | basePath

abbrev M := StateM (List Nat)

/-- next choice, in `[0, n)` (`0` when the stream is exhausted: the plainest form) -/
def pick (n : Nat) : M Nat := modifyGet fun
  | [] => (0, [])
  | c :: cs => (c % n, cs)

def isIdent : Str → Bool
  | c :: r => isIdStart c && r.all isIdChar
  | [] => false

def tk (s : String) : Piece := .tok s.toList

/-- any comma among the operators reachable through operands -/
def openComma : Nat → Term → Bool
  | 0, _ => true
  | f+1, .binop l o r => (match o with | .comma => true | _ => false) || openComma f l || openComma f r
  | _, _ => false

def needParens (ctx : Ctx) (t : Term) : Bool :=
  match ctx, t with
  | .term, _ => false
  | .noComma, t => openComma 1000 t || (match t with | .defs _ _ | .label _ _ => true | _ => false)
  | .operand o left rm, .binop _ o' _ =>
    (o'.isAs && !rm) ||
    !(if left then decide (prec o' > prec o) || (prec o' == prec o && !ra o')
      else o.isAs || decide (prec o' > prec o) || (prec o' == prec o && ra o))
  | .operand _ left rm, .defs _ _ => left || !rm
  | .operand _ left rm, .label _ _ => left || !rm
  | .operand _ _ _, _ => false
  | .atom, .binop _ _ _ | .atom, .defs _ _ | .atom, .label _ _ => true
  | .atom, _ => false
  | .tryBody, t =>
    (match t with
    | .id | .recurse | .num _ | .str _ _ | .arr _ | .obj _ | .call _ _ | .var _ | .brk _
    | .ite _ _ | .fold _ _ _ _ | .path _ _ => false
    | _ => true)
  | .baseOpt, t | .basePath, t =>
    match t with
    | .id | .recurse | .num _ | .str _ _ | .arr _ | .obj _ | .call _ _ | .var _ | .brk _
    | .ite _ _ | .fold _ _ _ _ => false
    | .tryCatch _ none => (match ctx with | .basePath => false | _ => true)
    | _ => true

def hex4 (n : Nat) : Str :=
  let d (k : Nat) : Char :=
    let x := (n / 16 ^ k) % 16
    if x < 10 then Char.ofNat (48 + x) else Char.ofNat (87 + x)
  [d 3, d 2, d 1, d 0]

def escChr (c : Char) : Str :=
  if c = '\\' then ['\\', '\\'] else if c = '"' then ['\\', '"'] else if c = '\n' then ['\\', 'n']
  else if c = '\t' then ['\\', 't'] else if c = '\r' then ['\\', 'r']
  else if c = Char.ofNat 8 then ['\\', 'b'] else if c = Char.ofNat 12 then ['\\', 'f']
  else if c = '/' then ['\\', '/']
  else '\\' :: 'u' :: hex4 c.toNat

def sepBy (sep : List Piece) : List (List Piece) → List Piece
  | [] => []
  | [x] => x
  | x :: xs => x ++ sep ++ sepBy sep xs

mutual
/-- print a term in a context; `mode`: 0 minimal, 1 full, 2 random redundant parentheses -/
def pr : Nat → Nat → Ctx → Term → M (List Piece)
  | 0, _, _, _ => pure []
  | f+1, mode, ctx, t => do
    let extra ← (match mode with
      | 0 => pure 0
      | 1 => pure 1
      | _ => do
        let c ← pick 6
        pure (if c = 0 then 1 else if c = 1 then 2 else 0))
    if needParens ctx t || extra > 0 then
      let inner ← prRaw f mode .term t
      let n := if extra = 2 then 2 else 1
      pure (List.replicate n (tk "(") ++ inner ++ List.replicate n (tk ")"))
    else prRaw f mode ctx t

/-- print the constructor itself -/
def prRaw : Nat → Nat → Ctx → Term → M (List Piece)
  | 0, _, _, _ => pure []
  | f+1, mode, ctx, t => do
    match t with
    | .id => pure [tk "."]
    | .recurse => pure [tk ".."]
    | .num s => pure [.tok s]
    | .var x => pure [.tok x]
    | .brk x => pure [tk "break", .tok x]
    | .str fmt parts => prStr f mode fmt parts
    | .arr none => pure [tk "[", tk "]"]
    | .arr (some t) => do
      let i ← pr f mode .term t
      pure ([tk "["] ++ i ++ [tk "]"])
    | .obj es => do
      let xs ← es.mapM (prEntry f mode)
      let trailing ← pick 5
      let tr := if trailing = 1 && !es.isEmpty then [tk ","] else []
      pure ([tk "{"] ++ sepBy [tk ","] xs ++ tr ++ [tk "}"])
    | .neg t => do
      let i ← pr f mode .atom t
      pure (tk "-" :: i)
    | .binop l o r => do
      let rm := match ctx with
        | .term => true
        | .noComma => false   -- an open `def`/`label` would swallow the following entries
        | .operand _ left rm => !left && rm
        | _ => false
      let lp ← pr f mode (.operand o true false) l
      let op ← (match o with
        | .pipe (some p) => do
          let pp ← prPat f mode p
          pure ([tk "as"] ++ pp ++ [tk "|"])
        | o => pure ((o.toks.map fun t => Piece.tok (t.simple?.getD []))))
      let rp ← pr f mode (.operand o false rm) r
      pure (lp ++ op ++ rp)
    | .label x t => do
      let i ← pr f mode .term t
      pure ([tk "label", .tok x, tk "|"] ++ i)
    | .fold kind xs pat as => do
      let x ← pr f mode .atom xs
      let p ← prPat f mode pat
      let a ← prArgs f mode as
      pure ([.tok kind] ++ x ++ [tk "as"] ++ p ++ a)
    | .tryCatch t none => do
      let c ← (match ctx with
        | .basePath => pure 1
        | _ => pick 2)
      if c = 1 then
        let i ← pr f mode .baseOpt t
        let q ← pick 4   -- `f??` is `f?`
        pure (i ++ [tk "?"] ++ (if q = 3 then [tk "?"] else []))
      else
        let i ← pr f mode .atom t
        pure (tk "try" :: i)
    | .tryCatch t (some c) => do
      let i ← pr f mode .tryBody t
      let j ← pr f mode .atom c
      pure (tk "try" :: i ++ tk "catch" :: j)
    | .ite its els => do
      let bs ← its.mapM fun (c, t) => do
        let cp ← pr f mode .term c
        let tp ← pr f mode .term t
        pure (cp ++ [tk "then"] ++ tp)
      let e ← (match els with
        | none => pure []
        | some e => do
          let ep ← pr f mode .term e
          pure (tk "else" :: ep))
      pure ([tk "if"] ++ sepBy [tk "elif"] bs ++ e ++ [tk "end"])
    | .defs ds t => do
      let xs ← ds.mapM fun
        | .mk name as body => do
          let b ← pr f mode .term body
          let a := if as.isEmpty then [] else [tk "("] ++ sepBy [tk ";"] (as.map fun a => [Piece.tok a]) ++ [tk ")"]
          pure ([tk "def", .tok name] ++ a ++ [tk ":"] ++ b ++ [tk ";"])
      -- `def f: …; def g: …; t` is ONE list of definitions: a nested `Def` needs parentheses
      let i ← pr f mode (match t with | .defs _ _ => Ctx.atom | _ => Ctx.term) t
      pure (xs.flatten ++ i)
    | .call name as => do
      let a ← prArgs f mode as
      pure (.tok name :: a)
    | .path base parts => do
      match base, parts with
      | .id, (p, o) :: rest => do
        let hd ← prPart f mode true p o
        let tl ← rest.mapM fun (p, o) => prPart f mode false p o
        pure (hd ++ tl.flatten)
      | base, parts => do
        let b ← pr f mode .basePath base
        let tl ← parts.mapM fun (p, o) => prPart f mode false p o
        pure (b ++ tl.flatten)

/-- `(a; b; c)` or nothing -/
def prArgs : Nat → Nat → List Term → M (List Piece)
  | 0, _, _ => pure []
  | f+1, mode, as => do
    if as.isEmpty then pure []
    else
      let xs ← as.mapM (pr f mode .term)
      pure ([tk "("] ++ sepBy [tk ";"] xs ++ [tk ")"])

/-- a string literal with escapes and interpolation, with optional `@fmt` -/
def prStr : Nat → Nat → Option Str → List StrPart → M (List Piece)
  | 0, _, _, _ => pure []
  | f+1, mode, fmt, parts => do
    let ps ← parts.mapM fun
      | .lit s => pure [Piece.glue s]
      | .chr c => pure [Piece.glue (escChr c)]
      | .term t => do
        let i ← pr f mode .term t
        pure ([Piece.glue ['\\', '(']] ++ i ++ [tk ")"])
    let pre := match fmt with
      | some x => [Piece.tok x]
      | none => []
    pure (pre ++ [tk "\""] ++ ps.flatten ++ [Piece.glue ['"']])

/-- a key in an object or object pattern: identifier, string, or `(term)` -/
def prKey : Nat → Nat → Term → M (List Piece)
  | 0, _, _ => pure []
  | f+1, mode, k => do
    match k with
    | .str none [.lit s] =>
      let c ← pick 3
      if isIdent s && c != 1 then pure [.tok s] else prStr f mode none [.lit s]
    | .str fmt parts =>
      let c ← pick 4
      if c = 3 then do
        let i ← prStr f mode fmt parts
        pure ([tk "("] ++ i ++ [tk ")"])
      else prStr f mode fmt parts
    | k => do
      let i ← pr f mode .term k
      pure ([tk "("] ++ i ++ [tk ")"])

/-- object entry -/
def prEntry : Nat → Nat → Term × Option Term → M (List Piece)
  | 0, _, _ => pure []
  | f+1, mode, (k, v) => do
    match k, v with
    | .var x, none => pure [.tok x]
    | .var x, some v => do
      let vp ← pr f mode .noComma v
      pure ([.tok x, tk ":"] ++ vp)
    | .str none [.lit s], none =>
      let c ← pick 3
      if isIdent s && c != 1 then pure [.tok s] else prStr f mode none [.lit s]
    | .str fmt parts, none => prStr f mode fmt parts
    | k, some v => do
      let kp ← prKey f mode k
      let vp ← pr f mode .noComma v
      pure (kp ++ [tk ":"] ++ vp)
    | k, none => do  -- not in the image of the parser; printed as `(k): .` (never generated)
      let kp ← prKey f mode k
      pure (kp ++ [tk ":", tk "."])

/-- one path part; `first`: directly after the `.` of an identity base -/
def prPart : Nat → Nat → Bool → Part → Bool → M (List Piece)
  | 0, _, _, _, _ => pure []
  | f+1, mode, first, p, o => do
    let q := if o then [tk "?"] else []
    let q ← (if o then do
        let c ← pick 4
        pure (if c = 3 then [tk "?", tk "?"] else q)
      else pure q)
    match p with
    | .index (.str none [.lit s]) =>
      let c ← pick 5
      if isIdent s && c < 2 then pure ([Piece.tok ('.' :: s)] ++ q)
      else if c = 2 || c < 2 then do
        let sp ← prStr f mode none [.lit s]
        pure ([tk "."] ++ sp ++ q)
      else do
        let sp ← prStr f mode none [.lit s]
        let dotted := first || c = 4
        pure ((if dotted then [tk "."] else []) ++ [tk "["] ++ sp ++ [tk "]"] ++ q)
    | .index (.str fmt parts) =>
      let c ← pick 3
      let sp ← prStr f mode fmt parts
      if c < 2 then pure ([tk "."] ++ sp ++ q)
      else pure ((if first || c = 3 then [tk "."] else []) ++ [tk "["] ++ sp ++ [tk "]"] ++ q)
    | .index t => do
      let c ← pick 3
      let i ← pr f mode .term t
      pure ((if first || c = 1 then [tk "."] else []) ++ [tk "["] ++ i ++ [tk "]"] ++ q)
    | .range a b => do
      let c ← pick 3
      let ap ← (match a with
        | none => pure []
        | some a => pr f mode .term a)
      let bp ← (match b with
        | none => pure []
        | some b => pr f mode .term b)
      let colon := match a, b with
        | none, none => []
        | _, _ => [tk ":"]
      pure ((if first || c = 1 then [tk "."] else []) ++ [tk "["] ++ ap ++ colon ++ bp ++ [tk "]"] ++ q)

/-- patterns -/
def prPat : Nat → Nat → Pattern → M (List Piece)
  | 0, _, _ => pure []
  | f+1, mode, p => do
    match p with
    | .var x => pure [.tok x]
    | .arr ps => do
      let xs ← ps.mapM (prPat f mode)
      pure ([tk "["] ++ sepBy [tk ","] xs ++ [tk "]"])
    | .obj es => do
      let xs ← es.mapM fun (k, p) => do
        let short := match k, p with
          | .str none [.lit s], .var x => x == '$' :: s
          | _, _ => false
        let c ← pick 3
        if short && c != 1 then pure [Piece.tok (match p with | .var x => x | _ => [])]
        else do
          let kp ← prKey f mode k
          let pp ← prPat f mode p
          pure (kp ++ [tk ":"] ++ pp)
      let trailing ← pick 5
      let tr := if trailing = 1 && !es.isEmpty then [tk ","] else []
      pure ([tk "{"] ++ sepBy [tk ","] xs ++ tr ++ [tk "}"])
end

/-! ## rendering pieces with trivia -/

/-- would lexeme `b` be glued to the text ending in `a`? (conservative) -/
def clash (a b : Char) : Bool :=
  (isIdChar a && isIdChar b) || (a.isDigit && b = '.') || (a = '.' && (isIdStart b || b = '.')) ||
  (isHdOp a && isTlOp b)

def triviaPool : List String := [
  "", " ", "", "  ", "\n", "\t", " ", "\r\n", " # comment\n", "#\n", "# a \\\n continued \\\\\\\n more\n",
  " # even \\\\\n", "#\\\r\n x\n", "\n# x\n# y\n  ", "# \\\\\\\\\n", " ", "  ",
  -- a backslash followed by blanks before the newline does NOT continue the comment
  "# note \\ \n", "# t \\\t\n", "#\\ \r\n", "# odd \\\\\\  \n", "# e \\ \\\n cont \\ \n",
  -- Unicode white space (`char::is_whitespace`): NBSP, EM SPACE + IDEOGRAPHIC SPACE, VT + FF, NEL, LS + PS, others
  "\u00a0", "\u2003\u3000", "\x0b\x0c", "\u0085", "\u2028\u2029", "\u1680 \u205f\u202f"]

def triviaNonEmpty : List String := triviaPool.filter (· ≠ "")

/-- what may follow the last token: trivia, or a comment that reaches the end of the input
(also through continuation lines) -/
def endPool : List String := [
  "", "", " ", "\n", "# end", "#", " # open \\", "# a \\\n b", "#\\\r\n x \\\\", "\t#x\\", "# c\n  ", "\u00a0#\\\n"]

/-- concatenate pieces; trivia chosen from the stream (`[]`: as little as possible) -/
def render : List Piece → Str → M Str
  | [], acc => do
    let c ← pick 1000
    pure (acc ++ (if c = 0 then "" else endPool[c % endPool.length]!).toList)
  | .glue s :: ps, acc => render ps (acc ++ s)
  | .tok s :: ps, acc => do
    let must := match acc.getLast?, s.head? with
      | some a, some b => clash a b
      | _, _ => false
    let c ← pick 1000
    let tr :=
      if must then (if c = 0 then " " else triviaNonEmpty[c % triviaNonEmpty.length]!)
      else (if c = 0 then "" else triviaPool[c % triviaPool.length]!)
    render ps (acc ++ tr.toList ++ s)

/-- print a term: parenthesis mode, choices for shorthand forms, choices for trivia -/
def printTerm (mode : Nat) (forms trivia : List Nat) (t : Term) : Str :=
  let pieces := (pr 100000 mode .term t).run' forms
  (render pieces []).run' trivia

end Jaq.C15
