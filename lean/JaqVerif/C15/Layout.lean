/-
  C15 — a declarative description of the texts the lexer accepts ("layouts"): a sequence of
  lexemes with ARBITRARY trivia (white space, comments with continuation lines) in front of,
  between and after them, nested through `(…)`, `[…]`, `{…}` and string interpolation `\(…)`.

  Nothing here refers to the lexer functions `token`, `tokens`, `block`, `strLoop`, `escape`,
  `space`: lexemes are described by their shape (regular expressions written as inductive
  predicates), trivia by `Trivia`/`CommentBody`, and the only side condition is the separation
  condition `Token.glues`: a lexeme must not be followed *immediately* by a character that
  would extend it (where two lexemes would glue, at least one trivia character is required).

  `Props/C15.lean` proves `lex text = some ts ↔ Layout ts text`.
-/
import JaqVerif.C15.Lex

namespace Jaq.C15

/-! ## trivia -/

/-- the body of a comment (what follows `#`) up to and including the newline that ends it:
lines that end in an odd number of backslashes (before an optional `\r`) continue the comment -/
inductive CommentBody : Str → Prop
  | last (l : Str) : '\n' ∉ l → trailingBackslashes (stripCR l) % 2 = 0 → CommentBody (l ++ ['\n'])
  | cont (l b : Str) : '\n' ∉ l → trailingBackslashes (stripCR l) % 2 = 1 → CommentBody b →
      CommentBody (l ++ '\n' :: b)

/-- trivia: any sequence of white space characters and complete comments -/
inductive Trivia : Str → Prop
  | nil : Trivia []
  | ws (c : Char) (t : Str) : isWs c = true → Trivia t → Trivia (c :: t)
  | comment (b t : Str) : CommentBody b → Trivia t → Trivia ('#' :: b ++ t)

/-- the body of a comment that reaches the end of the input (possibly through continuation lines) -/
inductive OpenBody : Str → Prop
  | eof (l : Str) : '\n' ∉ l → OpenBody l
  | cont (l b : Str) : '\n' ∉ l → trailingBackslashes (stripCR l) % 2 = 1 → OpenBody b →
      OpenBody (l ++ '\n' :: b)

/-- what may stand at the very end of the input after the last trivia: nothing, or a comment
that is not terminated by a newline -/
inductive EndComment : Str → Prop
  | none : EndComment []
  | open (b : Str) : OpenBody b → EndComment ('#' :: b)

/-! ## lexemes of the simple tokens -/

def allP (p : Char → Bool) (s : Str) : Prop := ∀ c ∈ s, p c = true

/-- `[a-zA-Z_][a-zA-Z0-9_]*` -/
inductive IsIdent : Str → Prop
  | mk (c : Char) (a : Str) : isIdStart c = true → allP isIdChar a → IsIdent (c :: a)

/-- `ident` or `ident::ident`, `ident::@ident`, `ident::$ident` -/
inductive IsWord : Str → Prop
  | plain (w : Str) : IsIdent w → IsWord w
  | qualified (m sg x : Str) : IsIdent m → (sg = [] ∨ sg = ['@'] ∨ sg = ['$']) → IsIdent x →
      IsWord (m ++ ':' :: ':' :: sg ++ x)

def isExpMark (c : Char) : Bool := c = 'e' || c = 'E'

/-- one or more decimal digits -/
def Digits1 (d : Str) : Prop := d ≠ [] ∧ allP Char.isDigit d

/-- `digits ('.' digits)? ([eE] [+-]? digits)?` -/
inductive IsNum : Str → Prop
  | mk (i fr ex : Str) : Digits1 i →
      (fr = [] ∨ ∃ d, fr = '.' :: d ∧ Digits1 d) →
      (ex = [] ∨ ∃ m sg d, ex = m :: sg ++ d ∧ isExpMark m = true ∧ (sg = [] ∨ sg = ['+'] ∨ sg = ['-']) ∧ Digits1 d) →
      IsNum (i ++ fr ++ ex)

/-- symbols: an operator `[|=!<>+-*/%][|=!<>+*/%]*`, `.`, `..`, `.ident`, `:`, `;`, `,`, `?` -/
inductive IsSym : Str → Prop
  | op (c : Char) (t : Str) : isHdOp c = true → allP isTlOp t → IsSym (c :: t)
  | dot : IsSym ['.']
  | dotdot : IsSym ['.', '.']
  | field (k : Str) : IsIdent k → IsSym ('.' :: k)
  | punct (c : Char) : c = ':' ∨ c = ';' ∨ c = ',' ∨ c = '?' → IsSym [c]

/-! ## the separation condition -/

def headP (p : Char → Bool) : Str → Bool
  | c :: _ => p c
  | [] => false

def startsColons : Str → Bool
  | a :: b :: _ => a == ':' && b == ':'
  | _ => false

def hasColons : Str → Bool
  | a :: b :: r => (a == ':' && b == ':') || hasColons (b :: r)
  | _ => false

/-- **would the text `r` that follows immediately be glued to the lexeme of token `t`?**
(exactly the cases in which the lexer would not cut the lexeme at its end)
* a word / variable / format / `.field` followed by a letter, digit or `_`; an unqualified word
  followed by `::`;
* a number followed by a digit; without exponent: by `e`/`E`; without fraction and exponent: by `.`;
* an operator followed by one of `|=!<>+*/%` (not `-`);  `.` followed by `.`, a letter or `_`;
* strings, blocks, `..`, `:`, `;`, `,`, `?` never glue. -/
def Token.glues : Token → Str → Bool
  | .word w, r => headP isIdChar r || (!hasColons w && startsColons r)
  | .var _, r => headP isIdChar r
  | .fmt _, r => headP isIdChar r
  | .num w, r =>
    headP Char.isDigit r ||
    (!w.any isExpMark && (headP isExpMark r || (!w.any (· == '.') && headP (· == '.') r)))
  | .sym s, r =>
    if s = ['.'] then headP (fun b => isIdStart b || b == '.') r
    else if s = ['.', '.'] then false
    else match s with
      | c :: _ => if c = '.' then headP isIdChar r else if isHdOp c then headP isTlOp r else false
      | [] => false
  | .str _, _ => false
  | .block _ _, _ => false

/-! ## escapes -/

/-- `\e` spells the character `c` inside a string literal -/
inductive IsEscape : Char → Str → Prop
  | self (c : Char) : c = '\\' ∨ c = '/' ∨ c = '"' → IsEscape c [c]
  | b : IsEscape (Char.ofNat 8) ['b']
  | f : IsEscape (Char.ofNat 12) ['f']
  | n : IsEscape '\n' ['n']
  | r : IsEscape '\r' ['r']
  | t : IsEscape '\t' ['t']
  /-- `\uXXXX`: four hexadecimal digits whose value is a Unicode scalar value (no surrogate) -/
  | u (h1 h2 h3 h4 : Char) (v1 v2 v3 v4 : Nat) :
      hexVal h1 = some v1 → hexVal h2 = some v2 → hexVal h3 = some v3 → hexVal h4 = some v4 →
      (((v1 * 16 + v2) * 16 + v3) * 16 + v4 < 0xD800 ∨ 0xE000 ≤ ((v1 * 16 + v2) * 16 + v3) * 16 + v4) →
      IsEscape (Char.ofNat (((v1 * 16 + v2) * 16 + v3) * 16 + v4)) ['u', h1, h2, h3, h4]

def isOpen (c : Char) : Bool := c = '(' || c = '[' || c = '{'

/-! ## layouts -/

mutual
/-- `Spells t s`: the text `s` (no trivia before or after) is a lexeme of the token `t` -/
inductive Spells : Token → Str → Prop
  | word (w : Str) : IsWord w → Spells (.word w) w
  | var (x : Str) : IsIdent x → Spells (.var ('$' :: x)) ('$' :: x)
  | fmt (x : Str) : IsIdent x → Spells (.fmt ('@' :: x)) ('@' :: x)
  | num (w : Str) : IsNum w → Spells (.num w) w
  | sym (s : Str) : IsSym s → Spells (.sym s) s
  /-- a string literal: opening quote, parts, closing quote -/
  | str (ps : List SPart) (s : Str) : SpellsParts ps s → Spells (.str ps) ('"' :: s)
  /-- a block: opening delimiter, a token sequence with its trivia, the matching closing
  delimiter (which the lexer appends to the block's tokens as a symbol) -/
  | block (o : Char) (ts : List Token) (s : Str) : isOpen o = true → Seq ts s →
      Spells (.block o (ts ++ [.sym [closeOf o]])) (o :: s ++ [closeOf o])
/-- `Seq ts s`: `s` is trivia, then a lexeme of the first token, trivia, …, a lexeme of the last
token, trivia — such that no lexeme is glued to what follows it -/
inductive Seq : List Token → Str → Prop
  | nil (tr : Str) : Trivia tr → Seq [] tr
  | cons (tr : Str) (t : Token) (l : Str) (ts : List Token) (rest : Str) :
      Trivia tr → Spells t l → Seq ts rest → t.glues rest = false → Seq (t :: ts) (tr ++ l ++ rest)
/-- the inside of a string literal up to and including the closing quote -/
inductive SpellsParts : List SPart → Str → Prop
  | nil : SpellsParts [] ['"']
  /-- a maximal run of characters other than `"` and `\` -/
  | lit (l : Str) (ps : List SPart) (rest : Str) : l ≠ [] → allP isStrBody l → SpellsParts ps rest →
      headP isStrBody rest = false → SpellsParts (.lit l :: ps) (l ++ rest)
  | chr (c : Char) (e : Str) (ps : List SPart) (rest : Str) : IsEscape c e → SpellsParts ps rest →
      SpellsParts (.chr c :: ps) ('\\' :: e ++ rest)
  /-- interpolation `\( … )` -/
  | interp (ts : List Token) (s : Str) (ps : List SPart) (rest : Str) : Seq ts s → SpellsParts ps rest →
      SpellsParts (.interp (.block '(' (ts ++ [.sym [')']])) :: ps) ('\\' :: '(' :: s ++ ')' :: rest)
end

/-- **`Layout ts text`**: the text consists of lexemes of the tokens `ts`, in order, with
arbitrary trivia around them (and possibly an unterminated comment at the very end) -/
def Layout (ts : List Token) (text : Str) : Prop :=
  ∃ body e, text = body ++ e ∧ Seq ts body ∧ EndComment e

end Jaq.C15
