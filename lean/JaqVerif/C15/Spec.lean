/-
  C15 — the manual's operator table, transcribed BY HAND from docs/corelang.dj, sections
  "Binary (complex)" / "Binary (simple)" ("This section lists all binary infix filters sorted by
  increasing precedence") and from the wording of property C15:

    `|` < `,` < `as $x |` < `=` `|=` `+=` `-=` `*=` `/=` `%=` `//=` < `//` < `or` < `and`
        < `==` `!=` < `<` `<=` `>` `>=` < `+` `-` < `*` `/` < `%`;
    `|` and the assignments group to the right, all others to the left;
    `… as $x | …` is interpreted like `… as $x | (…)` (extends as far right as possible), while
    to its left the regular precedences apply.
-/
namespace Jaq.C15.Spec

/-- operator texts in the order used by all tables -/
def specNames : List (List Char) := [
  ['|'], [','], ['a','s',' ','$','x',' ','|'],
  ['='], ['|','='], ['+','='], ['-','='], ['*','='], ['/','='], ['%','='], ['/','/','='],
  ['/','/'], ['o','r'], ['a','n','d'],
  ['=','='], ['!','='],
  ['<'], ['<','='], ['>'], ['>','='],
  ['+'], ['-'], ['*'], ['/'], ['%']]

/-- precedence level of each operator (position in the manual's list of increasing precedence) -/
def precSpec : List Nat := [
  0, 1, 2,
  3, 3, 3, 3, 3, 3, 3, 3,
  4, 5, 6,
  7, 7,
  8, 8, 8, 8,
  9, 9, 10, 10, 11]

/-- `true` = groups to the right: `|`, `as $x |` and the assignments -/
def assocSpec : List Bool := [
  true, false, true,
  true, true, true, true, true, true, true, true,
  false, false, false,
  false, false,
  false, false, false, false,
  false, false, false, false, false]

/-- index of `as $x |` -/
def asIdx : Nat := 2

/-- what the table says about `a opᵢ b opⱼ c`: `true` = `a opᵢ (b opⱼ c)`.
A binding's body extends as far right as possible; otherwise the tighter operator gets `b`,
and on one level the associativity decides. -/
def specGroup (i j : Nat) : Option Bool := do
  let pi ← precSpec[i]?
  let pj ← precSpec[j]?
  let ri ← assocSpec[i]?
  some (i == asIdx || pj > pi || (pj == pi && ri))

end Jaq.C15.Spec
