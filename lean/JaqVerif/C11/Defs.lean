/-
  C11 — the definitions of defs.jq that `Stream.lean` transcribes, as syntax trees.

  `expectedDefs` is written by hand, one entry next to the Lean function that models it.  On
  every run the harness prints the same definitions from the *real* parser's output for the
  real `jaq-core/src/defs.jq` and `jaq-std/src/defs.jq` into `Gen/C11Defs.lean`
  (`Jaq.C11.Gen.defs`), and `Props/C11.lean` re-proves `Gen.defs = expectedDefs` by `decide`.
  A change of one of these definitions therefore breaks the build and names the definition.
-/
namespace Jaq.C11

/-- the fragment of `jaq_core::load::parse::Term` these definitions use -/
inductive Tm where
  | id                                   -- `.`
  | dotdot                               -- `..`
  | nil | cons (a rest : Tm)             -- argument lists
  | num (s : String)
  | var (x : String)                     -- `$x` (with the `$`)
  | call (name : String) (args : Tm)     -- `f`, `f(a; b)`
  | pipe (l r : Tm)                      -- `l | r`
  | comma (l r : Tm)
  | and_ (l r : Tm) | or_ (l r : Tm)
  | math (op : String) (l r : Tm)        -- `l + r` (op as `Debug` prints it: "Add", …)
  | ite (c t e : Tm)                     -- `if c then t else e end`
  | def_ (name : String) (params : List String) (body rest : Tm)   -- `def name(params): body; rest`
  | reduce (xs : Tm) (x : String) (init upd : Tm)                  -- `reduce xs as $x (init; upd)`
  | iter (head : Tm) (opt : Bool)        -- `head[]` / `head[]?`
  | index (head idx : Tm)                -- `head[idx]`
  | other (dbg : String)                 -- anything else, as the parser's `Debug` output
  deriving DecidableEq, Repr

abbrev DefRow := String × List String × Tm

private def c0 (n : String) : Tm := .call n .nil
private def c1 (n : String) (a : Tm) : Tm := .call n (.cons a .nil)
private def c2 (n : String) (a b : Tm) : Tm := .call n (.cons a (.cons b .nil))
private def c3 (n : String) (a b c : Tm) : Tm := .call n (.cons a (.cons b (.cons c .nil)))
/-- `def rec: body; rec` -/
private def recDef (body : Tm) : Tm := .def_ "rec" [] body (c0 "rec")

/-- hand transcription of the definitions modelled in `Stream.lean` -/
def expectedDefs : List DefRow := [
  -- `select`            def select(f): if f then . else empty end;
  ("select", ["f"], .ite (c0 "f") .id (c0 "empty")),
  -- (range/3 is native)  def range(from; to): range(from; to; 1);
  ("range", ["from", "to"], c3 "range" (c0 "from") (c0 "to") (.num "1")),
  --                      def range(to): range(0; to);
  ("range", ["to"], c2 "range" (.num "0") (c0 "to")),
  -- `repeat_`           def repeat(f): def rec: f, rec; rec;
  ("repeat", ["f"], recDef (.comma (c0 "f") (c0 "rec"))),
  -- `recurse`           def recurse(f): def rec: ., (f | rec); rec;
  ("recurse", ["f"], recDef (.comma .id (.pipe (c0 "f") (c0 "rec")))),
  -- `iterOpt`           def recurse: recurse(.[]?);
  ("recurse", [], c1 "recurse" (.iter .id true)),
  -- `recurse2`          def recurse(f; cond): recurse(f | select(cond));
  ("recurse", ["f", "cond"], c1 "recurse" (.pipe (c0 "f") (c1 "select" (c0 "cond")))),
  -- `while_`            def while(cond; update): def rec: if cond then ., (update | rec) else empty end; rec;
  ("while", ["cond", "update"],
    recDef (.ite (c0 "cond") (.comma .id (.pipe (c0 "update") (c0 "rec"))) (c0 "empty"))),
  -- `until_`            def until(cond; update): def rec: if cond then . else update | rec end; rec;
  ("until", ["cond", "update"],
    recDef (.ite (c0 "cond") .id (.pipe (c0 "update") (c0 "rec")))),
  -- `nth`               def nth(n; g): first(skip(n; g));
  ("nth", ["n", "g"], c1 "first" (c2 "skip" (c0 "n") (c0 "g"))),
  -- `isempty`           def isempty(g): first((g | false), true);
  ("isempty", ["g"], c1 "first" (.comma (.pipe (c0 "g") (c0 "false")) (c0 "true"))),
  -- `all`               def all(g; cond): isempty(g | cond and empty);
  ("all", ["g", "cond"], c1 "isempty" (.pipe (c0 "g") (.and_ (c0 "cond") (c0 "empty")))),
  -- `any`               def any(g; cond): isempty(g | cond  or empty) | not;
  ("any", ["g", "cond"], .pipe (c1 "isempty" (.pipe (c0 "g") (.or_ (c0 "cond") (c0 "empty")))) (c0 "not")),
  --                      def all(cond): all(.[]; cond);   def any(cond): any(.[]; cond);
  ("all", ["cond"], c2 "all" (.iter .id false) (c0 "cond")),
  ("any", ["cond"], c2 "any" (.iter .id false) (c0 "cond")),
  --                      def all: all(.[]; .);            def any: any(.[]; .);
  ("all", [], c2 "all" (.iter .id false) .id),
  ("any", [], c2 "any" (.iter .id false) .id),
  -- `addRun`            def add(f): reduce f as $x (null; . + $x);      (jaq-std)
  ("add", ["f"], .reduce (c0 "f") "$x" (c0 "null") (.math "Add" .id (.var "$x"))),
  --                      def add: add(.[]);
  ("add", [], c1 "add" (.iter .id false))
]

end Jaq.C11
