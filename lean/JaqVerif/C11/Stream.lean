/-
  C11 — self-contained stream algebra (layer L1 of DESIGN §2: prefix-preserving outcomes) and
  impl-models of jaq's native stream combinators, written function by function after

    /repo/jaq-core/src/funs.rs   first! last! limit! skip! while_gtz! range once_or_empty
    /repo/jaq-core/src/fold.rs   fold  (explicit stack, Input/Output frames)
    /repo/jaq-core/src/filter.rs fold_run (reduce / foreach / foreach with projection),
                                 label_run, try_catch_run, Logic arm
    /repo/jaq-core/src/defs.jq, /repo/jaq-std/src/defs.jq
                                 repeat recurse/0,1,2 while until select isempty all any nth add range/1,2

  An outcome `Out α` is what a consumer of a Rust iterator of `Result`s observes: the values
  delivered before the first non-value item and how the stream stopped.  Argument filters are
  parameters (`f : Val → Out Val`, or their outcome `Out α` on the current input).  No Mathlib.
-/
import JaqVerif.Val.Arith

namespace Jaq.C11
open Jaq

/-- how a stream ends: exhausted, first error, `break $l` (label number), `halt`, or the
evaluation budget ran out (the stream may be infinite / divergent: outputs so far are kept) -/
inductive Stop where
  | done
  | err (e : Err)
  | brk (l : Nat)
  | halt (c : Int)
  | fuel
  deriving Inhabited

def Stop.isDone : Stop → Bool
  | .done => true
  | _ => false

/-- observed outcome of running a filter: outputs before the stop are kept -/
structure Out (α : Type) where
  vals : List α
  stop : Stop
  deriving Inhabited

namespace Out
variable {α β γ : Type}

/-- `empty` -/
def nil : Out α := ⟨[], .done⟩
/-- one output (`box_once(Ok v)`) -/
def pure (v : α) : Out α := ⟨[v], .done⟩
/-- no output, then the given stop (`box_once(Err e)` for errors / break / halt) -/
def halted (s : Stop) : Out α := ⟨[], s⟩
def fail (e : Err) : Out α := ⟨[], .err e⟩
def cons (v : α) (o : Out α) : Out α := ⟨v :: o.vals, o.stop⟩
def ofList (l : List α) : Out α := ⟨l, .done⟩
def ofExcept : Except Err α → Out α
  | .ok v => pure v
  | .error e => fail e
def ofOption : Option α → Out α
  | some v => pure v
  | none => nil

/-- `f, g` (`Iterator::chain`): the right side runs only when the left side is exhausted -/
def append (a b : Out α) : Out α :=
  match a.stop with
  | .done => ⟨a.vals ++ b.vals, b.stop⟩
  | _ => a

def bindL (f : α → Out β) : List α → Stop → Out β
  | [], s => ⟨[], s⟩
  | v :: vs, s => append (f v) (bindL f vs s)

/-- `f | g` (`flat_map_then`): `g` on every output of `f`, the first stop ends everything -/
def bind (o : Out α) (f : α → Out β) : Out β := bindL f o.vals o.stop

def map (g : α → β) (o : Out α) : Out β := ⟨o.vals.map g, o.stop⟩

/-! ### the iterator view -/

/-- result of one `Iterator::next()` call on a stream of `Result`s -/
inductive Step (α : Type) where
  | yield (v : α) (rest : Out α)   -- `Some(Ok v)`
  | finished                        -- `None`
  | stop (s : Stop)                 -- `Some(Err _)` (error, break, halt) or a diverging pull (`fuel`)

def next : Out α → Step α
  | ⟨v :: vs, s⟩ => .yield v ⟨vs, s⟩
  | ⟨[], .done⟩ => .finished
  | ⟨[], s⟩ => .stop s

/-- `label $l | f` (`label_run`: `map_while` stops silently at `Break l`) -/
def label (l : Nat) (o : Out α) : Out α :=
  match o.stop with
  | .brk l' => if l' = l then ⟨o.vals, .done⟩ else o
  | _ => o

/-- `try f catch h` (`try_catch_run`): only `Err` is caught; the stream ends after the handler -/
def tryCatch (o : Out α) (h : Err → Out α) : Out α :=
  match o.stop with
  | .err e => append ⟨o.vals, .done⟩ (h e)
  | _ => o

end Out

open Out

/-! ## Natives of funs.rs -/

section natives
variable {α : Type}

/-- `first!`: `f.run(cv).next().into_iter()` -/
def first (f : Out α) : Out α :=
  match f.next with
  | .yield v _ => pure v
  | .finished => nil
  | .stop s => halted s

/-- `try_fold(None, |_, x| x.map(Some))` of `last!` -/
def lastLoop (acc : Option α) : List α → Stop → Except Stop (Option α)
  | [], .done => .ok acc
  | [], s => .error s
  | v :: vs, s => lastLoop (some v) vs s

/-- `once_or_empty`: `r.transpose().into_iter()` -/
def onceOrEmpty : Except Stop (Option α) → Out α
  | .ok (some v) => pure v
  | .ok none => nil
  | .error s => halted s

/-- `last!` -/
def last (f : Out α) : Out α := onceOrEmpty (lastLoop none f.vals f.stop)

/-- the count of `limit!`/`skip!` as `while_gtz!` uses it: `*i > 0.into()` and `i - 1.into()` -/
structure Counter (C : Type) where
  gtz : C → Bool
  dec : C → Except Err C

/-- `while_gtz!(n, return iter.next(), None)` pulled until it ends.
Per pull: `n.take().filter(> 0)`; if so `n = Some(i - 1)` (an error of `-` is yielded and `n`
stays `None`), then `return iter.next()`; else `None`. -/
def limitLoop {C : Type} (K : Counter C) : C → List α → Stop → Out α
  | n, [], s =>
    if K.gtz n then
      match K.dec n with
      | .error e => fail e
      | .ok _ => halted s            -- `iter.next()` is `None` / `Some(Err _)` / diverges
    else nil
  | n, v :: vs, s =>
    if K.gtz n then
      match K.dec n with
      | .error e => fail e
      | .ok n' => cons v (limitLoop K n' vs s)
    else nil

/-- `while_gtz!(n, if let Some(e) = iter.next()?.err() { return Some(Err(e)) }, iter.next())`.
While the count is positive, pulled items are dropped (an `Err` item is returned, the end of
`iter` ends the stream); afterwards every pull is `iter.next()`. -/
def skipLoop {C : Type} (K : Counter C) : C → List α → Stop → Out α
  | n, [], s =>
    if K.gtz n then
      match K.dec n with
      | .error e => fail e
      | .ok _ => halted s
    else halted s
  | n, v :: vs, s =>
    if K.gtz n then
      match K.dec n with
      | .error e => fail e
      | .ok n' => skipLoop K n' vs s
    else ⟨v :: vs, s⟩

def vZero : Val := .num (.int 0)
def vOne : Val := .num (.int 1)

/-- `n <= 0.into()` on `Val` (total order `impl Ord for Val`) -/
def le0 (n : Val) : Bool := Val.cmp n vZero != .gt
/-- `n > 0.into()` -/
def gt0 (n : Val) : Bool := Val.cmp n vZero == .gt

/-- the counter on jaq values: any `Val` may be passed as `$n` -/
def valCounter : Counter Val := { gtz := gt0, dec := fun i => Val.sub i vOne }

/-- `limit!`: `if n <= 0 { return empty }` comes before `f` is even started -/
def limit (n : Val) (f : Out α) : Out α :=
  if le0 n then nil else limitLoop valCounter n f.vals f.stop

/-- `skip!`: `if n <= 0 { return iter }` -/
def skip (n : Val) (f : Out α) : Out α :=
  if le0 n then f else skipLoop valCounter n f.vals f.stop

/-- `def nth(n; g): first(skip(n; g));` (jaq-core defs.jq) -/
def nth (n : Val) (g : Out α) : Out α := first (skip n g)

end natives

/-! ### `range/3` (native) — parametric in the value operations -/

/-- the operations `range` uses: `partial_cmp`, `!=`, `+`, and `0.into()` -/
structure RangeOps (V : Type) where
  cmp : V → V → Ordering
  ne : V → V → Bool
  add : V → V → Except Err V
  zero : V

/-- the `match cmp { Greater => x < to, Less => x > to, Equal => x != to }` of `range` -/
def rangeCond {V : Type} (O : RangeOps V) (c : Ordering) (to x : V) : Bool :=
  match c with
  | .gt => O.cmp x to == .lt
  | .lt => O.cmp x to == .gt
  | .eq => O.ne x to

/-- `fn range(from: ValX, to, by)`: `from_fn` with state `from : Result`; `fuel` bounds the
number of values pulled (the stream is infinite e.g. for `by = 0`). -/
def rangeNative {V : Type} (O : RangeOps V) (to by_ : V) : Nat → Except Err V → Out V
  | _, .error e => fail e              -- `e @ Err(_) => { from = Ok(to); Some(e) }`
  | 0, .ok _ => halted .fuel
  | k + 1, .ok x =>
    if rangeCond O (O.cmp by_ O.zero) to x then
      cons x (rangeNative O to by_ k (O.add x by_))   -- `replace(&mut from, x + by)`
    else nil

/-- jaq's own operations on `Val` -/
def valRangeOps : RangeOps Val :=
  { cmp := Val.cmp, ne := fun a b => !Val.eq a b, add := Val.add, zero := vZero }

/-! ## `fold` of fold.rs: explicit stack -/

section fold
variable {X TC U UC : Type}

/-- `enum Fold { Input(Y), Output(X, Results<Y>) }` -/
inductive FoldSt (TC U : Type) where
  | input (y : U)
  | output (x : TC) (ys : Out U)

/-- the parameters of `fold`: update `f`, `tc`, `inner`, `outer`; `hint ys` models the
`ys.size_hint() == (0, Some(0))` test ("do not grow the stack if the output is empty") -/
structure FoldOps (X TC U UC : Type) where
  f : X → U → Out U
  tc : X → TC
  inner : TC → U → Option UC
  outer : U → Option UC
  hint : Out U → Bool

/-- The `from_fn(move || loop { … })` of `fold`, pulled until `None` or the first non-value
item.  One unit of `fuel` per loop iteration.  `xs` is a clonable lazy list (`rc_lazy_list`),
modelled by the outcome that remains to be read. -/
def foldGo (O : FoldOps X TC U UC) : Nat → List (Out X × FoldSt TC U) → Out UC
  | 0, _ => halted .fuel
  | _ + 1, [] => nil                                   -- `stack.pop()?`
  | n + 1, (xs, .output x ys) :: st =>
    match ys.next with
    | .finished => foldGo O n st                       -- `None => continue`
    | .stop s => halted s                              -- `Err(e) => return Some(Err(e))`
    | .yield y ys' =>
      let st1 := if O.hint ys' then st else (xs, .output x ys') :: st
      let st2 := (xs, .input y) :: st1
      match O.inner x y with
      | some uc => cons uc (foldGo O n st2)            -- `return Some(Ok(inner))`
      | none => foldGo O n st2
  | n + 1, (xs, .input y) :: st =>
    match xs.next with
    | .finished =>
      match O.outer y with
      | some uc => cons uc (foldGo O n st)
      | none => foldGo O n st
    | .yield x xs' => foldGo O n ((xs', .output (O.tc x) (O.f x y)) :: st)
    | .stop s => halted s

/-- `fold(xs, init, …)`: initial stack `[(xs, Input(init))]` -/
def foldRun (O : FoldOps X TC U UC) (fuel : Nat) (xs : Out X) (init : U) : Out UC :=
  foldGo O fuel [(xs, .input init)]

/-- `Fold::Reduce => fold(xs, i, update, |_| (), |_, _| None, Some)` -/
def reduceOps (f : X → U → Out U) (hint : Out U → Bool) : FoldOps X Unit U U :=
  { f := f, tc := fun _ => (), inner := fun _ _ => none, outer := some, hint := hint }

/-- `Fold::Foreach(None) => fold(xs, i, update, |_| (), inner, |_| None)` with
`inner = |_, y| Some(y.clone())` -/
def foreachOps (f : X → U → Out U) (hint : Out U → Bool) : FoldOps X Unit U U :=
  { f := f, tc := fun _ => (), inner := fun _ y => some y, outer := fun _ => none, hint := hint }

/-- `Fold::Foreach(Some(proj))`: `fold(xs, i, update, |ctx| ctx.clone(), inner_proj, |_| None)`
with `inner_proj = |ctx, y| Some((ctx, y.clone()))` — the binding of `$x` travels with the state -/
def foreachProjOps (f : X → U → Out U) (hint : Out U → Bool) : FoldOps X X U (X × U) :=
  { f := f, tc := fun x => x, inner := fun x y => some (x, y), outer := fun _ => none, hint := hint }

/-- `fold_run`, arm `Reduce`: `flat_map_then_with(init, xs, |i, xs| fold(…))` -/
def reduceRun (fuel : Nat) (hint : Out U → Bool) (xs : Out X) (init : Out U) (f : X → U → Out U) : Out U :=
  init.bind fun i => foldRun (reduceOps f hint) fuel xs i

def foreachRun (fuel : Nat) (hint : Out U → Bool) (xs : Out X) (init : Out U) (f : X → U → Out U) : Out U :=
  init.bind fun i => foldRun (foreachOps f hint) fuel xs i

/-- arm `Foreach(Some(proj))`: `flat_map_then(fold(…), |(ctx, y)| run(proj, (ctx, y)))` -/
def foreachProjRun {W : Type} (fuel : Nat) (hint : Out U → Bool) (xs : Out X) (init : Out U)
    (f : X → U → Out U) (proj : X → U → Out W) : Out W :=
  init.bind fun i => (foldRun (foreachProjOps f hint) fuel xs i).bind fun p => proj p.1 p.2

/-- the size hint jaq's iterators give in the cases that matter: a boxed `once`/`empty`
knows when it is exhausted; anything else answers "unknown".  Any sound hint gives the same
outputs (`fold_eq_nested_pipe`); the driver uses this one. -/
def hintExact : Out U → Bool
  | ⟨[], .done⟩ => true
  | _ => false

end fold

/-! ## The manual's defining expansions (independent specifications) -/

section specs
variable {α β X U W : Type}

/-- manual (corelang, "reduce / foreach"):
`reduce x1, …, xn as $x (init; update) := init | x1 as $x | update | … | xn as $x | update`.
When reading `xs` stops otherwise than by exhaustion, that stop takes the place of the rest
of the pipeline (`… | xk as $x | update | error`). -/
def reduceSpec (f : X → U → Out U) : List X → Stop → U → Out U
  | [], .done, y => pure y
  | [], s, _ => halted s
  | x :: xs, s, y => (f x y).bind (reduceSpec f xs s)

/-- manual: `foreach x1, …, xn as $x (init; update; project) :=
init | ( x1 as $x | update | project, ( … ( xn as $x | update | project, ( empty ))…))` -/
def foreachSpec (f : X → U → Out U) (proj : X → U → Out W) : List X → Stop → U → Out W
  | [], s, _ => halted s
  | x :: xs, s, y => (f x y).bind fun y' => append (proj x y') (foreachSpec f proj xs s y')

/-- manual (stdlib, `add`): `add(f)` is `reduce f as $x (null; . + $x)`; its value on a finite
stream is the left fold of `+` from `null` -/
def addSpec (xs : Out Val) : Out Val :=
  match xs.vals.foldlM (fun acc x => Val.add acc x) Val.null with
  | .error e => fail e
  | .ok acc => if xs.stop.isDone then pure acc else halted xs.stop

/-- `def add(f): reduce f as $x (null; . + $x);` through the real `fold` -/
def addRun (fuel : Nat) (xs : Out Val) : Out Val :=
  reduceRun fuel hintExact xs (pure Val.null) fun x acc => ofExcept (Val.add acc x)

/-- comment in funs.rs / jq's definition:
`def limit($n; f): if $n <= 0 then empty else label $out |
   foreach f as $x ($n; . - 1; if . <= 0 then $x, break $out else $x end) end;` -/
def limitDef (l : Nat) (n : Val) (f : Out α) : Out α :=
  if le0 n then nil
  else label l (foreachSpec (fun _ c => ofExcept (Val.sub c vOne))
      (fun x c => if le0 c then append (pure x) (halted (.brk l)) else pure x) f.vals f.stop n)

/-- `def skip($n; f): if $n <= 0 then f else
   foreach f as $x ($n; . - 1; if . >= 0 then empty else $x end) end;` -/
def skipDef (n : Val) (f : Out α) : Out α :=
  if le0 n then f
  else foreachSpec (fun _ c => ofExcept (Val.sub c vOne))
      (fun x c => if Val.cmp c vZero != .lt then nil else pure x) f.vals f.stop n

/-- `first(f)` as `label $l | f | ., break $l` -/
def firstDef (l : Nat) (f : Out α) : Out α :=
  label l (f.bind fun v => append (pure v) (halted (.brk l)))

/-- `def isempty(g): first((g | false), true);` -/
def isempty (g : Out α) : Out Bool :=
  first (append (g.bind fun _ => pure false) (pure true))

/-- `l and r` / `l or r` (`Ast::Logic(l, stop, r)`): per output of `l`, short-circuit on
`stop`, else the outputs of `r` as booleans -/
def logic (stop : Bool) (l r : Out Bool) : Out Bool :=
  l.bind fun b => if b == stop then pure stop else r

/-- `def all(g; cond): isempty(g | cond and empty);` (`gc` = outcome of `g | cond` as booleans) -/
def all (g : Out α) (cond : α → Out Bool) : Out Bool :=
  isempty (g.bind fun v => logic false (cond v) nil)

/-- `def any(g; cond): isempty(g | cond or empty) | not;` -/
def any (g : Out α) (cond : α → Out Bool) : Out Bool :=
  (isempty (g.bind fun v => logic true (cond v) nil)).bind fun b => pure (!b)

/-- `def select(f): if f then . else empty end;` -/
def select (cond : α → Out Bool) (x : α) : Out α :=
  (cond x).bind fun b => if b then pure x else nil

/-- `def recurse(f): def rec: ., (f | rec); rec;` — fuel = recursion depth -/
def recurse (f : α → Out α) : Nat → α → Out α
  | 0, _ => halted .fuel
  | k + 1, x => cons x ((f x).bind (recurse f k))

/-- `def recurse(f; cond): recurse(f | select(cond));` -/
def recurse2 (f : α → Out α) (cond : α → Out Bool) : Nat → α → Out α :=
  recurse fun x => (f x).bind (select cond)

/-- `def repeat(f): def rec: f, rec; rec;` -/
def repeat_ (f : α → Out β) : Nat → α → Out β
  | 0, _ => halted .fuel
  | k + 1, x => append (f x) (repeat_ f k x)

/-- `def while(cond; update): def rec: if cond then ., (update | rec) else empty end; rec;` -/
def while_ (cond : α → Out Bool) (upd : α → Out α) : Nat → α → Out α
  | 0, _ => halted .fuel
  | k + 1, x => (cond x).bind fun b => if b then cons x ((upd x).bind (while_ cond upd k)) else nil

/-- `def until(cond; update): def rec: if cond then . else update | rec end; rec;` -/
def until_ (cond : α → Out Bool) (upd : α → Out α) : Nat → α → Out α
  | 0, _ => halted .fuel
  | k + 1, x => (cond x).bind fun b => if b then pure x else (upd x).bind (until_ cond upd k)

/-- manual (stdlib, `range`):
```
def range($from; $to; $by): $from |
   if $by > 0 then while(.  < $to; . + $by)
 elif $by < 0 then while(.  > $to; . + $by)
   else            while(. != $to; . + $by) end;
``` -/
def rangeDef {V : Type} (O : RangeOps V) (to by_ : V) (fuel : Nat) (from_ : V) : Out V :=
  if O.cmp by_ O.zero == .gt then
    while_ (fun x => pure (O.cmp x to == .lt)) (fun x => ofExcept (O.add x by_)) fuel from_
  else if O.cmp by_ O.zero == .lt then
    while_ (fun x => pure (O.cmp x to == .gt)) (fun x => ofExcept (O.add x by_)) fuel from_
  else
    while_ (fun x => pure (O.ne x to)) (fun x => ofExcept (O.add x by_)) fuel from_

/-- `.[]?` on a value: elements / member values, nothing for scalars -/
def iterOpt : Val → Out Val
  | .arr a => ofList a
  | .obj o => ofList (o.map (·.2))
  | _ => nil

end specs

/-! ## Vocabulary of the specifications -/

section vocabulary
variable {α : Type}

/-- first `m` outputs; the stop of the argument is kept only if fewer than `m` outputs exist
(the `m`-th output ends the stream without another pull) -/
def Out.take (m : Nat) (o : Out α) : Out α :=
  if m ≤ o.vals.length then ⟨o.vals.take m, .done⟩ else o

/-- everything after the first `m` outputs -/
def Out.drop (m : Nat) (o : Out α) : Out α := ⟨o.vals.drop m, o.stop⟩

/-- `n` is an integer of value `k`, in machine or big representation -/
def IsIntV (n : Val) (k : Int) : Prop := ∃ x : Num, n = .num x ∧ x.intVal? = some k

/-- a count the natives accept without error: `null`, booleans (both `<= 0`) and numbers -/
def isCount : Val → Bool
  | .null | .bool _ | .num _ => true
  | _ => false

/-- `all` over the stream `c` of condition values: `false` at the first falsy value, else the stop -/
def allSpec (c : Out Bool) : Out Bool :=
  if c.vals.contains false then pure false
  else if c.stop.isDone then pure true else halted c.stop

def anySpec (c : Out Bool) : Out Bool :=
  if c.vals.contains true then pure true
  else if c.stop.isDone then pure false else halted c.stop

mutual
  /-- all values contained in a value, root first, children left to right (pre-order) -/
  def subvals : Val → List Val
    | .arr a => .arr a :: subvalsList a
    | .obj o => .obj o :: subvalsEntries o
    | v => [v]
  def subvalsList : List Val → List Val
    | [] => []
    | v :: vs => subvals v ++ subvalsList vs
  def subvalsEntries : List (Val × Val) → List Val
    | [] => []
    | (_, v) :: es => subvals v ++ subvalsEntries es
end

end vocabulary

end Jaq.C11
