/-
C18 — `--in-place` replaces a file atomically and only after complete success.

Model (layer L3) of the `if cli.in_place` block of `jaq/src/main.rs: real_main`:

```
for file in &cli.files {
    let bytes = read::load_file(path)?;                 -- Op.load   (open + mmap, or read)
    let s = read::bytes_str(format, &bytes)?;           --           (may fail: Fault.preErr)
    let inputs = read::parse(format, &bytes, s, slurp); --           (lazy)
    let mut tmp = tempfile::Builder::new().prefix("jaq")
                    .tempfile_in(path.parent().unwrap())?;   -- Op.mkTemp  (O_CREAT|O_EXCL, 0600)
    last = run(.., inputs, |o| write(tmp.as_file_mut(), writer, &o))?;  -- Op.write*  ; on Err: drop(tmp) = Op.unlink
    drop(bytes);
    let perms = fs::metadata(path)?.permissions();      -- Op.stat    ; on Err: Op.unlink
    tmp.persist(path).map_err(..)?;                     -- Op.rename  ; on Err: Op.unlink
    fs::set_permissions(path, perms)?;                  -- Op.chmod
}
```

An `Op` is one *successful* file-system call; a call that fails changes nothing and selects the
error branch (`Fault`).  `step : FS → Op → FS` is the file-system semantics (parameter: the OS,
in particular the atomicity of `rename(2)` — one `Op.rename` is one step); a run is the operation
sequence `protocol jobs`; a crash (SIGKILL) is any prefix of it.
Core Lean only (this file is linked into the driver).
-/

namespace Jaq.C18

abbrev Bytes := List UInt8
abbrev Mode := Nat

/-- a resolved path: directory (absolute, normalised) and file name -/
structure Path where
  dir : String
  name : String
deriving DecidableEq, Repr

/-- abstract file system: regular files with contents and permission bits -/
abbrev FS := Path → Option (Bytes × Mode)

def FS.set (fs : FS) (p : Path) (v : Option (Bytes × Mode)) : FS :=
  fun q => if q = p then v else fs q

def FS.empty : FS := fun _ => none

def FS.ofList : List (Path × Bytes × Mode) → FS
  | [] => FS.empty
  | (p, v) :: rest => (FS.ofList rest).set p (some v)

/-- contents of a file -/
def FS.content (fs : FS) (p : Path) : Option Bytes := (fs p).map (·.1)
/-- permission bits of a file -/
def FS.mode (fs : FS) (p : Path) : Option Mode := (fs p).map (·.2)

/-- the successful file-system calls of the in-place block -/
inductive Op
  | load (p : Path)               -- `load_file(path)`: open(path, O_RDONLY) + mmap / read
  | mkTemp (t : Path)             -- `tempfile_in(dir)`: open(t, O_RDWR|O_CREAT|O_EXCL, 0600)
  | write (t : Path) (b : Bytes)  -- write(fd of t, b) = |b|
  | unlink (t : Path)             -- drop of the `NamedTempFile`
  | stat (p : Path) (m : Mode)    -- `fs::metadata(path)`, reporting permission bits `m`
  | rename (t p : Path)           -- `tmp.persist(path)`: rename(t, p)
  | chmod (p : Path) (m : Mode)   -- `fs::set_permissions(path, perms)`
deriving DecidableEq, Repr

/-- mode with which `tempfile` creates the file -/
def tmpMode : Mode := 0o600

/-- file-system semantics of one call (each call is one atomic step) -/
def step (fs : FS) : Op → FS
  | .load _ => fs
  | .mkTemp t =>
    match fs t with
    | none => fs.set t (some ([], tmpMode))
    | some _ => fs                       -- O_EXCL never touches an existing file
  | .write t b =>
    match fs t with
    | some (c, m) => fs.set t (some (c ++ b, m))
    | none => fs
  | .unlink t => fs.set t none
  | .stat _ _ => fs
  | .rename t p =>
    match fs t with
    | some v => (fs.set t none).set p (some v)   -- replaces `p` in one step
    | none => fs
  | .chmod p m =>
    match fs p with
    | some (c, _) => fs.set p (some (c, m))
    | none => fs

def exec (fs : FS) (ops : List Op) : FS := ops.foldl step fs

/-- paths an operation can change -/
def Op.touches : Op → List Path
  | .load _ => []
  | .mkTemp t => [t]
  | .write t _ => [t]
  | .unlink t => [t]
  | .stat _ _ => []
  | .rename t p => [t, p]
  | .chmod p _ => [p]

/-- why the run on one file ends early -/
inductive Fault
  | loadErr                 -- the file cannot be opened / read: nothing is issued for it
  | preErr                  -- `bytes_str` fails or the temporary file cannot be created
  | filterErr (i k : Nat)   -- the filter fails (error, `halt`) on input value `i` after `k` of its outputs
  | parseErr (i : Nat)      -- input value `i` fails to parse
  | writeErr (n : Nat)      -- the `n`-th write call (counted from 0) fails
  | statErr                 -- `fs::metadata` fails
  | renameErr               -- `persist` fails
  | chmodErr                -- `set_permissions` fails (after the rename)
deriving DecidableEq, Repr

/-- one file of the command line -/
structure Job where
  path : Path
  tmp : Path                        -- the name `tempfile` picks (parameter)
  mode : Mode                       -- permission bits `stat` reports for `path`
  vals : List (List (List Bytes))   -- input value ↦ its outputs ↦ the write calls of one output
  fault : Option Fault
deriving DecidableEq, Repr

/-- every write call of the complete, error-free run on this file -/
def Job.allWrites (j : Job) : List Bytes := j.vals.flatten.flatten

/-- the complete output for this file: what the same run prints on stdout without `--in-place` -/
def Job.output (j : Job) : Bytes := j.allWrites.flatten

/-- the write calls that succeed before the run on this file ends -/
def Job.written (j : Job) : List Bytes :=
  match j.fault with
  | some (.filterErr i k) => (j.vals.take i).flatten.flatten ++ ((j.vals.getD i []).take k).flatten
  | some (.parseErr i) => (j.vals.take i).flatten.flatten
  | some (.writeErr n) => j.allWrites.take n
  | some .loadErr => []
  | some .preErr => []
  | _ => j.allWrites

def writes (t : Path) (ws : List Bytes) : List Op := ws.map (Op.write t)

/-- what follows the writes -/
def Job.tail (j : Job) : List Op :=
  match j.fault with
  | none => [.stat j.path j.mode, .rename j.tmp j.path, .chmod j.path j.mode]
  | some .chmodErr => [.stat j.path j.mode, .rename j.tmp j.path]
  | some .renameErr => [.stat j.path j.mode, .unlink j.tmp]
  | some .loadErr => []
  | some .preErr => []
  | some _ => [.unlink j.tmp]     -- filterErr, parseErr, writeErr, statErr: early return drops the temp file

/-- the operation sequence of the in-place block for one file, in the order the code issues it -/
def jobOps (j : Job) : List Op :=
  match j.fault with
  | some .loadErr => []
  | some .preErr => [.load j.path]
  | _ => .load j.path :: .mkTemp j.tmp :: (writes j.tmp j.written ++ j.tail)

/-- the whole run: files in order; the first fault ends the run (`?` in `real_main`) -/
def protocol : List Job → List Op
  | [] => []
  | j :: js => jobOps j ++ (if j.fault.isNone then protocol js else [])

/-- stdout of the same invocation without `--in-place`: outputs in order up to the first fault -/
def stdoutRun : List Job → Bytes
  | [] => []
  | j :: js => j.written.flatten ++ (if j.fault.isNone then stdoutRun js else [])

/-- static well-formedness of a scenario: distinct targets, fresh distinct temp names in the
    target's directory -/
structure StaticWF (jobs : List Job) : Prop where
  paths_nodup : (jobs.map (·.path)).Nodup
  tmps_nodup : (jobs.map (·.tmp)).Nodup
  tmp_ne_path : ∀ j ∈ jobs, ∀ j' ∈ jobs, j.tmp ≠ j'.path
  same_dir : ∀ j ∈ jobs, j.tmp.dir = j.path.dir

/-- does the run on this file get as far as `fs::metadata`? -/
def Job.reachesStat (j : Job) : Bool :=
  match j.fault with
  | none => true
  | some .chmodErr => true
  | some .renameErr => true
  | _ => false

/-- well-formedness against the initial file system: every target exists (with the mode `stat`
    will report), no temp name is taken (guaranteed by `O_EXCL` + tempfile's retry loop) -/
structure WF (fs0 : FS) (jobs : List Job) : Prop extends StaticWF jobs where
  tmp_fresh : ∀ j ∈ jobs, fs0 j.tmp = none
  path_exists : ∀ j ∈ jobs, ∃ c m, fs0 j.path = some (c, m) ∧ (j.reachesStat = true → j.mode = m)

/-! ## The protocol automaton (monitor for traces of the real binary) -/

inductive Phase
  | idle                                              -- between files
  | loaded (p : Path)                                 -- input opened
  | writing (p t : Path) (ws : List Bytes)            -- temp file exists, `ws` written so far
  | statted (p t : Path) (ws : List Bytes) (m : Mode) -- run finished, mode read
  | renamed (p t : Path) (ws : List Bytes) (m : Mode) -- replaced, chmod pending
  | dead                                              -- early return taken: nothing may follow
deriving DecidableEq, Repr

/-- monitor state: phase, the jobs decoded so far (ghost), targets and temp names seen -/
structure Mon where
  phase : Phase
  done : List Job
  paths : List Path
  temps : List Path
deriving Repr

def Mon.init : Mon := { phase := .idle, done := [], paths := [], temps := [] }

def okJob (p t : Path) (ws : List Bytes) (m : Mode) (f : Option Fault) : Job :=
  { path := p, tmp := t, mode := m, vals := [[ws]], fault := f }

/-- one transition; `none` = the trace leaves the protocol -/
def Mon.step (s : Mon) (op : Op) : Option Mon :=
  match s.phase, op with
  | .idle, .load p =>
    if p ∈ s.paths ∨ p ∈ s.temps then none
    else some { s with phase := .loaded p, paths := p :: s.paths }
  | .loaded p, .mkTemp t =>
    if t ∈ s.paths ∨ t ∈ s.temps ∨ t.dir ≠ p.dir then none
    else some { s with phase := .writing p t [], temps := t :: s.temps }
  | .writing p t ws, .write t' b =>
    if t' = t then some { s with phase := .writing p t (ws ++ [b]) } else none
  | .writing p t ws, .unlink t' =>
    if t' = t then
      some { s with phase := .dead, done := s.done ++ [okJob p t ws 0 (some (.writeErr ws.length))] }
    else none
  | .writing p t ws, .stat p' m =>
    if p' = p then some { s with phase := .statted p t ws m } else none
  | .statted p t ws m, .rename t' p' =>
    if t' = t ∧ p' = p then some { s with phase := .renamed p t ws m } else none
  | .statted p t ws m, .unlink t' =>
    if t' = t then
      some { s with phase := .dead, done := s.done ++ [okJob p t ws m (some .renameErr)] }
    else none
  | .renamed p t ws m, .chmod p' m' =>
    if p' = p ∧ m' = m then
      some { s with phase := .idle, done := s.done ++ [okJob p t ws m none] }
    else none
  | _, _ => none

def Mon.run (s : Mon) : List Op → Option Mon
  | [] => some s
  | op :: ops => match s.step op with
    | some s' => s'.run ops
    | none => none

/-- index of the first operation the automaton rejects -/
def Mon.rejectAt (s : Mon) : List Op → Nat → Option Nat
  | [], _ => none
  | op :: ops, i => match s.step op with
    | some s' => s'.rejectAt ops i.succ
    | none => some i

/-- a name (in directory `d`) that differs from every path of `l`: longer than all of them -/
def maxLen : List Path → Nat
  | [] => 0
  | p :: ps => max p.name.length (maxLen ps)

def freshPath (d : String) (l : List Path) : Path :=
  ⟨d, String.ofList (List.replicate (maxLen l + 1) 'x')⟩

/-- the scenario a monitor state stands for (the file in progress decoded as far as seen; in
    phase `loaded` no temp name is known yet and none is used: any unused name serves) -/
def Mon.jobs (s : Mon) : List Job :=
  match s.phase with
  | .idle => s.done
  | .dead => s.done
  | .loaded p => s.done ++ [okJob p (freshPath p.dir (s.paths ++ s.temps)) [] 0 (some .preErr)]
  | .writing p t ws => s.done ++ [okJob p t ws 0 (some (.writeErr ws.length))]
  | .statted p t ws m => s.done ++ [okJob p t ws m (some .renameErr)]
  | .renamed p t ws m => s.done ++ [okJob p t ws m (some .chmodErr)]

/-- the scenario decoded from a trace -/
def decode (ops : List Op) : List Job :=
  match Mon.init.run ops with
  | some s => s.jobs
  | none => []

/-- decidable `StaticWF` -/
def staticWF (jobs : List Job) : Bool :=
  decide (jobs.map (·.path)).Nodup && decide (jobs.map (·.tmp)).Nodup &&
  jobs.all (fun j => jobs.all fun j' => decide (j.tmp ≠ j'.path)) &&
  jobs.all (fun j => decide (j.tmp.dir = j.path.dir))

/-- decidable file-system part of `WF` -/
def fsWF (fs0 : FS) (jobs : List Job) : Bool :=
  jobs.all fun j => (fs0 j.tmp).isNone &&
    match fs0 j.path with
    | some (_, m) => !j.reachesStat || decide (j.mode = m)
    | none => false

/-- A (possibly killed) run is accepted when the automaton allows every operation and the
    decoded scenario validates: it is statically well-formed and the trace is a prefix of its
    protocol (the validation never failed on a trace the automaton allowed; see notes). -/
def acceptsPrefix (ops : List Op) : Bool :=
  match Mon.init.run ops with
  | none => false
  | some s => staticWF s.jobs && decide (ops <+: protocol s.jobs)

/-- A completed run.  `ok` = the process reported success: then every file went through the
    whole success path; otherwise the run may also have ended on an error path.  The trace must
    be the whole protocol of the decoded scenario. -/
def accepts (ok : Bool) (ops : List Op) : Bool :=
  match Mon.init.run ops with
  | none => false
  | some s =>
    (match s.phase with
     | .idle => true
     | .dead => !ok
     | .loaded _ => !ok             -- `bytes_str` / `tempfile_in` failed
     | .renamed _ _ _ _ => !ok      -- `set_permissions` failed
     | _ => false)                  -- a temp file is still there: not a completed run
    && staticWF s.jobs && decide (ops = protocol s.jobs)
    && (!ok || s.jobs.all fun j => j.fault.isNone)

/-! ## Executable file system (association list) used by the driver

`exec` on functions re-evaluates the whole history at every look-up; the driver runs `execA` on
association lists instead, proved to compute the same states (`execA_get`, Lemmas/C18Afs). -/

abbrev AFS := List (Path × Bytes × Mode)

def AFS.get : AFS → FS
  | [], _ => none
  | (p, v) :: rest, q => if q = p then some v else AFS.get rest q

def AFS.erase : AFS → Path → AFS
  | [], _ => []
  | (p, v) :: rest, q => if p = q then AFS.erase rest q else (p, v) :: AFS.erase rest q

def AFS.set (a : AFS) (p : Path) : Option (Bytes × Mode) → AFS
  | some x => (p, x) :: a.erase p
  | none => a.erase p

def stepA (a : AFS) : Op → AFS
  | .load _ => a
  | .mkTemp t =>
    match a.get t with
    | none => a.set t (some ([], tmpMode))
    | some _ => a
  | .write t b =>
    match a.get t with
    | some (c, m) => a.set t (some (c ++ b, m))
    | none => a
  | .unlink t => a.set t none
  | .stat _ _ => a
  | .rename t p =>
    match a.get t with
    | some v => (a.set t none).set p (some v)
    | none => a
  | .chmod p m =>
    match a.get p with
    | some (c, _) => a.set p (some (c, m))
    | none => a

def execA (a : AFS) (ops : List Op) : AFS := ops.foldl stepA a

end Jaq.C18
