/-
  C04 — round 2: the repaired `Stack` (`size_hint`, be431db), `Stack`s nested in a `Stack`, and the
  iterator adapters jaq builds in tail positions.

  `Stack.hintZero`   ↔ `Stack::size_hint() == (0, Some(0))`: exactly when the vector is empty
  `Stack.Next`       ↔ one whole `Stack::next()` call (big-step over `Stack.turn`; a relation,
                        because a stack may tail-call forever without an output)
  `Nest.Turn`        ↔ one turn of the `loop` of an outer `Stack` whose iterators are `Stack`s:
                        `def f: def g: … f … g …; g;` — the body of `f` is the `CatchOne g` call, i.e. a
                        `Stack` (catch function `fi`), and `f` itself runs on the `Stack` of its
                        `CatchOne f` call (catch function `fo`).  `hint` is the inner stacks'
                        `size_hint` so that the code before the repair (`fun _ => false`) can be told
                        from the code after it (`Stack.hintZero`).
  `Ad`               ↔ `core::iter::{Once, Chain, Flatten<OnceWith>}` as jaq composes them for `,`
                        (`l.run(cv).chain(lazy(|| r.run(cv)))`, filter.rs `lazy`), with `next` and
                        `size_hint() == (0, Some(0))` after the standard library's sources.  The
                        other tail positions (`|`, `as $x |`, `if` branches with a single-output
                        left side, `//` when the left side yields nothing) hand the iterator of the
                        sub-term on as it is (`next_if_one` → `then`, box_iter.rs), no adapter.
-/
import JaqVerif.C04.Stack

namespace Jaq.C04

/-- `Stack::size_hint() == (0, Some(0))` (repaired): an empty stack yields nothing more -/
def Stack.hintZero {I : Type} (st : List I) : Bool := st.isEmpty

/-- a whole `Stack::next()`: result and the stack afterwards -/
inductive Stack.Next {I X : Type} (S : Iter I X) (f : X → Flow X I) : List I → Option X → List I → Prop where
  | done {st : List I} {r : Option X} {st' : List I} :
      Stack.turn S f st = .done r st' → Stack.Next S f st r st'
  | again {st st1 : List I} {r : Option X} {st' : List I} :
      Stack.turn S f st = .again st1 → Stack.Next S f st1 r st' → Stack.Next S f st r st'

/-- one turn of the `loop` in `Stack::next` of a stack of stacks -/
inductive Nest.Turn {I X : Type} (S : Iter I X) (fi : X → Flow X I) (fo : X → Flow X (List I))
    (hint : List I → Bool) : List (List I) → Step (Option X) (List (List I)) → Prop where
  /-- `self.0.pop()?` -/
  | nil : Nest.Turn S fi fo hint [] (.done none [])
  /-- the inner stack is exhausted: dropped -/
  | exhausted {top top' : List I} {rest : List (List I)} :
      Stack.Next S fi top none top' → Nest.Turn S fi fo hint (top :: rest) (.again rest)
  /-- an item that the outer catch function hands on -/
  | brk {top top' : List I} {rest : List (List I)} {x y : X} :
      Stack.Next S fi top (some x) top' → fo x = .brk y →
      Nest.Turn S fi fo hint (top :: rest) (.done (some y) (if hint top' then rest else top' :: rest))
  /-- a tail call that the outer catch function takes: the callee's body (a new inner stack) is pushed -/
  | cont {top top' c : List I} {rest : List (List I)} {x : X} :
      Stack.Next S fi top (some x) top' → fo x = .cont c →
      Nest.Turn S fi fo hint (top :: rest) (.again (c :: (if hint top' then rest else top' :: rest)))

/-- outer stacks reachable by any number of turns -/
inductive Nest.Reach {I X : Type} (S : Iter I X) (fi : X → Flow X I) (fo : X → Flow X (List I))
    (hint : List I → Bool) : List (List I) → List (List I) → Prop where
  | refl (os : List (List I)) : Nest.Reach S fi fo hint os os
  | step {a b : List (List I)} {r : Step (Option X) (List (List I))} :
      Nest.Reach S fi fo hint a b → Nest.Turn S fi fo hint b r → Nest.Reach S fi fo hint a r.st

/-! ### the adapters of `,` -/

/-- iterator states built from `once`, `Chain` and `lazy = once_with(f).flatten()` over scripted items -/
inductive Ad where
  /-- `core::iter::Once` (also `box_once`, and `Map<Once>`: the `Throw` arm of `def_run`) -/
  | once (x : Option Script.Item)
  /-- `Chain { a: Some(a), b: Some(b) }` -/
  | chainAB (a b : Ad)
  /-- `Chain { a: None, b: Some(b) }` (`a` returned `None` once and was cleared) -/
  | chainB (b : Ad)
  /-- `Flatten<OnceWith<F>>` not yet forced: `src` is the iterator `F` will make -/
  | lazyU (src : Ad)
  /-- forced, `frontiter: Some(front)` -/
  | lazyF (front : Ad)
  /-- forced, `frontiter: None` -/
  | lazyDone

/-- `Iterator::next` of the adapters (library/core/src/iter/adapters/{chain,flatten}.rs) -/
def Ad.next : Ad → Option (Script.Item × Ad)
  | .once (some x) => some (x, .once none)
  | .once none => none
  | .chainAB a b =>
    match a.next with
    | some (x, a') => some (x, .chainAB a' b)
    | none =>
      match b.next with
      | some (x, b') => some (x, .chainB b')
      | none => none
  | .chainB b =>
    match b.next with
    | some (x, b') => some (x, .chainB b')
    | none => none
  | .lazyU src =>
    match src.next with
    | some (x, s') => some (x, .lazyF s')
    | none => none
  | .lazyF fr =>
    match fr.next with
    | some (x, fr') => some (x, .lazyF fr')
    | none => none
  | .lazyDone => none

/-- `size_hint() == (0, Some(0))`: `Once`: nothing left; `Chain`: both sides report it (`a + b`);
`Flatten`: the source `Fuse<OnceWith>` is spent and the front iterator reports it — an unforced
`lazy` reports `(0, None)` (test `lazy_is_lazy` in filter.rs) -/
def Ad.hintZero : Ad → Bool
  | .once x => x.isNone
  | .chainAB a b => a.hintZero && b.hintZero
  | .chainB b => b.hintZero
  | .lazyU _ => false
  | .lazyF fr => fr.hintZero
  | .lazyDone => true

def adIter : Iter Ad Script.Item := ⟨Ad.next, Ad.hintZero⟩

def Script.Item.isTail : Script.Item → Bool
  | .tail _ => true
  | .out _ => false

/-- yields no tail call -/
def Ad.NoTail : Ad → Prop
  | .once (some x) => x.isTail = false
  | .once none => True
  | .chainAB a b => a.NoTail ∧ b.NoTail
  | .chainB b => b.NoTail
  | .lazyU s => s.NoTail
  | .lazyF f => f.NoTail
  | .lazyDone => True

/-- the shape of a tail position: tail calls only at the right end of every `,`
(`A, (B, (… , throw))` with `A`, `B`, … free of tail calls — the narrow class of the property) -/
def Ad.TailShape : Ad → Prop
  | .once _ => True
  | .chainAB a b => a.NoTail ∧ b.TailShape
  | .chainB b => b.TailShape
  | .lazyU s => s.TailShape
  | .lazyF f => f.TailShape
  | .lazyDone => True


/-! ### scripted stacks of stacks (correspondence with the real `Stack`, including its `size_hint`) -/
namespace Script

/-- an iterator of the outer stack: a script iterator, or a `Stack` (`CatchOne k`) over script iterators -/
inductive Node where
  | plain (r : Run)
  | nested (k : Nat) (st : List Run)

/-- catch function of an inner stack: `catch(false)` of `CatchOne k` -/
def flowIn (script : List It) (k : Nat) : Item → Flow Item Run
  | .tail j => if j == k then .cont (mk script j j) else .brk (.tail j)
  | x => .brk x

/-- a whole `next()` of an inner stack with the copies it polled (`n<script index>`) -/
def innerNext (script : List It) (k : Nat) : Nat → List Run → Option (Option Item × List Run × String)
  | 0, _ => none
  | fuel + 1, st =>
    let log := match st with
      | top :: _ => s!"n{top.uid}"
      | [] => ""
    match Stack.turn iter (flowIn script k) st with
    | .done r st' => some (r, st', log)
    | .again st' => (innerNext script k fuel st').map fun (r, s, l) => (r, s, log ++ l)

def nodeIter (script : List It) : Iter Node Item where
  next
    | .plain r => (iter.next r).map fun (x, r') => (x, .plain r')
    | .nested k st =>
      match innerNext script k 100000 st with
      | some (some x, st', _) => some (x, .nested k st')
      | _ => none
  hintZero
    | .plain r => iter.hintZero r
    | .nested _ st => Stack.hintZero st

def nodeLog (script : List It) : Node → String
  | .plain r => s!"n{r.uid}"
  | .nested k st =>
    match innerNext script k 100000 st with
    | some (_, _, l) => l
    | none => "?"

def mkNode (script : List It) (nest : List Bool) (j : Nat) : Node :=
  if nest.getD j false then .nested j [mk script j j] else .plain (mk script j j)

/-- catch function of the outer stack: takes every tail call -/
def flowOut (script : List It) (nest : List Bool) : Item → Flow Item Node
  | .tail j => .cont (mkNode script nest j)
  | x => .brk x

def npull (script : List It) (nest : List Bool) : Nat → List Node → String → Option (String × Option Item × List Node)
  | 0, _, _ => none
  | fuel + 1, st, log =>
    let log := match st with
      | top :: _ => log ++ nodeLog script top
      | [] => log
    match Stack.turn (nodeIter script) (flowOut script nest) st with
    | .done r st' => some (log, r, st')
    | .again st' => npull script nest fuel st' log

def liveRuns (st : List Node) : Nat :=
  (st.map fun | .plain _ => 1 | .nested _ s => s.length).sum

def liveNested (st : List Node) : Nat :=
  (st.filter fun | .plain _ => false | .nested _ _ => true).length

def ntraceLoop (script : List It) (nest : List Bool) : Nat → List Node → List String → List String
  | 0, _, acc => acc
  | pulls + 1, st, acc =>
    match npull script nest 100000 st "" with
    | none => acc ++ ["diverges"]
    | some (log, some (.out v), st') =>
      ntraceLoop script nest pulls st' (acc ++ [s!"{log}>o{v}#{liveRuns st'}/{liveNested st'}"])
    | some (_, some (.tail _), _) => acc ++ ["BUG-tail-escaped"]
    | some (log, none, st') => acc ++ [s!"{log}>end#{liveRuns st'}/{liveNested st'}"]

def ntrace (script : List It) (nest : List Bool) (pulls : Nat) : String :=
  " ".intercalate (ntraceLoop script nest pulls [mkNode script nest 0] [])

end Script

end Jaq.C04
