/-
  C04 — a run-time model of thrown tail calls over the *finished* look-up table.

  `filter.rs` runs a compiled term by building an iterator; a `CallDef … Throw` yields the item
  `Err(Exn::TailCall(id, vars, input))`, which — like every `Err` item — is handed upwards from
  iterator to iterator (`flat_map_then`, `chain`, `map`, `collect`, `try_catch_run` only catches
  `Exn::Err`, `label_run` only `Exn::Break`) until it reaches the `Stack` of a `CallDef … CatchOne`
  (`def_run`: `catch(false)` takes it iff `tc.0 == id`) or `CatchAll` (`catch(true)` takes every one)
  and is replaced there by the iterator of the called body.

  `MayThrow out t j`: running entry `t` of table `out` may hand a `TailCall j` to the consumer of
  its items.  Values are abstracted away (every branch may be taken, every generator may yield),
  so a derivation of `MayThrow out t j` is exactly a possible *dynamic chain of consumers*
      t = t₀ ⊳ t₁ ⊳ … ⊳ tₙ = a `CallDef j … Throw`
  (`tᵢ ⊳ tᵢ₊₁`: `tᵢ₊₁` is a sub-term of `tᵢ` whose items `tᵢ` hands on, or the body a call `tᵢ` runs,
  or the closure a filter-argument reference `tᵢ` runs) on which no frame catches `j`: no `tᵢ` is
  a `CatchAll` call running `tᵢ₊₁` as its body, or a `CatchOne j` call doing so.
  The same shape holds for `Id::paths` (its `CallDef` arm calls the same `def_run`); `Id::update`
  ignores the call type and never throws.
-/
import JaqVerif.C04.Tco

namespace Jaq.C04

/-- sub-terms in non-tail position (compiled by `iterm`, i.e. with `tr = ∅`).  All arguments of a
call are listed: a variable argument is run at the call (`bind_vars`), a filter argument by the
callee through `Var` — listing it here as well only enlarges `MayThrow`. -/
def CT.nonTailKids : CT → List Nat
  | .leaf => []
  | .var _ => []
  | .callDef _ args _ _ => args.map CArg.id
  | .native args => args
  | .label a => [a]
  | .nary args => args
  | .un a => [a]
  | .tryc a b => [a, b]
  | .bin a b => [a, b]
  | .pipe l _ _ => [l]
  | .comma _ _ => []
  | .alt l _ => [l]
  | .ite c _ _ => [c]
  | .reduce a b c => [a, b, c]
  | .foreach2 a b c => [a, b, c]
  | .foreach3 a b c _ => [a, b, c]

/-- sub-terms in tail position (compiled with the `tr` of the term itself) -/
def CT.tailKids : CT → List Nat
  | .pipe _ _ r => [r]
  | .comma l r => [l, r]
  | .alt _ r => [r]
  | .ite _ t e => [t, e]
  | .foreach3 _ _ _ d => [d]
  | _ => []

/-- every sub-term hands its `Err` items on to the consumer of the term -/
def CT.kids (c : CT) : List Nat := c.nonTailKids ++ c.tailKids

/-- `a` is the term of a filter argument of some call in the table: the terms closures are made of
(`bind_vars`: `Arg::Fun(arg)`; the repaired `closure` reuses a closure that is itself one of these) -/
def ClosureSrc (out : List Entry) (a : Nat) : Prop :=
  ∃ e ∈ out, (∃ id args skip typ, e.ct = .callDef id args skip typ ∧ CArg.fn a ∈ args) ∨
    (∃ args, e.ct = .native args ∧ a ∈ args)

/-- running entry `t` may hand a `TailCall j` to the consumer of its items -/
inductive MayThrow (out : List Entry) : Nat → Nat → Prop where
  /-- `CallType::Throw`: `Err(Exn::TailCall((id, vars, input)))` -/
  | throw {e : Entry} {id : Nat} {args : List CArg} {skip : Nat} :
      e ∈ out → e.ct = .callDef id args skip .throw → MayThrow out e.id id
  /-- errors of sub-terms are handed on (also through `try` and `label`) -/
  | kid {e : Entry} {k j : Nat} :
      e ∈ out → k ∈ e.ct.kids → MayThrow out k j → MayThrow out e.id j
  /-- `CallType::Inline`: the items of the body as they are -/
  | inline {e : Entry} {id : Nat} {args : List CArg} {skip j : Nat} :
      e ∈ out → e.ct = .callDef id args skip .inline → MayThrow out id j → MayThrow out e.id j
  /-- `CallType::CatchOne`: `catch(false)` replaces `TailCall id` by the body, hands on the others
  (the replacing body runs on the same `Stack`, under the same `catch`) -/
  | catchOne {e : Entry} {id : Nat} {args : List CArg} {skip j : Nat} :
      e ∈ out → e.ct = .callDef id args skip .catchOne → MayThrow out id j → j ≠ id → MayThrow out e.id j
  /-- `Var(v)` bound to a closure: `id.run(..)` of a filter-argument term -/
  | closure {e : Entry} {i a j : Nat} :
      e ∈ out → e.ct = .var i → ClosureSrc out a → MayThrow out a j → MayThrow out e.id j
  -- `CallType::CatchAll`: `catch(true)` takes every `TailCall` (and runs its body on the same
  -- `Stack`, under the same `catch`): nothing but the errors of its variable arguments (rule `kid`)

end Jaq.C04
