/-
  C04 — the run-time side of tail calls:
    `Stack.turn`  ↔ one turn of the `loop` in `Stack::next`   (jaq-core/src/stack.rs)
    `Fold.turn`   ↔ one turn of the `loop` in `fold`          (jaq-core/src/fold.rs)
    `LL`, `iterDrop` ↔ `Drop for List`                        (jaq-core/src/rc_lazy_list.rs)
  over an abstract iterator type: an iterator has a state, `next`, and the answer to
  `size_hint() == (0, Some(0))`.  Vectors are lists whose head is the top (last pushed).
  `def_run`'s arms: `Throw` yields `tail …` items, `CatchOne/CatchAll` run a `Stack` whose `f`
  maps them to `Flow.cont (the callee's iterator)`, everything else to `Flow.brk`.
-/
namespace Jaq.C04

/-- abstract iterators over items `X` with states `I` -/
structure Iter (I X : Type) where
  next : I → Option (X × I)
  /-- `size_hint() == (0, Some(0))` -/
  hintZero : I → Bool

/-- `ControlFlow<I::Item, I>` -/
inductive Flow (X I : Type) where
  | brk (x : X)
  | cont (it : I)

inductive Step (R S : Type) where
  /-- `return r` -/
  | done (r : R) (st : S)
  /-- next turn of the `loop` -/
  | again (st : S)

/-- one turn of the `loop` in `Stack::next` -/
def Stack.turn {I X : Type} (S : Iter I X) (f : X → Flow X I) : List I → Step (Option X) (List I)
  | [] => .done none []                                   -- `self.0.pop()?`
  | top :: rest =>
    match S.next top with
    | none => .again rest                                  -- exhausted: dropped
    | some (x, top') =>
      -- try not to grow the stack with empty iterators left behind
      let st := if S.hintZero top' then rest else top' :: rest
      match f x with
      | .brk y => .done (some y) st
      | .cont it => .again (it :: st)

/-- `Stack::next` with fuel (a program may tail-call forever without output) -/
def Stack.next {I X : Type} (S : Iter I X) (f : X → Flow X I) : Nat → List I → Option (Option X × List I)
  | 0, _ => none
  | n + 1, st =>
    match Stack.turn S f st with
    | .done r st' => some (r, st')
    | .again st' => Stack.next S f n st'

/-- the stack after one turn -/
def Step.st {R S : Type} : Step R S → S
  | .done _ s => s
  | .again s => s

/-- stacks reachable by any number of turns (across any number of `next` calls) -/
inductive Stack.Reach {I X : Type} (S : Iter I X) (f : X → Flow X I) : List I → List I → Prop where
  | refl (st : List I) : Stack.Reach S f st st
  | step {a b : List I} : Stack.Reach S f a b → Stack.Reach S f a (Stack.turn S f b).st

/-! ### fold.rs -/

inductive FFrame (TC U Y : Type) where
  /-- things to be processed -/
  | input (y : U)
  /-- things to be output, then to be input -/
  | output (x : TC) (ys : Y)

structure FoldOps (T TC U UC E Y : Type) where
  S : Iter Y (Except E U)
  f : T → U → Y
  tc : T → TC
  inner : TC → U → Option UC
  outer : U → Option UC

abbrev FStack (T TC U E Y : Type) := List (List (Except E T) × FFrame TC U Y)

/-- one turn of the `loop` in `fold`; `xs` (a cloneable lazy list) is the list of its remaining items -/
def Fold.turn {T TC U UC E Y : Type} (O : FoldOps T TC U UC E Y) :
    FStack T TC U E Y → Step (Option (Except E UC)) (FStack T TC U E Y)
  | [] => .done none []
  | (xs, .output x ys) :: rest =>
    match O.S.next ys with
    | none => .again rest
    | some (y, ys') =>
      -- do not grow the stack if the output is empty
      let st := if O.S.hintZero ys' then rest else (xs, .output x ys') :: rest
      match y with
      | .ok y =>
        match O.inner x y with
        | some r => .done (some (.ok r)) ((xs, .input y) :: st)
        | none => .again ((xs, .input y) :: st)
      | .error e => .done (some (.error e)) st
  | (xs, .input y) :: rest =>
    match xs with
    | [] =>
      match O.outer y with
      | some r => .done (some (.ok r)) rest
      | none => .again rest
    | .ok x :: xs' => .again ((xs', .output (O.tc x) (O.f x y)) :: rest)
    | .error e :: _ => .done (some (.error e)) rest

inductive Fold.Reach {T TC U UC E Y : Type} (O : FoldOps T TC U UC E Y) :
    FStack T TC U E Y → FStack T TC U E Y → Prop where
  | refl (st : FStack T TC U E Y) : Fold.Reach O st st
  | step {a b : FStack T TC U E Y} : Fold.Reach O a b → Fold.Reach O a (Fold.turn O b).st

/-! ### rc_lazy_list.rs: dropping a list -/

/-- the chain of nodes reachable from one `List` handle: `rc` = strong count of the node's `Rc` -/
inductive LL where
  /-- a node whose `Lazy` was never forced (holds the source iterator) -/
  | unforced (rc : Nat)
  /-- forced, `Node(None)` -/
  | nil (rc : Nat)
  /-- forced, `Node(Some((head, tail)))` -/
  | cons (rc : Nat) (tail : LL)

/-- native recursion depth of the *derived* drop glue (what happens without `impl Drop`):
dropping the last handle of a node drops its tail handle recursively -/
def LL.naiveDepth : LL → Nat
  | .cons 1 t => t.naiveDepth + 1
  | _ => 1

/-- nodes freed by dropping one handle -/
def LL.freed : LL → Nat
  | .cons 1 t => t.freed + 1
  | .nil 1 => 1
  | .unforced 1 => 1
  | _ => 0

/-- `impl Drop for List`: `while let Some((_head, tail)) = Rc::get_mut(..).and_then(Lazy::get_mut)
.and_then(|node| node.0.take()) { *self = tail }`.  Each turn hollows the uniquely owned forced
node out; the assignment drops the hollowed node (its own `drop` finds `None`: depth 2, no
recursion).  Result: (turns of the loop, nodes freed, maximal native depth). -/
def LL.iterDrop : LL → Nat × Nat × Nat
  | .cons 1 t => (t.iterDrop.1 + 1, t.iterDrop.2.1 + 1, max 2 t.iterDrop.2.2)
  | .nil 1 => (0, 1, 1)
  | .unforced 1 => (0, 1, 1)
  | _ => (0, 0, 1)

def LL.chain : Nat → LL
  | 0 => .nil 1
  | n + 1 => .cons 1 (LL.chain n)

/-! ### scripted iterators (correspondence with the real `Stack` on the same scripts) -/
namespace Script

inductive Item where
  | out (v : Nat)
  | tail (k : Nat)

/-- a script iterator: does its `size_hint` report exhaustion, and its items -/
structure It where
  exact : Bool
  items : List Item

/-- a running copy -/
structure Run where
  uid : Nat
  exact : Bool
  rest : List Item

def iter : Iter Run Item where
  next r := match r.rest with
    | [] => none
    | x :: xs => some (x, { r with rest := xs })
  hintZero r := r.exact && r.rest.isEmpty

def mk (script : List It) (k uid : Nat) : Run :=
  match script[k]? with
  | some it => ⟨uid, it.exact, it.items⟩
  | none => ⟨uid, true, []⟩

/-- `f` of the stack; running copies are numbered in creation order (`uid`) -/
def flow (script : List It) (uid : Nat) : Item → Flow Item Run
  | .tail k => .cont (mk script k uid)
  | x => .brk x

/-- one `next()` of the stack: the polled copies, the result, the stack afterwards -/
def pull (script : List It) : Nat → Nat → List Run → String → Option (String × Option Item × List Run × Nat)
  | 0, _, _, _ => none
  | fuel + 1, uid, st, log =>
    let log := match st with
      | top :: _ => log ++ s!"n{top.uid}"
      | [] => log
    match Stack.turn iter (flow script uid) st with
    | .done r st' => some (log, r, st', uid)
    | .again st' =>
      -- a continuation was pushed iff the stack holds a copy numbered `uid`
      pull script fuel (if st'.any (·.uid == uid) then uid + 1 else uid) st' log

def traceLoop (script : List It) : Nat → Nat → List Run → List String → List String
  | 0, _, _, acc => acc
  | pulls + 1, uid, st, acc =>
    match pull script 100000 uid st "" with
    | none => acc ++ ["diverges"]
    | some (log, some (.out v), st', uid') => traceLoop script pulls uid' st' (acc ++ [s!"{log}>o{v}#{st'.length}"])
    | some (_, some (.tail _), _, _) => acc ++ ["BUG-tail-escaped"]
    | some (log, none, st', _) => acc ++ [s!"{log}>end#{st'.length}"]

def trace (script : List It) (pulls : Nat) : String :=
  " ".intercalate (traceLoop script pulls 1 [mk script 0 0] [])

end Script

end Jaq.C04
