/-
  C04 — `TailNest`: the syntactic class the property names.

  A term is a tail nest when every call to an enclosing definition (a *recursive call*) and
  every call to an earlier sibling definition that itself (transitively) tail-calls enclosing
  definitions occurs in a position from which the outputs are returned as they are up to that
  enclosing definition's body:
      right of `|`, right of `,`, right of `//`, right of `as $x |`, in a `then`/`else` branch,
      in the projection of `foreach`, after a local `def`, or as the whole body of a definition
      that is itself only called from such positions.
  (`wide = true` also admits the left of `,`, which the compiler treats as a tail position too.)

  This is a specification: it knows nothing of look-up tables, term ids, or `Tr` sets.  Enclosing
  definitions are identified by their nesting level (outermost = 0).  `spec … T d t = some R`:
  in a scope where `T` are the levels relative to which the current position is a tail
  position (`d` = number of enclosing definitions), `t` is a tail nest and needs tail calls to `R`.
-/
import JaqVerif.C04.Tco

namespace Jaq.C04

inductive Kind where
  /-- an enclosing definition at nesting level `lvl` -/
  | anc (lvl : Nat)
  /-- an earlier sibling whose body tail-calls the enclosing definitions `needs` -/
  | sib (needs : List Nat)
  /-- a filter parameter -/
  | arg
  deriving Repr

structure SEntry where
  name : Nat
  arity : Nat
  k : Kind
  deriving Repr

abbrev Scope := List SEntry

def lookupS (sc : Scope) (name arity : Nat) : Option Kind :=
  (sc.find? fun e => e.name == name && e.arity == arity).map (·.k)

def pushParamsS (sc : Scope) : List Param → Scope
  | [] => sc
  | p :: ps => pushParamsS (if p.isVar then sc else ⟨p.name, 0, .arg⟩ :: sc) ps

/-- both accepted: the first set of needs -/
def both (a b : Option (List Nat)) (k : List Nat → List Nat → List Nat) : Option (List Nat) :=
  match a, b with
  | some x, some y => some (k x y)
  | _, _ => none

/-- a sub-term in a position that is not a tail position: it must be a tail nest on its own -/
def nonTail (a : Option (List Nat)) : Option (List Nat) := a.map fun _ => []

mutual
def spec (wide : Bool) : Tm → Scope → List Nat → Nat → Option (List Nat)
  | .leaf, _, _, _ => some []
  | .var _, _, _, _ => some []
  | .brk _, _, _, _ => some []
  | .label _ t, sc, _, d => nonTail (spec wide t sc [] d)
  | .call n args, sc, T, d =>
    if specArgs wide args sc d then
      match lookupS sc n args.length with
      | some (.anc l) => if T.contains l then some [l] else none
      | some (.sib needs) => if subB needs T then some needs else none
      | _ => some []
    else none
  | .nary args, sc, _, d => if specArgs wide args sc d then some [] else none
  | .un t, sc, _, d => nonTail (spec wide t sc [] d)
  | .tryc a b, sc, _, d => both (spec wide a sc [] d) (spec wide b sc [] d) fun _ _ => []
  | .bin a b, sc, _, d => both (spec wide a sc [] d) (spec wide b sc [] d) fun _ _ => []
  | .pipe l _ r, sc, T, d => both (spec wide l sc [] d) (spec wide r sc T d) fun _ y => y
  | .comma l r, sc, T, d => both (spec wide l sc (if wide then T else []) d) (spec wide r sc T d) fun x y => x ++ y
  | .alt l r, sc, T, d => both (spec wide l sc [] d) (spec wide r sc T d) fun _ y => y
  | .ite c t e, sc, T, d =>
    both (spec wide c sc [] d) (both (spec wide t sc T d) (spec wide e sc T d) fun x y => x ++ y) fun _ y => y
  | .reduce xs _ init upd, sc, _, d =>
    both (spec wide xs sc [] d) (both (spec wide init sc [] d) (spec wide upd sc [] d) fun _ _ => []) fun _ _ => []
  | .foreach2 xs _ init upd, sc, _, d =>
    both (spec wide xs sc [] d) (both (spec wide init sc [] d) (spec wide upd sc [] d) fun _ _ => []) fun _ _ => []
  | .foreach3 xs _ init upd proj, sc, T, d =>
    both (spec wide xs sc [] d)
      (both (spec wide init sc [] d) (both (spec wide upd sc [] d) (spec wide proj sc T d) fun _ y => y) fun _ y => y)
      fun _ y => y
  | .defIn n ps body rest, sc, T, d =>
    match spec wide body (⟨n, ps.length, .anc d⟩ :: pushParamsS sc ps) (d :: T) (d + 1) with
    | none => none
    | some rb => spec wide rest (⟨n, ps.length, .sib (Tr.remove rb d)⟩ :: sc) T d
def specArgs (wide : Bool) : Args → Scope → Nat → Bool
  | .nil, _, _ => true
  | .cons a as, sc, d => (spec wide a sc [] d).isSome && specArgs wide as sc d
end

/-- a module (list of top-level definitions) and a main term as one nest of local definitions -/
def nestOf (ds : List DefS) (main : Tm) : Tm :=
  ds.foldr (fun d acc => .defIn d.name d.params d.body acc) main

/-- **TailNest**: the class of the property (`wide = false`), resp. the compiler's wider notion -/
def TailNest (wide : Bool) (t : Tm) : Prop := (spec wide t [] [] 0).isSome = true

instance (wide : Bool) (t : Tm) : Decidable (TailNest wide t) := by unfold TailNest; infer_instance

/-- the prelude the real loader always starts with: `def !empty: {}[];` -/
def emptyDef : DefS := ⟨999, [], .nary (.cons .leaf .nil)⟩

/-- positions of the top-level definitions whose own nest is not a tail nest (each definition
sees the earlier ones as siblings without needs) -/
def nonTailDefsFrom : List DefS → Scope → Nat → List Nat
  | [], _, _ => []
  | d :: ds, sc, i =>
    let ok := (spec false d.body (⟨d.name, d.params.length, .anc 0⟩ :: pushParamsS sc d.params) [0] 1).isSome
    (if ok then [] else [i]) ++ nonTailDefsFrom ds (⟨d.name, d.params.length, .sib []⟩ :: sc) (i + 1)

def nonTailDefs (ds : List DefS) : List Nat := nonTailDefsFrom ds [] 0

end Jaq.C04
